(* Entry points of the C11 correspondence: cases written by the harness are evaluated with vm_compute and
   the indices of the disagreeing ones are printed. *)
From Coq Require Import List Arith Bool String Ascii.
Import ListNotations.
From BD.Params Require Import Model.

Fixpoint str_list_eqb (a b : list string) : bool :=
  match a, b with [], [] => true | x :: r, y :: t => String.eqb x y && str_list_eqb r t | _, _ => false end.

Fixpoint idx_false {A} (f : A -> bool) (k : nat) (cs : list A) : list nat :=
  match cs with [] => [] | c :: r => if f c then idx_false f (S k) r else k :: idx_false f (S k) r end.

(* (parameter string, DAG.Params of the implementation) *)
Definition parse_ok (c : string * list string) : bool := str_list_eqb (parse_params (fst c)) (snd c).
Definition parse_mismatches := idx_false parse_ok 0.

(* documented items: (kind 0 word | 1 quoted | 2 NAME=word | 3 NAME=quoted, name, value) *)
Definition mk_item (t : nat * string * string) : item :=
  let '(k, n, v) := t in
  let n' := list_ascii_of_string n in let v' := list_ascii_of_string v in
  match k with 0 => IWord v' | 1 => IQuoted v' | 2 => INamed n' v' | _ => INamedQ n' v' end.
(* (items, string rendered by the driver, V0 as computed by the check) *)
Definition doc_ok (c : list (nat * string * string) * string * bool) : bool :=
  let '(its, s, v0) := c in
  let its' := map mk_item its in
  String.eqb (string_of_list_ascii (doc_render its')) s && Bool.eqb (V0 its') v0.
Definition doc_mismatches := idx_false doc_ok 0.

(* (DAG.Params of the first load, Status.Params recorded, V1 as computed by the check on the item pairs) *)
Definition record_ok (c : list string * string) : bool := String.eqb (record_str (fst c)) (snd c).
Definition record_mismatches := idx_false record_ok 0.
Definition v1_ok (c : list (string * string) * bool) : bool :=
  Bool.eqb (V1 (map (fun p => (list_ascii_of_string (fst p), list_ascii_of_string (snd p))) (fst c))) (snd c).
Definition v1_mismatches := idx_false v1_ok 0.

(* (captured bytes, strings.TrimSpace of them by the Go library) *)
Definition trim_ok (c : string * string) : bool := String.eqb (trim_space_str (fst c)) (snd c).
Definition trim_mismatches := idx_false trim_ok 0.

(* (name, captured bytes, what a consumer saw) : the value part of the stored entry *)
Definition out_ok (c : string * string * string) : bool :=
  let '(n, raw, seen) := c in
  let n' := list_ascii_of_string n in
  match value_of n' (ofinal [] [OEnd n' (list_ascii_of_string raw)]) with
  | Some v => String.eqb (string_of_list_ascii v) seen
  | None => false
  end.
Definition out_mismatches := idx_false out_ok 0.
