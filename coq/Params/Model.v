(* Params - executable model of the parameter pipeline of blackdagger (C11).

   Anchors: internal/dag/parser.go:107-214 (parseParams, parseParamValue, stringifyParam),
   internal/persistence/model/status.go:120 (Params = strings.Join(.., one space)),
   cmd/retry.go:59 and cmd/restart.go:69 (dag.Load with the recorded string),
   internal/dag/scheduler/node.go:117-147 (output capture: TrimSpace, NAME=value),
   internal/dag/scheduler/graph.go:66-83 (outputs re-installed for a retry).

   The tokenizer is the leftmost-first (Go regexp / RE2 submatch) semantics of

      optional group: a name [^\s=Q]+ followed by = ; then one of three value alternatives, in this order:
        Q ( \Q | [^Q] )* Q        double-quoted, backslash-quote preferred over a plain character
        ` ( \Q | [^Q]* ) `        back-tick form
        [^Q\s]+                   bare run                  (Q = the double quote character)

   written out as a structural function over bytes (all characters the pattern tells apart are ASCII, so
   bytes and runes agree).  Evaluation (`eval`: os.ExpandEnv and back-tick command substitution) is the
   documented substitution syntax and is not part of the model; it is the identity on values without
   `$` and back-tick. *)
From Coq Require Import List String Ascii Bool Arith.
Import ListNotations.

Definition la := list ascii.
Definition aeq := Ascii.eqb.
Definition dq : ascii := ascii_of_nat 34.    (* double quote *)
Definition bt : ascii := ascii_of_nat 96.    (* back-tick *)
Definition bs : ascii := ascii_of_nat 92.    (* backslash *)
Definition eqc : ascii := ascii_of_nat 61.   (* = *)
Definition spc : ascii := ascii_of_nat 32.   (* space *)

(* RE2 \s : tab, newline, form feed, carriage return, space (no vertical tab) *)
Definition is_space (c : ascii) : bool :=
  let n := nat_of_ascii c in (n =? 9) || (n =? 10) || (n =? 12) || (n =? 13) || (n =? 32).

(* ---------------------------------------------------------------------------------------------- *)
(* The tokenizer                                                                                    *)
(* ---------------------------------------------------------------------------------------------- *)

(* double-quoted alternative after the opening quote: (body, rest).  The star prefers backslash-quote over a plain
   character and is greedy; back-tracking (when no closing quote follows) re-reads the last backslash-quote
   as a plain backslash followed by the closing quote. *)
Fixpoint v1 (s : la) : option (la * la) :=
  match s with
  | [] => None
  | c :: r =>
      if aeq c dq then Some ([], r)
      else if aeq c bs then
        match r with
        | d :: r' =>
            if aeq d dq then
              match v1 r' with
              | Some (b, rest) => Some (c :: d :: b, rest)
              | None => Some ([c], r')
              end
            else match v1 r with Some (b, rest) => Some (c :: b, rest) | None => None end
        | [] => None
        end
      else match v1 r with Some (b, rest) => Some (c :: b, rest) | None => None end
  end.

(* maximal run of characters satisfying p *)
Fixpoint span (p : ascii -> bool) (s : la) : la * la :=
  match s with
  | c :: r => if p c then let '(a, b) := span p r in (c :: a, b) else ([], s)
  | [] => ([], [])
  end.

(* split at the last back-tick *)
Fixpoint split_last_bt (s : la) : option (la * la) :=
  match s with
  | [] => None
  | c :: r =>
      match split_last_bt r with
      | Some (a, b) => Some (c :: a, b)
      | None => if aeq c bt then Some ([], r) else None
      end
  end.

Definition v2_run (s : la) : option (la * la) :=
  let '(run, rest) := span (fun x => negb (aeq x dq)) s in
  match split_last_bt run with Some (a, b) => Some (a, b ++ rest) | None => None end.

(* back-tick alternative after the opening back-tick: inner is backslash-quote or a quote-free run; the closing
   back-tick is the last one of the quote-free run *)
Definition v2 (s : la) : option (la * la) :=
  match s with
  | c :: d :: e :: r =>
      if aeq c bs && aeq d dq && aeq e bt then Some ([c; d], r) else v2_run s
  | _ => v2_run s
  end.

Definition not_q_sp (x : ascii) : bool := negb (aeq x dq) && negb (is_space x).
(* the name class [^\s=Q]: since ff6cf28 a name cannot contain a double quote *)
Definition not_sp_eq (x : ascii) : bool := negb (is_space x) && negb (aeq x eqc) && negb (aeq x dq).

Definition bare (s : la) : option (la * la) :=
  let '(run, rest) := span not_q_sp s in
  match run with [] => None | _ => Some (run, rest) end.

(* the value group at the head of s: (raw text including delimiters, rest) *)
Definition value (s : la) : option (la * la) :=
  match s with
  | [] => None
  | c :: r =>
      if aeq c dq then match v1 r with Some (b, rest) => Some (dq :: b ++ [dq], rest) | None => bare s end
      else if aeq c bt then match v2 r with Some (b, rest) => Some (bt :: b ++ [bt], rest) | None => bare s end
      else bare s
  end.

(* one match attempt at the head of s: (name, raw value, rest) *)
Definition token (s : la) : option (la * la * la) :=
  let '(nm, after) := span not_sp_eq s in
  let unnamed := match value s with Some (v, rest) => Some ([], v, rest) | None => None end in
  match nm, after with
  | _ :: _, e :: after' =>
      if aeq e eqc then
        match value after' with
        | Some (v, rest) => Some (nm, v, rest)
        | None => unnamed
        end
      else unnamed
  | _, _ => unnamed
  end.

(* post-processing of a double-quoted match: exactly the two delimiting quotes are stripped (0f1faec; the match
   of the quoted alternative starts and ends with one), then ReplaceAll(backslash-quote -> quote) *)
Fixpoint unescape (s : la) : la :=
  match s with
  | [] => []
  | c :: r =>
      match r with
      | d :: r' => if aeq c bs && aeq d dq then dq :: unescape r' else c :: unescape r
      | [] => [c]
      end
  end.
Definition post (v : la) : la :=
  match v with c :: r => if aeq c dq then unescape (removelast r) else v | [] => v end.

(* FindAllStringSubmatch: successive leftmost matches; `skip` characters belong to the previous match.
   Structural in s - no fuel. *)
Fixpoint tokens_skip (skip : nat) (s : la) : list (la * la) :=
  match s with
  | [] => []
  | _ :: r =>
      match skip with
      | S k => tokens_skip k r
      | 0 =>
          match token s with
          | Some (nm, v, rest) => (nm, post v) :: tokens_skip (List.length s - List.length rest - 1) r
          | None => tokens_skip 0 r
          end
      end
  end.
Definition tokens (s : la) : list (la * la) := tokens_skip 0 s.

(* ---------------------------------------------------------------------------------------------- *)
(* stringify / record / assignment list                                                            *)
(* ---------------------------------------------------------------------------------------------- *)
Definition pair := (la * la)%type.      (* (name, value); name = [] : positional *)

Definition stringify (p : pair) : la := match fst p with [] => snd p | nm => nm ++ eqc :: snd p end.

Fixpoint join (l : list la) : la :=
  match l with
  | [] => []
  | [x] => x
  | x :: r => x ++ spc :: join r
  end.


(* decimal numerals for $1 .. $n *)
Definition digit (n : nat) : ascii := ascii_of_nat (48 + n).
Fixpoint dec_fuel (fuel n : nat) (acc : la) : la :=
  match fuel with
  | 0 => acc
  | S f => let acc' := digit (n mod 10) :: acc in
           if n / 10 =? 0 then acc' else dec_fuel f (n / 10) acc'
  end.
Definition dec (n : nat) : la := dec_fuel (S n) n [].

(* the environment assignments made by parseParams, in order: position i gets the stringified
   parameter (NAME=value for a named one); a named one is also exported under its name *)
Fixpoint assigns_from (i : nat) (ps : list pair) : list (la * la) :=
  match ps with
  | [] => []
  | p :: r =>
      (dec i, stringify p) ::
      (match fst p with [] => [] | nm => [(nm, snd p)] end) ++ assigns_from (S i) r
  end.
Definition assigns (ps : list pair) : list (la * la) := assigns_from 1 ps.

(* os.Setenv semantics: the last assignment to a key wins *)
Fixpoint la_eqb (a b : la) : bool :=
  match a, b with [], [] => true | x :: r, y :: t => aeq x y && la_eqb r t | _, _ => false end.
Fixpoint lookup (k : la) (env : list (la * la)) : option la :=
  match env with
  | [] => None
  | (k', v) :: r => match lookup k r with Some x => Some x | None => if la_eqb k k' then Some v else None end
  end.

(* ---------------------------------------------------------------------------------------------- *)
(* The documented forms                                                                            *)
(* ---------------------------------------------------------------------------------------------- *)
Inductive item :=
| IWord (v : la)                 (*  word            *)
| IQuoted (v : la)               (*  Qquoted valueQ  *)
| INamed (n v : la)              (*  NAME=word       *)
| INamedQ (n v : la).            (*  NAME=QquotedQ   *)

Fixpoint escape (v : la) : la :=
  match v with [] => [] | c :: r => if aeq c dq then bs :: dq :: escape r else c :: escape r end.
Definition quoted (v : la) : la := dq :: escape v ++ [dq].

(* ---- model.Params (status.go, since 92cc1cc): what the status file records ------------------------------ *)
(* quoteParam sees the stringified parameter only: text before the first = (when it is non-empty and has no white
   space or quote) is taken for a name *)
Fixpoint cut_eq (s : la) : option (la * la) :=
  match s with
  | [] => None
  | c :: r => if aeq c eqc then Some ([], r)
              else match cut_eq r with Some (a, b) => Some (c :: a, b) | None => None end
  end.
Definition clean_ch (c : ascii) : bool := negb (is_space c) && negb (aeq c dq).
Definition simple_ch (c : ascii) : bool := negb (is_space c) && negb (aeq c dq) && negb (aeq c bt).
Definition qsplit (p : la) : la * la :=
  match cut_eq p with
  | Some (a :: a', b) => if forallb clean_ch (a :: a') then (a :: a', b) else ([], p)
  | _ => ([], p)
  end.
Definition is_nil (l : la) : bool := match l with [] => true | _ => false end.
(* written as it stands: non-empty, no white space / quote / back-tick, and - without a name - no = *)
Definition plain (nm v : la) : bool :=
  negb (is_nil v) && forallb simple_ch v && (negb (is_nil nm) || forallb (fun x => negb (aeq x eqc)) v).
Definition quote_param (p : la) : la :=
  let '(nm, v) := qsplit p in
  if plain nm v then p
  else (match nm with [] => [] | _ => nm ++ [eqc] end) ++ quoted v.

Definition record (ps : list pair) : la := join (map quote_param (map stringify ps)).

Definition render_item (it : item) : la :=
  match it with
  | IWord v => v
  | IQuoted v => quoted v
  | INamed n v => n ++ eqc :: v
  | INamedQ n v => n ++ eqc :: quoted v
  end.
Definition doc_render (its : list item) : la := join (map render_item its).

Definition item_pair (it : item) : pair :=
  match it with
  | IWord v => ([], v) | IQuoted v => ([], v) | INamed n v => (n, v) | INamedQ n v => (n, v)
  end.
Definition values (its : list item) : list pair := map item_pair its.

(* ---------------------------------------------------------------------------------------------- *)
(* Value classes (decidable)                                                                       *)
(* ---------------------------------------------------------------------------------------------- *)
Definition nonempty (v : la) : bool := match v with [] => false | _ => true end.
Definition head_is (c : ascii) (v : la) : bool := match v with x :: _ => aeq x c | [] => false end.
Definition last_is (c : ascii) (v : la) : bool := head_is c (rev v).

(* a bare word: non-empty, no white space, no double quote, not starting with a back-tick *)
Definition word_ok (v : la) : bool := nonempty v && forallb not_q_sp v && negb (head_is bt v).
(* a name: non-empty, no white space, no =, no double quote *)
Definition name_ok (n : la) : bool := nonempty n && forallb not_sp_eq n.
(* a positional bare word is read as NAME=value as soon as an = follows a non-empty prefix *)
Definition no_inner_eq (v : la) : bool := head_is eqc v || forallb (fun x => negb (aeq x eqc)) v.
(* quoted text: anything (spaces, =, quotes anywhere, back-ticks, backslashes, any byte, empty) that does not END
   with a backslash - the grammar has no way to write a backslash before the closing quote *)
Definition qval_ok (v : la) : bool := negb (last_is bs v).

Definition v0_item (it : item) : bool :=
  match it with
  | IWord v => word_ok v && no_inner_eq v
  | IQuoted v => qval_ok v
  | INamed n v => name_ok n && word_ok v
  | INamedQ n v => name_ok n && qval_ok v
  end.
Definition V0 (its : list item) : bool := forallb v0_item its.

(* V1: parameter pairs that survive record -> re-parse.
   - whatever has to be written quoted must not end with a backslash (the grammar cannot express it);
   - a positional value must not look like NAME=value (an = after a non-empty prefix without white space / quote):
     the recorded text is the same as that of the named parameter, so it comes back as one;
   - a name is a name (non-empty, no white space, = or quote) - always true of what the parser produced. *)
Definition bs_ok (st : la) : bool := let '(nm, v) := qsplit st in plain nm v || negb (last_is bs v).
Definition v1_pair (p : pair) : bool :=
  bs_ok (stringify p) &&
  match fst p with
  | [] => is_nil (fst (qsplit (snd p)))
  | n => name_ok n
  end.
Definition V1 (ps : list pair) : bool := forallb v1_pair ps.

(* ---------------------------------------------------------------------------------------------- *)
(* String interface                                                                                *)
(* ---------------------------------------------------------------------------------------------- *)
Definition parse (s : la) : list pair := tokens s.
Definition parse_params (s : string) : list string :=
  map (fun p => string_of_list_ascii (stringify p)) (parse (list_ascii_of_string s)).
Definition record_str (l : list string) : string :=
  string_of_list_ascii (join (map (fun s => quote_param (list_ascii_of_string s)) l)).

(* ---------------------------------------------------------------------------------------------- *)
(* strings.TrimSpace (Go): leading and trailing unicode.IsSpace runes of the UTF-8 decoding; an      *)
(* invalid byte decodes to U+FFFD, which is not a space.                                            *)
(* ---------------------------------------------------------------------------------------------- *)
Definition byte_is (n : nat) (c : ascii) : bool := nat_of_ascii c =? n.
Definition ascii_space (c : ascii) : bool :=
  let n := nat_of_ascii c in ((9 <=? n) && (n <=? 13)) || (n =? 32).

Definition ws2 (a b : ascii) : bool := byte_is 194 a && (byte_is 133 b || byte_is 160 b).      (* U+0085, U+00A0 *)
Definition ws3 (a b c : ascii) : bool :=
  let nc := nat_of_ascii c in
  (byte_is 225 a && byte_is 154 b && byte_is 128 c)                                            (* U+1680 *)
  || (byte_is 226 a && byte_is 128 b &&
      (((128 <=? nc) && (nc <=? 138)) || (nc =? 168) || (nc =? 169) || (nc =? 175)))           (* U+2000-200A, 2028, 2029, 202F *)
  || (byte_is 226 a && byte_is 129 b && byte_is 159 c)                                         (* U+205F *)
  || (byte_is 227 a && byte_is 128 b && byte_is 128 c).                                        (* U+3000 *)

(* number of leading bytes that form one white-space rune (0 = none) *)
Definition ws_prefix (s : la) : nat :=
  match s with
  | [] => 0
  | a :: r =>
      if ascii_space a then 1
      else match r with
           | [] => 0
           | b :: r2 =>
               if ws2 a b then 2
               else match r2 with
                    | [] => 0
                    | c :: _ => if ws3 a b c then 3 else 0
                    end
           end
  end.
(* the same read from the end (s is the reversed string) *)
Definition ws_suffix_rev (s : la) : nat :=
  match s with
  | [] => 0
  | a :: r =>
      if ascii_space a then 1
      else match r with
           | [] => 0
           | b :: r2 =>
               if ws2 b a then 2
               else match r2 with
                    | [] => 0
                    | c :: _ => if ws3 c b a then 3 else 0
                    end
           end
  end.

Fixpoint trim_with (f : la -> nat) (fuel : nat) (s : la) : la :=
  match fuel with
  | 0 => s
  | S k => match f s with 0 => s | n => trim_with f k (skipn n s) end
  end.
Definition trim_space (s : la) : la :=
  let l := trim_with ws_prefix (List.length s) s in
  rev (trim_with ws_suffix_rev (List.length l) (rev l)).
Definition trim_space_str (s : string) : string := string_of_list_ascii (trim_space (list_ascii_of_string s)).

(* ---------------------------------------------------------------------------------------------- *)
(* Flow of captured outputs (node.go:134-146, command.go:35-38, scheduler.go:247-250, graph.go:66-83) *)
(* ---------------------------------------------------------------------------------------------- *)
(* The run-wide output map holds, per variable name, the text NAME=value; Execute stores after every
   attempt of a step that declares `output:` (whatever its exit status); every command started later
   gets all entries appended to its environment (and the parent process does Setenv as well). *)
Definition omap := list (la * la).       (* name -> NAME=value text, at most one entry per name *)

Fixpoint ostore (k v : la) (m : omap) : omap :=
  match m with
  | [] => [(k, v)]
  | (k', v') :: r => if la_eqb k k' then (k, v) :: r else (k', v') :: ostore k v r
  end.
Fixpoint oget (k : la) (m : omap) : option la :=
  match m with [] => None | (k', v) :: r => if la_eqb k k' then Some v else oget k r end.

Definition entry (name raw : la) : la := name ++ eqc :: trim_space raw.

Inductive oevent :=
| OEnd (out_name : la) (captured : la)    (* an attempt of a step with `output: out_name` ended; captured = bytes of the pipe *)
| OStart (id : nat).                      (* a command (step, handler, step of a retry run) is started *)

(* what a started command sees: the value part of every entry (graph.go:77 strips len(key)+1 bytes;
   the child splits NAME=value at the first =) *)
Definition value_of (k : la) (m : omap) : option la :=
  match oget k m with Some e => Some (skipn (S (List.length k)) e) | None => None end.

Fixpoint oflow (m : omap) (evs : list oevent) : list (nat * omap) :=
  match evs with
  | [] => []
  | OEnd n c :: r => oflow (ostore n (entry n c) m) r
  | OStart i :: r => (i, m) :: oflow m r
  end.
Fixpoint ofinal (m : omap) (evs : list oevent) : omap :=
  match evs with
  | [] => m
  | OEnd n c :: r => ofinal (ostore n (entry n c) m) r
  | OStart _ :: r => ofinal m r
  end.
(* retry: the recorded map is re-installed entry by entry (graph.go:66-83) *)
Definition reinstall (m : omap) : omap := fold_left (fun acc kv => ostore (fst kv) (snd kv) acc) m [].
