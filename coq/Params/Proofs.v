(* Params - theorems (C11).  Stdlib style. *)
From Coq Require Import List String Ascii Bool Arith Lia.
Import ListNotations.
From BD.Params Require Import Model.

Definition L (s : string) : la := list_ascii_of_string s.

(* ------------------------------------------------------------------------------------------------ *)
(* characters                                                                                        *)
(* ------------------------------------------------------------------------------------------------ *)
Lemma aeq_refl c : aeq c c = true.
Proof. apply Ascii.eqb_refl. Qed.
Lemma aeq_eq a b : aeq a b = true <-> a = b.
Proof. apply Ascii.eqb_eq. Qed.
Lemma aeq_neq a b : aeq a b = false <-> a <> b.
Proof. apply Ascii.eqb_neq. Qed.

Lemma space_not_dq c : is_space c = true -> aeq c dq = false.
Proof.
  intros H. apply aeq_neq. intros ->. vm_compute in H. discriminate.
Qed.
Lemma space_not_bt c : is_space c = true -> aeq c bt = false.
Proof. intros H. apply aeq_neq. intros ->. vm_compute in H. discriminate. Qed.
Lemma space_not_eq c : is_space c = true -> aeq c eqc = false.
Proof. intros H. apply aeq_neq. intros ->. vm_compute in H. discriminate. Qed.
Lemma spc_space : is_space spc = true.
Proof. reflexivity. Qed.

(* ------------------------------------------------------------------------------------------------ *)
(* span                                                                                               *)
(* ------------------------------------------------------------------------------------------------ *)
Definition stops (p : ascii -> bool) (rest : la) : Prop :=
  match rest with [] => True | c :: _ => p c = false end.

Lemma span_app p a rest : forallb p a = true -> stops p rest -> span p (a ++ rest) = (a, rest).
Proof.
  induction a as [|c a IH]; simpl; intros Ha Hr.
  - destruct rest as [|c r]; simpl in *; [reflexivity | now rewrite Hr].
  - apply andb_true_iff in Ha as [Hc Ha]. rewrite Hc, (IH Ha Hr). reflexivity.
Qed.

Lemma span_stop p c r : p c = false -> span p (c :: r) = ([], c :: r).
Proof. simpl. now intros ->. Qed.

(* ------------------------------------------------------------------------------------------------ *)
(* escape / unescape / Trim                                                                           *)
(* ------------------------------------------------------------------------------------------------ *)
Lemma escape_app a b : escape (a ++ b) = escape a ++ escape b.
Proof.
  induction a as [|c a IH]; simpl; [reflexivity|].
  destruct (aeq c dq); simpl; now rewrite IH.
Qed.

Lemma escape_head_not_dq v : head_is dq (escape v) = false.
Proof.
  destruct v as [|c r]; simpl; [reflexivity|].
  destruct (aeq c dq) eqn:E; simpl; [reflexivity | exact E].
Qed.

Lemma unescape_escape v : unescape (escape v) = v.
Proof.
  induction v as [|c r IH]; [reflexivity|].
  simpl. destruct (aeq c dq) eqn:E.
  - apply aeq_eq in E. subst c. simpl. now rewrite IH.
  - (* c is kept; the text after it never starts with a quote *)
    pose proof (escape_head_not_dq r) as Hh.
    destruct (escape r) as [|d r'] eqn:Er.
    + simpl. destruct r as [|x r0]; [reflexivity|].
      simpl in Er. destruct (aeq x dq); discriminate.
    + simpl in Hh. change (unescape (c :: d :: r')) with
        (if aeq c bs && aeq d dq then dq :: unescape r' else c :: unescape (d :: r')).
      rewrite Hh, andb_false_r. now rewrite IH.
Qed.

Lemma last_is_cons c x r : last_is c (x :: r) = match r with [] => aeq x c | _ => last_is c r end.
Proof.
  unfold last_is. simpl. destruct r as [|y r]; [reflexivity|].
  simpl. destruct (rev r ++ [y]) eqn:E.
  - destruct (rev r); discriminate.
  - reflexivity.
Qed.

Lemma last_is_snoc c v x : last_is c (v ++ [x]) = aeq x c.
Proof. unfold last_is. rewrite rev_app_distr. reflexivity. Qed.

Lemma post_quoted v : post (quoted v) = v.
Proof.
  unfold post, quoted. change (aeq dq dq) with true. cbv iota.
  rewrite removelast_last. apply unescape_escape.
Qed.

Lemma post_bare v : head_is dq v = false -> post v = v.
Proof. destruct v as [|c r]; simpl; [reflexivity | now intros ->]. Qed.

(* ------------------------------------------------------------------------------------------------ *)
(* the quoted alternative on rendered text                                                            *)
(* ------------------------------------------------------------------------------------------------ *)
Lemma v1_cons c r : v1 (c :: r) =
  if aeq c dq then Some ([], r)
  else if aeq c bs then
    match r with
    | d :: r' => if aeq d dq
                 then match v1 r' with Some (b, rest) => Some (c :: d :: b, rest) | None => Some ([c], r') end
                 else match v1 r with Some (b, rest) => Some (c :: b, rest) | None => None end
    | [] => None
    end
  else match v1 r with Some (b, rest) => Some (c :: b, rest) | None => None end.
Proof. reflexivity. Qed.

Lemma v1_escape v rest : last_is bs v = false -> v1 (escape v ++ dq :: rest) = Some (escape v, rest).
Proof.
  induction v as [|c r IH]; intros Hl.
  - reflexivity.
  - rewrite last_is_cons in Hl.
    assert (Hr : last_is bs r = false) by (destruct r; [reflexivity | exact Hl]).
    specialize (IH Hr).
    cbn [escape]. destruct (aeq c dq) eqn:Ecq.
    + (* an escaped quote *)
      cbn [app]. rewrite v1_cons. change (aeq bs dq) with false. change (aeq bs bs) with true.
      change (aeq dq dq) with true. cbv iota. now rewrite IH.
    + destruct (aeq c bs) eqn:Ecb.
      * (* a backslash that is not the last character: what follows is not a bare quote *)
        apply aeq_eq in Ecb. subst c.
        destruct r as [|d r']; [discriminate Hl|].
        cbn [app]. rewrite v1_cons. change (aeq bs dq) with false. change (aeq bs bs) with true. cbv iota.
        pose proof (escape_head_not_dq (d :: r')) as Hh.
        destruct (escape (d :: r')) as [|e0 E0] eqn:Ee.
        -- cbn [escape] in Ee. destruct (aeq d dq); discriminate.
        -- cbn [head_is] in Hh. cbn [app] in *. rewrite Hh. now rewrite IH.
      * cbn [app]. rewrite v1_cons, Ecq, Ecb. now rewrite IH.
Qed.

Lemma value_dq r : value (dq :: r) =
  match v1 r with Some (b, rest) => Some (dq :: b ++ [dq], rest) | None => bare (dq :: r) end.
Proof. reflexivity. Qed.

Lemma value_quoted v rest : last_is bs v = false -> value (quoted v ++ rest) = Some (quoted v, rest).
Proof.
  intros H. unfold quoted. cbn [app]. rewrite value_dq.
  rewrite <- app_assoc. cbn [app]. now rewrite (v1_escape v rest H).
Qed.

Lemma word_ok_inv v : word_ok v = true ->
  exists c r, v = c :: r /\ aeq c dq = false /\ aeq c bt = false /\ forallb not_q_sp v = true.
Proof.
  unfold word_ok. intros H. apply andb_true_iff in H as [H Hb]. apply andb_true_iff in H as [Hn Hf].
  destruct v as [|c r]; [discriminate|]. exists c, r. repeat split; try assumption.
  - simpl in Hf. apply andb_true_iff in Hf as [Hc _]. unfold not_q_sp in Hc.
    apply andb_true_iff in Hc as [Hc _]. now apply negb_true_iff in Hc.
  - simpl in Hb. now apply negb_true_iff in Hb.
Qed.

Definition sep_ok (rest : la) : Prop := rest = [] \/ exists t, rest = spc :: t.

Lemma sep_stops_q rest : sep_ok rest -> stops not_q_sp rest.
Proof. intros [->|[t ->]]; simpl; [exact I | reflexivity]. Qed.
Lemma sep_stops_e rest : sep_ok rest -> stops not_sp_eq rest.
Proof. intros [->|[t ->]]; simpl; [exact I | reflexivity]. Qed.

Lemma value_word v rest : word_ok v = true -> sep_ok rest -> value (v ++ rest) = Some (v, rest).
Proof.
  intros Hw Hs. destruct (word_ok_inv v Hw) as (c & r & -> & Hq & Hb & Hf).
  simpl app. unfold value. rewrite Hq, Hb. unfold bare.
  change (c :: r ++ rest) with ((c :: r) ++ rest).
  rewrite (span_app not_q_sp (c :: r) rest Hf (sep_stops_q rest Hs)). reflexivity.
Qed.

(* a value cannot start at a white-space character *)
Lemma value_space c r : is_space c = true -> value (c :: r) = None.
Proof.
  intros H. unfold value. rewrite (space_not_dq c H), (space_not_bt c H). unfold bare.
  rewrite span_stop; [reflexivity|]. unfold not_q_sp. rewrite H. now rewrite andb_false_r.
Qed.

(* ------------------------------------------------------------------------------------------------ *)
(* one token per documented item                                                                      *)
(* ------------------------------------------------------------------------------------------------ *)
Definition unnamed (s : la) : option (la * la * la) :=
  match value s with Some (v, rest) => Some ([], v, rest) | None => None end.

(* after the maximal name-like run: end of text, a non-= character, or an = that no value can follow *)
Definition safe_after (after : la) : Prop :=
  match after with
  | [] => True
  | e :: a' => aeq e eqc = false \/ (exists s t, a' = s :: t /\ is_space s = true)
  end.

Lemma token_unnamed s :
  fst (span not_sp_eq s) = [] \/ safe_after (snd (span not_sp_eq s)) -> token s = unnamed s.
Proof.
  unfold token, unnamed. destruct (span not_sp_eq s) as [nm after]. cbn [fst snd]. intros [->|H]; [reflexivity|].
  destruct nm as [|n0 nm]; [reflexivity|].
  destruct after as [|e a']; [reflexivity|].
  destruct H as [H|(sp & t & -> & Hs)].
  - now rewrite H.
  - destruct (aeq e eqc); [|reflexivity]. now rewrite (value_space sp t Hs).
Qed.

Lemma span_snd_pass p c r : p c = true -> snd (span p (c :: r)) = snd (span p r).
Proof. cbn [span]. intros ->. now destruct (span p r). Qed.
Lemma span_snd_stop p c r : p c = false -> snd (span p (c :: r)) = c :: r.
Proof. cbn [span]. now intros ->. Qed.
Lemma span_fst_stop p c r : p c = false -> fst (span p (c :: r)) = [].
Proof. cbn [span]. now intros ->. Qed.

Lemma no_eq_all v : forallb (fun x => negb (aeq x eqc)) v = true -> forallb not_q_sp v = true -> forallb not_sp_eq v = true.
Proof.
  induction v as [|c r IH]; simpl; [reflexivity|]. intros H1 H2.
  apply andb_true_iff in H1 as [Hc H1]. apply andb_true_iff in H2 as [Hq H2].
  rewrite (IH H1 H2), andb_true_r. unfold not_sp_eq, not_q_sp in *.
  apply andb_true_iff in Hq as [Hd Hq]. now rewrite Hq, Hc, Hd.
Qed.

Lemma token_word v rest : word_ok v = true -> no_inner_eq v = true -> sep_ok rest ->
  token (v ++ rest) = Some ([], v, rest).
Proof.
  intros Hw He Hs. rewrite token_unnamed.
  - unfold unnamed. now rewrite (value_word v rest Hw Hs).
  - destruct (word_ok_inv v Hw) as (c & r & -> & Hq & Hb & Hf).
    unfold no_inner_eq in He. apply orb_true_iff in He as [He|He].
    + (* starts with = : the name-like run is empty *)
      cbn [head_is] in He. apply aeq_eq in He. subst c. left. cbn [app]. now apply span_fst_stop.
    + right. rewrite (span_app not_sp_eq (c :: r) rest (no_eq_all _ He Hf) (sep_stops_e rest Hs)). cbn [snd].
      destruct Hs as [->|[t ->]]; cbn [safe_after]; [exact I | now left].
Qed.

Lemma name_ok_inv n : name_ok n = true -> exists c r, n = c :: r /\ forallb not_sp_eq n = true.
Proof.
  unfold name_ok. intros H. apply andb_true_iff in H as [Hn Hf].
  destruct n as [|c r]; [discriminate|]. now exists c, r.
Qed.

Lemma token_named n raw rest tail : name_ok n = true -> value tail = Some (raw, rest) ->
  token (n ++ eqc :: tail) = Some (n, raw, rest).
Proof.
  intros Hn Hv. destruct (name_ok_inv n Hn) as (c & r & -> & Hf).
  unfold token. rewrite (span_app not_sp_eq (c :: r) (eqc :: tail) Hf); [|reflexivity].
  rewrite aeq_refl. now rewrite Hv.
Qed.

Lemma token_quoted v rest : qval_ok v = true -> token (quoted v ++ rest) = Some ([], quoted v, rest).
Proof.
  intros Hq. unfold qval_ok in Hq. apply negb_true_iff in Hq.
  rewrite token_unnamed.
  - unfold unnamed. now rewrite (value_quoted v rest Hq).
  - left. unfold quoted. cbn [app]. now apply span_fst_stop.
Qed.

(* what one item contributes *)
Definition item_raw (it : item) : la :=
  match it with IWord v => v | IQuoted v => quoted v | INamed _ v => v | INamedQ _ v => quoted v end.

Lemma token_item it rest : v0_item it = true -> sep_ok rest ->
  token (render_item it ++ rest) = Some (fst (item_pair it), item_raw it, rest).
Proof.
  destruct it as [v|v|n v|n v]; simpl; intros H Hs; [apply andb_true_iff in H as [H1 H2]| |apply andb_true_iff in H as [H1 H2]|apply andb_true_iff in H as [H1 H2]].
  - now apply token_word.
  - now apply token_quoted.
  - rewrite <- app_assoc. simpl. apply token_named; [assumption|]. now apply value_word.
  - rewrite <- app_assoc. simpl. apply token_named; [assumption|].
    unfold qval_ok in H2. apply negb_true_iff in H2.
    now apply value_quoted.
Qed.

Lemma post_item it : v0_item it = true -> post (item_raw it) = snd (item_pair it).
Proof.
  destruct it as [v|v|n v|n v]; simpl; intros H; [apply andb_true_iff in H as [H1 H2]| |apply andb_true_iff in H as [H1 H2]|apply andb_true_iff in H as [H1 H2]].
  - destruct (word_ok_inv v H1) as (c & r & -> & Hq & _). apply post_bare. exact Hq.
  - apply post_quoted.
  - destruct (word_ok_inv v H2) as (c & r & -> & Hq & _). apply post_bare. exact Hq.
  - apply post_quoted.
Qed.

Lemma render_nonempty it : v0_item it = true -> exists c r, render_item it = c :: r.
Proof.
  destruct it as [v|v|n v|n v]; simpl; intros H; [apply andb_true_iff in H as [H1 H2]| |apply andb_true_iff in H as [H1 H2]|apply andb_true_iff in H as [H1 H2]].
  - destruct (word_ok_inv v H1) as (c & r & -> & _). eauto.
  - unfold quoted. eauto.
  - destruct (name_ok_inv n H1) as (c & r & -> & _). simpl. eauto.
  - destruct (name_ok_inv n H1) as (c & r & -> & _). simpl. eauto.
Qed.

(* ------------------------------------------------------------------------------------------------ *)
(* FindAll over a rendered list                                                                       *)
(* ------------------------------------------------------------------------------------------------ *)
Lemma skip_app a b : tokens_skip (List.length a) (a ++ b) = tokens_skip 0 b.
Proof. induction a as [|c a IH]; simpl; [reflexivity | exact IH]. Qed.

Lemma tokens_one t rest nm raw : t <> [] -> token (t ++ rest) = Some (nm, raw, rest) ->
  tokens_skip 0 (t ++ rest) = (nm, post raw) :: tokens_skip 0 rest.
Proof.
  intros Ht Hk. destruct t as [|c t']; [contradiction|].
  simpl app in *. cbn [tokens_skip]. rewrite Hk. f_equal.
  replace (List.length (c :: t' ++ rest) - List.length rest - 1) with (List.length t').
  - apply skip_app.
  - cbn [List.length]. rewrite app_length. lia.
Qed.

Lemma tokens_sep rest : tokens_skip 0 (spc :: rest) = tokens_skip 0 rest.
Proof.
  cbn [tokens_skip].
  assert (token (spc :: rest) = None) as ->; [|reflexivity].
  rewrite token_unnamed; [|left; now apply span_fst_stop].
  unfold unnamed. now rewrite (value_space spc rest spc_space).
Qed.

Theorem parse_doc : forall its, V0 its = true -> parse (doc_render its) = values its.
Proof.
  unfold parse, tokens, doc_render, values, V0.
  induction its as [|it its IH]; intros HV; [reflexivity|].
  simpl in HV. apply andb_true_iff in HV as [Hi HV]. specialize (IH HV).
  destruct (render_nonempty it Hi) as (c & r & Hr).
  destruct its as [|it2 its'].
  - simpl map. simpl join. rewrite <- (app_nil_r (render_item it)).
    rewrite (tokens_one (render_item it) [] (fst (item_pair it)) (item_raw it));
      [| rewrite Hr; discriminate | apply token_item; [assumption | now left]].
    rewrite (post_item it Hi). cbn [tokens_skip map]. now destruct (item_pair it).
  - change (join (map render_item (it :: it2 :: its'))) with
      (render_item it ++ spc :: join (map render_item (it2 :: its'))).
    rewrite (tokens_one (render_item it) _ (fst (item_pair it)) (item_raw it));
      [| rewrite Hr; discriminate | apply token_item; [assumption | right; eauto]].
    rewrite tokens_sep, IH, (post_item it Hi). cbn [map]. now destruct (item_pair it).
Qed.

(* ------------------------------------------------------------------------------------------------ *)
(* record -> re-parse                                                                                 *)
(* ------------------------------------------------------------------------------------------------ *)
(* what quoteParam makes of a stringified parameter, as a documented item *)
Definition to_item (st : la) : item :=
  let '(nm, v) := qsplit st in
  if plain nm v then match nm with [] => IWord v | _ => INamed nm v end
  else match nm with [] => IQuoted v | _ => INamedQ nm v end.

Lemma cut_eq_spec s a b : cut_eq s = Some (a, b) -> s = a ++ eqc :: b /\ forallb (fun x => negb (aeq x eqc)) a = true.
Proof.
  revert a b; induction s as [|c r IH]; intros a b H; [discriminate|].
  cbn [cut_eq] in H. destruct (aeq c eqc) eqn:E.
  - injection H as <- <-. apply aeq_eq in E. subst c. now split.
  - destruct (cut_eq r) as [[a' b']|]; [|discriminate]. injection H as <- <-.
    destruct (IH a' b' eq_refl) as [-> Hn]. split; [reflexivity|]. cbn [forallb]. now rewrite E, Hn.
Qed.

Lemma cut_eq_none s : cut_eq s = None -> forallb (fun x => negb (aeq x eqc)) s = true.
Proof.
  induction s as [|c r IH]; [reflexivity|]. cbn [cut_eq]. destruct (aeq c eqc) eqn:E; [discriminate|].
  destruct (cut_eq r) as [[a b]|] eqn:Er; [discriminate|]. intros _. cbn [forallb]. now rewrite E, IH.
Qed.

Lemma cut_eq_app n v : forallb (fun x => negb (aeq x eqc)) n = true -> cut_eq (n ++ eqc :: v) = Some (n, v).
Proof.
  induction n as [|c n IH]; intros H; cbn [app cut_eq].
  - now rewrite aeq_refl.
  - cbn [forallb] in H. apply andb_true_iff in H as [Hc H]. apply negb_true_iff in Hc. now rewrite Hc, (IH H).
Qed.

Lemma plain_nil v : plain [] v = true -> no_inner_eq v = true.
Proof.
  unfold plain. cbn [is_nil negb orb]. intros H. apply andb_true_iff in H as [_ H].
  unfold no_inner_eq. now rewrite H, orb_true_r.
Qed.

(* the split is a split of the text, and what it takes for a name is a name *)
Lemma qsplit_spec st : let '(nm, v) := qsplit st in
  st = (match nm with [] => [] | _ => nm ++ [eqc] end) ++ v /\ (nm <> [] -> name_ok nm = true) /\
  (nm = [] -> plain nm v = true -> no_inner_eq v = true).
Proof.
  unfold qsplit. destruct (cut_eq st) as [[[|a a'] b]|] eqn:E.
  - split; [reflexivity|]. split; [congruence|]. intros _ H. now apply plain_nil.
  - destruct (forallb clean_ch (a :: a')) eqn:Ec.
    + destruct (cut_eq_spec _ _ _ E) as [-> Hn]. split; [now rewrite <- app_assoc|]. split; [|discriminate].
      intros _. unfold name_ok. cbn [nonempty andb].
      clear E. induction (a :: a') as [|c r IH]; [reflexivity|].
      cbn [forallb] in *. apply andb_true_iff in Ec as [Hc Ec]. apply andb_true_iff in Hn as [He Hn].
      rewrite (IH Ec Hn), andb_true_r. unfold not_sp_eq, clean_ch in *.
      apply andb_true_iff in Hc as [H1 H2]. now rewrite H1, H2, He.
    + split; [reflexivity|]. split; [congruence|]. intros _ H. now apply plain_nil.
  - split; [reflexivity|]. split; [congruence|]. intros _ H. now apply plain_nil.
Qed.

Lemma plain_word nm v : plain nm v = true -> word_ok v = true.
Proof.
  unfold plain, word_ok. intros H. apply andb_true_iff in H as [H _]. apply andb_true_iff in H as [Hn Hs].
  destruct v as [|c r]; [discriminate|]. cbn [nonempty andb].
  assert (forallb not_q_sp (c :: r) = true /\ head_is bt (c :: r) = false) as [-> ->]; [|reflexivity].
  split.
  - clear Hn. induction (c :: r) as [|x l IH]; [reflexivity|]. cbn [forallb] in *. apply andb_true_iff in Hs as [Hx Hs].
    rewrite (IH Hs), andb_true_r. unfold simple_ch, not_q_sp in *. apply andb_true_iff in Hx as [Hx _].
    apply andb_true_iff in Hx as [H1 H2]. now rewrite H1, H2.
  - cbn [forallb head_is] in *. apply andb_true_iff in Hs as [Hx _]. unfold simple_ch in Hx. apply andb_true_iff in Hx as [_ Hx].
    now apply negb_true_iff in Hx.
Qed.

Lemma to_item_render st : render_item (to_item st) = quote_param st.
Proof.
  unfold to_item, quote_param. pose proof (qsplit_spec st) as H. destruct (qsplit st) as [nm v].
  destruct H as (Hst & _ & _). destruct (plain nm v); destruct nm as [|n0 nm]; cbn [render_item app] in *;
    try (rewrite Hst; now rewrite <- ?app_assoc); try reflexivity.
  now rewrite <- app_assoc.
Qed.

Lemma to_item_pair st : item_pair (to_item st) = qsplit st.
Proof. unfold to_item. destruct (qsplit st) as [nm v]. destruct (plain nm v); destruct nm; reflexivity. Qed.

Lemma to_item_v0 st : bs_ok st = true -> v0_item (to_item st) = true.
Proof.
  unfold bs_ok, to_item. pose proof (qsplit_spec st) as H. destruct (qsplit st) as [nm v].
  destruct H as (_ & Hname & Heq). intros Hb.
  destruct (plain nm v) eqn:Ep.
  - pose proof (plain_word _ _ Ep) as Hw. destruct nm as [|n0 nm]; cbn [v0_item].
    + now rewrite Hw, (Heq eq_refl eq_refl).
    + now rewrite Hw, (Hname ltac:(discriminate)).
  - cbn [orb] in Hb. destruct nm as [|n0 nm]; cbn [v0_item]; unfold qval_ok.
    + exact Hb.
    + now rewrite Hb, (Hname ltac:(discriminate)).
Qed.

(* re-parsing the recorded text gives the parameters as quoteParam read them: for ANY list of stringified
   parameters none of which has to be quoted while ending in a backslash *)
Theorem record_parse_gen : forall l : list la, forallb bs_ok l = true ->
  parse (join (map quote_param l)) = map qsplit l.
Proof.
  intros l H.
  replace (map quote_param l) with (map render_item (map to_item l))
    by (rewrite map_map; apply map_ext; intros; apply to_item_render).
  change (join (map render_item (map to_item l))) with (doc_render (map to_item l)).
  rewrite parse_doc.
  - unfold values. rewrite map_map. apply map_ext. intros; apply to_item_pair.
  - unfold V0. rewrite forallb_forall in *. intros x Hx. apply in_map_iff in Hx as (p & <- & Hp).
    apply to_item_v0. now apply H.
Qed.

(* ... so the stringified parameters - DAG.Params, $1..$n - always come back unchanged *)
Lemma stringify_qsplit st : stringify (qsplit st) = st.
Proof.
  pose proof (qsplit_spec st) as H. destruct (qsplit st) as [nm v]. destruct H as (Hst & _ & _).
  unfold stringify. cbn [fst snd]. destruct nm as [|n0 nm]; [exact (eq_sym Hst)|].
  rewrite Hst. now rewrite <- app_assoc.
Qed.

Theorem record_parse_strings : forall ps : list pair, forallb bs_ok (map stringify ps) = true ->
  map stringify (parse (record ps)) = map stringify ps.
Proof.
  intros ps H. unfold record. rewrite (record_parse_gen _ H). rewrite map_map.
  rewrite <- (map_id (map stringify ps)) at 2. rewrite !map_map. apply map_ext. intros p. apply stringify_qsplit.
Qed.

(* ... and the (name, value) pairs come back unchanged for parameters in V1 *)
Lemma v1_qsplit p : v1_pair p = true -> qsplit (stringify p) = p /\ bs_ok (stringify p) = true.
Proof.
  unfold v1_pair. intros H. apply andb_true_iff in H as [Hb H]. split; [|exact Hb].
  destruct p as [[|n0 n] v]; [cbn [fst snd stringify] in *|cbn [fst snd] in H].
  - unfold qsplit in *. destruct (cut_eq v) as [[[|a a'] b]|]; try reflexivity.
    destruct (forallb clean_ch (a :: a')); [discriminate | reflexivity].
  - unfold name_ok in H. cbn [nonempty andb] in H.
    assert (Hne : forallb (fun x => negb (aeq x eqc)) (n0 :: n) = true /\ forallb clean_ch (n0 :: n) = true).
    { clear Hb. induction (n0 :: n) as [|c r IH]; [now split|]. cbn [forallb] in *. apply andb_true_iff in H as [Hc H].
      destruct (IH H) as [I1 I2]. rewrite I1, I2, !andb_true_r. unfold not_sp_eq, clean_ch in *.
      apply andb_true_iff in Hc as [Hc H3]. apply andb_true_iff in Hc as [H1 H2]. now rewrite H1, H2, H3. }
    destruct Hne as [H1 H2]. unfold qsplit.
    change (stringify (n0 :: n, v)) with ((n0 :: n) ++ eqc :: v).
    rewrite (cut_eq_app (n0 :: n) v H1). now rewrite H2.
Qed.

Theorem record_parse : forall ps, V1 ps = true -> parse (record ps) = ps.
Proof.
  intros ps H. unfold record, V1 in *. rewrite forallb_forall in H.
  rewrite record_parse_gen.
  - rewrite map_map. rewrite <- (map_id ps) at 2. apply map_ext_in. intros p Hp. now apply v1_qsplit, H.
  - rewrite forallb_forall. intros x Hx. apply in_map_iff in Hx as (p & <- & Hp). now apply v1_qsplit, H.
Qed.

Theorem roundtrip : forall s, V1 (parse s) = true -> parse (record (parse s)) = parse s.
Proof. intros s H. now apply record_parse. Qed.

Corollary roundtrip_doc : forall its, V0 its = true -> V1 (values its) = true ->
  parse (record (parse (doc_render its))) = parse (doc_render its).
Proof. intros its H0 H1. rewrite (parse_doc its H0). now apply record_parse. Qed.

(* ------------------------------------------------------------------------------------------------ *)
(* the assignment list                                                                                *)
(* ------------------------------------------------------------------------------------------------ *)
Theorem assigns_doc : forall its, V0 its = true -> assigns (parse (doc_render its)) = assigns (values its).
Proof. intros its H. now rewrite parse_doc. Qed.

Lemma assigns_from_pos : forall ps k i p, nth_error ps i = Some p ->
  In (dec (k + i), stringify p) (assigns_from k ps).
Proof.
  induction ps as [|q ps IH]; intros k i p H; [destruct i; discriminate|].
  destruct i as [|i]; simpl in *.
  - injection H as Hq. subst q. left. now rewrite Nat.add_0_r.
  - right. apply in_or_app. right. replace (k + S i) with (S k + i) by lia. now apply IH.
Qed.

Lemma assigns_from_named : forall ps k i p, nth_error ps i = Some p -> fst p <> [] ->
  In (fst p, snd p) (assigns_from k ps).
Proof.
  induction ps as [|q ps IH]; intros k i p H Hn; [destruct i; discriminate|].
  destruct i as [|i]; simpl in *.
  - injection H as Hq. subst q. right. apply in_or_app. left.
    destruct p as [[|a l] v]; cbn [fst snd] in *; [exfalso; now apply Hn | now left].
  - right. apply in_or_app. right. now apply (IH (S k) i).
Qed.

(* every documented item is exported: position i+1 carries the stringified item, a named item is also
   exported under its name with exactly its value *)
Theorem env_doc : forall its i it, V0 its = true -> nth_error its i = Some it ->
  In (dec (S i), stringify (item_pair it)) (assigns (parse (doc_render its))) /\
  (fst (item_pair it) <> [] -> In (item_pair it) (assigns (parse (doc_render its)))).
Proof.
  intros its i it HV Hn. rewrite (assigns_doc its HV). unfold assigns, values.
  assert (H : nth_error (map item_pair its) i = Some (item_pair it)) by (now apply map_nth_error).
  split.
  - exact (assigns_from_pos _ 1 i _ H).
  - intros Hne. pose proof (assigns_from_named _ 1 i _ H Hne) as H'. now destruct (item_pair it).
Qed.

(* ------------------------------------------------------------------------------------------------ *)
(* What the faithful model refutes                                                                    *)
(* ------------------------------------------------------------------------------------------------ *)
(* Full statement (false):  forall its (any values), parse (doc_render its) = values its
                            forall its, parse (record (parse (doc_render its))) = parse (doc_render its) *)

(* before fix 92cc1cc (model.Params was the plain join of the values) these came back as a, b, c / X=a, b  [F11a] *)
Example roundtrip_fixed :
  parse (record (parse (doc_render [IQuoted (L "a b"); IWord (L "c")]))) = parse (doc_render [IQuoted (L "a b"); IWord (L "c")]) /\
  parse (record (parse (doc_render [INamedQ (L "X") (L "a b")]))) = parse (doc_render [INamedQ (L "X") (L "a b")]) /\
  record (parse (doc_render [IQuoted (L "a b"); IWord (L "c"); IQuoted []])) = L """a b"" c """"".
Proof. repeat split; reflexivity. Qed.

(* what remains: a positional value that looks like NAME=value comes back as the named parameter NAME (same text,
   same $i - but NAME is exported in the retry / restart as well) *)
Lemma roundtrip_refuted_positional_eq : exists its, V0 its = true /\
  parse (record (parse (doc_render its))) <> parse (doc_render its).
Proof. exists [IQuoted (L "a=b")]. split; [reflexivity | vm_compute; discriminate]. Qed.

(* ... and a value that has to be quoted and ends with a backslash *)
Lemma roundtrip_refuted_backslash : exists ps : list pair,
  map stringify (parse (record ps)) <> map stringify ps.
Proof. exists [([], L "a b\"); ([], L "c d")]. vm_compute. discriminate. Qed.

(* every clause of V1 is needed *)
Lemma V1_clauses_needed :
  (exists v, bs_ok v = true /\ is_nil (fst (qsplit v)) = false /\ parse (record [([], v)]) <> [([], v)]) /\
  (exists v w, bs_ok v = false /\ is_nil (fst (qsplit v)) = true /\ v1_pair ([], w) = true /\
               parse (record [([], v); ([], w)]) <> [([], v); ([], w)]) /\
  (exists n v, name_ok n = false /\ bs_ok (stringify (n, v)) = true /\ parse (record [(n, v)]) <> [(n, v)]).
Proof.
  repeat split.
  - exists (L "a=b"). repeat split; try reflexivity. vm_compute. discriminate.
  - exists (L "a b\"), (L "c d"). repeat split; try reflexivity. vm_compute. discriminate.
  - exists (L "a b"), (L "c"). repeat split; try reflexivity. vm_compute. discriminate.
Qed.

(* what remains of F11b: a quoted value cannot END with a backslash - it swallows the closing quote *)
Lemma parse_doc_refuted_edge_backslash : exists v w, parse (doc_render [IQuoted v; IQuoted w]) <> values [IQuoted v; IQuoted w].
Proof. exists [ascii_of_nat 97; bs], [ascii_of_nat 98]. vm_compute. discriminate. Qed.

(* before fix 0f1faec (strings.Trim stripped every outer quote) this value lost its final quote
   and kept the backslash of the escape  [F11b] *)
Example parse_doc_fixed_edge_quote :
  let v := list_ascii_of_string "say " ++ dq :: list_ascii_of_string "hi" ++ [dq] in
  parse (doc_render [IQuoted v]) = values [IQuoted v].
Proof. reflexivity. Qed.

(* before fix ff6cf28 (a name could contain a quote) this was read as name Qa, value b  [F11c] *)
Example parse_doc_fixed_eq : parse (doc_render [IQuoted (L "a=b")]) = values [IQuoted (L "a=b")].
Proof. reflexivity. Qed.

(* Every clause of V0 is needed by a class that judges items one by one: for each clause there is an item
   violating just that clause and a documented context in which the parse goes wrong. *)
Lemma V0_clauses_needed :
  (* quoted value ending in a backslash *)
  (exists v w, qval_ok v = false /\ v0_item (IQuoted w) = true /\
               parse (doc_render [IQuoted v; IQuoted w]) <> values [IQuoted v; IQuoted w]) /\
  (* a bare word with a quote, with an inner =, starting with a back-tick *)
  (exists v, word_ok v = false /\ parse (doc_render [IWord v]) <> values [IWord v]) /\
  (exists v, word_ok v = true /\ no_inner_eq v = false /\ parse (doc_render [IWord v]) <> values [IWord v]) /\
  (exists v w, word_ok v = false /\ v0_item (IWord w) = true /\ parse (doc_render [IWord v; IWord w]) <> values [IWord v; IWord w]) /\
  (* a name with an = or a quote *)
  (exists n v, name_ok n = false /\ word_ok v = true /\ parse (doc_render [INamed n v]) <> values [INamed n v]) /\
  (exists n v, name_ok n = false /\ word_ok v = true /\ parse (doc_render [INamed n v]) <> values [INamed n v]).
Proof.
  repeat split.
  - exists (L "a\"), (L "b"). repeat split; try reflexivity. vm_compute. discriminate.
  - exists (L "a" ++ dq :: L "b"). repeat split; try reflexivity. vm_compute. discriminate.
  - exists (L "a=b"). repeat split; try reflexivity. vm_compute. discriminate.
  - exists (L "`a"), (L "b`"). repeat split; try reflexivity. vm_compute. discriminate.
  - exists (L "a=b"), (L "c"). repeat split; try reflexivity. vm_compute. discriminate.
  - exists (L "a" ++ dq :: L "b"), (L "c"). repeat split; try reflexivity. vm_compute. discriminate.
Qed.

(* ------------------------------------------------------------------------------------------------ *)
(* Satisfiability of the classes                                                                      *)
(* ------------------------------------------------------------------------------------------------ *)
(* V0 holds spaces, =, inner and leading quotes, back-ticks, backslashes, an empty quoted value, a word
   starting with = , a named word with = *)
Example V0_example :
  V0 [IWord (L "a"); IQuoted (L "a b = c"); INamed (L "X") (L "1=2"); INamedQ (L "Y") (L " p=q  r ");
      IQuoted (dq :: L "hi" ++ dq :: L " there"); IQuoted []; IWord (L "=x"); IQuoted (L "a=b");
      INamedQ (L "Z") (L "`date` \x"); IQuoted (L "say " ++ dq :: L "hi" ++ [dq]); IQuoted [dq]; IQuoted (L "=")] = true.
Proof. reflexivity. Qed.

Example V1_example :
  V1 [([], L "a"); (L "X", L "1=2"); ([], L "=x"); ([], L "a\b`c"); ([], L "a b"); (L "Y", L " p  q "); ([], []);
      (L "Z", dq :: L "hi" ++ [dq]); ([], L "x y=z"); ([], L "tail\")] = true.
Proof. reflexivity. Qed.

Example parse_doc_example :
  parse (doc_render [IQuoted (L "a b = c"); INamedQ (L "Y") (dq :: L "q" ++ dq :: L " r")]) =
  [([], L "a b = c"); (L "Y", dq :: L "q" ++ dq :: L " r")].
Proof. reflexivity. Qed.

(* ------------------------------------------------------------------------------------------------ *)
(* Captured outputs                                                                                   *)
(* ------------------------------------------------------------------------------------------------ *)
Lemma la_eqb_refl a : la_eqb a a = true.
Proof. induction a as [|c a IH]; simpl; [reflexivity | now rewrite aeq_refl, IH]. Qed.

Lemma la_eqb_eq a b : la_eqb a b = true <-> a = b.
Proof.
  split; [|intros ->; apply la_eqb_refl].
  revert b; induction a as [|c a IH]; destruct b as [|d b]; simpl; try discriminate; [reflexivity|].
  intros H. apply andb_true_iff in H as [H1 H2]. apply aeq_eq in H1. subst d. f_equal. now apply IH.
Qed.

Lemma la_eqb_sym a b : la_eqb a b = la_eqb b a.
Proof.
  destruct (la_eqb a b) eqn:E1, (la_eqb b a) eqn:E2; try reflexivity.
  - apply la_eqb_eq in E1. subst b. now rewrite la_eqb_refl in E2.
  - apply la_eqb_eq in E2. subst b. now rewrite la_eqb_refl in E1.
Qed.

Lemma oget_ostore_same k v m : oget k (ostore k v m) = Some v.
Proof.
  induction m as [|[k' v'] m IH]; simpl.
  - now rewrite la_eqb_refl.
  - destruct (la_eqb k k') eqn:E; simpl; [now rewrite la_eqb_refl | now rewrite E].
Qed.

Lemma oget_ostore_other k k2 v m : la_eqb k k2 = false -> oget k (ostore k2 v m) = oget k m.
Proof.
  intros Hn. induction m as [|[k' v'] m IH]; simpl.
  - now rewrite Hn.
  - destruct (la_eqb k2 k') eqn:E; simpl.
    + apply la_eqb_eq in E. subst k'. now rewrite Hn.
    + destruct (la_eqb k k'); [reflexivity | exact IH].
Qed.

Lemma oflow_app m a b : oflow m (a ++ b) = oflow m a ++ oflow (ofinal m a) b.
Proof.
  revert m; induction a as [|e a IH]; intros m; [reflexivity|].
  destruct e; simpl; [apply IH | now rewrite IH].
Qed.
Lemma ofinal_app m a b : ofinal m (a ++ b) = ofinal (ofinal m a) b.
Proof. revert m; induction a as [|e a IH]; intros m; [reflexivity|]. destruct e; simpl; apply IH. Qed.

(* no later attempt of a step with the same output name in between *)
Definition no_writer (n : la) (evs : list oevent) : Prop :=
  forall n' c', In (OEnd n' c') evs -> la_eqb n n' = false.

Lemma oget_ofinal_keep n m evs : no_writer n evs -> oget n (ofinal m evs) = oget n m.
Proof.
  revert m; induction evs as [|e evs IH]; intros m H; [reflexivity|].
  assert (H' : no_writer n evs) by (intros ? ? Hin; apply (H n' c'); now right).
  destruct e as [n' c'|i]; simpl.
  - rewrite (IH _ H'). apply oget_ostore_other. apply (H n' c'). now left.
  - exact (IH _ H').
Qed.

Lemma value_of_entry n c m : oget n m = Some (entry n c) -> value_of n m = Some (trim_space c).
Proof.
  intros H. unfold value_of. rewrite H. unfold entry. f_equal.
  replace (S (List.length n)) with (List.length (n ++ [eqc])) by (rewrite app_length; simpl; lia).
  change (n ++ eqc :: trim_space c) with (n ++ [eqc] ++ trim_space c). rewrite app_assoc.
  now rewrite skipn_app, skipn_all, Nat.sub_diag.
Qed.

(* Every command started after the end of a producer's attempt - a later step at any distance, a handler -
   sees NAME = TrimSpace(captured), as long as no other attempt stored the same name in between. *)
Theorem output_flow : forall m0 pre n c mid j post,
  no_writer n mid ->
  exists before seen after,
    oflow m0 (pre ++ OEnd n c :: mid ++ OStart j :: post) = before ++ (j, seen) :: after /\
    List.length before = List.length (oflow m0 (pre ++ OEnd n c :: mid)) /\
    value_of n seen = Some (trim_space c).
Proof.
  intros m0 pre n c mid j post H.
  exists (oflow m0 (pre ++ OEnd n c :: mid)), (ofinal m0 (pre ++ OEnd n c :: mid)),
         (oflow (ofinal m0 (pre ++ OEnd n c :: mid)) post).
  split; [|split; [reflexivity|]].
  - replace (pre ++ OEnd n c :: mid ++ OStart j :: post) with ((pre ++ OEnd n c :: mid) ++ OStart j :: post)
      by (rewrite <- app_assoc; reflexivity).
    now rewrite oflow_app.
  - apply value_of_entry. rewrite ofinal_app. simpl. rewrite (oget_ofinal_keep n _ mid H).
    apply oget_ostore_same.
Qed.

(* the map at the end of the run (what handlers get, and what the status file records for a retry) *)
Theorem output_final : forall m0 pre n c mid, no_writer n mid ->
  value_of n (ofinal m0 (pre ++ OEnd n c :: mid)) = Some (trim_space c).
Proof.
  intros. apply value_of_entry. rewrite ofinal_app. simpl. rewrite (oget_ofinal_keep n _ mid H).
  apply oget_ostore_same.
Qed.

(* maps built by Store have one entry per name; re-installing such a map for a retry gives it back *)
Fixpoint has_key (k : la) (m : omap) : bool :=
  match m with [] => false | (k', _) :: r => la_eqb k k' || has_key k r end.
Fixpoint uniq (m : omap) : Prop := match m with [] => True | (k, _) :: r => has_key k r = false /\ uniq r end.

Lemma has_key_ostore k k2 v m : has_key k (ostore k2 v m) = la_eqb k k2 || has_key k m.
Proof.
  induction m as [|[k' v'] m IH]; simpl; [reflexivity|].
  destruct (la_eqb k2 k') eqn:E; simpl.
  - apply la_eqb_eq in E. subst k'. now destruct (la_eqb k k2).
  - rewrite IH. destruct (la_eqb k k'), (la_eqb k k2); reflexivity.
Qed.

Lemma uniq_ostore k v m : uniq m -> uniq (ostore k v m).
Proof.
  induction m as [|[k' v'] m IH]; simpl; intros H; [now split|].
  destruct H as [H1 H2]. destruct (la_eqb k k') eqn:E; simpl.
  - apply la_eqb_eq in E. subst k'. now split.
  - split; [|now apply IH]. rewrite has_key_ostore, H1, orb_false_r. now rewrite la_eqb_sym.
Qed.

Lemma uniq_ofinal m evs : uniq m -> uniq (ofinal m evs).
Proof.
  revert m; induction evs as [|e evs IH]; intros m H; [exact H|].
  destruct e; simpl; apply IH; [now apply uniq_ostore | exact H].
Qed.

Lemma ostore_fresh k v m : has_key k m = false -> ostore k v m = m ++ [(k, v)].
Proof.
  induction m as [|[k' v'] m IH]; simpl; intros H; [reflexivity|].
  apply orb_false_iff in H as [H1 H2]. rewrite H1. now rewrite IH.
Qed.

Lemma has_key_app k a b : has_key k (a ++ b) = has_key k a || has_key k b.
Proof. induction a as [|[k' v'] a IH]; simpl; [reflexivity|]. now rewrite IH, orb_assoc. Qed.

Lemma reinstall_from acc m : uniq (acc ++ m) ->
  fold_left (fun a kv => ostore (fst kv) (snd kv) a) m acc = acc ++ m.
Proof.
  revert acc; induction m as [|[k v] m IH]; intros acc H; simpl; [now rewrite app_nil_r|].
  assert (Hk : has_key k acc = false).
  { clear IH. induction acc as [|[k' v'] acc IHa]; [reflexivity|].
    simpl in H. destruct H as [H1 H2]. simpl. rewrite (IHa H2), orb_false_r.
    rewrite has_key_app in H1. apply orb_false_iff in H1 as [_ H1]. simpl in H1.
    apply orb_false_iff in H1 as [H1 _]. now rewrite la_eqb_sym. }
  rewrite (ostore_fresh k v acc Hk). rewrite IH; rewrite <- app_assoc; [reflexivity | exact H].
Qed.

Theorem reinstall_id m : uniq m -> reinstall m = m.
Proof. intros H. unfold reinstall. now rewrite (reinstall_from [] m H). Qed.

(* a step of a later retry run sees the same value *)
Theorem output_retry : forall pre n c mid, no_writer n mid ->
  value_of n (reinstall (ofinal [] (pre ++ OEnd n c :: mid))) = Some (trim_space c).
Proof.
  intros. rewrite reinstall_id; [now apply output_final | apply uniq_ofinal; exact I].
Qed.

(* TrimSpace: some values of the model's trim (the white-space set is compared with the Go library on every run) *)
Example trim_examples :
  trim_space (L "  a b
") = L "a b" /\ trim_space [ascii_of_nat 194; ascii_of_nat 160; ascii_of_nat 120; ascii_of_nat 226; ascii_of_nat 128; ascii_of_nat 131] = [ascii_of_nat 120]
  /\ trim_space [ascii_of_nat 120; ascii_of_nat 226; ascii_of_nat 128; ascii_of_nat 139] = [ascii_of_nat 120; ascii_of_nat 226; ascii_of_nat 128; ascii_of_nat 139].
Proof. repeat split; reflexivity. Qed.

Example output_flow_example :
  oflow [] [OEnd (L "OUT") (L " x y
"); OStart 1; OEnd (L "B") (L "2"); OStart 2] =
  [(1, [(L "OUT", L "OUT=x y")]); (2, [(L "OUT", L "OUT=x y"); (L "B", L "B=2")])].
Proof. reflexivity. Qed.
