(* Params - theorems (C11). *)
From Coq Require Import List String Ascii Bool Arith Lia.
Import ListNotations.
From BD.Params Require Import Model.

Definition L (s : string) : la := list_ascii_of_string s.

(* F11a: values with spaces do not survive record -> re-parse *)
Lemma C11_roundtrip_refuted : exists its, V0 its = true /\
  parse (record (parse (doc_render its))) <> parse (doc_render its).
Proof. exists [IQuoted (L "a b"); IWord (L "c")]. split; [reflexivity | vm_compute; discriminate]. Qed.
