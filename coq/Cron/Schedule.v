(* The `schedule:` field of a DAG file (builder.go:173-223 buildSchedule, parser.go:22-107 parseSchedules /
   parseScheduleMap): string, list of strings, or a map with the keys start / stop / restart whose values
   are a string or a list of strings.  The decoded YAML value is given as a small tree; every other YAML
   value is `...Other`.  Executable definitions only. *)
From Coq Require Import List String Ascii Bool Arith ZArith.
Import ListNotations.
From BD.Cron Require Import Model.

Inductive item := IStr (s : string) | IOther.                       (* element of a sequence *)
Inductive mval := MStr (s : string) | MList (l : list item) | MOther. (* value under a key of the map form *)
Inductive mkey := KStr (s : string) | KOther.
Inductive sval := SStr (s : string) | SList (l : list item) | SMap (l : list (mkey * mval)) | SNull | SOther.

Record sched3 := { starts : list spec; stops : list spec; restarts : list spec }.
Definition no_sched : sched3 := {| starts := []; stops := []; restarts := [] |}.

(* parseSchedules: the first expression that fails decides (error or panic) *)
Fixpoint parse_all (l : list string) : pres (list spec) :=
  match l with
  | [] => POk []
  | s :: r => match parse_cron s with
              | PPanic => PPanic
              | PErr => PErr
              | POk sp => match parse_all r with POk sps => POk (sp :: sps) | PPanic => PPanic | PErr => PErr end
              end
  end.

Fixpoint item_strings (l : list item) : option (list string) :=
  match l with
  | [] => Some []
  | IStr s :: r => match item_strings r with Some ss => Some (s :: ss) | None => None end
  | IOther :: _ => None
  end.

Inductive skind := KStart | KStop | KRestart.
Definition kind_of_key (k : string) : option skind :=
  if String.eqb k "start" then Some KStart else if String.eqb k "stop" then Some KStop
  else if String.eqb k "restart" then Some KRestart else None.

(* one key of the map form: parser.go:68-118.  A key other than start / stop / restart is an error (since c2912bd;
   before, a value under such a key was appended through a nil slice pointer). *)
Fixpoint key_values (vs : list string) : pres (list spec) :=
  match vs with
  | [] => POk []
  | v :: r => match parse_cron v with
              | PPanic => PPanic
              | PErr => PErr
              | POk sp => match key_values r with POk sps => POk (sp :: sps) | PPanic => PPanic | PErr => PErr end
              end
  end.

Definition key_outcome (kv : mkey * mval) : pres (option skind * list spec) :=
  match fst kv with
  | KOther => PErr
  | KStr k =>
      let vals := match snd kv with
                  | MStr s => Some [s]
                  | MList l => item_strings l
                  | MOther => Some []
                  end in
      match vals with
      | None => PErr
      | Some vs => match kind_of_key k with
                   | None => PErr
                   | Some kd => match key_values vs with
                                | POk sps => POk (Some kd, sps)
                                | PPanic => PPanic
                                | PErr => PErr
                                end
                   end
      end
  end.

Definition add_key (acc : sched3) (r : option skind * list spec) : sched3 :=
  match fst r with
  | Some KStart => {| starts := starts acc ++ snd r; stops := stops acc; restarts := restarts acc |}
  | Some KStop => {| starts := starts acc; stops := stops acc ++ snd r; restarts := restarts acc |}
  | Some KRestart => {| starts := starts acc; stops := stops acc; restarts := restarts acc ++ snd r |}
  | None => acc
  end.

(* keys visited in the listed order (Go visits them in a random order: see `outcomes`) *)
Fixpoint build_map (kvs : list (mkey * mval)) (acc : sched3) : pres sched3 :=
  match kvs with
  | [] => POk acc
  | kv :: r => match key_outcome kv with
               | PPanic => PPanic
               | PErr => PErr
               | POk x => build_map r (add_key acc x)
               end
  end.

Definition build_schedule (v : sval) : pres sched3 :=
  match v with
  | SNull => POk no_sched
  | SOther => PErr
  | SStr s => match parse_all [s] with POk sps => POk {| starts := sps; stops := []; restarts := [] |} | PPanic => PPanic | PErr => PErr end
  | SList l => match item_strings l with
               | None => PErr
               | Some ss => match parse_all ss with
                            | POk sps => POk {| starts := sps; stops := []; restarts := [] |}
                            | PPanic => PPanic | PErr => PErr
                            end
               end
  | SMap kvs => build_map kvs no_sched
  end.

(* The verdict codes (0 ok, 1 error, 2 panic) the loader can produce for the value: for a map the first failing
   key in Go's random iteration order decides, so every failing key's outcome is possible. *)
Definition outcomes (v : sval) : list nat :=
  match v with
  | SMap kvs =>
      let bad := filter (fun c => negb (c =? 0)) (map (fun kv => cls (key_outcome kv)) kvs) in
      match bad with [] => [0] | _ => nodup Nat.eq_dec bad end
  | _ => [cls (build_schedule v)]
  end.

Definition counts (v : sval) : list nat :=
  match build_schedule v with
  | POk s => [List.length (starts s); List.length (stops s); List.length (restarts s)]
  | _ => []
  end.
