(* placeholder - replaced below *)
From Coq Require Import List String ZArith.
From BD.Cron Require Import Model.
Lemma parse_smoke : cls (parse "0 0 30 2 *") = 0%nat.
Proof. vm_compute. reflexivity. Qed.
