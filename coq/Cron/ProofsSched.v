(* The loader's schedule code never panics (after the repairs c2912bd and 519d0a6): parse_cron refuses the one shape
   on which the library's Parse slices out of range, and an unknown key of the map form is an error. *)
From Coq Require Import List String Ascii Bool Arith ZArith.
Import ListNotations.
From BD.Cron Require Import Model Schedule.

Lemma parse_fields_no_panic : forall s off, parse_fields s off <> PPanic.
Proof.
  intros s off. unfold parse_fields.
  repeat match goal with |- context [match ?x with _ => _ end] => destruct x end; discriminate.
Qed.

Theorem parse_cron_no_panic : forall str, parse_cron str <> PPanic.
Proof.
  intro str. unfold parse_cron, parse. remember (list_ascii_of_string str) as s eqn:Es. clear Es.
  destruct (has_prefix "TZ=" s || has_prefix "CRON_TZ=" s) eqn:Ep; cbn [andb].
  - destruct (index_of_char " "%char s 0) as [i|] eqn:Ei; [|discriminate].
    destruct s as [|a r]; [discriminate|].
    destruct (index_of_char "="%char (a :: r) 0); [|discriminate].
    destruct (zone_offset _); [apply parse_fields_no_panic | discriminate].
  - destruct s as [|a r]; [discriminate|]. apply parse_fields_no_panic.
Qed.

(* the library itself does panic on that shape: the wrapper is what protects the loader *)
Example parse_library_panics : parse "TZ=UTC" = PPanic /\ parse_cron "TZ=UTC" = PErr /\ cls (parse_cron "TZ=UTC 0 0 * * *") = 0%nat.
Proof. vm_compute. repeat split. Qed.

Lemma parse_all_no_panic : forall l, parse_all l <> PPanic.
Proof.
  induction l as [|s l IH]; simpl; [discriminate|].
  pose proof (parse_cron_no_panic s). destruct (parse_cron s); try congruence.
  destruct (parse_all l); congruence.
Qed.

Lemma key_values_no_panic : forall vs, key_values vs <> PPanic.
Proof.
  induction vs as [|v vs IH]; simpl; [discriminate|].
  pose proof (parse_cron_no_panic v). destruct (parse_cron v); try congruence.
  destruct (key_values vs); congruence.
Qed.

Lemma key_outcome_no_panic : forall kv, key_outcome kv <> PPanic.
Proof.
  intros [k v]. unfold key_outcome. simpl. destruct k as [k|]; [|discriminate].
  destruct (match v with MStr s => Some [s] | MList l => item_strings l | MOther => Some [] end) as [vs|]; [|discriminate].
  destruct (kind_of_key k); [|discriminate].
  pose proof (key_values_no_panic vs). destruct (key_values vs); congruence.
Qed.

Lemma build_map_no_panic : forall kvs acc, build_map kvs acc <> PPanic.
Proof.
  induction kvs as [|kv kvs IH]; intros acc; simpl; [discriminate|].
  pose proof (key_outcome_no_panic kv). destruct (key_outcome kv); try congruence; apply IH.
Qed.

(* buildSchedule returns a value or an error for every YAML value of the schedule field *)
Theorem build_schedule_no_panic : forall v, build_schedule v <> PPanic.
Proof.
  intros [s|l|kvs| |]; simpl; try discriminate.
  - pose proof (parse_cron_no_panic s). destruct (parse_cron s); congruence.
  - destruct (item_strings l) as [ss|]; [|discriminate].
    pose proof (parse_all_no_panic ss). destruct (parse_all ss); congruence.
  - apply build_map_no_panic.
Qed.

(* an unknown key is an error whatever else the map holds before it *)
Example unknown_key_is_error :
  cls (build_schedule (SMap [(KStr "begin", MStr "* * * * *")])) = 1%nat /\
  cls (build_schedule (SMap [(KStr "start", MStr "* * * * *"); (KStr "Start", MOther)])) = 1%nat /\
  outcomes (SMap [(KStr "start", MStr "* * * * *"); (KStr "stop", MList [IStr "0 18 * * *"])]) = [0%nat].
Proof. vm_compute. repeat split. Qed.
