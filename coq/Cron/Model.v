(* Cron: executable model of the cron layer under the scheduler daemon (C09).
   (a) `parse`  = robfig/cron v3.0.1 Parser.Parse for the option set of internal/dag/parser.go:16-18
       (Minute|Hour|Dom|Month|Dow; no descriptors): TZ=/CRON_TZ= prefix incl. its slice panic,
       strings.Fields, getField/getRange/parseIntOrName/mustParseInt/getBits ported line by line;
       `parse_cron` = the loader's wrapper parseCron (parser.go:20-29), which refuses the panicking shape.
   (b) `matches` = the bit tests of SpecSchedule.Next / dayMatches on a civil time.
   (c) the proleptic Gregorian civil calendar on Z (days_from_civil / civil_from_days, weekday).
   (d) `next`    = SpecSchedule.Next (spec.go:58-176): first matching minute strictly after an instant
       given in unix SECONDS, searched up to the end of year(t+1s)+5 in the schedule's zone, else None
       (the library's zero time).  Implemented with month / day / hour skipping; `next_naive` is the
       minute-by-minute least-match search it is proved equal to (Proofs.v).
   Executable definitions only; no proofs in this file.  Times: minutes are unix minutes (Z),
   instants unix seconds (Z).  Zones: only fixed-offset zones of `zone_table` are modelled (DST is not). *)
From Coq Require Import List String Ascii Bool Arith ZArith NArith.
Import ListNotations.

Definition la := list ascii.
Definition aeq := Ascii.eqb.

(* outcome of a call that may return an error or panic *)
Inductive pres (A : Type) := PPanic | PErr | POk (a : A).
Arguments PPanic {A}. Arguments PErr {A}. Arguments POk {A} a.

(* ---------------------------------------------------------------------------------------- *)
(* strings helpers (ASCII)                                                                    *)
(* ---------------------------------------------------------------------------------------- *)

(* strings.Fields / strings.TrimSpace on ASCII white space (tab, nl, vt, ff, cr, space) *)
Definition is_ws (c : ascii) : bool :=
  let n := nat_of_ascii c in ((9 <=? n) && (n <=? 13)) || (n =? 32).

Fixpoint fields_aux (s : la) (cur : la) (acc : list la) : list la :=
  match s with
  | [] => rev (match cur with [] => acc | _ => rev cur :: acc end)
  | c :: r => if is_ws c then fields_aux r [] (match cur with [] => acc | _ => rev cur :: acc end)
              else fields_aux r (c :: cur) acc
  end.
Definition fields (s : la) : list la := fields_aux s [] [].

(* strings.Split(s, sep) for a one-byte separator *)
Fixpoint split_on (sep : ascii) (s : la) (cur : la) : list la :=
  match s with
  | [] => [rev cur]
  | c :: r => if aeq c sep then rev cur :: split_on sep r [] else split_on sep r (c :: cur)
  end.

(* strings.FieldsFunc(field, r == ','): empty pieces are dropped *)
Definition split_commas (s : la) : list la :=
  filter (fun x => match x with [] => false | _ => true end) (split_on ","%char s []).

(* strconv.Atoi (64-bit int): optional sign, at least one digit, decimal digits only, range check *)
Definition digit (c : ascii) : option N :=
  let n := nat_of_ascii c in
  if (48 <=? n) && (n <=? 57) then Some (N.of_nat (n - 48)) else None.
Fixpoint digits (s : la) (acc : N) : option N :=
  match s with
  | [] => Some acc
  | c :: r => match digit c with Some d => digits r (acc * 10 + d)%N | None => None end
  end.
Definition int_max : N := 9223372036854775807%N.
Definition atoi (s : la) : option Z :=
  match s with
  | [] => None
  | c :: r =>
      let '(neg, body) := if aeq c "-"%char then (true, r) else if aeq c "+"%char then (false, r) else (false, s) in
      match body with
      | [] => None
      | _ => match digits body 0%N with
             | Some v => if neg then (if (int_max + 1 <? v)%N then None else Some (- Z.of_N v)%Z)
                         else (if (int_max <? v)%N then None else Some (Z.of_N v))
             | None => None
             end
      end
  end.
(* mustParseInt: Atoi, negative numbers refused *)
Definition must_int (s : la) : option N :=
  match atoi s with Some z => if (z <? 0)%Z then None else Some (Z.to_N z) | None => None end.

(* strings.ToLower (ASCII) *)
Definition lower (c : ascii) : ascii :=
  let n := nat_of_ascii c in if (65 <=? n) && (n <=? 90) then ascii_of_nat (n + 32) else c.

Definition names_t := list (string * N).
Definition month_names : names_t :=
  [("jan",1);("feb",2);("mar",3);("apr",4);("may",5);("jun",6);("jul",7);("aug",8);("sep",9);("oct",10);("nov",11);("dec",12)]%string%N.
Definition dow_names : names_t :=
  [("sun",0);("mon",1);("tue",2);("wed",3);("thu",4);("fri",5);("sat",6)]%string%N.

(* parseIntOrName *)
Definition int_or_name (s : la) (names : names_t) : option N :=
  let key := string_of_list_ascii (map lower s) in
  match filter (fun e => String.eqb (fst e) key) names with
  | e :: _ => Some (snd e)
  | [] => must_int s
  end.

Record bounds := { bmin : N; bmax : N; bnames : names_t }.
Definition b_minutes := {| bmin := 0; bmax := 59; bnames := [] |}.
Definition b_hours   := {| bmin := 0; bmax := 23; bnames := [] |}.
Definition b_dom     := {| bmin := 1; bmax := 31; bnames := [] |}.
Definition b_months  := {| bmin := 1; bmax := 12; bnames := month_names |}.
Definition b_dow     := {| bmin := 0; bmax := 6;  bnames := dow_names |}.

Definition star_bit : N := N.shiftl 1 63.

(* getBits: for i := min; i <= max; i += step { bits |= 1 << i }   (max <= 59 here) *)
Fixpoint bits_loop (fuel : nat) (i mx step : N) (acc : N) : N :=
  match fuel with
  | O => acc
  | S f => if (mx <? i)%N then acc else bits_loop f (i + step)%N mx step (N.lor acc (N.shiftl 1 i))
  end.
Definition get_bits (mn mx step : N) : N := bits_loop 64 mn mx step 0%N.

Definition is_star (s : la) : bool :=
  match s with [c] => aeq c "*"%char || aeq c "?"%char | _ => false end.

(* getRange: number | number "-" number [ "/" number ] *)
Definition get_range (expr : la) (b : bounds) : option N :=
  let range_step := split_on "/"%char expr [] in
  let low_high := split_on "-"%char (hd [] range_step) [] in
  let single := (List.length low_high =? 1) in
  let first := hd [] low_high in
  let se : option (N * N * N) :=
    if is_star first then Some (bmin b, bmax b, star_bit)
    else match int_or_name first (bnames b) with
         | None => None
         | Some st =>
             match low_high with
             | [_] => Some (st, st, 0%N)
             | [_; h] => match int_or_name h (bnames b) with Some e => Some (st, e, 0%N) | None => None end
             | _ => None
             end
         end in
  match se with
  | None => None
  | Some (st, en, extra) =>
      let r : option (N * N * N) :=
        match range_step with
        | [_] => Some (1%N, en, extra)
        | [_; sp] => match must_int sp with
                     | Some step => Some (step, (if single then bmax b else en), (if (1 <? step)%N then 0%N else extra))
                     | None => None
                     end
        | _ => None
        end in
      match r with
      | None => None
      | Some (step, en, extra) =>
          if (st <? bmin b)%N then None else if (bmax b <? en)%N then None else if (en <? st)%N then None
          else if (step =? 0)%N then None else Some (N.lor (get_bits st en step) extra)
      end
  end.

Fixpoint get_field_l (rs : list la) (b : bounds) (acc : N) : option N :=
  match rs with
  | [] => Some acc
  | r :: rs' => match get_range r b with Some x => get_field_l rs' b (N.lor acc x) | None => None end
  end.
(* getField: a field made of commas only yields the empty set and no error *)
Definition get_field (f : la) (b : bounds) : option N := get_field_l (split_commas f) b 0%N.

(* A parsed schedule: the five bit sets (bit 63 = star bit) and the zone offset in minutes east of UTC *)
Record spec := { s_min : N; s_hour : N; s_dom : N; s_month : N; s_dow : N; s_off : Z }.

(* time.LoadLocation restricted to zones with a constant offset since 1970 (minutes east of UTC).
   Any other name is an error in the model; the correspondence draws names from this table and names
   that no tz database contains. *)
Definition zone_table : list (string * Z) :=
  [("", 0); ("UTC", 0); ("Local", 0); ("Etc/UTC", 0); ("Asia/Tokyo", 540); ("Asia/Kolkata", 330);
   ("Etc/GMT+5", -300); ("Etc/GMT-3", 180); ("America/Phoenix", -420)]%string%Z.
Definition zone_offset (name : string) : option Z :=
  match filter (fun e => String.eqb (fst e) name) zone_table with
  | e :: _ => Some (snd e)
  | [] => None
  end.

Fixpoint index_of_char (c : ascii) (s : la) (k : nat) : option nat :=
  match s with [] => None | x :: r => if aeq x c then Some k else index_of_char c r (S k) end.
Fixpoint drop_ws (s : la) : la := match s with c :: r => if is_ws c then drop_ws r else s | [] => [] end.
(* strings.TrimSpace (ASCII) *)
Definition trim_space (s : la) : la := rev (drop_ws (rev (drop_ws s))).
Definition has_prefix (p : string) (s : la) : bool := String.prefix p (string_of_list_ascii s).

Definition parse_fields (s : la) (off : Z) : pres spec :=
  match s with
  | c :: _ =>
      if aeq c "@"%char then PErr  (* descriptors are not enabled *)
      else match fields s with
           | [f1; f2; f3; f4; f5] =>
               match get_field f1 b_minutes, get_field f2 b_hours, get_field f3 b_dom,
                     get_field f4 b_months, get_field f5 b_dow with
               | Some a, Some b, Some c, Some d, Some e =>
                   POk {| s_min := a; s_hour := b; s_dom := c; s_month := d; s_dow := e; s_off := off |}
               | _, _, _, _, _ => PErr
               end
           | _ => PErr
           end
  | [] => PErr (* zero fields *)
  end.

(* Parser.Parse (parser.go:88-153) *)
Definition parse (str : string) : pres spec :=
  let s := list_ascii_of_string str in
  match s with
  | [] => PErr
  | _ =>
      if has_prefix "TZ=" s || has_prefix "CRON_TZ=" s then
        match index_of_char " "%char s 0, index_of_char "="%char s 0 with
        | None, _ => PPanic                       (* spec[eq+1 : -1]: slice bounds out of range *)
        | Some i, Some eq =>
            let name := string_of_list_ascii (firstn (i - (eq + 1)) (skipn (eq + 1) s)) in
            match zone_offset name with
            | None => PErr
            | Some off => parse_fields (trim_space (skipn i s)) off
            end
        | Some _, None => PErr (* unreachable: the prefix contains '=' *)
        end
      else parse_fields s 0%Z
  end.

(* internal/dag/parser.go parseCron (since 519d0a6): an expression that is only a zone prefix - no space - is
   refused with an error before the library, which would slice out of range, sees it.  This is what the loader
   calls; `parse` above stays the library's behaviour. *)
Definition parse_cron (str : string) : pres spec :=
  let s := list_ascii_of_string str in
  if (has_prefix "TZ=" s || has_prefix "CRON_TZ=" s) &&
     match index_of_char " "%char s 0 with None => true | Some _ => false end
  then PErr else parse str.

(* ---------------------------------------------------------------------------------------- *)
(* civil calendar on Z (proleptic Gregorian), days since 1970-01-01                          *)
(* ---------------------------------------------------------------------------------------- *)
Local Open Scope Z_scope.

Definition is_leap (y : Z) : bool := (y mod 4 =? 0) && (negb (y mod 100 =? 0) || (y mod 400 =? 0)).
Definition days_in_month (y mo : Z) : Z :=
  if mo =? 2 then (if is_leap y then 29 else 28)
  else if (mo =? 4) || (mo =? 6) || (mo =? 9) || (mo =? 11) then 30 else 31.

Definition days_from_civil (y mo d : Z) : Z :=
  let y' := if mo <=? 2 then y - 1 else y in
  let era := y' / 400 in
  let yoe := y' - era * 400 in
  let mp := if mo <=? 2 then mo + 9 else mo - 3 in
  let doy := (153 * mp + 2) / 5 + d - 1 in
  let doe := yoe * 365 + yoe / 4 - yoe / 100 + doy in
  era * 146097 + doe - 719468.

Definition civil_from_days (days : Z) : Z * Z * Z :=
  let z := days + 719468 in
  let era := z / 146097 in
  let doe := z - era * 146097 in
  let yoe := (doe - doe / 1460 + doe / 36524 - doe / 146096) / 365 in
  let y := yoe + era * 400 in
  let doy := doe - (365 * yoe + yoe / 4 - yoe / 100) in
  let mp := (5 * doy + 2) / 153 in
  let d := doy - (153 * mp + 2) / 5 + 1 in
  let mo := if mp <? 10 then mp + 3 else mp - 9 in
  (if mo <=? 2 then y + 1 else y, mo, d).

Definition valid_date (y mo d : Z) : bool := (1 <=? mo) && (mo <=? 12) && (1 <=? d) && (d <=? days_in_month y mo).

(* time.Weekday: Sunday = 0; 1970-01-01 was a Thursday *)
Definition weekday (days : Z) : Z := (days + 4) mod 7.

Record civil := { cy : Z; cmo : Z; cd : Z; ch : Z; cmi : Z }.
Definition civil_of_minute (m : Z) : civil :=
  let '(y, mo, d) := civil_from_days (m / 1440) in
  let r := m mod 1440 in
  {| cy := y; cmo := mo; cd := d; ch := r / 60; cmi := r mod 60 |}.
Definition minute_of_civil (c : civil) : Z :=
  days_from_civil (cy c) (cmo c) (cd c) * 1440 + ch c * 60 + cmi c.
Definition valid_civil (c : civil) : bool :=
  valid_date (cy c) (cmo c) (cd c) && (0 <=? ch c) && (ch c <? 24) && (0 <=? cmi c) && (cmi c <? 60).

(* ---------------------------------------------------------------------------------------- *)
(* matching                                                                                   *)
(* ---------------------------------------------------------------------------------------- *)
Definition bit (s : N) (i : Z) : bool := N.testbit s (Z.to_N i).

(* dayMatches (spec.go:178-188) on a day number, given the day of the month *)
Definition dom_dow_match (sp : spec) (d : Z) (days : Z) : bool :=
  let dom_m := bit (s_dom sp) d in
  let dow_m := bit (s_dow sp) (weekday days) in
  if N.testbit (s_dom sp) 63 || N.testbit (s_dow sp) 63 then dom_m && dow_m else dom_m || dow_m.

Definition day_match (sp : spec) (days : Z) : bool :=
  let '(_, mo, d) := civil_from_days days in
  bit (s_month sp) mo && dom_dow_match sp d days.

(* time of day (minute of the day, 0..1439) *)
Definition tod_match (sp : spec) (tod : Z) : bool := bit (s_hour sp) (tod / 60) && bit (s_min sp) (tod mod 60).

(* local (zone-less) match of a minute number read as civil time *)
Definition matches_local (sp : spec) (m : Z) : bool := day_match sp (m / 1440) && tod_match sp (m mod 1440).

(* does the schedule fire at unix minute m? *)
Definition matches (sp : spec) (m : Z) : bool := matches_local sp (m + s_off sp).

(* ---------------------------------------------------------------------------------------- *)
(* Next                                                                                       *)
(* ---------------------------------------------------------------------------------------- *)

(* least x in [lo, lo + n) with P x *)
Fixpoint find_from (P : Z -> bool) (lo : Z) (n : nat) : option Z :=
  match n with
  | O => None
  | S k => if P lo then Some lo else find_from P (lo + 1) k
  end.

(* first time of day >= lo (0 <= lo < 1440) with the hour and minute bits: the rest of the current hour,
   then the first later hour with its first minute *)
Definition first_tod (sp : spec) (lo : Z) : option Z :=
  let h0 := lo / 60 in
  let mi0 := lo mod 60 in
  match (if bit (s_hour sp) h0 then find_from (bit (s_min sp)) mi0 (Z.to_nat (60 - mi0)) else None) with
  | Some mi => Some (h0 * 60 + mi)
  | None =>
      match find_from (bit (s_hour sp)) (h0 + 1) (Z.to_nat (23 - h0)) with
      | Some h => match find_from (bit (s_min sp)) 0 60 with Some mi => Some (h * 60 + mi) | None => None end
      | None => None
      end
  end.

Definition first_of_next_month (y mo : Z) : Z :=
  if mo =? 12 then days_from_civil (y + 1) 1 1 else days_from_civil y (mo + 1) 1.

(* first day in [D, Dend) on which the month and day-of-month/day-of-week tests hold; a month whose bit is
   clear is skipped as a whole.  fuel >= Dend - D is enough (Proofs.v). *)
Fixpoint first_day (sp : spec) (fuel : nat) (D Dend : Z) : option Z :=
  match fuel with
  | O => None
  | S k =>
      if Dend <=? D then None
      else let '(y, mo, d) := civil_from_days D in
           if negb (bit (s_month sp) mo) then first_day sp k (first_of_next_month y mo) Dend
           else if dom_dow_match sp d D then Some D
           else first_day sp k (D + 1) Dend
  end.

(* local search bounds for an instant t (seconds): the library starts at t + 1s, second field = {0} *)
Definition next_lo (t : Z) : Z := (t + 1 + 59) / 60.                      (* first whole minute >= t + 1s *)
Definition year_of_second (t : Z) : Z := let '(y, _, _) := civil_from_days (t / 86400) in y.
Definition next_end (t : Z) : Z := days_from_civil (year_of_second (t + 1) + 5 + 1) 1 1 * 1440.  (* exclusive *)

Definition next_local (sp : spec) (t : Z) : option Z :=
  let M0 := next_lo t in
  let Dend := next_end t / 1440 in
  let D0 := M0 / 1440 in
  match first_tod sp 0 with
  | None => None                                   (* empty hour or minute set *)
  | Some tod0 =>
      match (if (D0 <? Dend) && day_match sp D0 then first_tod sp (M0 mod 1440) else None) with
      | Some tod => Some (D0 * 1440 + tod)
      | None => match first_day sp (Z.to_nat (Dend - D0)) (D0 + 1) Dend with
                | Some D => Some (D * 1440 + tod0)
                | None => None
                end
      end
  end.

Definition next_naive_local (sp : spec) (t : Z) : option Z :=
  find_from (matches_local sp) (next_lo t) (Z.to_nat (next_end t - next_lo t)).

(* SpecSchedule.Next(t): t in unix seconds, result in unix minutes; None = the zero time *)
Definition next (sp : spec) (t : Z) : option Z :=
  match next_local sp (t + 60 * s_off sp) with Some m => Some (m - s_off sp) | None => None end.
Definition next_naive (sp : spec) (t : Z) : option Z :=
  match next_naive_local sp (t + 60 * s_off sp) with Some m => Some (m - s_off sp) | None => None end.

(* the zero time.Time{} (0001-01-01T00:00:00Z) in unix minutes: what a start time of "-" parses to *)
Definition zero_minute : Z := -1035593280.

(* scheduler.go run(now): Read(now - 1s); an entry whose Next is the zero time (no activation within the horizon)
   is skipped; otherwise it is invoked iff not Next.After(now); m = the tick, a unix minute *)
Definition due (sp : spec) (m : Z) : bool :=
  match next sp (60 * m - 1) with Some n => n <=? m | None => false end.

Definition cls {A} (p : pres A) : nat := match p with PPanic => 2%nat | PErr => 1%nat | POk _ => 0%nat end.
