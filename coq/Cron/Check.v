(* Entry points of the C09 correspondence for the cron layer: cases written by the harness
   (harness/cmd/cron) are evaluated with vm_compute; the result lists the indices that disagree. *)
From Coq Require Import List String Ascii Bool Arith ZArith.
Import ListNotations.
From BD.Cron Require Import Model Schedule.

Definition oz_eqb (a b : option Z) : bool :=
  match a, b with Some x, Some y => Z.eqb x y | None, None => true | _, _ => false end.

(* one observation: Parsed.Next(t) = r (None = zero time).  For t = 60 m - 1 the daemon's decision for the
   tick m is checked as well: matches sp m <-> r = Some m, and `due`. *)
Definition obs_ok (sp : spec) (o : Z * option Z) : bool :=
  let '(t, r) := o in
  oz_eqb (next sp t) r &&
  (if ((t + 1) mod 60 =? 0)%Z then
     let m := ((t + 1) / 60)%Z in
     Bool.eqb (matches sp m) (oz_eqb r (Some m)) &&
     Bool.eqb (due sp m) (match r with None => false | Some n => (n <=? m)%Z end)
   else true).

(* (expression, verdict of dag.LoadYAML: 0 accepted / 1 error / 2 panic, observations) *)
Definition expr_case := (string * nat * list (Z * option Z))%type.
Definition check_expr (c : expr_case) : bool :=
  let '(e, k, obs) := c in
  match parse_cron e with
  | POk sp => (k =? 0)%nat && forallb (obs_ok sp) obs
  | p => (cls p =? k)%nat
  end.

(* the same through the naive search (volume tiers: extracted) *)
Definition obs_ok_naive (sp : spec) (o : Z * option Z) : bool := oz_eqb (next_naive sp (fst o)) (snd o).

Fixpoint bad_from {A} (f : A -> bool) (k : nat) (cs : list A) : list nat :=
  match cs with
  | [] => []
  | c :: r => if f c then bad_from f (S k) r else k :: bad_from f (S k) r
  end.
Definition bad_exprs (cs : list expr_case) : list nat := bad_from check_expr 0 cs.

(* (schedule value, verdict, [#start; #stop; #restart] when accepted) *)
Definition sched_case := (sval * nat * list nat)%type.
Definition check_sched (c : sched_case) : bool :=
  let '(v, k, cnt) := c in
  existsb (Nat.eqb k) (outcomes v) &&
  (if (k =? 0)%nat then (if list_eq_dec Nat.eq_dec cnt (counts v) then true else false) else true).
Definition bad_scheds (cs : list sched_case) : list nat := bad_from check_sched 0 cs.
