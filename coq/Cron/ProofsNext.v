(* `next` (the skipping search of Cron/Model.v) returns the least matching minute after t within the library's
   horizon, else None; it equals the naive minute-by-minute search; consequences for the daemon's `due` test. *)
From Coq Require Import List Bool Arith ZArith Lia String.
From BD.Cron Require Import Model ProofsCal.
Local Open Scope Z_scope.

(* r is the least x in [lo, hi) with P x, or None when there is none *)
Definition least (P : Z -> bool) (lo hi : Z) (r : option Z) : Prop :=
  match r with
  | Some x => lo <= x < hi /\ P x = true /\ forall y, lo <= y < x -> P y = false
  | None => forall y, lo <= y < hi -> P y = false
  end.

Lemma least_unique : forall P lo hi r1 r2, least P lo hi r1 -> least P lo hi r2 -> r1 = r2.
Proof.
  intros P lo hi [x|] [y|] H1 H2; simpl in *; try reflexivity.
  - destruct H1 as (Hx & Px & Mx), H2 as (Hy & Py & My).
    destruct (Z.lt_trichotomy x y) as [L|[E|L]].
    + rewrite (My x) in Px by lia. discriminate.
    + subst. reflexivity.
    + rewrite (Mx y) in Py by lia. discriminate.
  - destruct H1 as (Hx & Px & _). rewrite (H2 x Hx) in Px. discriminate.
  - destruct H2 as (Hy & Py & _). rewrite (H1 y Hy) in Py. discriminate.
Qed.

Lemma find_from_least : forall P n lo, least P lo (lo + Z.of_nat n) (find_from P lo n).
Proof.
  intros P. induction n as [|n IH]; intros lo.
  - simpl. intros y Hy. lia.
  - cbn [find_from]. destruct (P lo) eqn:E.
    + simpl. repeat split; try lia. assumption.
    + specialize (IH (lo + 1)). destruct (find_from P (lo + 1) n) as [x|]; simpl in *.
      * destruct IH as (Hx & Px & Mx). repeat split; try lia; [assumption|].
        intros y Hy. destruct (Z.eq_dec y lo) as [->|]; [assumption | apply Mx; lia].
      * intros y Hy. destruct (Z.eq_dec y lo) as [->|]; [assumption | apply IH; lia].
Qed.

Lemma find_from_least_to : forall P lo hi, least P lo (Z.max lo hi) (find_from P lo (Z.to_nat (hi - lo))).
Proof.
  intros P lo hi. pose proof (find_from_least P (Z.to_nat (hi - lo)) lo) as H.
  replace (lo + Z.of_nat (Z.to_nat (hi - lo))) with (Z.max lo hi) in H by lia. exact H.
Qed.

(* ---------------------------------------------------------------------------------------- *)
(* time of day                                                                                *)
(* ---------------------------------------------------------------------------------------- *)
Lemma tod_split : forall h mi, 0 <= mi < 60 -> (h * 60 + mi) / 60 = h /\ (h * 60 + mi) mod 60 = mi.
Proof.
  intros h mi Hmi. split.
  - symmetry. apply (Z.div_unique _ _ _ mi); lia.
  - symmetry. apply (Z.mod_unique _ _ h); lia.
Qed.

Lemma tod_decomp : forall y, y = (y / 60) * 60 + y mod 60 /\ 0 <= y mod 60 < 60.
Proof. intro y. pose proof (Z.div_mod y 60 ltac:(lia)). pose proof (Z.mod_pos_bound y 60 ltac:(lia)). lia. Qed.

Lemma tod_match_hm : forall sp h mi, 0 <= mi < 60 ->
  tod_match sp (h * 60 + mi) = bit (s_hour sp) h && bit (s_min sp) mi.
Proof. intros sp h mi Hmi. unfold tod_match. destruct (tod_split h mi Hmi) as [-> ->]. reflexivity. Qed.

Lemma first_tod_least : forall sp lo, 0 <= lo < 1440 -> least (tod_match sp) lo 1440 (first_tod sp lo).
Proof.
  intros sp lo Hlo. unfold first_tod.
  set (h0 := lo / 60). set (mi0 := lo mod 60).
  destruct (tod_decomp lo) as [Elo Hmi0]. fold h0 mi0 in Elo, Hmi0.
  assert (Hh0 : 0 <= h0 < 24) by (subst h0; split; [apply Z.div_pos; lia | apply Z.div_lt_upper_bound; lia]).
  (* the rest of the current hour *)
  pose proof (find_from_least_to (bit (s_min sp)) mi0 60) as HA.
  replace (Z.max mi0 60) with 60 in HA by lia.
  set (A := if bit (s_hour sp) h0 then find_from (bit (s_min sp)) mi0 (Z.to_nat (60 - mi0)) else None).
  assert (HA' : match A with
                | Some mi => bit (s_hour sp) h0 = true /\ mi0 <= mi < 60 /\ bit (s_min sp) mi = true /\
                             forall y, mi0 <= y < mi -> bit (s_min sp) y = false
                | None => forall mi, mi0 <= mi < 60 -> tod_match sp (h0 * 60 + mi) = false
                end).
  { subst A. destruct (bit (s_hour sp) h0) eqn:Eh.
    - destruct (find_from (bit (s_min sp)) mi0 (Z.to_nat (60 - mi0))) as [mi|]; simpl in HA.
      + destruct HA as (? & ? & ?). auto.
      + intros mi Hmi. rewrite tod_match_hm by lia. rewrite (HA mi Hmi). apply andb_false_r.
    - intros mi Hmi. rewrite tod_match_hm by lia. rewrite Eh. reflexivity. }
  destruct A as [mi|].
  - destruct HA' as (Eh & Hmi & Em & Mmi). simpl. repeat split; try lia.
    + rewrite tod_match_hm by lia. rewrite Eh, Em. reflexivity.
    + intros y Hy. destruct (tod_decomp y) as [Ey Hym].
      assert (y / 60 = h0) by lia.
      rewrite Ey, H. rewrite tod_match_hm by lia. rewrite (Mmi (y mod 60)) by lia. apply andb_false_r.
  - (* later hours *)
    pose proof (find_from_least_to (bit (s_hour sp)) (h0 + 1) 24) as HB.
    replace (24 - (h0 + 1)) with (23 - h0) in HB by ring.
    replace (Z.max (h0 + 1) 24) with 24 in HB by lia.
    pose proof (find_from_least (bit (s_min sp)) 60 0) as HC. simpl (0 + Z.of_nat 60) in HC.
    destruct (find_from (bit (s_hour sp)) (h0 + 1) (Z.to_nat (23 - h0))) as [h|]; simpl in HB.
    + destruct HB as (Hh & Eh & Mh).
      change (find_from (bit (s_min sp)) 0 60) with (find_from (bit (s_min sp)) 0 60) in *.
      destruct (find_from (bit (s_min sp)) 0 60) as [mi|]; simpl in HC.
      * destruct HC as (Hmi & Em & Mmi). simpl. repeat split; try lia.
        -- rewrite tod_match_hm by lia. rewrite Eh, Em. reflexivity.
        -- intros y Hy. destruct (tod_decomp y) as [Ey Hym].
           assert (Hyh : h0 <= y / 60 <= h) by lia.
           destruct (Z.eq_dec (y / 60) h0) as [E0|N0].
           ++ rewrite Ey, E0. apply HA'. lia.
           ++ rewrite Ey. rewrite tod_match_hm by lia.
              destruct (Z.eq_dec (y / 60) h) as [E1|N1].
              ** rewrite (Mmi (y mod 60)) by lia. apply andb_false_r.
              ** rewrite (Mh (y / 60)) by lia. reflexivity.
      * simpl. intros y Hy. destruct (tod_decomp y) as [Ey Hym]. rewrite Ey. rewrite tod_match_hm by lia.
        rewrite (HC (y mod 60)) by lia. apply andb_false_r.
    + simpl. intros y Hy. destruct (tod_decomp y) as [Ey Hym].
      assert (Hyh : h0 <= y / 60 < 24) by lia.
      destruct (Z.eq_dec (y / 60) h0) as [E0|N0].
      * rewrite Ey, E0. apply HA'. lia.
      * rewrite Ey. rewrite tod_match_hm by lia. rewrite (HB (y / 60)) by lia. reflexivity.
Qed.

(* ---------------------------------------------------------------------------------------- *)
(* days                                                                                       *)
(* ---------------------------------------------------------------------------------------- *)
Lemma first_day_least : forall sp fuel D Dend, Dend - D <= Z.of_nat fuel ->
  least (day_match sp) D Dend (first_day sp fuel D Dend).
Proof.
  intros sp. induction fuel as [|k IH]; intros D Dend Hf.
  - simpl. intros y Hy. lia.
  - cbn [first_day]. destruct (Dend <=? D) eqn:Ele.
    + apply Z.leb_le in Ele. simpl. intros y Hy. lia.
    + apply Z.leb_gt in Ele.
      destruct (civil_from_days D) as [[y mo] d] eqn:Ec.
      destruct (negb (bit (s_month sp) mo)) eqn:Emo.
      * (* the whole month is skipped *)
        apply negb_true_iff in Emo.
        destruct (same_month _ _ _ _ Ec) as [Hlt Hsame].
        set (F := first_of_next_month y mo) in *.
        assert (Hskip : forall D', D <= D' < F -> day_match sp D' = false).
        { intros D' HD'. destruct (Hsame D' HD') as [d' Ed']. unfold day_match. rewrite Ed', Emo. reflexivity. }
        specialize (IH F Dend ltac:(lia)).
        destruct (first_day sp k F Dend) as [x|]; simpl in *.
        -- destruct IH as (Hx & Px & Mx). repeat split; try lia; [assumption|].
           intros z Hz. destruct (Z.lt_ge_cases z F); [apply Hskip; lia | apply Mx; lia].
        -- intros z Hz. destruct (Z.lt_ge_cases z F); [apply Hskip; lia | apply IH; lia].
      * apply negb_false_iff in Emo.
        destruct (dom_dow_match sp d D) eqn:Ed.
        -- simpl. repeat split; try lia. unfold day_match. rewrite Ec, Emo, Ed. reflexivity.
        -- assert (Hno : day_match sp D = false) by (unfold day_match; rewrite Ec, Emo, Ed; reflexivity).
           specialize (IH (D + 1) Dend ltac:(lia)).
           destruct (first_day sp k (D + 1) Dend) as [x|]; simpl in *.
           ++ destruct IH as (Hx & Px & Mx). repeat split; try lia; [assumption|].
              intros z Hz. destruct (Z.eq_dec z D) as [->|]; [assumption | apply Mx; lia].
           ++ intros z Hz. destruct (Z.eq_dec z D) as [->|]; [assumption | apply IH; lia].
Qed.

(* ---------------------------------------------------------------------------------------- *)
(* minutes                                                                                    *)
(* ---------------------------------------------------------------------------------------- *)
Lemma min_decomp : forall m, m = (m / 1440) * 1440 + m mod 1440 /\ 0 <= m mod 1440 < 1440.
Proof. intro m. pose proof (Z.div_mod m 1440 ltac:(lia)). pose proof (Z.mod_pos_bound m 1440 ltac:(lia)). lia. Qed.

Lemma min_split : forall D tod, 0 <= tod < 1440 -> (D * 1440 + tod) / 1440 = D /\ (D * 1440 + tod) mod 1440 = tod.
Proof.
  intros D tod H. split.
  - symmetry. apply (Z.div_unique _ _ _ tod); lia.
  - symmetry. apply (Z.mod_unique _ _ D); lia.
Qed.

Lemma div_block_1440 : forall y D, D * 1440 <= y < D * 1440 + 1440 -> y / 1440 = D.
Proof. intros y D H. symmetry. apply (Z.div_unique _ _ _ (y - D * 1440)); lia. Qed.

Lemma matches_local_dt : forall sp D tod, 0 <= tod < 1440 ->
  matches_local sp (D * 1440 + tod) = day_match sp D && tod_match sp tod.
Proof. intros sp D tod H. unfold matches_local. destruct (min_split D tod H) as [-> ->]. reflexivity. Qed.

Lemma next_end_day : forall t, next_end t / 1440 = days_from_civil (year_of_second (t + 1) + 5 + 1) 1 1 /\
  next_end t = next_end t / 1440 * 1440.
Proof.
  intro t. unfold next_end. rewrite Z.div_mul by lia. split; reflexivity.
Qed.

(* the skipping search finds the least matching local minute in [next_lo t, next_end t) *)
Theorem next_local_least : forall sp t, least (matches_local sp) (next_lo t) (next_end t) (next_local sp t).
Proof.
  intros sp t. unfold next_local.
  destruct (next_end_day t) as [_ Eend]. set (Dend := next_end t / 1440) in *. rewrite Eend. clear Eend.
  set (M0 := next_lo t). set (D0 := M0 / 1440).
  destruct (min_decomp M0) as [EM0 Htl]. fold D0 in EM0. set (tl := M0 mod 1440) in *.
  clearbody tl D0 M0 Dend.
  pose proof (first_tod_least sp 0 ltac:(lia)) as H0.
  destruct (first_tod sp 0) as [tod0|]; simpl in H0.
  2:{ (* empty hour or minute set: nothing ever matches *)
      simpl. intros y Hy. destruct (min_decomp y) as [Ey Hyt]. rewrite Ey.
      rewrite matches_local_dt by lia. rewrite (H0 (y mod 1440)) by lia. apply andb_false_r. }
  destruct H0 as (Ht0 & Et0 & Mt0).
  pose proof (first_tod_least sp tl Htl) as H1.
  set (A := if (D0 <? Dend) && day_match sp D0 then first_tod sp tl else None).
  assert (HA : match A with
               | Some tod => D0 < Dend /\ day_match sp D0 = true /\ tl <= tod < 1440 /\ tod_match sp tod = true /\
                             forall y, tl <= y < tod -> tod_match sp y = false
               | None => forall tod, tl <= tod < 1440 -> D0 < Dend -> matches_local sp (D0 * 1440 + tod) = false
               end).
  { subst A. destruct (D0 <? Dend) eqn:E1; simpl.
    - apply Z.ltb_lt in E1. destruct (day_match sp D0) eqn:E2.
      + destruct (first_tod sp tl) as [tod|]; simpl in H1.
        * destruct H1 as (? & ? & ?). auto.
        * intros tod Htod _. rewrite matches_local_dt by lia. rewrite (H1 tod Htod). apply andb_false_r.
      + intros tod Htod _. rewrite matches_local_dt by lia. rewrite E2. reflexivity.
    - apply Z.ltb_ge in E1. intros. lia. }
  destruct A as [tod|].
  - destruct HA as (HD & Ed & Htod & Etod & Mtod). simpl. repeat split; try lia.
    + rewrite matches_local_dt by lia. rewrite Ed, Etod. reflexivity.
    + intros y Hy. destruct (min_decomp y) as [Ey Hyt].
      assert (y / 1440 = D0) by (apply div_block_1440; lia).
      rewrite Ey, H. rewrite matches_local_dt by lia. rewrite (Mtod (y mod 1440)) by lia. apply andb_false_r.
  - pose proof (first_day_least sp (Z.to_nat (Dend - D0)) (D0 + 1) Dend ltac:(lia)) as HB.
    destruct (first_day sp (Z.to_nat (Dend - D0)) (D0 + 1) Dend) as [D|]; simpl in HB.
    + destruct HB as (HD & Ed & MD). simpl. repeat split; try lia.
      * rewrite matches_local_dt by lia. rewrite Ed, Et0. reflexivity.
      * intros y Hy. destruct (min_decomp y) as [Ey Hyt].
        assert (Hyd : D0 <= y / 1440 <= D) by lia.
        rewrite Ey.
        destruct (Z.eq_dec (y / 1440) D0) as [E0|N0].
        -- rewrite E0. apply HA; lia.
        -- rewrite matches_local_dt by lia.
           destruct (Z.eq_dec (y / 1440) D) as [E1|N1].
           ++ rewrite (Mt0 (y mod 1440)) by lia. apply andb_false_r.
           ++ rewrite (MD (y / 1440)) by lia. reflexivity.
    + simpl. intros y Hy. destruct (min_decomp y) as [Ey Hyt].
      assert (Hyd : D0 <= y / 1440 < Dend) by lia.
      rewrite Ey.
      destruct (Z.eq_dec (y / 1440) D0) as [E0|N0].
      * rewrite E0. apply HA; lia.
      * rewrite matches_local_dt by lia. rewrite (HB (y / 1440)) by lia. reflexivity.
Qed.

Lemma next_lo_lt_end : forall t, next_lo t < next_end t.
Proof.
  intro t. unfold next_lo, next_end, year_of_second.
  destruct (civil_from_days ((t + 1) / 86400)) as [[y mo] d] eqn:E.
  pose proof (year_bounds _ _ _ _ E) as [_ Hb].
  pose proof (year_start_mono_n 5 (y + 1) ltac:(lia)) as Hm.
  replace (y + 1 + Z.of_nat 5) with (y + 5 + 1) in Hm by lia.
  assert ((t + 1 + 59) / 60 < ((t + 1) / 86400 + 1) * 1440 + 1).
  { pose proof (Z.div_mod (t + 1) 86400 ltac:(lia)). pose proof (Z.mod_pos_bound (t + 1) 86400 ltac:(lia)).
    apply Z.div_lt_upper_bound; lia. }
  lia.
Qed.

Theorem next_naive_local_least : forall sp t, least (matches_local sp) (next_lo t) (next_end t) (next_naive_local sp t).
Proof.
  intros sp t. unfold next_naive_local.
  pose proof (find_from_least_to (matches_local sp) (next_lo t) (next_end t)) as H.
  pose proof (next_lo_lt_end t). replace (Z.max (next_lo t) (next_end t)) with (next_end t) in H by lia. exact H.
Qed.

Theorem next_local_eq_naive : forall sp t, next_local sp t = next_naive_local sp t.
Proof. intros. eapply least_unique; [apply next_local_least | apply next_naive_local_least]. Qed.

(* ---------------------------------------------------------------------------------------- *)
(* Next in unix minutes, with the zone offset                                                 *)
(* ---------------------------------------------------------------------------------------- *)

(* end of the search in unix minutes (exclusive): the end of year(t + 1s) + 5 in the schedule's zone *)
Definition horizon (sp : spec) (t : Z) : Z := next_end (t + 60 * s_off sp) - s_off sp.

Lemma next_lo_off : forall t off, next_lo (t + 60 * off) = next_lo t + off.
Proof.
  intros. unfold next_lo. replace (t + 60 * off + 1 + 59) with (t + 1 + 59 + off * 60) by ring.
  rewrite Z.div_add by lia. reflexivity.
Qed.

Lemma least_shift : forall P lo hi off r,
  least (fun m => P (m + off)) (lo - off) (hi - off) (match r with Some m => Some (m - off) | None => None end) <->
  least P lo hi r.
Proof.
  intros P lo hi off [x|]; simpl; split.
  - intros (Hx & Px & Mx). replace (x - off + off) with x in Px by ring. repeat split; try lia; [assumption|].
    intros y Hy. specialize (Mx (y - off) ltac:(lia)). replace (y - off + off) with y in Mx by ring. assumption.
  - intros (Hx & Px & Mx). replace (x - off + off) with x by ring. repeat split; try lia; [assumption|].
    intros y Hy. apply Mx. lia.
  - intros H y Hy. specialize (H (y - off) ltac:(lia)). replace (y - off + off) with y in H by ring. assumption.
  - intros H y Hy. apply H. lia.
Qed.

(* C09 (cron part): Next = the least matching minute after t within the horizon, else None *)
Theorem next_least : forall sp t, least (matches sp) (next_lo t) (horizon sp t) (next sp t).
Proof.
  intros sp t. unfold next, horizon, matches.
  pose proof (next_local_least sp (t + 60 * s_off sp)) as H. rewrite next_lo_off in H.
  apply (least_shift (matches_local sp) _ _ (s_off sp)) in H.
  replace (next_lo t + s_off sp - s_off sp) with (next_lo t) in H by ring. exact H.
Qed.

Theorem next_eq_naive : forall sp t, next sp t = next_naive sp t.
Proof. intros. unfold next, next_naive. rewrite next_local_eq_naive. reflexivity. Qed.

Corollary next_some : forall sp t m, next sp t = Some m ->
  next_lo t <= m < horizon sp t /\ matches sp m = true /\ forall y, next_lo t <= y < m -> matches sp y = false.
Proof. intros sp t m H. pose proof (next_least sp t) as L. rewrite H in L. exact L. Qed.

Corollary next_none : forall sp t, next sp t = None -> forall y, next_lo t <= y < horizon sp t -> matches sp y = false.
Proof. intros sp t H. pose proof (next_least sp t) as L. rewrite H in L. exact L. Qed.

(* the result is strictly after t and a whole minute: 60 m > t, and no whole minute in between matches *)
Lemma next_lo_spec : forall t m, next_lo t <= m <-> t < 60 * m.
Proof.
  intros. unfold next_lo. pose proof (Z.div_mod (t + 1 + 59) 60 ltac:(lia)). pose proof (Z.mod_pos_bound (t + 1 + 59) 60 ltac:(lia)).
  set (q := (t + 1 + 59) / 60) in *. set (r := (t + 1 + 59) mod 60) in *. clearbody q r. split; intro; lia.
Qed.

(* ---------------------------------------------------------------------------------------- *)
(* the daemon's test: Next(tick - 1s) is not after the tick                                   *)
(* ---------------------------------------------------------------------------------------- *)
Lemma next_lo_tick : forall m, next_lo (60 * m - 1) = m.
Proof. intro m. unfold next_lo. replace (60 * m - 1 + 1 + 59) with (59 + m * 60) by ring. rewrite Z.div_add by lia. reflexivity. Qed.

Lemma tick_in_horizon : forall sp m, m < horizon sp (60 * m - 1).
Proof.
  intros sp m. unfold horizon.
  pose proof (next_lo_lt_end (60 * m - 1 + 60 * s_off sp)) as H.
  replace (60 * m - 1 + 60 * s_off sp) with (60 * (m + s_off sp) - 1) in * by ring.
  rewrite next_lo_tick in H. lia.
Qed.

(* a schedule that fires at minute m is found by the tick of minute m *)
Theorem next_of_match : forall sp m, matches sp m = true -> next sp (60 * m - 1) = Some m.
Proof.
  intros sp m Hm. pose proof (next_least sp (60 * m - 1)) as L. rewrite next_lo_tick in L.
  destruct (next sp (60 * m - 1)) as [x|]; unfold least in L.
  - destruct L as (Hx & _ & Mx). destruct (Z.eq_dec x m) as [->|]; [reflexivity|].
    rewrite (Mx m) in Hm by lia. discriminate.
  - rewrite (L m) in Hm; [discriminate|]. pose proof (tick_in_horizon sp m). lia.
Qed.

Theorem due_of_match : forall sp m, matches sp m = true -> due sp m = true /\ next sp (60 * m - 1) = Some m.
Proof.
  intros sp m Hm. unfold due. rewrite (next_of_match sp m Hm). split; [apply Z.leb_refl | reflexivity].
Qed.

(* C09_due: the entry is invoked at tick m iff the schedule fires at m - for every schedule *)
Theorem due_iff_matches : forall sp m, due sp m = true <-> matches sp m = true.
Proof.
  intros sp m. split.
  - intro Hd. unfold due in Hd.
    destruct (next sp (60 * m - 1)) as [x|] eqn:E; [|discriminate].
    destruct (next_some _ _ _ E) as (Hx & Px & _). rewrite next_lo_tick in Hx.
    apply Z.leb_le in Hd. assert (x = m) by lia. subst. assumption.
  - intro Hm. apply due_of_match. assumption.
Qed.

Lemma due_matches : forall sp m, due sp m = matches sp m.
Proof.
  intros sp m. destruct (matches sp m) eqn:E; [apply due_iff_matches; assumption|].
  destruct (due sp m) eqn:D; [|reflexivity]. apply due_iff_matches in D. congruence.
Qed.

Lemma next_not_none_iff : forall sp m, next sp (60 * m - 1) <> None <->
  exists n, m <= n < horizon sp (60 * m - 1) /\ matches sp n = true.
Proof.
  intros sp m. pose proof (next_least sp (60 * m - 1)) as L. rewrite next_lo_tick in L. split.
  - intro H. destruct (next sp (60 * m - 1)) as [x|]; [|congruence]. unfold least in L.
    exists x. tauto.
  - intros (n & Hn & Pn) E. rewrite E in L. unfold least in L. rewrite (L n Hn) in Pn. discriminate.
Qed.

(* the former F9a: a schedule without activation in the horizon is never due (the zero time is skipped) *)
Theorem due_of_none : forall sp m, next sp (60 * m - 1) = None -> due sp m = false /\ matches sp m = false.
Proof.
  intros sp m E. split.
  - unfold due. rewrite E. reflexivity.
  - apply (next_none _ _ E). rewrite next_lo_tick. pose proof (tick_in_horizon sp m). lia.
Qed.

Definition feb30 : spec := match parse "0 0 30 2 *" with POk sp => sp | _ => Build_spec 0 0 0 0 0 0 end.

Example due_former_f9a : parse "0 0 30 2 *" = POk feb30 /\ next feb30 (60 * 28589040 - 1) = None /\ due feb30 28589040 = false.
Proof. vm_compute. repeat split. Qed.

(* both sides of the equivalence on a concrete schedule *)
Example due_premise_sat :
  exists sp, parse "*/15 3 * * 1-5" = POk sp /\
    next sp (60 * 28589040 - 1) <> None /\ next sp (60 * 28588500 - 1) = Some 28588500 /\
    matches sp 28588500 = true /\ due sp 28588500 = true /\ due sp 28589040 = false.
Proof.
  exists (match parse "*/15 3 * * 1-5" with POk sp => sp | _ => feb30 end).
  vm_compute. repeat split; discriminate.
Qed.
