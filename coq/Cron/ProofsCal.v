(* Civil calendar: days_from_civil / civil_from_days are mutually inverse on the whole of Z.
   Method: the 400-year era is swept by vm_compute (146 097 days; 400 x 12 x 31 dates) and the result is carried
   to every era by the periodicity lemmas (a shift by 146 097 days is a shift by 400 years). *)
From Coq Require Import List Bool Arith ZArith Lia.
From BD.Cron Require Import Model.
Local Open Scope Z_scope.

(* ---------------------------------------------------------------------------------------- *)
(* finite sweeps                                                                              *)
(* ---------------------------------------------------------------------------------------- *)
Fixpoint all_from (n : nat) (lo : Z) (f : Z -> bool) : bool :=
  match n with
  | O => true
  | S k => if f lo then all_from k (lo + 1) f else false
  end.

Lemma all_from_spec : forall n lo f, all_from n lo f = true ->
  forall x, lo <= x < lo + Z.of_nat n -> f x = true.
Proof.
  induction n as [|n IH]; intros lo f H x Hx.
  - simpl in Hx. lia.
  - simpl in H. destruct (f lo) eqn:E; [|discriminate].
    destruct (Z.eq_dec x lo) as [->|Hne]; [exact E|].
    apply (IH (lo + 1) f H). lia.
Qed.

(* ---------------------------------------------------------------------------------------- *)
(* periodicity                                                                                *)
(* ---------------------------------------------------------------------------------------- *)
Lemma div_shift : forall a k c, c <> 0 -> (a + c * k) / c = a / c + k.
Proof. intros. replace (a + c * k) with (a + k * c) by ring. apply Z.div_add. assumption. Qed.

Lemma mod_shift : forall a k c, (a + c * k) mod c = a mod c.
Proof. intros. replace (a + c * k) with (a + k * c) by ring. apply Z_mod_plus_full. Qed.

Lemma civil_from_days_shift : forall D k,
  civil_from_days (D + 146097 * k) =
  let '(y, mo, d) := civil_from_days D in (y + 400 * k, mo, d).
Proof.
  intros D k. unfold civil_from_days.
  replace (D + 146097 * k + 719468) with (D + 719468 + 146097 * k) by ring.
  rewrite div_shift by lia.
  set (z := D + 719468). set (era := z / 146097).
  replace (z + 146097 * k - (era + k) * 146097) with (z - era * 146097) by ring.
  set (doe := z - era * 146097).
  set (yoe := (doe - doe / 1460 + doe / 36524 - doe / 146096) / 365).
  cbv zeta.
  set (doy := doe - (365 * yoe + yoe / 4 - yoe / 100)).
  set (mp := (5 * doy + 2) / 153).
  destruct (mp <? 10); destruct (_ <=? 2); f_equal; f_equal; ring.
Qed.

Lemma days_from_civil_shift : forall y mo d k,
  days_from_civil (y + 400 * k) mo d = days_from_civil y mo d + 146097 * k.
Proof.
  intros. unfold days_from_civil.
  destruct (mo <=? 2).
  - replace (y + 400 * k - 1) with (y - 1 + 400 * k) by ring. rewrite div_shift by lia. cbv zeta.
    replace (y - 1 + 400 * k - ((y - 1) / 400 + k) * 400) with (y - 1 - (y - 1) / 400 * 400) by ring. ring.
  - rewrite div_shift by lia. cbv zeta.
    replace (y + 400 * k - (y / 400 + k) * 400) with (y - y / 400 * 400) by ring. ring.
Qed.

Lemma is_leap_shift : forall y k, is_leap (y + 400 * k) = is_leap y.
Proof.
  intros. unfold is_leap.
  replace (y + 400 * k) with (y + 4 * (100 * k)) at 1 by ring. rewrite mod_shift.
  replace (y + 400 * k) with (y + 100 * (4 * k)) at 1 by ring. rewrite mod_shift.
  rewrite mod_shift. reflexivity.
Qed.

Lemma days_in_month_shift : forall y mo k, days_in_month (y + 400 * k) mo = days_in_month y mo.
Proof. intros. unfold days_in_month. rewrite is_leap_shift. reflexivity. Qed.

Lemma valid_date_shift : forall y mo d k, valid_date (y + 400 * k) mo d = valid_date y mo d.
Proof. intros. unfold valid_date. rewrite days_in_month_shift. reflexivity. Qed.

(* ---------------------------------------------------------------------------------------- *)
(* sweep 1: every day of one era                                                              *)
(* ---------------------------------------------------------------------------------------- *)
Definition day_ok (D : Z) : bool :=
  let '(y, mo, d) := civil_from_days D in
  valid_date y mo d && (days_from_civil y mo d =? D) &&
  (days_from_civil y 1 1 <=? D) && (D <? days_from_civil (y + 1) 1 1).

Lemma era_days_ok : all_from (Z.to_nat 146097) (-719468) day_ok = true.
Proof. vm_cast_no_check (eq_refl true). Qed.

Lemma day_ok_all : forall D, day_ok D = true.
Proof.
  intro D.
  set (k := (D + 719468) / 146097).
  set (D0 := D - 146097 * k).
  assert (H0 : -719468 <= D0 < -719468 + Z.of_nat (Z.to_nat 146097)).
  { rewrite Z2Nat.id by lia. subst D0 k.
    pose proof (Z.div_mod (D + 719468) 146097 ltac:(lia)).
    pose proof (Z.mod_pos_bound (D + 719468) 146097 ltac:(lia)). lia. }
  pose proof (all_from_spec _ _ _ era_days_ok D0 H0) as HD0.
  replace D with (D0 + 146097 * k) by (subst D0; ring).
  unfold day_ok in *. rewrite civil_from_days_shift.
  destruct (civil_from_days D0) as [[y mo] d].
  rewrite valid_date_shift, days_from_civil_shift.
  replace (y + 400 * k + 1) with (y + 1 + 400 * k) by ring.
  rewrite !days_from_civil_shift.
  apply andb_true_iff in HD0 as [HD0 H4]. apply andb_true_iff in HD0 as [HD0 H3].
  apply andb_true_iff in HD0 as [H1 H2].
  rewrite H1. simpl.
  apply Z.eqb_eq in H2. apply Z.leb_le in H3. apply Z.ltb_lt in H4.
  repeat (apply andb_true_iff; split); [apply Z.eqb_eq | apply Z.leb_le | apply Z.ltb_lt]; lia.
Qed.

(* civil_from_days yields a valid date whose day number is the argument - on all of Z *)
Theorem civil_days_roundtrip : forall D y mo d, civil_from_days D = (y, mo, d) ->
  valid_date y mo d = true /\ days_from_civil y mo d = D.
Proof.
  intros D y mo d H. pose proof (day_ok_all D) as K. unfold day_ok in K. rewrite H in K.
  apply andb_true_iff in K as [K _]. apply andb_true_iff in K as [K _].
  apply andb_true_iff in K as [K1 K2]. split; [assumption | apply Z.eqb_eq; assumption].
Qed.

Lemma year_bounds : forall D y mo d, civil_from_days D = (y, mo, d) ->
  days_from_civil y 1 1 <= D < days_from_civil (y + 1) 1 1.
Proof.
  intros D y mo d H. pose proof (day_ok_all D) as K. unfold day_ok in K. rewrite H in K.
  apply andb_true_iff in K as [K K4]. apply andb_true_iff in K as [K K3].
  apply Z.leb_le in K3. apply Z.ltb_lt in K4. lia.
Qed.

(* ---------------------------------------------------------------------------------------- *)
(* sweep 2: every date of 400 years                                                           *)
(* ---------------------------------------------------------------------------------------- *)
Definition date_eqb (a b : Z * Z * Z) : bool :=
  let '(y, mo, d) := a in let '(y', mo', d') := b in (y =? y') && (mo =? mo') && (d =? d').

Definition date_ok (y mo d : Z) : bool :=
  if valid_date y mo d then date_eqb (civil_from_days (days_from_civil y mo d)) (y, mo, d) else true.

Definition month_ok (y mo : Z) : bool :=
  all_from 31 1 (date_ok y mo) && (first_of_next_month y mo =? days_from_civil y mo 1 + days_in_month y mo).

Lemma era_dates_ok : all_from 400 0 (fun y => all_from 12 1 (month_ok y)) = true.
Proof. vm_cast_no_check (eq_refl true). Qed.

Lemma valid_date_bounds : forall y mo d, valid_date y mo d = true -> 1 <= mo <= 12 /\ 1 <= d <= 31 /\ d <= days_in_month y mo.
Proof.
  intros y mo d H. unfold valid_date in H.
  apply andb_true_iff in H as [H H4]. apply andb_true_iff in H as [H H3]. apply andb_true_iff in H as [H1 H2].
  apply Z.leb_le in H1, H2, H3, H4.
  assert (days_in_month y mo <= 31).
  { unfold days_in_month. destruct (mo =? 2); [destruct (is_leap y); lia|].
    destruct (_ || _); lia. }
  lia.
Qed.

Lemma month_ok_all : forall y mo, 1 <= mo <= 12 -> month_ok y mo = true.
Proof.
  intros y mo Hmo.
  set (k := y / 400). set (y0 := y - 400 * k).
  assert (Hy0 : 0 <= y0 < 0 + Z.of_nat 400).
  { subst y0 k. pose proof (Z.div_mod y 400 ltac:(lia)). pose proof (Z.mod_pos_bound y 400 ltac:(lia)). lia. }
  pose proof (all_from_spec _ _ _ era_dates_ok y0 Hy0) as H. cbv beta in H.
  assert (Hm : 1 <= mo < 1 + Z.of_nat 12) by lia.
  pose proof (all_from_spec _ _ _ H mo Hm) as H1.
  replace y with (y0 + 400 * k) by (subst y0; ring).
  unfold month_ok in *. apply andb_true_iff in H1 as [Ha Hb]. apply andb_true_iff. split.
  - clear Hb.
    assert (forall d, 1 <= d < 1 + Z.of_nat 31 -> date_ok (y0 + 400 * k) mo d = true) as Hall.
    { intros d Hd. pose proof (all_from_spec _ _ _ Ha d Hd) as Hd1. unfold date_ok in *.
      rewrite valid_date_shift. destruct (valid_date y0 mo d); [|reflexivity].
      rewrite days_from_civil_shift, civil_from_days_shift.
      destruct (civil_from_days (days_from_civil y0 mo d)) as [[y1 mo1] d1].
      unfold date_eqb in *. apply andb_true_iff in Hd1 as [Hd1 E3]. apply andb_true_iff in Hd1 as [E1 E2].
      apply Z.eqb_eq in E1. subst y1. rewrite Z.eqb_refl, E2, E3. reflexivity. }
    clear Ha. revert Hall. generalize (date_ok (y0 + 400 * k) mo). generalize 1. generalize 31%nat.
    induction n as [|n IH]; intros lo f Hall; [reflexivity|].
    simpl. rewrite (Hall lo) by lia. apply IH. intros d Hd. apply Hall. lia.
  - apply Z.eqb_eq in Hb. apply Z.eqb_eq. unfold first_of_next_month in *.
    rewrite days_in_month_shift.
    replace (y0 + 400 * k + 1) with (y0 + 1 + 400 * k) by ring.
    rewrite !days_from_civil_shift.
    destruct (mo =? 12); lia.
Qed.

(* a valid date is recovered from its day number *)
Theorem days_civil_roundtrip : forall y mo d, valid_date y mo d = true ->
  civil_from_days (days_from_civil y mo d) = (y, mo, d).
Proof.
  intros y mo d Hv. destruct (valid_date_bounds _ _ _ Hv) as (Hm & Hd & _).
  pose proof (month_ok_all y mo Hm) as H. unfold month_ok in H. apply andb_true_iff in H as [H _].
  assert (Hd' : 1 <= d < 1 + Z.of_nat 31) by lia.
  pose proof (all_from_spec _ _ _ H d Hd') as K. unfold date_ok in K. rewrite Hv in K.
  destruct (civil_from_days (days_from_civil y mo d)) as [[y1 mo1] d1].
  unfold date_eqb in K. apply andb_true_iff in K as [K E3]. apply andb_true_iff in K as [E1 E2].
  apply Z.eqb_eq in E1, E2, E3. congruence.
Qed.

Lemma month_len : forall y mo, 1 <= mo <= 12 ->
  first_of_next_month y mo = days_from_civil y mo 1 + days_in_month y mo.
Proof.
  intros y mo Hm. pose proof (month_ok_all y mo Hm) as H. unfold month_ok in H.
  apply andb_true_iff in H as [_ H]. apply Z.eqb_eq. assumption.
Qed.

Lemma days_from_civil_day : forall y mo d, days_from_civil y mo d = days_from_civil y mo 1 + (d - 1).
Proof. intros. unfold days_from_civil. cbv zeta. ring. Qed.

Lemma days_in_month_pos : forall y mo, 28 <= days_in_month y mo <= 31.
Proof.
  intros. unfold days_in_month. destruct (mo =? 2); [destruct (is_leap y); lia|]. destruct (_ || _); lia.
Qed.

(* every day from D up to the first of the next month lies in D's month *)
Lemma same_month : forall D y mo d, civil_from_days D = (y, mo, d) ->
  D < first_of_next_month y mo /\
  forall D', D <= D' < first_of_next_month y mo -> exists d', civil_from_days D' = (y, mo, d').
Proof.
  intros D y mo d H. destruct (civil_days_roundtrip _ _ _ _ H) as [Hv HD].
  destruct (valid_date_bounds _ _ _ Hv) as (Hm & Hd & Hdim).
  rewrite (month_len y mo Hm). rewrite days_from_civil_day in HD. split; [lia|].
  intros D' HD'. exists (D' - days_from_civil y mo 1 + 1).
  replace D' with (days_from_civil y mo (D' - days_from_civil y mo 1 + 1)) at 1
    by (rewrite days_from_civil_day; ring).
  apply days_civil_roundtrip. unfold valid_date.
  repeat (apply andb_true_iff; split); apply Z.leb_le; lia.
Qed.

Lemma year_start_mono : forall y, days_from_civil y 1 1 < days_from_civil (y + 1) 1 1.
Proof.
  intro y. assert (Hv : valid_date y 1 1 = true).
  { unfold valid_date, days_in_month. reflexivity. }
  pose proof (year_bounds _ _ _ _ (days_civil_roundtrip y 1 1 Hv)). lia.
Qed.

Lemma year_start_mono_n : forall n y, (0 < n)%nat -> days_from_civil y 1 1 < days_from_civil (y + Z.of_nat n) 1 1.
Proof.
  induction n as [|n IH]; intros y Hn; [lia|].
  destruct n as [|n].
  - simpl. apply year_start_mono.
  - specialize (IH y ltac:(lia)). pose proof (year_start_mono (y + Z.of_nat (S n))).
    replace (y + Z.of_nat (S (S n))) with (y + Z.of_nat (S n) + 1) by lia. lia.
Qed.

(* ---------------------------------------------------------------------------------------- *)
(* minutes                                                                                    *)
(* ---------------------------------------------------------------------------------------- *)
Theorem minute_civil_roundtrip : forall m, minute_of_civil (civil_of_minute m) = m /\ valid_civil (civil_of_minute m) = true.
Proof.
  intro m. unfold civil_of_minute, minute_of_civil, valid_civil.
  destruct (civil_from_days (m / 1440)) as [[y mo] d] eqn:E.
  destruct (civil_days_roundtrip _ _ _ _ E) as [Hv HD]. simpl. rewrite HD, Hv.
  pose proof (Z.div_mod m 1440 ltac:(lia)). pose proof (Z.mod_pos_bound m 1440 ltac:(lia)).
  pose proof (Z.div_mod (m mod 1440) 60 ltac:(lia)). pose proof (Z.mod_pos_bound (m mod 1440) 60 ltac:(lia)).
  assert (0 <= m mod 1440 / 60 < 24).
  { split; [apply Z.div_pos; lia | apply Z.div_lt_upper_bound; lia]. }
  split; [lia|]. simpl.
  repeat (apply andb_true_iff; split); try apply Z.leb_le; try apply Z.ltb_lt; lia.
Qed.

Theorem civil_minute_roundtrip : forall c, valid_civil c = true -> civil_of_minute (minute_of_civil c) = c.
Proof.
  intros [y mo d h mi] Hv. unfold valid_civil in Hv. cbn [cy cmo cd ch cmi] in Hv.
  apply andb_true_iff in Hv as [Hv H4]. apply andb_true_iff in Hv as [Hv H3].
  apply andb_true_iff in Hv as [Hv H2]. apply andb_true_iff in Hv as [Hv H1].
  apply Z.leb_le in H1, H3. apply Z.ltb_lt in H2, H4.
  unfold civil_of_minute, minute_of_civil. cbn [cy cmo cd ch cmi].
  assert (Ediv : (days_from_civil y mo d * 1440 + h * 60 + mi) / 1440 = days_from_civil y mo d).
  { symmetry. apply (Z.div_unique _ _ _ (h * 60 + mi)); lia. }
  assert (Emod : (days_from_civil y mo d * 1440 + h * 60 + mi) mod 1440 = h * 60 + mi).
  { symmetry. apply (Z.mod_unique _ _ (days_from_civil y mo d)); lia. }
  rewrite Ediv, Emod, (days_civil_roundtrip _ _ _ Hv).
  f_equal.
  - symmetry. apply (Z.div_unique _ _ _ mi); lia.
  - symmetry. apply (Z.mod_unique _ _ h); lia.
Qed.

Lemma weekday_range : forall D, 0 <= weekday D < 7.
Proof. intro D. unfold weekday. apply Z.mod_pos_bound. lia. Qed.

(* the weekday advances by one per day and repeats every seven days; 1970-01-01 (day 0) is a Thursday *)
Lemma weekday_succ : forall D, weekday (D + 1) = (weekday D + 1) mod 7.
Proof. intro D. unfold weekday. replace (D + 1 + 4) with (D + 4 + 1) by ring. rewrite Z.add_mod by lia.
  rewrite (Z.mod_small 1 7) by lia. reflexivity. Qed.
Lemma weekday_epoch : weekday 0 = 4.
Proof. reflexivity. Qed.
