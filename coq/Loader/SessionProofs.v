(* C19 over whole listing / viewing sessions: any sequence of non-executing loads and displays of any definitions, each
   starting in the environment its predecessor left, executes nothing and ends in the initial environment. *)
From Coq Require Import List ZArith String Ascii Bool Arith.
Import ListNotations.
From BD.Loader Require Import Str Model Decode Proofs DecodeProofs LoadProofs.

Section Session.
Variable cron : string -> cronv.
Variable sig_ok : string -> bool.
Variable tokenize : string -> list (string * string).
Variable sh : string -> option string.

(* one request of a session: true = the display path (view), false = a plain load (list / validate) *)
Definition job := (bool * opts * yv)%type.
Definition job_noeval (j : job) : Prop := o_noEval (snd (fst j)) = true.

Definition run_job (j : job) (e : envt) : envt * list effect :=
  let '(disp, o, root) := j in
  if disp then let x := display cron sig_ok tokenize sh o root e in (env_after x, effects x)
  else let x := load_tree cron sig_ok tokenize sh o root e in (env_after x, effects x).

Fixpoint session (js : list job) (e : envt) : envt * list effect :=
  match js with
  | [] => (e, [])
  | j :: js' => let '(e1, fx1) := run_job j e in let '(e2, fx2) := session js' e1 in (e2, fx1 ++ fx2)
  end.

Lemma run_job_no_effects j e : job_noeval j -> run_job j e = (e, []).
Proof.
  destruct j as [[disp o] root]. unfold job_noeval, run_job. cbn [fst snd]. intros H.
  destruct disp.
  - destruct (display_no_effects cron sig_ok tokenize sh o root e H) as [F E]. now rewrite F, E.
  - destruct (load_no_effects cron sig_ok tokenize sh o root e H) as [F E]. now rewrite F, E.
Qed.

Theorem session_no_effects js : Forall job_noeval js -> forall e, session js e = (e, []).
Proof.
  induction 1 as [|j js Hj _ IH]; intros e; cbn [session]; [reflexivity|].
  rewrite (run_job_no_effects j e Hj), IH. reflexivity.
Qed.
End Session.
