(* Entry points of the C13 / C19 correspondence: the model is evaluated on the trees the harness fed to the
   real loader; each outcome is rendered to a canonical text (digest) and compared with the text the python
   side derived from what the implementation returned.  `mismatches` lists (case, entry point) pairs. *)
From Coq Require Import List ZArith String Ascii Bool Arith.
Import ListNotations.
From BD.Loader Require Import Str Model Decode.
Open Scope string_scope.
Open Scope list_scope.

Notation "a +++ b" := (String.append a b) (at level 60, right associativity).

(* A digest is a flat list of atoms; every list is preceded by its length, so the reading is unique.  (Atoms
   rather than one concatenated text: the generated cases files intern each distinct string once - Coq 8.16
   spends tens of microseconds per character of a string literal.) *)
Definition dlist (l : list string) : list string := string_of_nat (List.length l) :: l.
Definition dbool (b : bool) : string := if b then "1" else "0".

(* ---- oracles carried by a case -------------------------------------------------------------------- *)
Record ccase := {
  cc_tree : yv;
  cc_cron : list (string * nat);                 (* 0 parses, 1 error, 2 panic; absent = error *)
  cc_sig : list string;                          (* valid signal names *)
  cc_rebad : list string;                        (* strings with the re: prefix that do not compile *)
  cc_tok : list (string * list (string * string));
  cc_env0 : list (string * string);
  cc_fname : string;
  cc_mode : nat;                                 (* 0: C13 (full DAG digest, environment); 1: C19 (class, environment, executed commands) *)
  cc_expect : list (nat * list string) }.        (* (entry point, expected digest) *)

Fixpoint assoc {A} (d : A) (l : list (string * A)) (k : string) : A :=
  match l with [] => d | (k', v) :: r => if String.eqb k k' then v else assoc d r k end.

Definition cron_of (c : ccase) (s : string) : cronv :=
  match assoc 1 (cc_cron c) s with 0 => CronOk | 2 => CronPanic | _ => CronErr end.
Definition sig_of (c : ccase) (s : string) : bool := existsb (String.eqb s) (cc_sig c).
Definition re_of (c : ccase) (s : string) : bool := negb (existsb (String.eqb s) (cc_rebad c)).
Definition tok_of (c : ccase) (s : string) : list (string * string) := assoc [] (cc_tok c) s.

(* the harmless commands the generators use: echo (prints its arguments), touch / true (print nothing),
   anything else fails (false, or no such program) *)
(* exec.Command(cmd, args...) after util.SplitCommand: the program is the text before the FIRST space (a leading
   space gives the empty program, which cannot be started); a shell skips leading blanks *)
Definition run_prog (c : string) (args : list string) : option string :=
  if String.eqb c "echo" then Some (join " " args)
  else if String.eqb c "touch" || String.eqb c "true" then Some ""
  else None.
Definition sh_direct (cmd : string) : option string := let (c, args) := split_command cmd in run_prog c args.
Definition sh_shell (script : string) : option string :=
  match fields script with [] => Some "" | c :: args => run_prog c args end.
(* parameters are substituted through `sh -c <text>`: an empty script succeeds with no output *)
Definition sh_model (cmd : string) : option string :=
  if prefixb "sh -c " cmd then
    sh_shell (drop 6 cmd)
  else sh_direct cmd.
Definition strip_sh (cmd : string) : string := if prefixb "sh -c " cmd then drop 6 cmd else cmd.

(* ---- entry points ----------------------------------------------------------------------------------- *)
(* 0 LoadYAML  1 LoadMetadata  2 LoadWithoutEval  3 Load *)
Definition opts_of (ep : nat) : opts :=
  match ep with
  | 1 => {| o_metadataOnly := true; o_noEval := true; o_parameters := "" |}
  | 3 => {| o_metadataOnly := false; o_noEval := false; o_parameters := "" |}
  | _ => {| o_metadataOnly := false; o_noEval := true; o_parameters := "" |}
  end.

Definition load (c : ccase) (ep : nat) (root : yv) : res dag * envt * list effect :=
  match decode root with
  | Ok d => build (cron_of c) (sig_of c) (tok_of c) sh_model (opts_of ep) d [] (cc_env0 c)
  | Err => (Err, cc_env0 c, [])
  | Panic => (Panic, cc_env0 c, [])
  end.

(* ---- digests ------------------------------------------------------------------------------------------ *)
Definition dstep (s : step) : list string :=
  [st_name s; st_command s] ++ dlist (if st_fromCall s then sort_strings (st_args s) else st_args s) ++
  [st_cmdWithArgs s; st_execType s; dbool (match st_subWorkflow s with Some _ => true | None => false end);
   st_signalOnStop s; st_script s; string_of_nat (List.length (st_preconditions s))].
Definition dostep (s : option step) : list string := match s with Some x => "+" :: dstep x | None => ["-"] end.

(* class of EvalConditions on one accepted condition: p = panic, n = no panic *)
Definition cond_class (c : ccase) (cd : condition) : string :=
  match outcome (evalCondition (re_of c) sh_model (fun _ _ => true) cd (cc_env0 c)) with
  | Panic => "p" | _ => "n" end.

Definition ddag (c : ccase) (ep : nat) (g : dag) : list string :=
  let name := if is_empty (g_name g) && negb (Nat.eqb ep 0) then cc_fname c else g_name g in
  ["O"; name] ++ dlist (g_tags g) ++ dlist (g_schedule g) ++ dlist (g_stopSchedule g) ++ dlist (g_restartSchedule g) ++
  dlist (sort_strings (g_env g)) ++ [g_logDir g; g_defaultParams g] ++ dlist (g_params g) ++
  [string_of_nat (List.length (g_steps g))] ++ flat_map dstep (g_steps g) ++
  dostep (g_onExit g) ++ dostep (g_onSuccess g) ++ dostep (g_onFailure g) ++ dostep (g_onCancel g) ++
  [dbool (is_some (g_smtp g)); dbool (is_some (g_errorMail g)); dbool (is_some (g_infoMail g))] ++
  [string_of_nat (List.length (g_preconditions g)); dbool (json_ok g);
   if Nat.eqb ep 0 then String.concat "" (map (cond_class c) (all_conditions g)) else ""].

(* environment difference: final value per variable set, without those equal to the initial value *)
Fixpoint last_sets (l : list effect) (acc : list (string * string)) : list (string * string) :=
  match l with
  | [] => acc
  | ESetenv k v :: r => last_sets r (vars_set acc k v)
  | _ :: r => last_sets r acc
  end.
Definition has_key (e : envt) (k : string) : bool := existsb (fun kv => String.eqb (fst kv) k) e.
Definition denv (c : ccase) (l : list effect) : list string :=
  dlist (sort_strings (map (fun kv => fst kv +++ "=" +++ snd kv)
     (filter (fun kv => negb (has_key (cc_env0 c) (fst kv) && String.eqb (getenv (cc_env0 c) (fst kv)) (snd kv)))
             (last_sets l [])))).
Fixpoint dedup_sorted (l : list string) : list string :=
  match l with
  | x :: ((y :: _) as r) => if String.eqb x y then dedup_sorted r else x :: dedup_sorted r
  | _ => l
  end.
Definition dexec (l : list effect) : list string :=
  dlist (dedup_sorted (sort_strings (flat_map (fun x => match x with EExec s => [strip_sh s] | _ => [] end) l))).

Definition dres (c : ccase) (ep : nat) (x : res dag * envt * list effect) : list string :=
  (match outcome x with
   | Panic => ["P"]
   | Err => if Nat.eqb (cc_mode c) 0 then ["E"] else ["N"]      (* C19 looks at effects: panic / no panic only *)
   | Ok g => if Nat.eqb (cc_mode c) 0 then ddag c ep g else ["N"]
   end)
  ++ "ENV" :: denv c (effects x)
  ++ (if Nat.eqb (cc_mode c) 0 then [] else "EXEC" :: dexec (effects x)).

(* ---- the schedule map is a Go map: every order of its entries is a possible run ------------------------- *)
Fixpoint inserts {A} (x : A) (l : list A) : list (list A) :=
  match l with
  | [] => [[x]]
  | y :: r => (x :: l) :: map (cons y) (inserts x r)
  end.
Fixpoint perms {A} (l : list A) : list (list A) :=
  match l with
  | [] => [[]]
  | x :: r => flat_map (inserts x) (perms r)
  end.

Definition variants (root : yv) : list yv :=
  match root with
  | VMap m =>
      match field (lower_keys m) "schedule" with
      | VMap sm =>
          if Nat.leb (List.length sm) 4 && Nat.leb 2 (List.length sm) then
            map (fun p => VMap (map (fun kv => if key_is "schedule" (hd kv (lower_keys [kv])) then (fst kv, VMap p) else kv) m)) (perms sm)
          else [root]
      | _ => [root]
      end
  | _ => [root]
  end.

Definition case_ok (c : ccase) (ep : nat) (expected : list string) : bool :=
  existsb (fun r => list_eqb String.eqb (dres c ep (load c ep r)) expected) (variants (cc_tree c)).

Fixpoint mismatches_from (k : nat) (cs : list ccase) : list (nat * nat) :=
  match cs with
  | [] => []
  | c :: r =>
      map (fun e => (k, fst e)) (filter (fun e => negb (case_ok c (fst e) (snd e))) (cc_expect c))
      ++ mismatches_from (S k) r
  end.
Definition mismatches := mismatches_from 0.

(* diagnostics: the model's digest as a list of character codes (printed only for a mismatching case) *)
Fixpoint codes (s : string) : list nat := match s with EmptyString => [] | String c r => nat_of_ascii c :: codes r end.
(* (only used for diagnostics) *)
Definition model_digest (c : ccase) (ep : nat) : list nat :=
  codes (String.concat (String (Ascii.ascii_of_nat 31) EmptyString) (dres c ep (load c ep (cc_tree c)))).
