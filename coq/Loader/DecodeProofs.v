(* The decode stage (yaml.v2 + mapstructure typing rules as re-stated in Decode.v) panics only on a
   non-string key of a mapping decoded into a nested struct (F13g): a tree whose mappings all have string
   keys is never a Panic of `decode`. *)
From Coq Require Import List ZArith String Ascii Bool Arith.
Import ListNotations.
From BD.Loader Require Import Str Model Decode.
Open Scope string_scope.
Open Scope list_scope.

Lemma rmap_np : forall A B (f : A -> B) r, r <> Panic -> rmap f r <> Panic.
Proof. intros A B f [| |a] H; simpl; congruence. Qed.
Lemma rpair_np : forall A B (a : res A) (b : res B), a <> Panic -> b <> Panic -> rpair a b <> Panic.
Proof. intros A B [| |x] [| |y] Ha Hb; simpl; congruence. Qed.
Lemma rall_np : forall A (l : list (res A)), Forall (fun r => r <> Panic) l -> rall l <> Panic.
Proof.
  induction l as [|x l IH]; simpl; intros H; [discriminate|]. inversion H; subst.
  apply rmap_np, rpair_np; auto.
Qed.

Lemma dec_string_np : forall v, dec_string v <> Panic. Proof. destruct v; discriminate. Qed.
Lemma dec_int_np : forall v, dec_int v <> Panic. Proof. destruct v; discriminate. Qed.
Lemma dec_bool_np : forall v, dec_bool v <> Panic. Proof. destruct v; discriminate. Qed.

Notation aks := all_keys_strings.

Lemma dec_list_np : forall A (f : yv -> res A) v,
  (forall x, aks x = true -> f x <> Panic) -> aks v = true -> dec_list f v <> Panic.
Proof.
  intros A f v Hf Hv. destruct v; simpl; try discriminate. apply rall_np.
  simpl in Hv. induction l as [|x l IH]; simpl; constructor.
  - apply Hf. simpl in Hv. apply andb_true_iff in Hv as [H _]; exact H.
  - apply IH. simpl in Hv. apply andb_true_iff in Hv as [_ H]; exact H.
Qed.
Lemma dec_ptr_np : forall A (f : yv -> res A) v,
  (forall x, aks x = true -> f x <> Panic) -> aks v = true -> dec_ptr f v <> Panic.
Proof. intros A f v Hf Hv. destruct v; simpl; try discriminate; apply rmap_np, Hf, Hv. Qed.

Lemma lower_keys_strs : forall m, forallb (fun kv => is_vstr (fst kv) && aks (snd kv)) m = true ->
  forallb (fun kv : yv * yv => is_vstr (fst kv)) (lower_keys m) = true.
Proof.
  induction m as [|[k v] m IH]; simpl; intros H; [reflexivity|].
  apply andb_true_iff in H as [H1 H2]. apply andb_true_iff in H1 as [Hk _].
  rewrite (IH H2). destruct k; simpl in *; try discriminate. reflexivity.
Qed.

Lemma keys_check_np : forall nested fields m, aks (VMap m) = true -> keys_check nested fields (lower_keys m) <> Panic.
Proof.
  intros nested fields m H. unfold keys_check. simpl in H. rewrite (lower_keys_strs m H).
  simpl. rewrite andb_false_r. destruct (_ && _); discriminate.
Qed.

Lemma field_aks : forall m name, aks (VMap m) = true -> aks (field (lower_keys m) name) = true.
Proof.
  intros m name. unfold field. induction m as [|[k v] m IH]; simpl; intros H; [reflexivity|].
  apply andb_true_iff in H as [H1 H2]. apply andb_true_iff in H1 as [_ Hv].
  destruct (key_is name _); simpl; [exact Hv | apply IH, H2].
Qed.

Lemma dec_struct_np : forall A nested fields (zero : A) body v,
  aks v = true -> (forall m, (forall n, aks (field m n) = true) -> body m <> Panic) ->
  dec_struct nested fields zero body v <> Panic.
Proof.
  intros A nested fields zero body v Hv Hb. destruct v; simpl; try discriminate.
  apply rmap_np, rpair_np; [apply keys_check_np, Hv|]. apply Hb. intros n. apply field_aks, Hv.
Qed.

Ltac fields_np Hm :=
  repeat (apply rpair_np || apply rmap_np);
  try apply dec_string_np; try apply dec_int_np; try apply dec_bool_np.

Lemma dec_conditionDef_np : forall v, aks v = true -> dec_conditionDef v <> Panic.
Proof. intros v H. apply dec_struct_np; [exact H|]. intros m Hm. fields_np Hm. Qed.
Lemma dec_funcDef_np : forall v, aks v = true -> dec_funcDef v <> Panic.
Proof. intros v H. apply dec_struct_np; [exact H|]. intros m Hm. fields_np Hm. Qed.
Lemma dec_args_entries_np : forall m, dec_args_entries m <> Panic.
Proof. induction m as [|[k v] m IH]; simpl; [discriminate|]. destruct k; try discriminate; apply rmap_np, IH. Qed.
Lemma dec_args_np : forall v, dec_args v <> Panic.
Proof. destruct v; simpl; try discriminate. apply dec_args_entries_np. Qed.
Lemma dec_callFuncDef_np : forall v, aks v = true -> dec_callFuncDef v <> Panic.
Proof. intros v H. apply dec_struct_np; [exact H|]. intros m Hm. fields_np Hm. apply dec_args_np. Qed.
Lemma dec_continueOn_np : forall v, aks v = true -> dec_continueOn v <> Panic.
Proof. intros v H. apply dec_struct_np; [exact H|]. intros m Hm. fields_np Hm. Qed.
Lemma dec_repeatPolicy_np : forall v, aks v = true -> dec_repeatPolicy v <> Panic.
Proof. intros v H. apply dec_struct_np; [exact H|]. intros m Hm. fields_np Hm. Qed.
Lemma dec_retryPolicy_np : forall v, aks v = true -> dec_retryPolicy v <> Panic.
Proof. intros v H. apply dec_struct_np; [exact H|]. intros m Hm. fields_np Hm. Qed.
Lemma dec_smtp_np : forall v, aks v = true -> dec_smtp v <> Panic.
Proof. intros v H. apply dec_struct_np; [exact H|]. intros m Hm. fields_np Hm. Qed.
Lemma dec_mailConfig_np : forall v, aks v = true -> dec_mailConfig v <> Panic.
Proof. intros v H. apply dec_struct_np; [exact H|]. intros m Hm. fields_np Hm. Qed.
Lemma dec_mailOn_np : forall v, aks v = true -> dec_mailOn v <> Panic.
Proof. intros v H. apply dec_struct_np; [exact H|]. intros m Hm. fields_np Hm. Qed.

Lemma dec_stepDef_np : forall v, aks v = true -> dec_stepDef v <> Panic.
Proof.
  intros v H. apply dec_struct_np; [exact H|]. intros m Hm. fields_np Hm.
  - apply dec_list_np; [intros; apply dec_string_np | apply Hm].
  - apply dec_ptr_np; [apply dec_continueOn_np | apply Hm].
  - apply dec_ptr_np; [apply dec_retryPolicy_np | apply Hm].
  - apply dec_ptr_np; [apply dec_repeatPolicy_np | apply Hm].
  - apply dec_list_np; [|apply Hm]. intros x Hx. apply dec_ptr_np; [apply dec_conditionDef_np | exact Hx].
  - apply dec_ptr_np; [intros; apply dec_string_np | apply Hm].
  - apply dec_ptr_np; [apply dec_callFuncDef_np | apply Hm].
Qed.

Lemma dec_handlerOn_np : forall v, aks v = true -> dec_handlerOn v <> Panic.
Proof.
  intros v H. apply dec_struct_np; [exact H|]. intros m Hm. fields_np Hm;
  (apply dec_ptr_np; [apply dec_stepDef_np | apply Hm]).
Qed.

Lemma dec_definition_np : forall v, aks v = true -> dec_definition v <> Panic.
Proof.
  intros v H. apply dec_struct_np; [exact H|]. intros m Hm. fields_np Hm.
  - apply dec_ptr_np; [intros; apply dec_int_np | apply Hm].
  - apply dec_ptr_np; [intros; apply dec_int_np | apply Hm].
  - apply dec_handlerOn_np, Hm.
  - apply dec_list_np; [|apply Hm]. intros x Hx. apply dec_ptr_np; [apply dec_funcDef_np | exact Hx].
  - apply dec_list_np; [|apply Hm]. intros x Hx. apply dec_ptr_np; [apply dec_stepDef_np | exact Hx].
  - apply dec_smtp_np, Hm.
  - apply dec_ptr_np; [apply dec_mailOn_np | apply Hm].
  - apply dec_mailConfig_np, Hm.
  - apply dec_mailConfig_np, Hm.
  - apply dec_list_np; [|apply Hm]. intros x Hx. apply dec_ptr_np; [apply dec_conditionDef_np | exact Hx].
Qed.

(* F13g excluded: every mapping of the document has string keys only *)
Theorem decode_no_panic_partial : forall root, all_keys_strings root = true -> decode root <> Panic.
Proof.
  intros root H. unfold decode. destruct (negb (yaml_ok root)); [discriminate|].
  destruct root; try discriminate; apply dec_definition_np, H.
Qed.
