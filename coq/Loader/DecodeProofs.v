(* The decode stage (yaml.v2 + mapstructure typing rules as re-stated in Decode.v, plus the two checks the
   loader adds since fixes e67ca4a and c021988): it never panics, and every definition it lets through is
   free of null elements - the premise of Proofs.build_no_panic.
   (Before fix e67ca4a a non-string key of a mapping decoded into a nested struct was a Panic of `decode`.) *)
From Coq Require Import List ZArith String Ascii Bool Arith.
Import ListNotations.
From BD.Loader Require Import Str Model Decode.
Open Scope string_scope.
Open Scope list_scope.

Lemma rmap_np : forall A B (f : A -> B) r, r <> Panic -> rmap f r <> Panic.
Proof. intros A B f [| |a] H; simpl; congruence. Qed.
Lemma rpair_np : forall A B (a : res A) (b : res B), a <> Panic -> b <> Panic -> rpair a b <> Panic.
Proof. intros A B [| |x] [| |y] Ha Hb; simpl; congruence. Qed.
Lemma rall_np : forall A (l : list (res A)), Forall (fun r => r <> Panic) l -> rall l <> Panic.
Proof.
  induction l as [|x l IH]; simpl; intros H; [discriminate|]. inversion H; subst.
  apply rmap_np, rpair_np; auto.
Qed.

Lemma dec_string_np : forall v, dec_string v <> Panic. Proof. destruct v; discriminate. Qed.
Lemma dec_int_np : forall v, dec_int v <> Panic. Proof. destruct v; discriminate. Qed.
Lemma dec_bool_np : forall v, dec_bool v <> Panic. Proof. destruct v; discriminate. Qed.

Lemma dec_list_np : forall A (f : yv -> res A) v, (forall x, f x <> Panic) -> dec_list f v <> Panic.
Proof.
  intros A f v Hf. destruct v; simpl; try discriminate. apply rall_np.
  induction l as [|x l IH]; simpl; constructor; auto.
Qed.
Lemma dec_ptr_np : forall A (f : yv -> res A) v, (forall x, f x <> Panic) -> dec_ptr f v <> Panic.
Proof. intros A f v Hf. destruct v; simpl; try discriminate; apply rmap_np, Hf. Qed.

Lemma keys_check_np : forall nested fields m, keys_check nested fields m <> Panic.
Proof. intros. unfold keys_check. destruct (_ && negb _); [discriminate|]. destruct (_ && _); discriminate. Qed.

Lemma dec_struct_np : forall A nested fields (zero : A) body v,
  (forall m, body m <> Panic) -> dec_struct nested fields zero body v <> Panic.
Proof.
  intros A nested fields zero body v Hb. destruct v; simpl; try discriminate.
  apply rmap_np, rpair_np; [apply keys_check_np | apply Hb].
Qed.

Ltac fields_np :=
  repeat (apply rpair_np || apply rmap_np);
  try apply dec_string_np; try apply dec_int_np; try apply dec_bool_np.

Lemma dec_conditionDef_np : forall v, dec_conditionDef v <> Panic.
Proof. intros v. apply dec_struct_np. intros m. fields_np. Qed.
Lemma dec_funcDef_np : forall v, dec_funcDef v <> Panic.
Proof. intros v. apply dec_struct_np. intros m. fields_np. Qed.
Lemma dec_args_entries_np : forall m, dec_args_entries m <> Panic.
Proof. induction m as [|[k v] m IH]; simpl; [discriminate|]. destruct k; try discriminate; apply rmap_np, IH. Qed.
Lemma dec_args_np : forall v, dec_args v <> Panic.
Proof. destruct v; simpl; try discriminate. apply dec_args_entries_np. Qed.
Lemma dec_callFuncDef_np : forall v, dec_callFuncDef v <> Panic.
Proof. intros v. apply dec_struct_np. intros m. fields_np. apply dec_args_np. Qed.
Lemma dec_continueOn_np : forall v, dec_continueOn v <> Panic.
Proof. intros v. apply dec_struct_np. intros m. fields_np. Qed.
Lemma dec_repeatPolicy_np : forall v, dec_repeatPolicy v <> Panic.
Proof. intros v. apply dec_struct_np. intros m. fields_np. Qed.
Lemma dec_retryPolicy_np : forall v, dec_retryPolicy v <> Panic.
Proof. intros v. apply dec_struct_np. intros m. fields_np. Qed.
Lemma dec_smtp_np : forall v, dec_smtp v <> Panic.
Proof. intros v. apply dec_struct_np. intros m. fields_np. Qed.
Lemma dec_mailConfig_np : forall v, dec_mailConfig v <> Panic.
Proof. intros v. apply dec_struct_np. intros m. fields_np. Qed.
Lemma dec_mailOn_np : forall v, dec_mailOn v <> Panic.
Proof. intros v. apply dec_struct_np. intros m. fields_np. Qed.

Lemma dec_stepDef_np : forall v, dec_stepDef v <> Panic.
Proof.
  intros v. apply dec_struct_np. intros m. fields_np.
  - apply dec_list_np. apply dec_string_np.
  - apply dec_ptr_np, dec_continueOn_np.
  - apply dec_ptr_np, dec_retryPolicy_np.
  - apply dec_ptr_np, dec_repeatPolicy_np.
  - apply dec_list_np. intros x. apply dec_ptr_np, dec_conditionDef_np.
  - apply dec_ptr_np, dec_string_np.
  - apply dec_ptr_np, dec_callFuncDef_np.
Qed.

Lemma dec_handlerOn_np : forall v, dec_handlerOn v <> Panic.
Proof. intros v. apply dec_struct_np. intros m. fields_np; apply dec_ptr_np, dec_stepDef_np. Qed.

Lemma dec_definition_np : forall v, dec_definition v <> Panic.
Proof.
  intros v. apply dec_struct_np. intros m. fields_np.
  - apply dec_ptr_np, dec_int_np.
  - apply dec_ptr_np, dec_int_np.
  - apply dec_handlerOn_np.
  - apply dec_list_np. intros x. apply dec_ptr_np, dec_funcDef_np.
  - apply dec_list_np. intros x. apply dec_ptr_np, dec_stepDef_np.
  - apply dec_smtp_np.
  - apply dec_ptr_np, dec_mailOn_np.
  - apply dec_mailConfig_np.
  - apply dec_mailConfig_np.
  - apply dec_list_np. intros x. apply dec_ptr_np, dec_conditionDef_np.
Qed.

(* full statement: decoding any tree never panics *)
Theorem decode_no_panic : forall root, decode root <> Panic.
Proof.
  intros root. unfold decode. destruct (negb (yaml_ok root)); [discriminate|].
  destruct root; try discriminate;
    (pose proof (dec_definition_np VNull); pose proof (fun m => dec_definition_np (VMap m));
     match goal with |- match ?x with _ => _ end <> _ => destruct x eqn:E end; try discriminate; try congruence;
     try (destruct (no_nil _); discriminate)).
Qed.

(* every definition that leaves the decode stage is free of null elements (assertNoNullElements, fix c021988) *)
Theorem decode_no_nil : forall root d, decode root = Ok d -> no_nil d = true.
Proof.
  intros root d. unfold decode. destruct (negb (yaml_ok root)); [discriminate|].
  destruct root; try discriminate;
    (match goal with |- match ?x with _ => _ end = _ -> _ => destruct x as [| |d0] end; try discriminate;
     destruct (no_nil d0) eqn:E; [|discriminate]; intros H; inversion H; subst; exact E).
Qed.
