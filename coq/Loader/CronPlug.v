(* The cron parameter of the Loader model instantiated by the Cron model (coq/Cron/Model.v, C09): the theorems
   of C13 then speak about `Cron.parse` instead of an arbitrary verdict function. *)
From Coq Require Import List ZArith String.
Import ListNotations.
From BD.Cron Require Model.
From BD.Loader Require Import Str Model Decode Proofs.

Definition cron_of_parse (s : string) : cronv :=
  match BD.Cron.Model.parse s with
  | BD.Cron.Model.PPanic => CronPanic
  | BD.Cron.Model.PErr => CronErr
  | BD.Cron.Model.POk _ => CronOk
  end.

Definition verdict_code (s : string) : nat := match cron_of_parse s with CronOk => 0 | CronErr => 1 | CronPanic => 2 end.

(* build with the modelled cron parser never panics outside the excluded classes; the schedule premise now reads:
   no schedule string is a bare TZ= / CRON_TZ= prefix (on which Cron.parse = PPanic) *)
Theorem build_no_panic_cron :
  forall (sig_ok : string -> bool) (tokenize : string -> list (string * string)) (sh : string -> option string)
         (o : opts) (d : definition) (base : list string),
  no_nil d = true -> sched_safe cron_of_parse (d_schedule d) = true ->
  forall e : envt, outcome (build cron_of_parse sig_ok tokenize sh o d base e) <> Panic.
Proof. intros. apply build_no_panic_partial; assumption. Qed.

Theorem build_schedules_parse_cron :
  forall (sig_ok : string -> bool) (tokenize : string -> list (string * string)) (sh : string -> option string)
         (o : opts) (d : definition) (base : list string) (e : envt) (g : dag),
  outcome (build cron_of_parse sig_ok tokenize sh o d base e) = Ok g ->
  forall x, In x (g_schedule g ++ g_stopSchedule g ++ g_restartSchedule g) ->
  exists sp, BD.Cron.Model.parse x = BD.Cron.Model.POk sp.
Proof.
  intros sig_ok tokenize sh o d base e g H x Hx.
  destruct (build_wf cron_of_parse sig_ok tokenize sh o d base e g H) as (_ & Ha & Hb & Hc).
  assert (Hok : cron_ok cron_of_parse x = true).
  { rewrite !in_app_iff in Hx. rewrite forallb_forall in Ha, Hb, Hc. destruct Hx as [Hx|[Hx|Hx]]; auto. }
  unfold cron_ok, cron_of_parse in Hok. destruct (BD.Cron.Model.parse x) as [| |sp]; try discriminate. eauto.
Qed.
