(* The cron parameter of the Loader model instantiated by the Cron model (coq/Cron/Model.v, C09).  The one
   hypothesis of the C13 no-panic theorems - the cron library panics only on a bare TZ= / CRON_TZ= prefix - is
   PROVED for Cron.parse here, so that the instantiated theorems carry no hypothesis at all. *)
From Coq Require Import List ZArith String Ascii Bool.
Import ListNotations.
From BD.Cron Require Model.
From BD.Loader Require Import Str Model Decode Proofs DecodeProofs LoadProofs.

Module C := BD.Cron.Model.

Definition cron_of_parse (s : string) : cronv :=
  match C.parse s with
  | C.PPanic => CronPanic
  | C.PErr => CronErr
  | C.POk _ => CronOk
  end.

Definition verdict_code (s : string) : nat := match cron_of_parse s with CronOk => 0 | CronErr => 1 | CronPanic => 2 end.

Lemma prefixb_prefix : forall p s, prefixb p s = String.prefix p s.
Proof.
  induction p as [|a p IH]; intros s; [destruct s; reflexivity|].
  destruct s as [|b s]; [reflexivity|]. simpl. unfold aeqb. rewrite IH.
  destruct (ascii_dec a b) as [->|Hn].
  - rewrite Ascii.eqb_refl. reflexivity.
  - apply Ascii.eqb_neq in Hn. rewrite Hn. reflexivity.
Qed.

Lemma index_none_contains : forall c s k, C.index_of_char c (list_ascii_of_string s) k = None -> contains_char c s = false.
Proof.
  intros c. induction s as [|x s IH]; intros k H; simpl in *; [reflexivity|].
  unfold C.aeq in H. unfold contains_char in *. simpl. unfold aeqb.
  rewrite Ascii.eqb_sym. destruct (Ascii.eqb x c); [discriminate|]. simpl. eapply IH; eauto.
Qed.

Lemma parse_fields_np : forall s off, C.parse_fields s off <> C.PPanic.
Proof.
  intros s off. unfold C.parse_fields. destruct s as [|c r]; [discriminate|].
  destruct (C.aeq c "@"%char); [discriminate|].
  destruct (C.fields (c :: r)) as [|f1 [|f2 [|f3 [|f4 [|f5 [|f6 l]]]]]]; try discriminate.
  destruct (C.get_field f1 C.b_minutes); try discriminate.
  destruct (C.get_field f2 C.b_hours); try discriminate.
  destruct (C.get_field f3 C.b_dom); try discriminate.
  destruct (C.get_field f4 C.b_months); try discriminate.
  destruct (C.get_field f5 C.b_dow); discriminate.
Qed.

(* Cron.parse panics only on a spec that is a time zone prefix without a following space *)
Theorem cron_parse_panic_tz : forall s, cron_of_parse s = CronPanic -> tz_only s = true.
Proof.
  intros s H. unfold cron_of_parse in H. destruct (C.parse s) eqn:E; try discriminate. clear H.
  unfold C.parse in E. destruct (list_ascii_of_string s) as [|c0 r0] eqn:El; [discriminate|]. rewrite <- El in E.
  destruct (C.has_prefix "TZ=" (list_ascii_of_string s) || C.has_prefix "CRON_TZ=" (list_ascii_of_string s)) eqn:Ep.
  - unfold tz_only. unfold C.has_prefix in Ep. rewrite string_of_list_ascii_of_string in Ep.
    rewrite !prefixb_prefix, Ep. simpl.
    destruct (C.index_of_char " "%char (list_ascii_of_string s) 0) as [i|] eqn:Ei.
    + destruct (C.index_of_char "="%char (list_ascii_of_string s) 0); [|discriminate].
      destruct (C.zone_offset _); [|discriminate]. exfalso. eapply parse_fields_np; eauto.
    + rewrite (index_none_contains c_space s 0 Ei). reflexivity.
  - exfalso. eapply parse_fields_np; eauto.
Qed.

(* C13 with the modelled cron parser: the cron hypothesis is discharged; what remains is the one about the
   parameter tokenizer's regular expression *)
Theorem load_no_panic_cron :
  forall (sig_ok : string -> bool) (tokenize : string -> list (string * string)) (sh : string -> option string),
  (forall s n v, In (n, v) (tokenize s) -> quoted_wf v) ->
  forall (o : opts) (root : yv) (e : envt),
  outcome (load_tree cron_of_parse sig_ok tokenize sh o root e) <> Panic.
Proof. intros. apply load_no_panic; [exact cron_parse_panic_tz | assumption]. Qed.

(* every schedule expression of an accepted DAG is parsed by Cron.parse *)
Theorem build_schedules_parse_cron :
  forall (sig_ok : string -> bool) (tokenize : string -> list (string * string)) (sh : string -> option string)
         (o : opts) (d : definition) (base : list string) (e : envt) (g : dag),
  outcome (build cron_of_parse sig_ok tokenize sh o d base e) = Ok g ->
  forall x, In x (g_schedule g ++ g_stopSchedule g ++ g_restartSchedule g) ->
  exists sp, C.parse x = C.POk sp.
Proof.
  intros sig_ok tokenize sh o d base e g H x Hx.
  destruct (build_wf cron_of_parse sig_ok tokenize sh o d base e g H) as (_ & Ha & Hb & Hc).
  assert (Hok : cron_ok cron_of_parse x = true).
  { rewrite !in_app_iff in Hx. rewrite forallb_forall in Ha, Hb, Hc. destruct Hx as [Hx|[Hx|Hx]]; auto. }
  unfold cron_ok, parseCron in Hok. destruct (tz_only x); [discriminate|].
  unfold cron_of_parse in Hok. destruct (C.parse x) as [| |sp]; try discriminate. eauto.
Qed.
