(* String helpers of the Loader model: re-statements of the Go library functions the loader calls
   (strings.Split / Fields / ReplaceAll / Trim / HasPrefix / ToLower, strconv.Itoa, os.Expand, the fixed
   regular expressions of builder.go / parser.go).  Executable Gallina only.
   ASCII only where Go is Unicode-aware (ToLower, TrimSpace, Fields, EqualFold): the generators of the
   correspondence stay inside ASCII for those positions; listed in the trusted base. *)
From Coq Require Import List ZArith String Ascii Bool Arith.
Import ListNotations.
Open Scope string_scope.

Definition ch (n : nat) : ascii := ascii_of_nat n.
Definition str1 (c : ascii) : string := String c EmptyString.

Definition c_dollar := Eval compute in ch 36.
Definition c_btick := Eval compute in ch 96.
Definition c_space := Eval compute in ch 32.
Definition c_eq := Eval compute in ch 61.
Definition c_lbrace := Eval compute in ch 123.
Definition c_rbrace := Eval compute in ch 125.
Definition c_dquote := Eval compute in ch 34.
Definition c_bslash := Eval compute in ch 92.
Definition c_comma := Eval compute in ch 44.
Definition c_nul := Eval compute in ch 0.
Definition c_minus := Eval compute in ch 45.
(* character classes are decided on the binary code (N), not on a unary nat *)
Definition code (c : ascii) : N := N_of_ascii c.
Definition between (lo hi : N) (n : N) : bool := N.leb lo n && N.leb n hi.

Definition aeqb (a b : ascii) : bool := Ascii.eqb a b.

Fixpoint slen (s : string) : nat := match s with EmptyString => 0 | String _ r => S (slen r) end.

Definition is_empty (s : string) : bool := match s with EmptyString => true | _ => false end.

Fixpoint prefixb (p s : string) : bool :=
  match p, s with
  | EmptyString, _ => true
  | String a p', String b s' => aeqb a b && prefixb p' s'
  | _, _ => false
  end.

Fixpoint drop (n : nat) (s : string) : string :=
  match n, s with O, _ => s | S k, String _ r => drop k r | S _, EmptyString => EmptyString end.

Fixpoint srev_app (s acc : string) : string :=
  match s with EmptyString => acc | String c r => srev_app r (String c acc) end.
Definition srev (s : string) : string := srev_app s EmptyString.

Fixpoint existsb_str (f : ascii -> bool) (s : string) : bool :=
  match s with EmptyString => false | String c r => f c || existsb_str f r end.

Definition contains_char (c : ascii) (s : string) : bool := existsb_str (aeqb c) s.

(* ASCII white space: \t \n \v \f \r and space *)
Definition is_space (c : ascii) : bool :=
  let n := code c in (N.eqb n 32) || between 9 13 n.

(* A..Z = 0x41..0x5A: bits 7..5 = 010 and the low five bits in 1..26 *)
Definition lower_char (c : ascii) : ascii :=
  match c with
  | Ascii b0 b1 b2 b3 b4 false true false =>
      if (b0 || b1 || b2 || b3 || b4) && negb (b4 && b3 && (b2 || (b1 && b0)))
      then Ascii b0 b1 b2 b3 b4 true true false else c
  | _ => c
  end.
Fixpoint lower (s : string) : string :=
  match s with EmptyString => EmptyString | String c r => String (lower_char c) (lower r) end.

(* strings.EqualFold restricted to ASCII *)
Definition eqfold (a b : string) : bool := String.eqb (lower a) (lower b).

(* strings.TrimSpace (ASCII) *)
Fixpoint trim_left (f : ascii -> bool) (s : string) : string :=
  match s with String c r => if f c then trim_left f r else s | EmptyString => EmptyString end.
Definition trim_both (f : ascii -> bool) (s : string) : string := srev (trim_left f (srev (trim_left f s))).
Definition trim_space (s : string) : string := trim_both is_space s.
(* strings.Trim(s, cutset of one character) *)
Definition trim_char (c : ascii) (s : string) : string := trim_both (aeqb c) s.
(* s[1 : len(s)-1] for a string of at least two characters *)
Definition strip_ends (s : string) : string := srev (drop 1 (srev (drop 1 s))).
Definition trim_prefix (p s : string) : string := if prefixb p s then drop (slen p) s else s.

(* strings.Split(s, sep of one character): always at least one element *)
Fixpoint split_char_aux (c : ascii) (s cur : string) : list string :=
  match s with
  | EmptyString => [srev cur]
  | String a r => if aeqb a c then srev cur :: split_char_aux c r EmptyString else split_char_aux c r (String a cur)
  end.
Definition split_char (c : ascii) (s : string) : list string := split_char_aux c s EmptyString.

(* strings.Fields (ASCII white space) *)
Fixpoint fields_aux (s cur : string) : list string :=
  match s with
  | EmptyString => if is_empty cur then [] else [srev cur]
  | String a r =>
      if is_space a then (if is_empty cur then fields_aux r EmptyString else srev cur :: fields_aux r EmptyString)
      else fields_aux r (String a cur)
  end.
Definition fields (s : string) : list string := fields_aux s EmptyString.

Fixpoint join (sep : string) (l : list string) : string :=
  match l with [] => "" | [x] => x | x :: r => x ++ sep ++ join sep r end.

(* strings.SplitN(s, " ", 2) then util.SplitCommand *)
Fixpoint cut_space (s cur : string) : option (string * string) :=
  match s with
  | EmptyString => None
  | String a r => if aeqb a c_space then Some (srev cur, r) else cut_space r (String a cur)
  end.
Definition split_command (s : string) : string * list string :=
  match cut_space s EmptyString with
  | None => (s, [])
  | Some (c, rest) => (c, fields rest)
  end.

(* strings.ReplaceAll(s, old, new) for a non-empty old (fuel = length of s) *)
Fixpoint replace_all_aux (fuel : nat) (old new s : string) : string :=
  match fuel with
  | O => s
  | S k =>
      match s with
      | EmptyString => EmptyString
      | String c r => if prefixb old s then new ++ replace_all_aux k old new (drop (slen old) s)
                      else String c (replace_all_aux k old new r)
      end
  end.
Definition replace_all (old new s : string) : string :=
  if is_empty old then s else replace_all_aux (S (slen s)) old new s.

(* decimal rendering (strconv.Itoa / %v of an int) *)
Definition digit (n : nat) : ascii := ascii_of_N (48 + N.of_nat n).
Fixpoint pos_digits (fuel : nat) (n : N) (acc : string) : string :=
  match fuel with
  | O => acc
  | S k => let d := N.to_nat (N.modulo n 10) in
           let q := N.div n 10 in
           if N.eqb q 0 then String (digit d) acc else pos_digits k q (String (digit d) acc)
  end.
Definition string_of_N (n : N) : string := pos_digits (S (N.to_nat (N.log2 n))) n EmptyString.
Definition string_of_Z (z : Z) : string :=
  match z with
  | Z0 => "0"
  | Zpos p => string_of_N (Npos p)
  | Zneg p => String c_minus (string_of_N (Npos p))
  end.
Definition string_of_nat (n : nat) : string := string_of_N (N.of_nat n).

(* ---- os.Expand / os.ExpandEnv (GOROOT/src/os/env.go) ------------------------------------------- *)
Definition is_alnum (c : ascii) : bool :=
  let n := code c in
  (N.eqb n 95) || between 48 57 n || between 97 122 n || between 65 90 n.
Definition is_special_var (c : ascii) : bool :=
  let n := code c in
  between 48 57 n || existsb (N.eqb n) [42; 35; 36; 64; 33; 63; 45]%N.

Fixpoint take_while (f : ascii -> bool) (s : string) : string * string :=
  match s with
  | String c r => if f c then let (a, b) := take_while f r in (String c a, b) else (EmptyString, s)
  | EmptyString => (EmptyString, EmptyString)
  end.

(* scan to the closing brace: Some (name, rest after the brace) *)
Fixpoint to_rbrace (s cur : string) : option (string * string) :=
  match s with
  | EmptyString => None
  | String c r => if aeqb c c_rbrace then Some (srev cur, r) else to_rbrace r (String c cur)
  end.

(* getShellName on the text after the dollar: (name, rest of the input after the consumed characters, w>0) *)
Definition get_shell_name (s : string) : string * string * bool :=
  match s with
  | EmptyString => (EmptyString, s, false)
  | String c r =>
      if aeqb c c_lbrace then
        match r with
        | String c1 (String c2 r2) =>
            if is_special_var c1 && aeqb c2 c_rbrace then (str1 c1, r2, true)
            else match to_rbrace r EmptyString with
                 | Some (name, rest) => (name, rest, true)            (* "${}" gives the empty name, eaten *)
                 | None => (EmptyString, r, true)                      (* bad syntax: eat "${" *)
                 end
        | _ => match to_rbrace r EmptyString with
               | Some (name, rest) => (name, rest, true)
               | None => (EmptyString, r, true)
               end
        end
      else if is_special_var c then (str1 c, r, true)
      else let (name, rest) := take_while is_alnum s in (name, rest, negb (is_empty name))
  end.

Fixpoint expand_aux (fuel : nat) (mapping : string -> string) (s : string) : string :=
  match fuel with
  | O => s
  | S k =>
      match s with
      | EmptyString => EmptyString
      | String c r =>
          if aeqb c c_dollar && negb (is_empty r) then
            let '(name, rest, consumed) := get_shell_name r in
            if is_empty name then
              if consumed then expand_aux k mapping rest                 (* invalid syntax: eaten *)
              else String c (expand_aux k mapping rest)                  (* lone dollar stays *)
            else mapping name ++ expand_aux k mapping rest
          else String c (expand_aux k mapping r)
      end
  end.
Definition expand (mapping : string -> string) (s : string) : string := expand_aux (S (slen s)) mapping s.

(* ---- the fixed regular expressions ---------------------------------------------------------------- *)
(* tickerMatcher = `[^`]+` : FindAllString, leftmost, non-overlapping.  Returns the matches WITH their
   back-ticks. *)
Fixpoint until_btick (s cur : string) : option (string * string) :=
  match s with
  | EmptyString => None
  | String c r => if aeqb c c_btick then Some (srev cur, r) else until_btick r (String c cur)
  end.
Fixpoint ticker_matches_aux (fuel : nat) (nonempty : bool) (s : string) : list string :=
  match fuel with
  | O => []
  | S k =>
      match s with
      | EmptyString => []
      | String c r =>
          if aeqb c c_btick then
            match until_btick r EmptyString with
            | Some (body, rest) =>
                if nonempty && is_empty body then ticker_matches_aux k nonempty r
                else (str1 c_btick ++ body ++ str1 c_btick) :: ticker_matches_aux k nonempty rest
            | None => []
            end
          else ticker_matches_aux k nonempty r
      end
  end.
(* builder.go:784  "`[^`]+`" *)
Definition ticker_matches (s : string) : list string := ticker_matches_aux (S (slen s)) true s.
(* parser.go:192   "`[^`]*`" (the empty pair matches too) *)
Definition backtick_matches (s : string) : list string := ticker_matches_aux (S (slen s)) false s.

(* paramRegex = \$\w+ ; ReplaceAllString(s, "") *)
Fixpoint strip_params_aux (fuel : nat) (s : string) : string :=
  match fuel with
  | O => s
  | S k =>
      match s with
      | EmptyString => EmptyString
      | String c r =>
          if aeqb c c_dollar then
            let (w, rest) := take_while is_alnum r in
            if is_empty w then String c (strip_params_aux k r) else strip_params_aux k rest
          else String c (strip_params_aux k r)
      end
  end.
Definition strip_params (s : string) : string := strip_params_aux (S (slen s)) s.

(* extractParamNames: words starting with a dollar, without it *)
Definition extract_param_names (command : string) : list string :=
  flat_map (fun w => if prefixb "$" w then [drop 1 w] else []) (fields command).

(* byte-wise order, insertion sort (sort.Strings) *)
Fixpoint sleb (a b : string) : bool :=
  match a, b with
  | EmptyString, _ => true
  | String _ _, EmptyString => false
  | String x a', String y b' =>
      let nx := code x in let ny := code y in
      if N.ltb nx ny then true else if N.ltb ny nx then false else sleb a' b'
  end.
Fixpoint insert_sorted {A} (le : A -> A -> bool) (x : A) (l : list A) : list A :=
  match l with [] => [x] | y :: r => if le x y then x :: l else y :: insert_sorted le x r end.
Definition isort {A} (le : A -> A -> bool) (l : list A) : list A := fold_right (insert_sorted le) [] l.
Definition sort_strings := isort sleb.

Definition list_eqb {A} (eq : A -> A -> bool) :=
  fix go (a b : list A) : bool :=
    match a, b with [], [] => true | x :: a', y :: b' => eq x y && go a' b' | _, _ => false end.
