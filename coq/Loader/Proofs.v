(* Theorems about the Loader model (C13, C19).  All statements quantify over every decoded definition, every
   option value, every initial environment and every value of the library parameters (cron verdict, signal
   validity, regexp compilability, parameter tokenizer, command outputs, pattern matching).

   Structure: one lemma per Go helper "never Panic" (NP) / "no effect, environment unchanged" (quiet),
   composed along builder.go:107 build.  The model follows the REPAIRED code (/repo fix commits c2912bd,
   519d0a6, e67ca4a, c021988, 089471d, aac42fa, 4348d0d, a55d876): the full statements of C13 / C19 hold,
   with one exception - the status of an accepted DAG is not always serialisable (F13f, not repaired): for it
   there is a `_refuted` witness (Witness.v) and a `_partial` theorem whose premise is a decidable predicate
   on the INPUT naming the excluded class.
   What remains as a hypothesis: the cron library panics on nothing but a spec that is a bare TZ= / CRON_TZ=
   prefix (cron_panic_tz); it is discharged for the Cron model in CronPlug.v. *)
From Coq Require Import List ZArith String Ascii Bool Arith Lia.
Import ListNotations.
From BD.Loader Require Import Str Model Decode.
Open Scope string_scope.
Open Scope list_scope.

(* ---------------------------------------------------------------------------------------------------- *)
(* the monad                                                                                              *)
(* ---------------------------------------------------------------------------------------------------- *)
Definition NP {A} (m : M A) : Prop := forall e, outcome (m e) <> Panic.
(* at environment e the computation has no effect and leaves the environment as it is *)
Definition quiet {A} (e : envt) (m : M A) : Prop := effects (m e) = [] /\ env_after (m e) = e.

Lemma NP_ret : forall A (a : A), NP (ret a).
Proof. intros A a e. discriminate. Qed.
Lemma NP_lift : forall A (r : res A), r <> Panic -> NP (lift r).
Proof. intros A r H e. exact H. Qed.
Lemma NP_bind : forall A B (m : M A) (f : A -> M B), NP m -> (forall a, NP (f a)) -> NP (bind m f).
Proof.
  intros A B m f Hm Hf e. unfold bind. specialize (Hm e). destruct (m e) as [[r e1] l1].
  destruct r; unfold outcome in *; simpl in *; try congruence.
  specialize (Hf a e1). destruct (f a e1) as [[r2 e2] l2]. exact Hf.
Qed.
Lemma NP_try : forall A (m : M A), NP m -> NP (try_ m).
Proof.
  intros A m Hm e. unfold try_. specialize (Hm e). destruct (m e) as [[r e1] l1].
  destruct r; unfold outcome in *; simpl in *; congruence.
Qed.

Lemma quiet_ret : forall A e (a : A), quiet e (ret a).
Proof. intros; split; reflexivity. Qed.
Lemma quiet_lift : forall A e (r : res A), quiet e (lift r).
Proof. intros; split; reflexivity. Qed.
Lemma quiet_bind : forall A B e (m : M A) (f : A -> M B), quiet e m -> (forall a, quiet e (f a)) -> quiet e (bind m f).
Proof.
  intros A B e m f [Hm1 Hm2] Hf. unfold quiet, bind in *. destruct (m e) as [[r e1] l1].
  unfold effects, env_after in *; simpl in *. subst.
  destruct r; simpl; auto.
  destruct (Hf a) as [H1 H2]. destruct (f a e) as [[r2 e2] l2]. simpl in *. subst. auto.
Qed.
Lemma quiet_try : forall A e (m : M A), quiet e m -> quiet e (try_ m).
Proof.
  intros A e m [H1 H2]. unfold quiet, try_ in *. destruct (m e) as [[r e1] l1].
  unfold effects, env_after in *; simpl in *. destruct r; simpl; auto.
Qed.

Lemma rbind_np : forall A B (r : res A) (f : A -> res B), r <> Panic -> (forall a, f a <> Panic) -> rbind r f <> Panic.
Proof. intros A B r f H Hf. destruct r; simpl; auto; congruence. Qed.

Section Proofs.
Variable cron : string -> cronv.
Variable sig_ok : string -> bool.
Variable re_ok : string -> bool.
Variable tokenize : string -> list (string * string).
Variable sh : string -> option string.
Variable cond_met : string -> string -> bool.
(* the only input on which cronParser.Parse panics (robfig/cron v3.0.1 parser.go:97-99) *)
Hypothesis cron_panic_tz : forall s, cron s = CronPanic -> tz_only s = true.
(* the quoted alternative of the parameter regular expression ("(?:\\"|[^"])*") matches at least its two quotes *)
Definition quoted_wf (v : string) : Prop := prefixb (str1 c_dquote) v = true -> Nat.ltb (slen v) 2 = false.
Hypothesis tok_quoted : forall s n v, In (n, v) (tokenize s) -> quoted_wf v.

(* ---------------------------------------------------------------------------------------------------- *)
(* the effectful helpers never panic                                                                       *)
(* ---------------------------------------------------------------------------------------------------- *)
Lemma exec_cmd_np : forall c, NP (exec_cmd sh c).
Proof. intros c e. discriminate. Qed.
Lemma setenv_np : forall k v, NP (setenv k v).
Proof. intros k v e. unfold setenv, outcome. destruct (setenv_valid k v); discriminate. Qed.

Lemma subst_loop_np : forall ms cur, NP (subst_loop sh ms cur).
Proof.
  induction ms as [|m ms IH]; intros cur; simpl.
  - apply NP_ret.
  - apply NP_bind; [apply exec_cmd_np|]. intros [o|]; [apply IH | apply NP_lift; discriminate].
Qed.
Lemma substituteCommands_np : forall s, NP (substituteCommands sh s).
Proof. intros; apply subst_loop_np. Qed.

Lemma parseKeyValue_np : forall m, parseKeyValue m <> Panic.
Proof.
  induction m as [|[k v] m IH]; simpl; [discriminate|].
  destruct k; try discriminate. apply rbind_np; [exact IH | discriminate].
Qed.
Lemma env_pairs_of_list_np : forall l, env_pairs_of_list l <> Panic.
Proof.
  induction l as [|x l IH]; simpl; [discriminate|].
  destruct x; auto. apply rbind_np; [apply parseKeyValue_np|]. intros a. apply rbind_np; [exact IH | discriminate].
Qed.
Lemma env_pairs_np : forall v, env_pairs v <> Panic.
Proof. destruct v; simpl; try discriminate; [apply env_pairs_of_list_np | apply parseKeyValue_np]. Qed.

Lemma loadVariables_loop_np : forall noEval pairs vars, NP (loadVariables_loop sh noEval pairs vars).
Proof.
  intros noEval. induction pairs as [|[k raw] r IH]; intros vars; simpl.
  - apply NP_ret.
  - destruct noEval; [apply IH|]. intros e.
    apply (NP_bind _ _ (substituteCommands sh (expand_env e raw))); [apply substituteCommands_np|].
    intros value. apply NP_bind; [apply setenv_np|]. intros _. apply IH.
Qed.
Lemma loadVariables_np : forall v o, NP (loadVariables sh v o).
Proof.
  intros. unfold loadVariables. apply NP_bind; [apply NP_lift, env_pairs_np|]. intros. apply loadVariables_loop_np.
Qed.
Lemma buildEnvs_np : forall d o base, NP (buildEnvs sh d o base).
Proof. intros. unfold buildEnvs. apply NP_bind; [apply loadVariables_np|]. intros; apply NP_ret. Qed.

Lemma param_subst_loop_np : forall ms cur failed, NP (param_subst_loop sh ms cur failed).
Proof.
  induction ms as [|m ms IH]; intros cur failed; simpl.
  - apply NP_ret.
  - intros e. match goal with |- outcome (bind ?m0 ?f e) <> Panic => apply (NP_bind _ _ m0 f) end; [apply exec_cmd_np|].
    intros [o|]; apply IH.
Qed.
Lemma parseParamValue_one_np : forall eval nv, quoted_wf (snd nv) -> NP (parseParamValue_one sh eval nv).
Proof.
  intros eval [name value] Hq. unfold parseParamValue_one. unfold quoted_wf in Hq. cbn [snd] in Hq.
  destruct (prefixb (str1 c_dquote) value) eqn:Eq; cbn [andb orb].
  { rewrite (Hq eq_refl). destruct eval; [|apply NP_ret].
    apply NP_bind; [apply param_subst_loop_np|]. intros [v f]; simpl. destruct f; [apply NP_lift; discriminate | apply NP_ret]. }
  destruct (prefixb "`" value); [|apply NP_ret].
  destruct eval; [|apply NP_ret].
  apply NP_bind; [apply param_subst_loop_np|]. intros [v f]; simpl. destruct f; [apply NP_lift; discriminate | apply NP_ret].
Qed.
Lemma parseParamValue_np : forall eval toks, (forall nv, In nv toks -> quoted_wf (snd nv)) -> NP (parseParamValue sh eval toks).
Proof.
  intros eval. induction toks as [|t r IH]; simpl; intros H; [apply NP_ret|].
  apply NP_bind; [apply parseParamValue_one_np, H; auto|]. intros p.
  apply NP_bind; [apply IH; intros; apply H; auto|]. intros; apply NP_ret.
Qed.
Lemma parseParams_loop_np : forall eval noEval ps i r envs, NP (parseParams_loop eval noEval i ps r envs).
Proof.
  intros eval noEval. induction ps as [|[name v0] ps IH]; intros i r envs; simpl; [apply NP_ret|].
  intros e. match goal with |- outcome (bind ?m ?f e) <> Panic => apply (NP_bind _ _ m f) end;
    [destruct noEval; [apply NP_ret | apply setenv_np]|].
  intros _. destruct (negb noEval && negb (is_empty name)).
  - apply NP_bind; [apply setenv_np|]. intros _. apply IH.
  - apply IH.
Qed.
Lemma parseParams_np : forall value eval o, NP (parseParams tokenize sh value eval o).
Proof.
  intros. unfold parseParams. apply NP_bind; [|intros; apply parseParams_loop_np].
  apply parseParamValue_np. intros [n v] Hin. exact (tok_quoted _ _ _ Hin).
Qed.
Lemma buildParams_np : forall d o, NP (buildParams tokenize sh d o).
Proof. intros. unfold buildParams. apply NP_bind; [apply parseParams_np|]. intros; apply NP_ret. Qed.

Lemma buildLogDir_np : forall d o, NP (buildLogDir sh d o).
Proof. intros d o e. unfold buildLogDir. destruct (o_noEval o); [discriminate | apply substituteCommands_np]. Qed.
Lemma buildSMTPConfig_np : forall d, NP (buildSMTPConfig d).
Proof. intros d e. discriminate. Qed.

(* ---------------------------------------------------------------------------------------------------- *)
(* schedule (builder.go:173, parser.go:22-106)                                                            *)
(* ---------------------------------------------------------------------------------------------------- *)
Definition cron_ok (s : string) : bool := match parseCron cron s with CronOk => true | _ => false end.

Lemma parseCron_np : forall s, parseCron cron s <> CronPanic.
Proof.
  intros s H. unfold parseCron in H. destruct (tz_only s) eqn:E; [discriminate|].
  rewrite (cron_panic_tz s H) in E. discriminate.
Qed.

Lemma parseSchedules_np : forall l, parseSchedules cron l <> Panic.
Proof.
  induction l as [|v r IH]; simpl; [discriminate|].
  pose proof (parseCron_np v). destruct (parseCron cron v); try congruence; try discriminate.
  apply rbind_np; [exact IH | discriminate].
Qed.
Lemma parseSchedules_ok : forall l r, parseSchedules cron l = Ok r -> r = l /\ forallb cron_ok l = true.
Proof.
  induction l as [|v l IH]; simpl; intros r H.
  - inversion H; auto.
  - unfold cron_ok at 1. destruct (parseCron cron v); try discriminate.
    destruct (parseSchedules cron l) as [| |x] eqn:E; simpl in H; try discriminate.
    inversion H; subst. destruct (IH x eq_refl) as [-> H2]. auto.
Qed.

Lemma sched_values_loop_np : forall k vals acc, sched_values_loop cron k vals acc <> Panic.
Proof.
  intros k. induction vals as [|v r IH]; intros acc; simpl; [discriminate|].
  pose proof (parseCron_np v). destruct (parseCron cron v); try congruence; try discriminate.
  destruct acc as [[a b] c]. destruct k; try apply IH. discriminate.
Qed.

Lemma parseScheduleMap_np : forall m acc, parseScheduleMap cron m acc <> Panic.
Proof.
  induction m as [|[k v] m IH]; intros acc; simpl; [discriminate|].
  destruct k; try discriminate.
  destruct (match v with
            | VStr s0 => Ok [s0]
            | VList l => match strings_of l with Some x => Ok x | None => Err end
            | _ => Ok []
            end) as [| |vals] eqn:Ev; try discriminate.
  - exfalso. destruct v; try discriminate. destruct (strings_of l); discriminate.
  - destruct (skey_of s); try discriminate;
      (apply rbind_np; [apply sched_values_loop_np | intros; apply IH]).
Qed.

Lemma buildSchedule_np : forall d, buildSchedule cron d <> Panic.
Proof.
  intros d. unfold buildSchedule. apply rbind_np.
  - destruct (d_schedule d); try discriminate.
    + destruct (strings_of l); discriminate.
    + apply parseScheduleMap_np.
  - intros [[a b] c].
    apply rbind_np; [apply parseSchedules_np|]. intros x.
    apply rbind_np; [apply parseSchedules_np|]. intros y.
    apply rbind_np; [apply parseSchedules_np|]. discriminate.
Qed.

Lemma buildSchedule_ok : forall d a b c, buildSchedule cron d = Ok (a, b, c) ->
  forallb cron_ok a = true /\ forallb cron_ok b = true /\ forallb cron_ok c = true.
Proof.
  intros d a b c. unfold buildSchedule.
  destruct (match d_schedule d with
            | VStr s => Ok ([s], [], [])
            | VList l => match strings_of l with Some x => Ok (x, [], []) | None => Err end
            | VMap m => parseScheduleMap cron m ([], [], [])
            | VNull => Ok ([], [], [])
            | _ => Err
            end) as [| |[[x y] z]]; simpl; try discriminate.
  destruct (parseSchedules cron x) as [| |x'] eqn:Ex; simpl; try discriminate.
  destruct (parseSchedules cron y) as [| |y'] eqn:Ey; simpl; try discriminate.
  destruct (parseSchedules cron z) as [| |z'] eqn:Ez; simpl; try discriminate.
  intros H; inversion H; subst.
  destruct (parseSchedules_ok _ _ Ex) as [-> Hx]. destruct (parseSchedules_ok _ _ Ey) as [-> Hy].
  destruct (parseSchedules_ok _ _ Ez) as [-> Hz]. auto.
Qed.

(* ---------------------------------------------------------------------------------------------------- *)
(* steps, handlers, functions (builder.go:401-492, parser.go:251-321, assert.go)                          *)
(* ---------------------------------------------------------------------------------------------------- *)
Lemma find_func_np : forall fns name, forallb is_some fns = true -> find_func fns name <> Panic.
Proof.
  induction fns as [|[f|] fns IH]; simpl; intros name H; try discriminate.
  destruct (String.eqb (f_name f) name); [discriminate | apply IH, H].
Qed.
Lemma buildConditions_np : forall cs, forallb is_some cs = true -> buildConditions cs <> Panic.
Proof.
  induction cs as [|[c|] cs IH]; simpl; intros H; try discriminate.
  apply rbind_np; [apply IH, H | discriminate].
Qed.
Lemma call_args_np : forall args, call_args args <> Panic.
Proof.
  induction args as [|[k v] args IH]; simpl; [discriminate|].
  destruct v; try discriminate; (apply rbind_np; [exact IH | discriminate]).
Qed.
Lemma parseFuncCall_np : forall call fns, forallb is_some fns = true -> parseFuncCall call fns <> Panic.
Proof.
  intros [c|] fns H; simpl; [|discriminate].
  apply rbind_np; [apply call_args_np|]. intros passed.
  apply rbind_np; [apply find_func_np, H|]. discriminate.
Qed.
Lemma parseCommand_np : forall c cur, parseCommand c cur <> Panic.
Proof.
  intros c [[cwa cmd] args]. destruct c; simpl; try discriminate.
  - destruct (is_empty s); [discriminate|]. destruct (split_command s); discriminate.
  - destruct (command_list_loop l cmd args); discriminate.
Qed.
Lemma config_entries_np : forall m, config_entries m <> Panic.
Proof.
  induction m as [|[k v] m IH]; simpl; [discriminate|]. destruct k; try discriminate.
  apply rbind_np; [exact IH | discriminate].
Qed.
Lemma executor_entries_np : forall m typ cfg, executor_entries m typ cfg <> Panic.
Proof.
  induction m as [|[k v] m IH]; intros typ cfg; simpl; [discriminate|]. destruct k; try discriminate.
  destruct (String.eqb s "type").
  - destruct v; try discriminate. apply IH.
  - destruct (String.eqb s "config"); [|discriminate]. destruct v; try discriminate.
    apply rbind_np; [apply config_entries_np|]. intros; apply IH.
Qed.
Lemma parseExecutor_np : forall v, parseExecutor v <> Panic.
Proof.
  destruct v; simpl; try discriminate.
  apply rbind_np; [apply executor_entries_np|]. intros tc. destruct (forallb _ _); discriminate.
Qed.
Lemma parseSignal_np : forall s, parseSignal sig_ok s <> Panic.
Proof. intros [s|]; simpl; [destruct (sig_ok s)|]; discriminate. Qed.

Lemma assertStepDef_np : forall def fns, forallb is_some fns = true -> assertStepDef (Some def) fns <> Panic.
Proof.
  intros def fns H. unfold assertStepDef.
  destruct (is_empty (sd_name def)); [discriminate|].
  destruct (_ && _ && _ && _); [discriminate|].
  destruct (sd_call def) as [call|]; [|discriminate].
  apply rbind_np; [apply find_func_np, H|]. intros of. cbv zeta.
  repeat match goal with |- (if ?c then _ else _) <> Panic => destruct c end; discriminate.
Qed.

Lemma buildStep_np : forall vars def fns,
  forallb is_some fns = true -> conds_ok (sd_preconditions def) = true ->
  buildStep sig_ok vars (Some def) fns <> Panic.
Proof.
  intros vars def fns Hf Hc. unfold buildStep.
  apply rbind_np; [apply assertStepDef_np, Hf|]. intros _.
  apply rbind_np; [apply buildConditions_np, Hc|]. intros conds.
  apply rbind_np; [apply parseFuncCall_np, Hf|]. intros fc.
  apply rbind_np; [apply parseCommand_np|]. intros [[cwa cmd] args].
  apply rbind_np; [apply parseExecutor_np|]. intros ex.
  apply rbind_np; [apply parseSignal_np|]. intros sg. cbv zeta. destruct (step_executable _); discriminate.
Qed.

Lemma buildSteps_np : forall vars sds fns,
  forallb is_some fns = true -> forallb ostep_ok sds = true -> buildSteps sig_ok vars sds fns <> Panic.
Proof.
  intros vars sds fns Hf. induction sds as [|sd sds IH]; simpl; intros H; [discriminate|].
  apply andb_true_iff in H as [H1 H2]. destruct sd as [sd|]; [|discriminate].
  apply rbind_np; [apply buildStep_np; assumption|]. intros s.
  apply rbind_np; [apply IH, H2 | discriminate].
Qed.

Lemma buildHandler_np : forall vars n h fns,
  forallb is_some fns = true -> handler_ok h = true -> buildHandler sig_ok vars n h fns <> Panic.
Proof.
  intros vars n [sd|] fns Hf Hh; simpl; [|discriminate].
  apply rbind_np; [apply buildStep_np; [exact Hf | exact Hh] | discriminate].
Qed.

Lemma buildHandlers_np : forall vars h fns,
  forallb is_some fns = true -> handlers_ok h = true -> buildHandlers sig_ok vars h fns <> Panic.
Proof.
  intros vars h fns Hf H. unfold handlers_ok in H.
  apply andb_true_iff in H as [H Hc]. apply andb_true_iff in H as [H Hfa]. apply andb_true_iff in H as [He Hs].
  unfold buildHandlers.
  apply rbind_np; [apply buildHandler_np; assumption|]. intros ex.
  apply rbind_np; [apply buildHandler_np; assumption|]. intros su.
  apply rbind_np; [apply buildHandler_np; assumption|]. intros fa.
  apply rbind_np; [apply buildHandler_np; assumption|]. discriminate.
Qed.

Lemma assertFunctions_loop_np : forall fns seen, forallb is_some fns = true -> assertFunctions_loop fns seen <> Panic.
Proof.
  induction fns as [|[f|] fns IH]; simpl; intros seen H; try discriminate.
  destruct (existsb _ seen); [discriminate|]. destruct (list_eqb _ _ _); [apply IH, H | discriminate].
Qed.
Lemma assertFunctions_np : forall fns, forallb is_some fns = true -> assertFunctions fns <> Panic.
Proof. intros; apply assertFunctions_loop_np; assumption. Qed.

(* ---------------------------------------------------------------------------------------------------- *)
(* C13: the builder never panics on a definition without null elements - which is every definition the      *)
(* decode stage lets through (DecodeProofs.decode_no_nil)                                                   *)
(* ---------------------------------------------------------------------------------------------------- *)
Theorem build_no_panic : forall (o : opts) (d : definition) (base : list string),
  no_nil d = true ->
  forall e, outcome (build cron sig_ok tokenize sh o d base e) <> Panic.
Proof.
  intros o d base Hn. unfold no_nil in Hn.
  apply andb_true_iff in Hn as [Hn Hh]. apply andb_true_iff in Hn as [Hn Hp]. apply andb_true_iff in Hn as [Hst Hf].
  change (NP (build cron sig_ok tokenize sh o d base)). unfold build.
  apply NP_bind; [apply NP_try, buildEnvs_np|]. intros r_env.
  apply NP_bind; [apply NP_try, NP_lift, buildSchedule_np|]. intros r_sch.
  apply NP_bind; [apply NP_try, buildParams_np|]. intros r_par.
  destruct (o_metadataOnly o).
  - destruct r_env, r_sch, r_par; try apply NP_ret; apply NP_lift; discriminate.
  - apply NP_bind; [apply NP_try, NP_lift, buildSteps_np; assumption|]. intros r_steps.
    apply NP_bind; [apply NP_try, buildLogDir_np|]. intros r_log.
    apply NP_bind; [apply NP_try, NP_lift, buildHandlers_np; assumption|]. intros r_hs.
    apply NP_bind; [apply NP_try, buildSMTPConfig_np|]. intros r_smtp.
    apply NP_bind; [apply NP_try, NP_lift, buildConditions_np, Hp|]. intros r_pre.
    apply NP_bind; [apply NP_try, NP_lift, assertFunctions_np, Hf|]. intros r_fn.
    destruct r_env, r_sch, r_par, r_steps, r_log, r_hs, r_smtp, r_pre, r_fn; try apply NP_ret; apply NP_lift; discriminate.
Qed.

(* ---------------------------------------------------------------------------------------------------- *)
(* what an accepted DAG is made of                                                                         *)
(* ---------------------------------------------------------------------------------------------------- *)
Lemma build_ok_inv : forall o d base e g,
  outcome (build cron sig_ok tokenize sh o d base e) = Ok g ->
  exists env sch par,
    buildSchedule cron d = Ok sch /\
    (if o_metadataOnly o then g = mk_dag d env sch par [] "" (None, None, None, None) None false []
     else exists vars steps logDir hs smtp pre,
        buildSteps sig_ok vars (d_steps d) (d_functions d) = Ok steps /\
        buildHandlers sig_ok vars (d_handlerOn d) (d_functions d) = Ok hs /\
        buildConditions (d_preconditions d) = Ok pre /\
        assertFunctions (d_functions d) = Ok tt /\
        g = mk_dag d env sch par steps logDir hs (Some smtp) true pre).
Proof.
  intros o d base e g H. unfold build, bind, try_, lift, ret, outcome in H.
  destruct (buildEnvs sh d o base e) as [[r1 e1] l1].
  destruct r1 as [| |env]; simpl in H; try discriminate.
  all: destruct (buildSchedule cron d) as [| |sch] eqn:Esch; simpl in H; try discriminate.
  all: destruct (buildParams tokenize sh d o e1) as [[r3 e3] l3]; destruct r3 as [| |par]; simpl in H; try discriminate.
  all: destruct (o_metadataOnly o); simpl in H; try discriminate.
  all: try (inversion H; subst; exists env, sch, par; split; [reflexivity | reflexivity]).
  all: match type of H with context [buildSteps sig_ok ?v _ _] => set (vars := v) in * end.
  all: destruct (buildSteps sig_ok vars (d_steps d) (d_functions d)) as [| |steps] eqn:Est; simpl in H; try discriminate.
  all: destruct (buildLogDir sh d o e3) as [[r5 e5] l5]; destruct r5 as [| |logDir]; simpl in H; try discriminate.
  all: destruct (buildHandlers sig_ok vars (d_handlerOn d) (d_functions d)) as [| |hs] eqn:Ehs; simpl in H; try discriminate.
  all: destruct (buildConditions (d_preconditions d)) as [| |pre] eqn:Epre; simpl in H; try discriminate.
  all: destruct (assertFunctions (d_functions d)) as [| |[]] eqn:Efn; simpl in H; try discriminate.
  inversion H; subst. exists env, sch, par. split; [reflexivity|].
  exists vars, steps, logDir, hs, (let '(_, _, _) := (tt, tt, tt) in
     {| sm_host := expand_env e5 (sm_host (d_smtp d)); sm_port := expand_env e5 (sm_port (d_smtp d));
        sm_username := expand_env e5 (sm_username (d_smtp d)); sm_password := expand_env e5 (sm_password (d_smtp d)) |}), pre.
  repeat split; try assumption; reflexivity.
Qed.

(* ---------------------------------------------------------------------------------------------------- *)
(* C13: an accepted step has a name, a valid signal - and, outside the class of F13e, something to execute *)
(* ---------------------------------------------------------------------------------------------------- *)
Definition init_of (fc : option (list string * string * string)) : string * string * list string :=
  match fc with None => ("", "", []) | Some (args, cmd, cwa) => (cwa, cmd, args) end.

Lemma buildStep_ok_inv : forall vars def fns s,
  buildStep sig_ok vars (Some def) fns = Ok s ->
  exists conds fc cwa cmd args ex sg,
    assertStepDef (Some def) fns = Ok tt /\
    buildConditions (sd_preconditions def) = Ok conds /\
    parseFuncCall (sd_call def) fns = Ok fc /\
    parseCommand (sd_command def) (init_of fc) = Ok (cwa, cmd, args) /\
    parseExecutor (sd_executor def) = Ok ex /\
    parseSignal sig_ok (sd_signalOnStop def) = Ok sg /\
    st_name s = sd_name def /\ st_signalOnStop s = sg /\ st_preconditions s = conds /\
    st_execConfig s = snd ex /\ step_executable s = true /\
    (if is_empty (sd_run def)
     then st_execType s = fst ex /\ st_cmdWithArgs s = cwa /\ st_command s = cmd /\ st_subWorkflow s = None
     else st_subWorkflow s = Some (sd_run def, sd_params def)).
Proof.
  intros vars def fns s H. unfold buildStep in H.
  destruct (assertStepDef (Some def) fns) as [| |[]] eqn:Ea; simpl in H; try discriminate.
  destruct (buildConditions (sd_preconditions def)) as [| |conds] eqn:Ec; simpl in H; try discriminate.
  destruct (parseFuncCall (sd_call def) fns) as [| |fc] eqn:Ef; simpl in H; try discriminate.
  fold (init_of fc) in H.
  destruct (parseCommand (sd_command def) (init_of fc)) as [| |[[cwa cmd] args]] eqn:Ecmd; simpl in H; try discriminate.
  destruct (parseExecutor (sd_executor def)) as [| |ex] eqn:Eex; simpl in H; try discriminate.
  destruct (parseSignal sig_ok (sd_signalOnStop def)) as [| |sg] eqn:Esg; simpl in H; try discriminate.
  match type of H with (if step_executable ?x then _ else _) = _ => destruct (step_executable x) eqn:Eexe end;
    [|discriminate].
  inversion H; subst; clear H.
  exists conds, fc, cwa, cmd, args, ex, sg. simpl.
  destruct (is_empty (sd_run def)); simpl in *; repeat split; auto.
Qed.

Lemma assertStepDef_name : forall def fns, assertStepDef (Some def) fns = Ok tt -> is_empty (sd_name def) = false.
Proof. intros def fns. unfold assertStepDef. destruct (is_empty (sd_name def)); [discriminate | reflexivity]. Qed.

Lemma parseSignal_ok : forall s sg, parseSignal sig_ok s = Ok sg -> sg = "" \/ sig_ok sg = true.
Proof.
  intros [s|] sg; simpl; [|intros H; inversion H; auto].
  destruct (sig_ok s) eqn:E; intros H; inversion H; subst; auto.
Qed.

Definition step_wf (s : step) : Prop :=
  is_empty (st_name s) = false /\ (st_signalOnStop s = "" \/ sig_ok (st_signalOnStop s) = true).

Lemma buildStep_wf : forall vars def fns s, buildStep sig_ok vars (Some def) fns = Ok s -> step_wf s.
Proof.
  intros vars def fns s H. destruct (buildStep_ok_inv _ _ _ _ H) as (conds & fc & cwa & cmd & args & ex & sg & Ha & _ & _ & _ & _ & Hs & Hn & Hsg & _).
  split.
  - rewrite Hn. eapply assertStepDef_name; eauto.
  - rewrite Hsg. eapply parseSignal_ok; eauto.
Qed.

(* fix aac42fa: the last test of buildStep *)
Lemma buildStep_executable : forall vars def fns s,
  buildStep sig_ok vars (Some def) fns = Ok s -> step_executable s = true.
Proof.
  intros vars def fns s H.
  destruct (buildStep_ok_inv _ _ _ _ H) as (conds & fc & cwa & cmd & args & ex & sg & _ & _ & _ & _ & _ & _ & _ & _ & _ & _ & He & _).
  exact He.
Qed.

Lemma buildSteps_ok : forall vars sds fns steps,
  buildSteps sig_ok vars sds fns = Ok steps ->
  forall s, In s steps -> exists def, In (Some def) sds /\ buildStep sig_ok vars (Some def) fns = Ok s.
Proof.
  intros vars sds fns. induction sds as [|sd sds IH]; simpl; intros steps H s Hin.
  - inversion H; subst. destruct Hin.
  - destruct (buildStep sig_ok vars sd fns) as [| |s1] eqn:E1; simpl in H; try discriminate.
    destruct (buildSteps sig_ok vars sds fns) as [| |rest] eqn:E2; simpl in H; try discriminate.
    inversion H; subst. destruct Hin as [<-|Hin].
    + destruct sd as [def|].
      * exists def. auto.
      * unfold buildStep in E1. simpl in E1. discriminate.
    + destruct (IH rest eq_refl s Hin) as (def & Hd & Hb). exists def. auto.
Qed.

Lemma buildHandler_ok : forall vars n h fns s,
  buildHandler sig_ok vars n h fns = Ok (Some s) ->
  exists sd, h = Some sd /\ buildStep sig_ok vars (Some (with_name n sd)) fns = Ok s.
Proof.
  intros vars n [sd|] fns s H; simpl in H; [|discriminate].
  destruct (buildStep sig_ok vars (Some (with_name n sd)) fns) eqn:E; simpl in H; try discriminate.
  inversion H; subst. exists sd. auto.
Qed.

Lemma buildHandlers_ok : forall vars h fns ex su fa ca,
  buildHandlers sig_ok vars h fns = Ok (ex, su, fa, ca) ->
  buildHandler sig_ok vars "onExit" (h_exit h) fns = Ok ex /\
  buildHandler sig_ok vars "onSuccess" (h_success h) fns = Ok su /\
  buildHandler sig_ok vars "onFailure" (h_failure h) fns = Ok fa /\
  buildHandler sig_ok vars "onCancel" (h_cancel h) fns = Ok ca.
Proof.
  intros vars h fns ex su fa ca H. unfold buildHandlers in H.
  destruct (buildHandler sig_ok vars "onExit" (h_exit h) fns) eqn:E1; simpl in H; try discriminate.
  destruct (buildHandler sig_ok vars "onSuccess" (h_success h) fns) eqn:E2; simpl in H; try discriminate.
  destruct (buildHandler sig_ok vars "onFailure" (h_failure h) fns) eqn:E3; simpl in H; try discriminate.
  destruct (buildHandler sig_ok vars "onCancel" (h_cancel h) fns) eqn:E4; simpl in H; try discriminate.
  inversion H; subst. auto.
Qed.

(* every step of an accepted DAG was built by buildStep from a step definition or from a handler definition *)
Definition handler_defs (h : handlerOnDef) : list (string * option stepDef) :=
  [("onExit", h_exit h); ("onSuccess", h_success h); ("onFailure", h_failure h); ("onCancel", h_cancel h)].

Lemma all_steps_origin : forall o d base e g,
  outcome (build cron sig_ok tokenize sh o d base e) = Ok g ->
  forall s, In s (all_steps g) ->
  exists vars def, buildStep sig_ok vars (Some def) (d_functions d) = Ok s /\
    (In (Some def) (d_steps d) \/ exists n sd, In (n, Some sd) (handler_defs (d_handlerOn d)) /\ def = with_name n sd).
Proof.
  intros o d base e g H s Hin.
  destruct (build_ok_inv _ _ _ _ _ H) as (env & sch & par & _ & Hrest).
  destruct (o_metadataOnly o).
  - subst g. simpl in Hin. destruct Hin.
  - destruct Hrest as (vars & steps & logDir & [[[ex su] fa] ca] & smtp & pre & Hst & Hhs & _ & _ & Hg).
    subst g. unfold all_steps in Hin. simpl in Hin. apply in_app_iff in Hin as [Hin|Hin].
    + destruct (buildSteps_ok _ _ _ _ Hst s Hin) as (def & Hd & Hb). exists vars, def. auto.
    + destruct (buildHandlers_ok _ _ _ _ _ _ _ Hhs) as (H1 & H2 & H3 & H4).
      assert (Hh : forall n h, In (n, h) (handler_defs (d_handlerOn d)) -> buildHandler sig_ok vars n h (d_functions d) = Ok (Some s) ->
                   exists vars def, buildStep sig_ok vars (Some def) (d_functions d) = Ok s /\
                     (In (Some def) (d_steps d) \/ exists n sd, In (n, Some sd) (handler_defs (d_handlerOn d)) /\ def = with_name n sd)).
      { intros n h Hn Hb. destruct (buildHandler_ok _ _ _ _ _ Hb) as (sd & -> & Hbs).
        exists vars, (with_name n sd). split; [exact Hbs|]. right. exists n, sd. auto. }
      unfold handler_defs in Hh.
      destruct ex as [x|]; simpl in Hin.
      { destruct Hin as [<-|Hin]; [eapply Hh; [|exact H1]; simpl; auto|].
        destruct su as [y|]; simpl in Hin.
        { destruct Hin as [<-|Hin]; [eapply Hh; [|exact H2]; simpl; auto|].
          destruct fa as [z|]; simpl in Hin.
          { destruct Hin as [<-|Hin]; [eapply Hh; [|exact H3]; simpl; auto|].
            destruct ca as [w|]; simpl in Hin; [|destruct Hin].
            destruct Hin as [<-|[]]. eapply Hh; [|exact H4]; simpl; auto. }
          destruct ca as [w|]; simpl in Hin; [|destruct Hin].
          destruct Hin as [<-|[]]. eapply Hh; [|exact H4]; simpl; auto. }
        destruct fa as [z|]; simpl in Hin.
        { destruct Hin as [<-|Hin]; [eapply Hh; [|exact H3]; simpl; auto|].
          destruct ca as [w|]; simpl in Hin; [|destruct Hin].
          destruct Hin as [<-|[]]. eapply Hh; [|exact H4]; simpl; auto. }
        destruct ca as [w|]; simpl in Hin; [|destruct Hin].
        destruct Hin as [<-|[]]. eapply Hh; [|exact H4]; simpl; auto. }
      destruct su as [y|]; simpl in Hin.
      { destruct Hin as [<-|Hin]; [eapply Hh; [|exact H2]; simpl; auto|].
        destruct fa as [z|]; simpl in Hin.
        { destruct Hin as [<-|Hin]; [eapply Hh; [|exact H3]; simpl; auto|].
          destruct ca as [w|]; simpl in Hin; [|destruct Hin].
          destruct Hin as [<-|[]]. eapply Hh; [|exact H4]; simpl; auto. }
        destruct ca as [w|]; simpl in Hin; [|destruct Hin].
        destruct Hin as [<-|[]]. eapply Hh; [|exact H4]; simpl; auto. }
      destruct fa as [z|]; simpl in Hin.
      { destruct Hin as [<-|Hin]; [eapply Hh; [|exact H3]; simpl; auto|].
        destruct ca as [w|]; simpl in Hin; [|destruct Hin].
        destruct Hin as [<-|[]]. eapply Hh; [|exact H4]; simpl; auto. }
      destruct ca as [w|]; simpl in Hin; [|destruct Hin].
      destruct Hin as [<-|[]]. eapply Hh; [|exact H4]; simpl; auto.
Qed.

Theorem build_wf : forall o d base e g,
  outcome (build cron sig_ok tokenize sh o d base e) = Ok g ->
  (forall s, In s (all_steps g) -> step_wf s) /\
  forallb cron_ok (g_schedule g) = true /\ forallb cron_ok (g_stopSchedule g) = true /\
  forallb cron_ok (g_restartSchedule g) = true.
Proof.
  intros o d base e g H. split.
  - intros s Hin. destruct (all_steps_origin _ _ _ _ _ H s Hin) as (vars & def & Hb & _).
    eapply buildStep_wf; eauto.
  - destruct (build_ok_inv _ _ _ _ _ H) as (env & [[a b] c] & par & Hs & Hrest).
    destruct (buildSchedule_ok _ _ _ _ Hs) as (Ha & Hb & Hc).
    destruct (o_metadataOnly o).
    + subst g; simpl; auto.
    + destruct Hrest as (vars & steps & logDir & hs & smtp & pre & _ & _ & _ & _ & ->). simpl; auto.
Qed.

(* C13: every accepted step and handler has something to execute (full statement; before fix aac42fa the
   model accepted `command: []`, `command: [""]`, `executor: ""` and calls of parameter-only functions) *)
Theorem build_executable : forall o d base e g,
  outcome (build cron sig_ok tokenize sh o d base e) = Ok g ->
  forall s, In s (all_steps g) -> step_executable s = true.
Proof.
  intros o d base e g H s Hin.
  destruct (all_steps_origin _ _ _ _ _ H s Hin) as (vars & def & Hb & _).
  eapply buildStep_executable; eauto.
Qed.

(* "runnable": the pointer fields the runner dereferences without a test (agent.setup: SMTP; reporter.go: ErrorMail,
   InfoMail) are set in every DAG a full (not metadata-only) build accepts *)
Theorem build_runner_pointers : forall o d base e g,
  outcome (build cron sig_ok tokenize sh o d base e) = Ok g -> o_metadataOnly o = false ->
  is_some (g_smtp g) = true /\ is_some (g_errorMail g) = true /\ is_some (g_infoMail g) = true.
Proof.
  intros o d base e g H Hm. destruct (build_ok_inv _ _ _ _ _ H) as (env & sch & par & _ & Hrest).
  rewrite Hm in Hrest. destruct Hrest as (vars & steps & logDir & hs & smtp & pre & _ & _ & _ & _ & ->).
  simpl. auto.
Qed.

(* ---------------------------------------------------------------------------------------------------- *)
(* C13: the status of an accepted DAG is serialisable (full statement since fix 667fb54)                  *)
(* ---------------------------------------------------------------------------------------------------- *)
(* induction over untyped trees (nested through lists and lists of pairs) *)
Section yv_induction.
  Variable P : yv -> Prop.
  Hypothesis Hnull : P VNull.
  Hypothesis Hbool : forall b, P (VBool b).
  Hypothesis Hint : forall z, P (VInt z).
  Hypothesis Hfloat : forall k r t, P (VFloat k r t).
  Hypothesis Hstr : forall s, P (VStr s).
  Hypothesis Hlist : forall l, Forall P l -> P (VList l).
  Hypothesis Hmap : forall m, Forall (fun kv => P (fst kv) /\ P (snd kv)) m -> P (VMap m).
  Fixpoint yv_ind2 (v : yv) : P v :=
    match v with
    | VNull => Hnull
    | VBool b => Hbool b
    | VInt z => Hint z
    | VFloat k r t => Hfloat k r t
    | VStr s => Hstr s
    | VList l => Hlist l ((fix go (l : list yv) : Forall P l :=
                             match l with
                             | [] => Forall_nil P
                             | x :: r => Forall_cons x (yv_ind2 x) (go r)
                             end) l)
    | VMap m => Hmap m ((fix go (m : list (yv * yv)) : Forall (fun kv => P (fst kv) /\ P (snd kv)) m :=
                           match m with
                           | [] => Forall_nil _
                           | kv :: r => Forall_cons kv (conj (yv_ind2 (fst kv)) (yv_ind2 (snd kv))) (go r)
                           end) m)
    end.
End yv_induction.

(* what convertValue lets through, json.Marshal encodes *)
Lemma conv_ok_json : forall v, conv_ok v = true -> json_conv v = true.
Proof.
  induction v using yv_ind2; simpl; auto.
  - intros Hc. rewrite forallb_forall in Hc. apply forallb_forall. intros x Hx.
    rewrite Forall_forall in H. apply H; auto.
  - intros Hc. rewrite forallb_forall in Hc. apply forallb_forall. intros kv Hkv.
    rewrite Forall_forall in H. destruct (H kv Hkv) as [_ Hs]. apply Hs.
    specialize (Hc kv Hkv). apply andb_true_iff in Hc as [_ Hc]. exact Hc.
Qed.

Definition cfg_ok (es : list (string * yv)) : bool := forallb (fun kv => json_conv (snd kv)) es.

Lemma parseExecutor_json : forall v ex, parseExecutor v = Ok ex -> cfg_ok (snd ex) = true.
Proof.
  intros v ex H. destruct v; simpl in H; try discriminate; try (inversion H; reflexivity).
  destruct (executor_entries m "" []) as [| |[t c]] eqn:E; simpl in H; try discriminate.
  destruct (forallb (fun kv => conv_ok (snd kv)) c) eqn:Ec; [|discriminate]. inversion H; subst. simpl.
  unfold cfg_ok. apply forallb_forall. intros kv Hkv. rewrite forallb_forall in Ec. apply conv_ok_json, Ec, Hkv.
Qed.

Lemma json_ok_all_steps : forall g, (forall s, In s (all_steps g) -> step_json_ok s = true) -> json_ok g = true.
Proof.
  intros g H. unfold json_ok, all_steps in *.
  assert (H1 : forallb step_json_ok (g_steps g) = true).
  { apply forallb_forall. intros s Hs. apply H. apply in_app_iff; auto. }
  assert (H2 : forall o, In o [g_onExit g; g_onSuccess g; g_onFailure g; g_onCancel g] -> ostep_json_ok o = true).
  { intros [s|] Ho; simpl; [|reflexivity]. apply H. apply in_app_iff. right. apply in_flat_map.
    exists (Some s). split; [exact Ho | simpl; auto]. }
  rewrite H1. rewrite !H2; simpl; auto 6.
Qed.

(* the status of every accepted DAG marshals, and the live status endpoint of the agent does not reach its
   nil *httpError path (before fix 667fb54: false for executor config holding a mapping inside a list or NaN / Inf) *)
Theorem build_serialisable : forall o d base e g,
  outcome (build cron sig_ok tokenize sh o d base e) = Ok g ->
  json_ok g = true /\ serve_status g = Ok tt.
Proof.
  intros o d base e g H.
  assert (Hj : json_ok g = true).
  { apply json_ok_all_steps. intros s Hin.
    destruct (all_steps_origin _ _ _ _ _ H s Hin) as (vars & def & Hb & _).
    destruct (buildStep_ok_inv _ _ _ _ Hb) as (conds & fc & cwa & cmd & args & ex & sg & _ & _ & _ & _ & Hex & _ & _ & _ & _ & Hcfg & _).
    unfold step_json_ok. rewrite Hcfg. exact (parseExecutor_json _ _ Hex). }
  split; [exact Hj|]. unfold serve_status. rewrite Hj. reflexivity.
Qed.

(* ---------------------------------------------------------------------------------------------------- *)
(* C13: evaluating conditions - of an accepted DAG or any others - does not crash                           *)
(* ---------------------------------------------------------------------------------------------------- *)
(* full statement (before fix 089471d an `expected:` with the re: prefix whose pattern does not compile made
   evalCondition panic through a nil logger) *)
Lemma evalCondition_np : forall c, NP (evalCondition re_ok sh cond_met c).
Proof.
  intros c e. unfold evalCondition.
  match goal with |- outcome (bind ?m ?f e) <> Panic => apply (NP_bind _ _ m f) end; [apply substituteCommands_np|].
  intros actual. destruct (_ && _); apply NP_ret.
Qed.

Theorem evalConditions_np : forall cs, NP (evalConditions re_ok sh cond_met cs).
Proof.
  induction cs as [|c cs IH]; simpl; [apply NP_ret|].
  apply NP_bind; [apply evalCondition_np|]. intros [|]; [apply IH | apply NP_lift; discriminate].
Qed.

(* ---------------------------------------------------------------------------------------------------- *)
(* C19: under noEval the builder has no effect and leaves the environment as it is (full statement)          *)
(* ---------------------------------------------------------------------------------------------------- *)
Lemma loadVariables_loop_quiet : forall e pairs vars, quiet e (loadVariables_loop sh true pairs vars).
Proof. intros e. induction pairs as [|[k raw] r IH]; intros vars; simpl; [apply quiet_ret | apply IH]. Qed.

Lemma buildEnvs_quiet : forall e d o base, o_noEval o = true -> quiet e (buildEnvs sh d o base).
Proof.
  intros e d o base Hn. unfold buildEnvs, loadVariables. rewrite Hn.
  apply quiet_bind; [|intros; apply quiet_ret].
  apply quiet_bind; [apply quiet_lift | intros; apply loadVariables_loop_quiet].
Qed.

Lemma parseParamValue_quiet : forall e toks, quiet e (parseParamValue sh false toks).
Proof.
  intros e. induction toks as [|[name value] r IH]; simpl; [apply quiet_ret|].
  apply quiet_bind.
  - destruct (_ && _); [apply quiet_lift|]. destruct (_ || _); apply quiet_ret.
  - intros p. apply quiet_bind; [exact IH | intros; apply quiet_ret].
Qed.

(* fix a55d876: no positional parameter is exported under noEval *)
Lemma parseParams_loop_quiet : forall e eval ps i r envs, quiet e (parseParams_loop eval true i ps r envs).
Proof.
  intros e eval. induction ps as [|[name v0] ps IH]; intros i r envs; simpl; [apply quiet_ret|].
  unfold quiet. simpl.
  match goal with |- context [bind ?m ?f e] => change (quiet e (bind m f)) end.
  apply quiet_bind; [apply quiet_ret|]. intros _. apply IH.
Qed.

Lemma buildParams_quiet : forall e d o, o_noEval o = true -> quiet e (buildParams tokenize sh d o).
Proof.
  intros e d o Hn. unfold buildParams, parseParams. rewrite Hn. simpl.
  apply quiet_bind; [|intros; apply quiet_ret].
  apply quiet_bind; [apply parseParamValue_quiet | intros; apply parseParams_loop_quiet].
Qed.

(* fix 4348d0d: no command substitution in logDir under noEval *)
Lemma buildLogDir_quiet : forall e d o, o_noEval o = true -> quiet e (buildLogDir sh d o).
Proof. intros e d o Hn. unfold quiet, buildLogDir. rewrite Hn. simpl. auto. Qed.

Lemma buildSMTPConfig_quiet : forall e d, quiet e (buildSMTPConfig d).
Proof. intros; split; reflexivity. Qed.

Theorem build_no_effects : forall o d base e,
  o_noEval o = true ->
  effects (build cron sig_ok tokenize sh o d base e) = [] /\ env_after (build cron sig_ok tokenize sh o d base e) = e.
Proof.
  intros o d base e Hn. change (quiet e (build cron sig_ok tokenize sh o d base)). unfold build.
  apply quiet_bind; [apply quiet_try, buildEnvs_quiet, Hn|]. intros r_env.
  apply quiet_bind; [apply quiet_try, quiet_lift|]. intros r_sch.
  apply quiet_bind; [apply quiet_try, buildParams_quiet, Hn|]. intros r_par.
  destruct (o_metadataOnly o) eqn:Em.
  - destruct r_env, r_sch, r_par; try apply quiet_ret; apply quiet_lift.
  - apply quiet_bind; [apply quiet_try, quiet_lift|]. intros r_steps.
    apply quiet_bind; [apply quiet_try, buildLogDir_quiet, Hn|]. intros r_log.
    apply quiet_bind; [apply quiet_try, quiet_lift|]. intros r_hs.
    apply quiet_bind; [apply quiet_try, buildSMTPConfig_quiet|]. intros r_smtp.
    apply quiet_bind; [apply quiet_try, quiet_lift|]. intros r_pre.
    apply quiet_bind; [apply quiet_try, quiet_lift|]. intros r_fn.
    destruct r_env, r_sch, r_par, r_steps, r_log, r_hs, r_smtp, r_pre, r_fn; try apply quiet_ret; apply quiet_lift.
Qed.

(* C19: with or without evaluation, the effects of a load are those of env, params and logDir - in this
   order - and of nothing else (steps, handlers, conditions, mail settings, functions are never evaluated
   at load time) *)
Theorem build_effects : forall o d base e,
  outcome (build cron sig_ok tokenize sh o d base e) <> Panic ->
  let x1 := buildEnvs sh d o base e in
  let x2 := buildParams tokenize sh d o (env_after x1) in
  let x3 := buildLogDir sh d o (env_after x2) in
  effects (build cron sig_ok tokenize sh o d base e) =
  effects x1 ++ effects x2 ++ (if o_metadataOnly o then [] else effects x3).
Proof.
  intros o d base e H. unfold build, bind, try_, lift, ret, outcome, effects, env_after in *.
  destruct (buildEnvs sh d o base e) as [[r1 e1] l1].
  destruct r1 as [| |env]; simpl in *; try congruence.
  all: destruct (buildSchedule cron d) as [| |sch]; simpl in *; try congruence.
  all: destruct (buildParams tokenize sh d o e1) as [[r3 e3] l3]; destruct r3 as [| |par]; simpl in *; try congruence.
  all: destruct (o_metadataOnly o); simpl in *.
  all: try (rewrite ?app_nil_r; reflexivity).
  all: try (destruct env; destruct sch; destruct par; simpl; rewrite ?app_nil_r; reflexivity).
  all: match goal with |- context [buildSteps sig_ok ?v _ _] => remember v as vars eqn:Hv; clear Hv end.
  all: destruct (buildSteps sig_ok vars (d_steps d) (d_functions d)) as [| |steps]; simpl in *; try congruence.
  all: destruct (buildLogDir sh d o e3) as [[r5 e5] l5]; destruct r5 as [| |logDir]; simpl in *; try congruence.
  all: destruct (buildHandlers sig_ok vars (d_handlerOn d) (d_functions d)) as [| |hs]; simpl in *; try congruence.
  all: destruct (buildConditions (d_preconditions d)) as [| |pre]; simpl in *; try congruence.
  all: destruct (assertFunctions (d_functions d)) as [| |[]]; simpl in *; try congruence.
  all: rewrite ?app_nil_r; reflexivity.
Qed.

End Proofs.
