(* Loader model (C13, C19): internal/dag/{builder,parser,assert,condition}.go, function by function.

   Input  : the DECODED DEFINITION - a record mirroring definition.go.  Typed fields hold values of their
            type, pointer fields are options, slices of pointers may hold None, `any` fields hold the
            untyped tree `yv`.
   Output : `build opts def env : outcome * env' * effect log`.  A Go nil dereference, failed type assertion
            or out-of-range slice is the explicit outcome Panic (not a default value).  The effect log has
            one entry per exec.Command(...).Output() of the two command-substitution helpers and one per
            successful os.Setenv; reads of the environment (os.ExpandEnv) are not effects.

   Library behaviour enters as parameters of the functions (Section variables):
     cron     : verdict of cronParser.Parse on a string (parses / error / PANIC - robfig's TZ= slice bug);
                to be instantiated by Cron.parse once coq/Cron/Model.v exists;
     sig_ok   : unix.SignalNum s <> 0;           re_ok : regexp.Compile s = nil;
     tokenize : the matches (name, value) of the parameter regular expression of parser.go:173;
     sh       : trimmed output of an executed command, None = the command failed;
     cond_met : result of patternutil.MatchPattern for (actual, expected) when it does not crash.
   Executable Gallina only; proofs are in Proofs.v. *)
From Coq Require Import List ZArith String Ascii Bool Arith.
Import ListNotations.
From BD.Loader Require Import Str.
Open Scope string_scope.
Open Scope list_scope.
Notation "a +++ b" := (String.append a b) (at level 60, right associativity).

(* ---- untyped YAML tree -------------------------------------------------------------------------- *)
Inductive fkind := FFin | FNaN | FInf.
Inductive yv :=
| VNull
| VBool (b : bool)
| VInt (z : Z)
| VFloat (k : fkind) (repr : string) (tr : Z)   (* repr = fmt %v of the float, tr = int64(f) *)
| VStr (s : string)
| VList (l : list yv)
| VMap (m : list (yv * yv)).

Definition is_null (v : yv) : bool := match v with VNull => true | _ => false end.
Definition is_vstr (v : yv) : bool := match v with VStr _ => true | _ => false end.
Definition is_vint (v : yv) : bool := match v with VInt _ => true | _ => false end.
Definition is_fin (k : fkind) : bool := match k with FFin => true | _ => false end.

(* fmt.Sprintf("%v", v) for the values yaml.v2 produces.  Maps print with sorted keys (internal/fmtsort):
   modelled for all-string and all-int key sets; mixed key kinds keep document order (the correspondence
   does not generate them in formatted positions). *)
Definition key_leb (a b : yv * string) : bool :=
  match fst a, fst b with
  | VStr x, VStr y => sleb x y
  | VInt x, VInt y => Z.leb x y
  | _, _ => true
  end.
Fixpoint fmt_v (v : yv) : string :=
  match v with
  | VNull => "<nil>"
  | VBool true => "true"
  | VBool false => "false"
  | VInt z => string_of_Z z
  | VFloat _ r _ => r
  | VStr s => s
  | VList l => "[" +++ join " " (map fmt_v l) +++ "]"
  | VMap m =>
      let ents := map (fun kv => (fst kv, fmt_v (fst kv) +++ ":" +++ fmt_v (snd kv))) m in
      let sorted := if forallb (fun kv => is_vstr (fst kv)) m || forallb (fun kv => is_vint (fst kv)) m
                    then isort key_leb ents else ents in
      "map[" +++ join " " (map snd sorted) +++ "]"
  end.

(* ---- the decoded definition (definition.go) ------------------------------------------------------ *)
Record conditionDef := { c_condition : string; c_expected : string }.
Record funcDef := { f_name : string; f_params : string; f_command : string }.
Record callFuncDef := { cf_function : string; cf_args : list (string * yv) }.
Record continueOnDef := { co_failure : bool; co_skipped : bool }.
Record repeatPolicyDef := { rp_repeat : bool; rp_intervalSec : Z }.
Record retryPolicyDef := { rt_limit : Z; rt_intervalSec : Z }.
Record stepDef := {
  sd_name : string; sd_description : string; sd_dir : string;
  sd_executor : yv; sd_command : yv;
  sd_script : string; sd_stdout : string; sd_stderr : string; sd_output : string;
  sd_depends : list string;
  sd_continueOn : option continueOnDef; sd_retryPolicy : option retryPolicyDef; sd_repeatPolicy : option repeatPolicyDef;
  sd_mailOnError : bool;
  sd_preconditions : list (option conditionDef);
  sd_signalOnStop : option string;
  sd_env : string;
  sd_call : option callFuncDef;
  sd_run : string; sd_params : string }.
Record handlerOnDef := { h_failure : option stepDef; h_success : option stepDef; h_cancel : option stepDef; h_exit : option stepDef }.
Record smtpConfigDef := { sm_host : string; sm_port : string; sm_username : string; sm_password : string }.
Record mailConfigDef := { mc_from : string; mc_to : string; mc_prefix : string; mc_attachLogs : bool }.
Record mailOnDef := { mo_failure : bool; mo_success : bool }.
Record definition := {
  d_name : string; d_group : string; d_description : string;
  d_schedule : yv; d_logDir : string; d_env : yv;
  d_handlerOn : handlerOnDef;
  d_functions : list (option funcDef);
  d_steps : list (option stepDef);
  d_smtp : smtpConfigDef; d_mailOn : option mailOnDef; d_errorMail : mailConfigDef; d_infoMail : mailConfigDef;
  d_timeoutSec : Z; d_delaySec : Z; d_restartWaitSec : Z;
  d_histRetentionDays : option Z;
  d_preconditions : list (option conditionDef);
  d_maxActiveRuns : Z; d_params : string; d_maxCleanUpTimeSec : option Z;
  d_tags : yv }.

(* ---- the built DAG (dag.go / step.go), the fields the loader fills -------------------------------- *)
Record condition := { cond_condition : string; cond_expected : string }.
Record step := {
  st_name : string; st_description : string; st_script : string; st_stdout : string; st_stderr : string;
  st_output : string; st_dir : string; st_variables : list string; st_depends : list string;
  st_mailOnError : bool; st_preconditions : list condition;
  st_execType : string; st_execConfig : list (string * yv);   (* Config after convertMap: see json_conv *)
  st_cmdWithArgs : string; st_command : string; st_args : list string;
  st_subWorkflow : option (string * string);
  st_continueOn : bool * bool; st_retryPolicy : option (Z * Z); st_repeatPolicy : bool * Z;
  st_signalOnStop : string;
  st_fromCall : bool }.   (* ghost: the step was built from a `call` (its Args follow the iteration order of a Go map) *)
Record dag := {
  g_name : string; g_group : string; g_description : string; g_tags : list string;
  g_schedule : list string; g_stopSchedule : list string; g_restartSchedule : list string;
  g_env : list string; g_logDir : string; g_defaultParams : string; g_params : list string;
  g_steps : list step;
  g_onExit : option step; g_onSuccess : option step; g_onFailure : option step; g_onCancel : option step;
  g_preconditions : list condition;
  g_smtp : option smtpConfigDef; g_errorMail : option mailConfigDef; g_infoMail : option mailConfigDef;
  g_mailOn : option mailOnDef;
  g_timeout : Z; g_delay : Z; g_restartWait : Z; g_maxActiveRuns : Z; g_maxCleanUpTime : Z; g_histRetentionDays : Z }.

(* ---- outcomes, effects, the monad ----------------------------------------------------------------- *)
Inductive res (A : Type) := Panic | Err | Ok (a : A).
Arguments Panic {A}. Arguments Err {A}. Arguments Ok {A} a.

Inductive effect := EExec (cmd : string) | ESetenv (k v : string).

Definition envt := list (string * string).
Fixpoint getenv (e : envt) (k : string) : string :=
  match e with [] => "" | (k', v) :: r => if String.eqb k k' then v else getenv r k end.
Definition expand_env (e : envt) (s : string) : string := expand (getenv e) s.

Definition M (A : Type) := envt -> res A * envt * list effect.
Definition ret {A} (a : A) : M A := fun e => (Ok a, e, []).
Definition lift {A} (r : res A) : M A := fun e => (r, e, []).
Definition bind {A B} (m : M A) (f : A -> M B) : M B :=
  fun e => let '(r, e1, l1) := m e in
           match r with
           | Ok a => let '(r2, e2, l2) := f a e1 in (r2, e2, l1 ++ l2)
           | Err => (Err, e1, l1)
           | Panic => (Panic, e1, l1)
           end.
Notation "x <- m ;; f" := (bind m (fun x => f)) (at level 61, m at next level, right associativity).

Definition rbind {A B} (r : res A) (f : A -> res B) : res B :=
  match r with Ok a => f a | Err => Err | Panic => Panic end.
Notation "x <~ m ;; f" := (rbind m (fun x => f)) (at level 61, m at next level, right associativity).

Definition outcome {A} (x : res A * envt * list effect) : res A := fst (fst x).
Definition effects {A} (x : res A * envt * list effect) : list effect := snd x.
Definition env_after {A} (x : res A * envt * list effect) : envt := snd (fst x).

(* syscall.Setenv: EINVAL for an empty key, a key holding '=' or NUL, a value holding NUL *)
Definition setenv_valid (k v : string) : bool :=
  negb (is_empty k) && negb (existsb_str (fun c => aeqb c c_eq || aeqb c c_nul) k) && negb (contains_char c_nul v).
Definition setenv (k v : string) : M unit :=
  fun e => if setenv_valid k v then (Ok tt, (k, v) :: e, [ESetenv k v]) else (Err, e, []).

Inductive cronv := CronOk | CronErr | CronPanic.

Record opts := { o_metadataOnly : bool; o_noEval : bool; o_parameters : string }.

Section Loader.
Variable cron : string -> cronv.
Variable sig_ok : string -> bool.
Variable re_ok : string -> bool.
Variable tokenize : string -> list (string * string).
Variable sh : string -> option string.
Variable cond_met : string -> string -> bool.

(* exec.Command(...).Output() *)
Definition exec_cmd (c : string) : M (option string) := fun e => (Ok (sh c), e, [EExec c]).

(* ---- builder.go:788 substituteCommands ---------------------------------------------------------- *)
(* matches are computed once on the (trimmed) input; trimming cannot change them: white space outside
   back-ticks is outside every match.  Each match is executed (command text = match without back-ticks,
   split by util.SplitCommand, run without a shell) and replaced everywhere in the running result. *)
Fixpoint subst_loop (ms : list string) (cur : string) : M string :=
  match ms with
  | [] => ret cur
  | m :: rest =>
      out <- exec_cmd (replace_all "`" "" m) ;;
      match out with
      | None => lift Err
      | Some o => subst_loop rest (replace_all m o cur)
      end
  end.
Definition substituteCommands (input : string) : M string := subst_loop (ticker_matches input) input.

(* ---- parser.go:20 parseCron (fix 519d0a6): a spec that is a time zone prefix only - the input on which
   the cron library slices out of range - is rejected before the library is called ------------------- *)
Definition tz_only (s : string) : bool :=
  (prefixb "TZ=" s || prefixb "CRON_TZ=" s) && negb (contains_char c_space s).
Definition parseCron (s : string) : cronv := if tz_only s then CronErr else cron s.

(* ---- parser.go:33 parseSchedules ------------------------------------------------------------------ *)
Fixpoint parseSchedules (values : list string) : res (list string) :=
  match values with
  | [] => Ok []
  | v :: r => match parseCron v with
              | CronPanic => Panic
              | CronErr => Err
              | CronOk => rest <~ parseSchedules r ;; Ok (v :: rest)
              end
  end.

(* values of one schedule-map entry / of a schedule list: strings only *)
Fixpoint strings_of (l : list yv) : option (list string) :=
  match l with
  | [] => Some []
  | VStr s :: r => match strings_of r with Some x => Some (s :: x) | None => None end
  | _ :: _ => None
  end.

(* parser.go:65 parseScheduleMap.  The Go code ranges over a map: the entries arrive in some order; the
   model takes them in the order of the list (theorems quantify over all lists, the correspondence tries
   the permutations).  A key other than start / stop / restart is an error (fix c2912bd; before it
   `targets` stayed a nil *[]string and appending through it was a nil dereference). *)
Inductive skey := KStart | KStop | KRestart | KUnknown.
Definition skey_of (s : string) : skey :=
  if String.eqb s "start" then KStart else if String.eqb s "stop" then KStop
  else if String.eqb s "restart" then KRestart else KUnknown.

Fixpoint sched_values_loop (k : skey) (vals : list string) (acc : list string * list string * list string)
  : res (list string * list string * list string) :=
  match vals with
  | [] => Ok acc
  | v :: r =>
      match parseCron v with
      | CronPanic => Panic
      | CronErr => Err
      | CronOk =>
          let '(a, b, c) := acc in
          match k with
          | KStart => sched_values_loop k r (a ++ [v], b, c)
          | KStop => sched_values_loop k r (a, b ++ [v], c)
          | KRestart => sched_values_loop k r (a, b, c ++ [v])
          | KUnknown => Err                                     (* not reached: rejected by the caller *)
          end
      end
  end.

Fixpoint parseScheduleMap (m : list (yv * yv)) (acc : list string * list string * list string)
  : res (list string * list string * list string) :=
  match m with
  | [] => Ok acc
  | (k, v) :: r =>
      match k with
      | VStr key =>
          match (match v with
                 | VStr s => Ok [s]
                 | VList l => match strings_of l with Some x => Ok x | None => Err end
                 | _ => Ok []
                 end) with
          | Ok vals =>
              match skey_of key with
              | KUnknown => Err                                  (* errInvalidScheduleKey *)
              | k => acc' <~ sched_values_loop k vals acc ;; parseScheduleMap r acc'
              end
          | Err => Err
          | Panic => Panic
          end
      | _ => Err                                                 (* errScheduleKeyMustBeString *)
      end
  end.

(* builder.go:173 buildSchedule *)
Definition buildSchedule (d : definition) : res (list string * list string * list string) :=
  sss <~ (match d_schedule d with
          | VStr s => Ok ([s], [], [])
          | VList l => match strings_of l with Some x => Ok (x, [], []) | None => Err end
          | VMap m => parseScheduleMap m ([], [], [])
          | VNull => Ok ([], [], [])
          | _ => Err
          end) ;;
  let '(starts, stops, restarts) := sss in
  a <~ parseSchedules starts ;;
  b <~ parseSchedules stops ;;
  c <~ parseSchedules restarts ;;
  Ok (a, b, c).

(* ---- parser.go:230 parseKeyValue, builder.go:351 loadVariables ------------------------------------ *)
Fixpoint parseKeyValue (m : list (yv * yv)) : res (list (string * string)) :=
  match m with
  | [] => Ok []
  | (VStr k, v) :: r =>
      rest <~ parseKeyValue r ;;
      Ok ((k, match v with VStr s => s | _ => fmt_v v end) :: rest)
  | _ :: _ => Err                                                (* errInvalidKeyType *)
  end.

Fixpoint env_pairs_of_list (l : list yv) : res (list (string * string)) :=
  match l with
  | [] => Ok []
  | VMap m :: r => a <~ parseKeyValue m ;; b <~ env_pairs_of_list r ;; Ok (a ++ b)
  | _ :: r => env_pairs_of_list r
  end.

Definition env_pairs (v : yv) : res (list (string * string)) :=
  match v with
  | VMap m => parseKeyValue m
  | VList l => env_pairs_of_list l
  | _ => Ok []
  end.

(* vars is a Go map: a later pair with the same key overwrites *)
Fixpoint vars_set (vars : list (string * string)) (k v : string) : list (string * string) :=
  match vars with
  | [] => [(k, v)]
  | (k', v') :: r => if String.eqb k k' then (k, v) :: r else (k', v') :: vars_set r k v
  end.

Fixpoint loadVariables_loop (noEval : bool) (pairs vars : list (string * string)) : M (list (string * string)) :=
  match pairs with
  | [] => ret vars
  | (k, raw) :: r =>
      if noEval then loadVariables_loop noEval r (vars_set vars k raw)
      else
        fun e =>
          (value <- substituteCommands (expand_env e raw) ;;
           u_ <- setenv k value ;;
           loadVariables_loop noEval r (vars_set vars k value)) e
  end.

Definition loadVariables (v : yv) (o : opts) : M (list (string * string)) :=
  pairs <- lift (env_pairs v) ;;
  loadVariables_loop (o_noEval o) pairs [].

(* builder.go:736 buildConfigEnv (map order is arbitrary: compared as a set) *)
Definition buildConfigEnv (vars : list (string * string)) : list string :=
  map (fun kv => fst kv +++ "=" +++ snd kv) vars.

(* builder.go:239 buildEnvs; the base configuration's variables not redefined here are appended *)
Definition buildEnvs (d : definition) (o : opts) (base : list string) : M (list string) :=
  vars <- loadVariables (d_env d) o ;;
  ret (buildConfigEnv vars ++
       filter (fun e => negb (existsb (fun kv => String.eqb (fst kv) (hd "" (split_char c_eq e))) vars)) base).

(* ---- parser.go:109 parseParams / :170 parseParamValue -------------------------------------------- *)
(* one back-tick match of a quoted / back-ticked value: sh -c <expanded text>; all matches are executed,
   a failure is remembered and the text kept *)
Fixpoint param_subst_loop (ms : list string) (cur : string) (failed : bool) : M (string * bool) :=
  match ms with
  | [] => ret (cur, failed)
  | m :: rest =>
      fun e =>
        (let cmdStr := expand_env e (trim_char c_btick m) in
         out <- exec_cmd ("sh -c " +++ cmdStr) ;;                          (* exec.Command("sh", "-c", cmdStr) *)
         match out with
         | None => param_subst_loop rest cur true
         | Some o => param_subst_loop rest (replace_all m o cur) failed
         end) e
  end.
(* ReplaceAllStringFunc replaces match by match, left to right; replacing the first occurrence of each
   match in turn is the same as long as outputs hold no back-ticks; the model replaces all occurrences of
   the match text (equal texts give equal outputs). *)

(* a value matched by the quoted alternative starts and ends with one delimiting quote; the Go code slices
   value[1 : len(value)-1] (fix 0f1faec; before it strings.Trim removed every leading / trailing quote): out of
   range - a Panic - on a one-character value, which the regular expression never produces (hypothesis
   tok_quoted of the theorems) *)
Definition parseParamValue_one (eval : bool) (nv : string * string) : M (string * string) :=
  let (name, value) := nv in
  if prefixb (str1 c_dquote) value && Nat.ltb (slen value) 2 then lift Panic
  else
  if prefixb (str1 c_dquote) value || prefixb "`" value then
    let value1 := if prefixb (str1 c_dquote) value
                  then replace_all (str1 c_bslash +++ str1 c_dquote) (str1 c_dquote) (strip_ends value)
                  else value in
    if eval then
      vf <- param_subst_loop (backtick_matches value1) value1 false ;;
      if snd vf then lift Err else ret (name, fst vf)
    else ret (name, value1)
  else ret (name, value).

Fixpoint parseParamValue (eval : bool) (toks : list (string * string)) : M (list (string * string)) :=
  match toks with
  | [] => ret []
  | t :: r => p <- parseParamValue_one eval t ;; rest <- parseParamValue eval r ;; ret (p :: rest)
  end.

Definition stringifyParam (p : string * string) : string :=
  if is_empty (fst p) then snd p else fst p +++ "=" +++ snd p.

(* the loop of parseParams: i counts from 1 *)
Fixpoint parseParams_loop (eval noEval : bool) (i : nat) (ps : list (string * string)) (ret_ envs : list string)
  : M (list string * list string) :=
  match ps with
  | [] => ret (ret_, envs)
  | (name, v0) :: r =>
      fun e =>
        (let value := if eval then expand_env e v0 else v0 in
         let strParam := stringifyParam (name, value) in
         let positional := if is_empty name then value else strParam in
         u_ <- (if noEval then ret tt else setenv (string_of_nat i) positional) ;;   (* parser.go:150 (fix a55d876) *)
         if negb noEval && negb (is_empty name) then
           u_ <- setenv name value ;;
           parseParams_loop eval noEval (S i) r (ret_ ++ [strParam]) (envs ++ [strParam])
         else parseParams_loop eval noEval (S i) r (ret_ ++ [strParam]) envs) e
  end.

Definition parseParams (value : string) (eval : bool) (o : opts) : M (list string * list string) :=
  parsed <- parseParamValue eval (tokenize value) ;;
  parseParams_loop eval (o_noEval o) 1 parsed [] [].

(* builder.go:269 buildParams: (DefaultParams, Params, extra Env) *)
Definition buildParams (d : definition) (o : opts) : M (string * list string * list string) :=
  let params := if is_empty (o_parameters o) then d_params d else o_parameters o in
  pe <- parseParams params (negb (o_noEval o)) o ;;
  ret (d_params d, fst pe, snd pe).

(* ---- builder.go:262 buildLogDir: expanded always, commands substituted only when evaluating (fix 4348d0d) *)
Definition buildLogDir (d : definition) (o : opts) : M string :=
  fun e => if o_noEval o then ret (expand_env e (d_logDir d)) e
           else substituteCommands (expand_env e (d_logDir d)) e.

(* ---- builder.go:746 buildConditions: v.Condition on a nil element ---------------------------------- *)
Fixpoint buildConditions (cs : list (option conditionDef)) : res (list condition) :=
  match cs with
  | [] => Ok []
  | None :: _ => Panic
  | Some c :: r => rest <~ buildConditions r ;;
                   Ok ({| cond_condition := c_condition c; cond_expected := c_expected c |} :: rest)
  end.

(* ---- assert.go:35 assertStepDef -------------------------------------------------------------------- *)
(* the loop over the function definitions reads funcDef.Name of every element up to the match *)
Fixpoint find_func (fns : list (option funcDef)) (name : string) : res (option funcDef) :=
  match fns with
  | [] => Ok None
  | None :: _ => Panic
  | Some f :: r => if String.eqb (f_name f) name then Ok (Some f) else find_func r name
  end.
Definition empty_func := {| f_name := ""; f_params := ""; f_command := "" |}.

Definition has_arg (args : list (string * yv)) (k : string) : bool := existsb (fun kv => String.eqb (fst kv) k) args.

Definition assertStepDef (od : option stepDef) (fns : list (option funcDef)) : res unit :=
  match od with
  | None => Panic                                                 (* def.Name on a nil *stepDef *)
  | Some def =>
      if is_empty (sd_name def) then Err
      else if is_null (sd_executor def) && is_null (sd_command def) &&
              (match sd_call def with None => true | Some _ => false end) && is_empty (sd_run def) then Err
      else match sd_call def with
           | None => Ok tt
           | Some call =>
               of <~ find_func fns (cf_function call) ;;
               let f := match of with Some f => f | None => empty_func end in
               if is_empty (f_name f) then Err
               else let defined := split_char c_space (f_params f) in
                    if negb (Nat.eqb (List.length (cf_args call)) (List.length defined)) then Err
                    else if forallb (has_arg (cf_args call)) defined then Ok tt else Err
           end
  end.

(* assert.go:6 assertFunctions *)
Fixpoint assertFunctions_loop (fns : list (option funcDef)) (seen : list string) : res unit :=
  match fns with
  | [] => Ok tt
  | None :: _ => Panic                                            (* funcDef.Name on a nil *funcDef *)
  | Some f :: r =>
      if existsb (String.eqb (f_name f)) seen then Err
      else if list_eqb String.eqb (split_char c_space (f_params f)) (extract_param_names (f_command f))
           then assertFunctions_loop r (f_name f :: seen)
           else Err
  end.
Definition assertFunctions (fns : list (option funcDef)) : res unit := assertFunctions_loop fns [].

(* ---- parser.go:251 parseFuncCall ------------------------------------------------------------------- *)
Fixpoint call_args (args : list (string * yv)) : res (list (string * string)) :=
  match args with
  | [] => Ok []
  | (k, VStr s) :: r => rest <~ call_args r ;; Ok ((k, s) :: rest)
  | (k, VInt z) :: r => rest <~ call_args r ;; Ok ((k, string_of_Z z) :: rest)
  | _ :: _ => Err                                                 (* errArgsMustBeConvertibleToIntOrString *)
  end.

(* builder.go:684 assignValues (the Go map is ranged over; list order here) *)
Definition assignValues (command : string) (params : list (string * string)) : string :=
  fold_left (fun acc kv => replace_all ("$" +++ fst kv) (snd kv) acc) params command.

(* result: (Args, Command, CmdWithArgs) when there is a call *)
Definition parseFuncCall (call : option callFuncDef) (fns : list (option funcDef))
  : res (option (list string * string * string)) :=
  match call with
  | None => Ok None
  | Some c =>
      passed <~ call_args (cf_args c) ;;
      of <~ find_func fns (cf_function c) ;;
      let f := match of with Some f => f | None => empty_func end in
      Ok (Some (map snd passed, strip_params (f_command f), assignValues (f_command f) passed))
  end.

(* ---- builder.go:640 parseCommand: (CmdWithArgs, Command, Args) updated ----------------------------- *)
Fixpoint command_list_loop (l : list yv) (cmd : string) (args : list string) : string * list string :=
  match l with
  | [] => (cmd, args)
  | v :: r =>
      let val := match v with VStr s => s | _ => fmt_v v end in
      if is_empty cmd then command_list_loop r val args else command_list_loop r cmd (args ++ [val])
  end.

Definition parseCommand (command : yv) (cur : string * string * list string) : res (string * string * list string) :=
  let '(cwa, cmd, args) := cur in
  match command with
  | VNull => Ok cur
  | VStr s => if is_empty s then Err
              else let (c, a) := split_command s in Ok (s, c, a)
  | VList l => let (c, a) := command_list_loop l cmd args in Ok (cwa, c, a)
  | _ => Err
  end.

(* ---- builder.go:550 parseExecutor, :697 convertMap --------------------------------------------------- *)
(* convertMap / convertValue (fix 667fb54): every mapping inside the executor config - also those inside lists -
   is converted to map[string]any, which asks for string keys; NaN and infinity are refused.  (Before the fix
   only maps reached through maps were converted and floats were not looked at.) *)
Fixpoint conv_ok (v : yv) : bool :=
  match v with
  | VMap m => forallb (fun kv => is_vstr (fst kv) && conv_ok (snd kv)) m
  | VList l => forallb conv_ok l
  | VFloat k _ _ => is_fin k
  | _ => true
  end.

Fixpoint config_entries (m : list (yv * yv)) : res (list (string * yv)) :=
  match m with
  | [] => Ok []
  | (VStr k, v) :: r => rest <~ config_entries r ;; Ok ((k, v) :: rest)
  | _ :: _ => Err
  end.

(* entries of the executor map, folded over (type, config) *)
Fixpoint executor_entries (m : list (yv * yv)) (typ : string) (cfg : list (string * yv)) : res (string * list (string * yv)) :=
  match m with
  | [] => Ok (typ, cfg)
  | (VStr key, v) :: r =>
      if String.eqb key "type" then
        match v with VStr t => executor_entries r t cfg | _ => Err end
      else if String.eqb key "config" then
        match v with
        | VMap cm => es <~ config_entries cm ;; executor_entries r typ (cfg ++ es)
        | _ => Err
        end
      else Err                                                    (* errExecutorHasInvalidKey *)
  | _ :: _ => Err                                                 (* errExecutorConfigMustBeString *)
  end.

Definition parseExecutor (executor : yv) : res (string * list (string * yv)) :=
  match executor with
  | VNull => Ok ("", [])
  | VStr s => Ok (s, [])
  | VMap m =>
      tc <~ executor_entries m "" [] ;;
      if forallb (fun kv => conv_ok (snd kv)) (snd tc) then Ok tc else Err
  | _ => Err
  end.

(* ---- parser.go:292 parseMiscs (signalOnStop) --------------------------------------------------------- *)
Definition parseSignal (s : option string) : res string :=
  match s with
  | None => Ok ""
  | Some sg => if sig_ok sg then Ok sg else Err
  end.

(* what "runnable" asks of a step: a name and something to execute *)
Definition step_executable (s : step) : bool :=
  negb (is_empty (st_command s)) || negb (is_empty (st_cmdWithArgs s)) || negb (is_empty (st_execType s)) ||
  (match st_subWorkflow s with Some _ => true | None => false end).

(* ---- builder.go:467 buildStep; its last test (fix aac42fa): the step must end up with something to execute *)
Definition buildStep (variables : list string) (od : option stepDef) (fns : list (option funcDef)) : res step :=
  u_ <~ assertStepDef od fns ;;
  match od with
  | None => Panic
  | Some def =>
      conds <~ buildConditions (sd_preconditions def) ;;
      fc <~ parseFuncCall (sd_call def) fns ;;
      let init := match fc with
                  | None => ("", "", [])
                  | Some (args, cmd, cwa) => (cwa, cmd, args)
                  end in
      c3 <~ parseCommand (sd_command def) init ;;
      ex <~ parseExecutor (sd_executor def) ;;
      let '(cwa, cmd, args) := c3 in
      let sub := negb (is_empty (sd_run def)) in                 (* parseSubWorkflow *)
      sg <~ parseSignal (sd_signalOnStop def) ;;
      let s :=
         {| st_name := sd_name def; st_description := sd_description def; st_script := sd_script def;
            st_stdout := sd_stdout def; st_stderr := sd_stderr def; st_output := sd_output def; st_dir := sd_dir def;
            st_variables := variables; st_depends := sd_depends def; st_mailOnError := sd_mailOnError def;
            st_preconditions := conds;
            st_execType := if sub then "subworkflow" else fst ex;
            st_execConfig := snd ex;
            st_cmdWithArgs := if sub then sd_run def +++ " " +++ sd_params def else cwa;
            st_command := if sub then "run" else cmd;
            st_args := if sub then [sd_run def; sd_params def] else args;
            st_subWorkflow := if sub then Some (sd_run def, sd_params def) else None;
            st_continueOn := match sd_continueOn def with Some c => (co_failure c, co_skipped c) | None => (false, false) end;
            st_retryPolicy := match sd_retryPolicy def with Some r => Some (rt_limit r, rt_intervalSec r) | None => None end;
            st_repeatPolicy := match sd_repeatPolicy def with Some r => (rp_repeat r, rp_intervalSec r) | None => (false, 0%Z) end;
            st_signalOnStop := sg;
            st_fromCall := match sd_call def with Some _ => true | None => false end |} in
      if step_executable s then Ok s else Err                       (* errStepCommandIsEmpty *)
  end.

(* builder.go:401 buildSteps *)
Fixpoint buildSteps (variables : list string) (sds : list (option stepDef)) (fns : list (option funcDef)) : res (list step) :=
  match sds with
  | [] => Ok []
  | sd :: r => s <~ buildStep variables sd fns ;; rest <~ buildSteps variables r fns ;; Ok (s :: rest)
  end.

(* builder.go:289 buildHandlers: the handler's name is overwritten before the step is built *)
Definition with_name (n : string) (sd : stepDef) : stepDef :=
  {| sd_name := n; sd_description := sd_description sd; sd_dir := sd_dir sd; sd_executor := sd_executor sd;
     sd_command := sd_command sd; sd_script := sd_script sd; sd_stdout := sd_stdout sd; sd_stderr := sd_stderr sd;
     sd_output := sd_output sd; sd_depends := sd_depends sd; sd_continueOn := sd_continueOn sd;
     sd_retryPolicy := sd_retryPolicy sd; sd_repeatPolicy := sd_repeatPolicy sd; sd_mailOnError := sd_mailOnError sd;
     sd_preconditions := sd_preconditions sd; sd_signalOnStop := sd_signalOnStop sd; sd_env := sd_env sd;
     sd_call := sd_call sd; sd_run := sd_run sd; sd_params := sd_params sd |}.

Definition buildHandler (variables : list string) (n : string) (h : option stepDef) (fns : list (option funcDef)) : res (option step) :=
  match h with
  | None => Ok None
  | Some sd => s <~ buildStep variables (Some (with_name n sd)) fns ;; Ok (Some s)
  end.

Definition buildHandlers (variables : list string) (h : handlerOnDef) (fns : list (option funcDef))
  : res (option step * option step * option step * option step) :=
  ex <~ buildHandler variables "onExit" (h_exit h) fns ;;
  su <~ buildHandler variables "onSuccess" (h_success h) fns ;;
  fa <~ buildHandler variables "onFailure" (h_failure h) fns ;;
  ca <~ buildHandler variables "onCancel" (h_cancel h) fns ;;
  Ok (ex, su, fa, ca).

(* parser.go:335 parseTags *)
Definition parseTags (v : yv) : list string :=
  match v with
  | VStr s => filter (fun t => negb (is_empty t)) (map (fun x => lower (trim_space x)) (split_char c_comma s))
  | VList l => map (fun x => lower (trim_space (match x with VStr s => s | _ => fmt_v x end))) l
  | _ => []
  end.

(* builder.go:420 buildSMTPConfig (reads the environment) *)
Definition buildSMTPConfig (d : definition) : M smtpConfigDef :=
  fun e => ret {| sm_host := expand_env e (sm_host (d_smtp d)); sm_port := expand_env e (sm_port (d_smtp d));
                  sm_username := expand_env e (sm_username (d_smtp d)); sm_password := expand_env e (sm_password (d_smtp d)) |} e.

(* ---- builder.go:107 build --------------------------------------------------------------------------- *)
(* every builder function runs in the order of the Go code; an error is collected (b.errs) and the next one
   still runs; a panic unwinds at once.  `try_` = callBuilderFunc: the result of a builder function is kept
   as an option (None = its error was collected); the DAG is assembled at the end and returned only when no
   error was collected.  b.dag.Env, which buildSteps / buildHandlers hand to the steps as Variables, is what
   buildEnvs produced (nothing after an error) followed by what buildParams added. *)
Definition try_ {A} (m : M A) : M (option A) :=
  fun e => let '(r, e1, l1) := m e in
           match r with
           | Ok a => (Ok (Some a), e1, l1)
           | Err => (Ok None, e1, l1)
           | Panic => (Panic, e1, l1)
           end.

Definition mk_dag (d : definition) (env : list string) (sch : list string * list string * list string)
    (par : string * list string * list string) (steps : list step) (logDir : string)
    (hs : option step * option step * option step * option step) (smtp : option smtpConfigDef)
    (full : bool) (pre : list condition) : dag :=
  {| g_name := d_name d; g_group := d_group d; g_description := d_description d; g_tags := parseTags (d_tags d);
     g_schedule := fst (fst sch); g_stopSchedule := snd (fst sch); g_restartSchedule := snd sch;
     g_env := env ++ snd par; g_logDir := logDir; g_defaultParams := fst (fst par); g_params := snd (fst par);
     g_steps := steps;
     g_onExit := fst (fst (fst hs)); g_onSuccess := snd (fst (fst hs)); g_onFailure := snd (fst hs); g_onCancel := snd hs;
     g_preconditions := pre; g_smtp := smtp;
     g_errorMail := if full then Some (d_errorMail d) else None; g_infoMail := if full then Some (d_infoMail d) else None;
     g_mailOn := d_mailOn d;
     g_timeout := d_timeoutSec d; g_delay := d_delaySec d; g_restartWait := d_restartWaitSec d;
     g_maxActiveRuns := if full then d_maxActiveRuns d else 0%Z;
     g_maxCleanUpTime := if full then match d_maxCleanUpTimeSec d with Some z => z | None => 0%Z end else 0%Z;
     g_histRetentionDays := if full then match d_histRetentionDays d with Some z => z | None => 0%Z end else 0%Z |}.

Definition odefault {A} (x : A) (o : option A) : A := match o with Some a => a | None => x end.

Definition build (o : opts) (d : definition) (base : list string) : M dag :=
  r_env <- try_ (buildEnvs d o base) ;;
  r_sch <- try_ (lift (buildSchedule d)) ;;
  (* buildMailOn cannot fail *)
  r_par <- try_ (buildParams d o) ;;
  let vars := odefault [] r_env ++ match r_par with Some p => snd p | None => [] end in
  if o_metadataOnly o then
    match r_env, r_sch, r_par with
    | Some env, Some sch, Some par => ret (mk_dag d env sch par [] "" (None, None, None, None) None false [])
    | _, _, _ => lift Err
    end
  else
    r_steps <- try_ (lift (buildSteps vars (d_steps d) (d_functions d))) ;;
    r_log <- try_ (buildLogDir d o) ;;
    r_hs <- try_ (lift (buildHandlers vars (d_handlerOn d) (d_functions d))) ;;
    r_smtp <- try_ (buildSMTPConfig d) ;;
    (* buildErrMailConfig / buildInfoMailConfig cannot fail *)
    r_pre <- try_ (lift (buildConditions (d_preconditions d))) ;;      (* buildMiscs *)
    r_fn <- try_ (lift (assertFunctions (d_functions d))) ;;
    match r_env, r_sch, r_par, r_steps, r_log, r_hs, r_smtp, r_pre, r_fn with
    | Some env, Some sch, Some par, Some steps, Some logDir, Some hs, Some smtp, Some pre, Some _ =>
        ret (mk_dag d env sch par steps logDir hs (Some smtp) true pre)
    | _, _, _, _, _, _, _, _, _ => lift Err
    end.

(* ---- condition.go:33 evalCondition, patternutil.go:35 MatchPatternScanner ---------------------------- *)
(* the condition is evaluated first (a failing command returns an error before any pattern is compiled);
   an expected value with the `re:` prefix is compiled; a compile error is logged (through the default
   logger since fix 089471d; before it through a nil logger: a nil dereference) and the pattern is
   dropped, so nothing can match *)
Definition evalCondition (c : condition) : M bool :=
  fun e =>
    (actual <- substituteCommands (expand_env e (cond_condition c)) ;;
     if prefixb "re:" (cond_expected c) && negb (re_ok (cond_expected c)) then ret false
     else ret (cond_met actual (cond_expected c))) e.

Fixpoint evalConditions (cs : list condition) : M bool :=
  match cs with
  | [] => ret true
  | c :: r => ok <- evalCondition c ;; if ok then evalConditions r else lift Err
  end.

End Loader.

(* ---- status.go / node.go: is the status of an accepted DAG serialisable? ----------------------------- *)
(* json.Marshal fails on map[interface{}]interface{} (whatever it holds) and on NaN / Inf.  The executor config
   a step stores went through convertValue (fix 667fb54): every mapping in it, at any depth, is a
   map[string]interface{}.  What can still stop the encoder is a non-finite float. *)
Fixpoint json_conv (v : yv) : bool :=
  match v with
  | VMap m => forallb (fun kv => json_conv (snd kv)) m
  | VList l => forallb json_conv l
  | VFloat k _ _ => is_fin k
  | _ => true
  end.
Definition step_json_ok (s : step) : bool := forallb (fun kv => json_conv (snd kv)) (st_execConfig s).
Definition ostep_json_ok (s : option step) : bool := match s with Some x => step_json_ok x | None => true end.
Definition json_ok (g : dag) : bool :=
  forallb step_json_ok (g_steps g) && ostep_json_ok (g_onExit g) && ostep_json_ok (g_onSuccess g) &&
  ostep_json_ok (g_onFailure g) && ostep_json_ok (g_onCancel g).

(* agent.go:267-283, 508-515: the live status endpoint marshals the status; on failure encodeError calls
   httpErr.Error() on a nil *httpError *)
Definition serve_status (g : dag) : res unit := if json_ok g then Ok tt else Panic.

Definition all_steps (g : dag) : list step :=
  g_steps g ++ flat_map (fun o => match o with Some s => [s] | None => [] end)
                        [g_onExit g; g_onSuccess g; g_onFailure g; g_onCancel g].
Definition all_conditions (g : dag) : list condition :=
  g_preconditions g ++ flat_map st_preconditions (all_steps g).

(* ---- definition.go assertNoNullElements (fix c021988), called by decode: no null element in steps,
   functions or any preconditions list ------------------------------------------------------------------- *)
Definition is_some {A} (o : option A) : bool := match o with Some _ => true | None => false end.
Definition conds_ok (cs : list (option conditionDef)) : bool := forallb is_some cs.
Definition stepdef_ok (sd : stepDef) : bool := conds_ok (sd_preconditions sd).
Definition ostep_ok (o : option stepDef) : bool := match o with Some sd => stepdef_ok sd | None => false end.
Definition handler_ok (o : option stepDef) : bool := match o with Some sd => stepdef_ok sd | None => true end.
Definition handlers_ok (h : handlerOnDef) : bool :=
  handler_ok (h_exit h) && handler_ok (h_success h) && handler_ok (h_failure h) && handler_ok (h_cancel h).
Definition no_nil (d : definition) : bool :=
  forallb ostep_ok (d_steps d) && forallb is_some (d_functions d) && conds_ok (d_preconditions d) &&
  handlers_ok (d_handlerOn d).
