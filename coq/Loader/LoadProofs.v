(* decode + build (loadYAML / loadDAG without base configuration): the theorems of Proofs.v and DecodeProofs.v
   put together over ALL untyped trees. *)
From Coq Require Import List ZArith String Ascii Bool Arith.
Import ListNotations.
From BD.Loader Require Import Str Model Decode Proofs DecodeProofs.
Open Scope string_scope.
Open Scope list_scope.

(* C13: loading any tree never panics.  Two hypotheses remain, both about libraries: the cron parser panics on
   nothing but a spec that is a bare TZ= / CRON_TZ= prefix - which parseCron no longer hands to it (fix 519d0a6);
   a parameter value the tokenizer's regular expression matched with its quoted alternative holds its two quotes. *)
Theorem load_no_panic :
  forall (cron : string -> cronv) (sig_ok : string -> bool) (tokenize : string -> list (string * string))
         (sh : string -> option string),
  (forall s, cron s = CronPanic -> tz_only s = true) ->
  (forall s n v, In (n, v) (tokenize s) -> quoted_wf v) ->
  forall (o : opts) (root : yv) (e : envt),
  outcome (load_tree cron sig_ok tokenize sh o root e) <> Panic.
Proof.
  intros cron sig_ok tokenize sh Hc Ht o root e. unfold load_tree.
  pose proof (decode_no_panic root) as Hdec.
  destruct (decode root) as [| |d] eqn:E; try congruence; try discriminate.
  apply build_no_panic; [exact Hc | exact Ht | exact (decode_no_nil _ _ E)].
Qed.

(* C19: loading any tree with noEval has no effect and leaves the environment as it is *)
Theorem load_no_effects :
  forall (cron : string -> cronv) (sig_ok : string -> bool) (tokenize : string -> list (string * string))
         (sh : string -> option string) (o : opts) (root : yv) (e : envt),
  o_noEval o = true ->
  effects (load_tree cron sig_ok tokenize sh o root e) = [] /\ env_after (load_tree cron sig_ok tokenize sh o root e) = e.
Proof.
  intros cron sig_ok tokenize sh o root e Hn. unfold load_tree.
  destruct (decode root) as [| |d] eqn:E; try (split; reflexivity).
  apply build_no_effects; assumption.
Qed.

(* C19: the display path (load without evaluation + graph construction for validation) adds no effect *)
Lemma graph_nodes_quiet : forall e ss, quiet e (graph_nodes ss).
Proof.
  intros e. induction ss as [|s r IH]; simpl; [apply quiet_ret|].
  apply quiet_bind; [apply quiet_ret|]. intros x. apply quiet_bind; [exact IH | intros; apply quiet_ret].
Qed.

Theorem display_no_effects :
  forall (cron : string -> cronv) (sig_ok : string -> bool) (tokenize : string -> list (string * string))
         (sh : string -> option string) (o : opts) (root : yv) (e : envt),
  o_noEval o = true ->
  effects (display cron sig_ok tokenize sh o root e) = [] /\ env_after (display cron sig_ok tokenize sh o root e) = e.
Proof.
  intros cron sig_ok tokenize sh o root e Hn. change (quiet e (display cron sig_ok tokenize sh o root)).
  unfold display. apply quiet_bind; [exact (load_no_effects cron sig_ok tokenize sh o root e Hn)|].
  intros g. apply quiet_bind; [apply graph_nodes_quiet | intros; apply quiet_ret].
Qed.
