(* decode + build (loadYAML / loadDAG without base configuration): the theorems of Proofs.v and DecodeProofs.v
   put together over untyped trees. *)
From Coq Require Import List ZArith String Ascii Bool Arith.
Import ListNotations.
From BD.Loader Require Import Str Model Decode Proofs DecodeProofs.
Open Scope string_scope.
Open Scope list_scope.

Theorem load_no_panic_partial :
  forall (cron : string -> cronv) (sig_ok : string -> bool) (tokenize : string -> list (string * string))
         (sh : string -> option string) (o : opts) (root : yv) (e : envt),
  all_keys_strings root = true ->
  (forall d, decode root = Ok d -> no_nil d = true /\ sched_safe cron (d_schedule d) = true) ->
  outcome (load_tree cron sig_ok tokenize sh o root e) <> Panic.
Proof.
  intros cron sig_ok tokenize sh o root e Hk Hd. unfold load_tree.
  pose proof (decode_no_panic_partial root Hk) as Hdec.
  destruct (decode root) as [| |d] eqn:E; try congruence; try discriminate.
  destruct (Hd d eq_refl) as [H1 H2]. apply build_no_panic_partial; assumption.
Qed.

Theorem load_no_effects_partial :
  forall (cron : string -> cronv) (sig_ok : string -> bool) (tokenize : string -> list (string * string))
         (sh : string -> option string) (o : opts) (root : yv) (e : envt),
  o_noEval o = true ->
  (forall d, decode root = Ok d ->
     tokenize (effective_params o d) = [] /\ (o_metadataOnly o = true \/ logdir_commands e d = [])) ->
  effects (load_tree cron sig_ok tokenize sh o root e) = [] /\ env_after (load_tree cron sig_ok tokenize sh o root e) = e.
Proof.
  intros cron sig_ok tokenize sh o root e Hn Hd. unfold load_tree.
  destruct (decode root) as [| |d] eqn:E; try (split; reflexivity).
  destruct (Hd d eq_refl) as [H1 H2]. apply build_no_effects_partial; assumption.
Qed.
