(* Concrete witnesses: (1) `_refuted` lemmas - the faithful model violates the full statements of C13 / C19
   on the input classes of DESIGN.md section 6 (F13a-g, F19a-b); each witness, replayed on the real code, is the
   finding recorded under /verif/findings; (2) Examples that the premises of the `_partial` theorems are met
   by a concrete non-trivial definition.  Everything here is closed and computed by vm_compute. *)
From Coq Require Import List ZArith String Ascii Bool Arith.
Import ListNotations.
From BD.Loader Require Import Str Model Decode Proofs DecodeProofs.
Open Scope string_scope.
Open Scope list_scope.

(* one concrete choice of the library parameters *)
Definition cronW (s : string) : cronv :=
  if String.eqb s "TZ=UTC" then CronPanic else if String.eqb s "x" then CronErr else CronOk.
Definition sigW (s : string) : bool := String.eqb s "SIGTERM".
Definition reW (s : string) : bool := negb (String.eqb s "re:[").
Definition tokW (s : string) : list (string * string) := map (fun w => ("", w)) (fields s).
Definition shW (c : string) : option string := if prefixb "touch " c || prefixb "echo " c then Some "" else None.
Definition metW (a b : string) : bool := String.eqb a b.

Definition def_of (t : yv) : definition := match decode t with Ok d => d | _ => zero_def end.
Definition oYAML := {| o_metadataOnly := false; o_noEval := true; o_parameters := "" |}.   (* LoadYAML, LoadWithoutEval *)
Definition oMeta := {| o_metadataOnly := true; o_noEval := true; o_parameters := "" |}.    (* LoadMetadata *)
Definition oLoad := {| o_metadataOnly := false; o_noEval := false; o_parameters := "" |}.  (* Load *)
Definition buildW := build cronW sigW tokW shW.

Definition m (l : list (string * yv)) : yv := VMap (map (fun kv => (VStr (fst kv), snd kv)) l).
Definition step1 := m [("name", VStr "s1"); ("command", VStr "echo hi")].

(* ---- C13_no_panic: forall o d base e, outcome (build o d base e) <> Panic   -- FALSE ------------------- *)
(* F13a: a key other than start / stop / restart in a schedule mapping *)
Lemma no_panic_refuted_F13a :
  exists d, no_nil d = true /\ outcome (buildW oYAML d [] []) = Panic /\ outcome (buildW oMeta d [] []) = Panic.
Proof. exists (def_of (m [("schedule", m [("foo", VStr "* * * * *")]); ("steps", VList [step1])])). vm_compute. auto. Qed.

(* F13b: a schedule string on which the cron library itself panics (TZ= without a following spec) *)
Lemma no_panic_refuted_F13b :
  exists d, no_nil d = true /\ d_schedule d = VStr "TZ=UTC" /\ outcome (buildW oYAML d [] []) = Panic /\ outcome (buildW oMeta d [] []) = Panic.
Proof. exists (def_of (m [("schedule", VStr "TZ=UTC"); ("steps", VList [step1])])). vm_compute. auto. Qed.

(* F13c: a null element in steps / functions / preconditions *)
Lemma no_panic_refuted_F13c :
  (exists d, d_steps d = [None] /\ outcome (buildW oYAML d [] []) = Panic) /\
  (exists d, d_functions d = [None] /\ outcome (buildW oYAML d [] []) = Panic) /\
  (exists d, d_preconditions d = [None] /\ outcome (buildW oYAML d [] []) = Panic) /\
  (exists d sd, d_steps d = [Some sd] /\ sd_preconditions sd = [None] /\ outcome (buildW oYAML d [] []) = Panic).
Proof.
  split; [|split; [|split]].
  - exists (def_of (m [("steps", VList [VNull])])). vm_compute. auto.
  - exists (def_of (m [("functions", VList [VNull]); ("steps", VList [step1])])). vm_compute. auto.
  - exists (def_of (m [("preconditions", VList [VNull]); ("steps", VList [step1])])). vm_compute. auto.
  - eexists (def_of (m [("steps", VList [m [("name", VStr "s1"); ("command", VStr "echo hi"); ("preconditions", VList [VNull])]])])), _.
    vm_compute. auto.
Qed.

(* F13g: a non-string key in a mapping decoded into a nested struct: the decode stage panics *)
Lemma decode_no_panic_refuted_F13g :
  decode (m [("steps", VList [VMap [(VStr "name", VStr "s1"); (VStr "command", VStr "echo"); (VInt 1, VStr "x")]])]) = Panic
  /\ decode (m [("smtp", VMap [(VNull, VStr "x")])]) = Panic.
Proof. vm_compute. auto. Qed.

(* ---- C13 conditions: evaluating an accepted condition does not crash   -- FALSE (F13d) -------------------- *)
Lemma conditions_refuted_F13d :
  exists d g, outcome (buildW oYAML d [] []) = Ok g /\
    outcome (evalConditions reW shW metW (g_preconditions g) []) = Panic.
Proof.
  eexists (def_of (m [("preconditions", VList [m [("condition", VStr "`echo 1`"); ("expected", VStr "re:[")]]); ("steps", VList [step1])])), _.
  vm_compute. split; reflexivity.
Qed.

(* ---- C13_wf: every accepted step has something to execute   -- FALSE (F13e) ------------------------------- *)
Lemma executable_refuted_F13e :
  (exists d g, outcome (buildW oYAML d [] []) = Ok g /\ forallb step_executable (all_steps g) = false
               /\ exists sd, d_steps d = [Some sd] /\ sd_command sd = VList []) /\
  (exists d g, outcome (buildW oYAML d [] []) = Ok g /\ forallb step_executable (all_steps g) = false
               /\ exists sd, d_steps d = [Some sd] /\ sd_command sd = VList [VStr ""]) /\
  (exists d g, outcome (buildW oYAML d [] []) = Ok g /\ forallb step_executable (all_steps g) = false
               /\ exists sd, d_steps d = [Some sd] /\ sd_executor sd = VStr "").
Proof.
  split; [|split].
  - eexists (def_of (m [("steps", VList [m [("name", VStr "s1"); ("command", VList [])]])])), _. vm_compute. eauto.
  - eexists (def_of (m [("steps", VList [m [("name", VStr "s1"); ("command", VList [VStr ""])]])])), _. vm_compute. eauto.
  - eexists (def_of (m [("steps", VList [m [("name", VStr "s1"); ("executor", VStr "")]])])), _. vm_compute. eauto.
Qed.

(* ---- C13_serialisable: the status of an accepted DAG marshals   -- FALSE (F13f) --------------------------- *)
Lemma serialisable_refuted_F13f :
  (exists d g, outcome (buildW oYAML d [] []) = Ok g /\ json_ok g = false /\ serve_status g = Panic) /\
  (exists d g, outcome (buildW oYAML d [] []) = Ok g /\ json_ok g = false /\ serve_status g = Panic).
Proof.
  split.
  - eexists (def_of (m [("steps", VList [m [("name", VStr "s1"); ("executor",
        m [("type", VStr "http"); ("config", m [("headers", VList [m [("a", VInt 1)]])])])]])])), _. vm_compute. auto.
  - eexists (def_of (m [("steps", VList [m [("name", VStr "s1"); ("executor",
        m [("type", VStr "http"); ("config", m [("timeout", VFloat FNaN "NaN" 0)])])]])])), _. vm_compute. auto.
Qed.

(* ---- C19_no_effects: o_noEval o = true -> effects (build o d base e) = []   -- FALSE ------------------------ *)
(* F19a: a command substitution in logDir runs under noEval *)
Lemma no_effects_refuted_F19a :
  exists d, d_logDir d = "`touch /x`" /\ effects (buildW oYAML d [] []) = [EExec "touch /x"].
Proof. exists (def_of (m [("logDir", VStr "`touch /x`"); ("steps", VList [step1])])). vm_compute. auto. Qed.

(* F19b: default parameters are exported as $1..$n under noEval, even when only the metadata is loaded *)
Lemma no_effects_refuted_F19b :
  exists d, d_params d = "p1 p2" /\
    effects (buildW oYAML d [] []) = [ESetenv "1" "p1"; ESetenv "2" "p2"] /\
    effects (buildW oMeta d [] []) = [ESetenv "1" "p1"; ESetenv "2" "p2"].
Proof. exists (def_of (m [("params", VStr "p1 p2"); ("steps", VList [step1])])). vm_compute. auto. Qed.

(* ---- the premises of the _partial theorems are satisfiable by a non-trivial definition ----------------------- *)
Definition example_tree : yv :=
  m [("name", VStr "wf");
     ("schedule", m [("start", VList [VStr "0 1 * * *"; VStr "TZ=UTC 0 2 * * *"]); ("stop", VStr "0 18 * * *")]);
     ("env", VList [m [("A", VStr "`echo a`")]; m [("B", VInt 2)]]);
     ("functions", VList [m [("name", VStr "f"); ("params", VStr "x"); ("command", VStr "echo $x")]]);
     ("preconditions", VList [m [("condition", VStr "`echo 1`"); ("expected", VStr "re:^[0-9]+$")]]);
     ("steps", VList [
        m [("name", VStr "s1"); ("command", VStr "echo hi"); ("signalOnStop", VStr "SIGTERM");
           ("preconditions", VList [m [("condition", VStr "$A"); ("expected", VStr "a")]])];
        m [("name", VStr "s2"); ("executor", m [("type", VStr "http");
              ("config", m [("timeout", VInt 5); ("headers", m [("h", m [("k", VStr "v")])]); ("codes", VList [VInt 200; VFloat FFin "1.5" 1])])]);
           ("command", VStr "GET http://x"); ("depends", VList [VStr "s1"])];
        m [("name", VStr "s3"); ("call", m [("function", VStr "f"); ("args", m [("x", VStr "v")])])];
        m [("name", VStr "s4"); ("run", VStr "sub"); ("params", VStr "K=1")];
        m [("name", VStr "s5"); ("command", VList [VStr ""; VStr "echo"; VInt 1])]]);
     ("handlerOn", m [("exit", m [("command", VStr "echo bye")]); ("failure", m [("executor", VStr "mail")])])].
Definition example_def := def_of example_tree.

Example premises_satisfiable :
  all_keys_strings example_tree = true /\ decode example_tree = Ok example_def /\
  no_nil example_def = true /\ sched_safe cronW (d_schedule example_def) = true /\
  def_executable example_def = true /\ def_config_clean example_def = true /\ def_regexps_ok reW example_def = true /\
  (exists g, outcome (buildW oYAML example_def [] []) = Ok g /\ List.length (all_steps g) = 7 /\
             List.length (g_schedule g) = 2 /\ List.length (all_conditions g) = 2) /\
  (exists g, outcome (buildW oLoad example_def [] []) = Ok g /\
             effects (buildW oLoad example_def [] []) = [EExec "echo a"; ESetenv "A" ""; ESetenv "B" "2"]).
Proof. vm_compute. repeat split; eauto. Qed.

(* a definition without logDir substitution and without default parameters: the premises of the C19 theorem *)
Example no_effects_premises_satisfiable :
  tokW (effective_params oYAML example_def) = [] /\ logdir_commands [] example_def = [] /\
  effects (buildW oYAML example_def [] []) = [] /\ effects (buildW oMeta example_def [] []) = [].
Proof. vm_compute. auto. Qed.
