(* Concrete witnesses, computed by vm_compute: (1) the inputs on which the pinned code violated C13 / C19
   (DESIGN.md section 6, F13a-g, F19a-b) as positive Examples of the repaired model - each names the fix commit
   and what the model answered before it; (2) Examples that the theorems are not vacuous on a concrete
   non-trivial definition. *)
From Coq Require Import List ZArith String Ascii Bool Arith.
Import ListNotations.
From BD.Loader Require Import Str Model Decode Proofs DecodeProofs LoadProofs.
Open Scope string_scope.
Open Scope list_scope.

(* one concrete choice of the library parameters *)
Definition cronW (s : string) : cronv :=
  if String.eqb s "TZ=UTC" then CronPanic else if String.eqb s "x" then CronErr else CronOk.
Definition sigW (s : string) : bool := String.eqb s "SIGTERM".
Definition reW (s : string) : bool := negb (String.eqb s "re:[").
Definition tokW (s : string) : list (string * string) := map (fun w => ("", w)) (fields s).
Definition shW (c : string) : option string := if prefixb "touch " c || prefixb "echo " c then Some "" else None.
Definition metW (a b : string) : bool := String.eqb a b.

Definition def_of (t : yv) : definition := match decode t with Ok d => d | _ => zero_def end.
Definition oYAML := {| o_metadataOnly := false; o_noEval := true; o_parameters := "" |}.   (* LoadYAML, LoadWithoutEval *)
Definition oMeta := {| o_metadataOnly := true; o_noEval := true; o_parameters := "" |}.    (* LoadMetadata *)
Definition oLoad := {| o_metadataOnly := false; o_noEval := false; o_parameters := "" |}.  (* Load *)
Definition buildW := build cronW sigW tokW shW.

Definition m (l : list (string * yv)) : yv := VMap (map (fun kv => (VStr (fst kv), snd kv)) l).
Definition step1 := m [("name", VStr "s1"); ("command", VStr "echo hi")].

Definition loadW (o : opts) (t : yv) := load_tree cronW sigW tokW shW o t [].

(* ---- the witnesses of the former `_refuted` lemmas, now positive examples: the repaired code rejects them --- *)
(* F13a: a key other than start / stop / restart in a schedule mapping.
   Before fix c2912bd the model answered Panic (nil *[]string dereference, parser.go:101). *)
Definition tree_F13a := m [("schedule", m [("foo", VStr "* * * * *")]); ("steps", VList [step1])].
Example fixed_F13a :
  no_nil (def_of tree_F13a) = true /\ outcome (buildW oYAML (def_of tree_F13a) [] []) = Err /\
  outcome (buildW oMeta (def_of tree_F13a) [] []) = Err.
Proof. vm_compute. auto. Qed.

(* F13b: a schedule string on which the cron library itself panics (cronW "TZ=UTC" = CronPanic).
   Before fix 519d0a6 the model answered Panic (the string reached cronParser.Parse). *)
Definition tree_F13b := m [("schedule", VStr "TZ=UTC"); ("steps", VList [step1])].
Example fixed_F13b :
  cronW "TZ=UTC" = CronPanic /\ d_schedule (def_of tree_F13b) = VStr "TZ=UTC" /\
  outcome (buildW oYAML (def_of tree_F13b) [] []) = Err /\ outcome (buildW oMeta (def_of tree_F13b) [] []) = Err.
Proof. vm_compute. auto. Qed.

(* F13c: a null element in steps / functions / preconditions.  Before fix c021988 decode let these through and
   the model of build answered Panic (nil dereference in assertStepDef / assertFunctions / buildConditions);
   now decode (assertNoNullElements) rejects the document. *)
Example fixed_F13c :
  outcome (loadW oYAML (m [("steps", VList [VNull])])) = Err /\
  outcome (loadW oYAML (m [("functions", VList [VNull]); ("steps", VList [step1])])) = Err /\
  outcome (loadW oYAML (m [("preconditions", VList [VNull]); ("steps", VList [step1])])) = Err /\
  outcome (loadW oYAML (m [("steps", VList [m [("name", VStr "s1"); ("command", VStr "echo hi"); ("preconditions", VList [VNull])]])])) = Err.
Proof. vm_compute. auto. Qed.

(* F13g: a non-string key in a mapping decoded into a nested struct.  Before fix e67ca4a the model of decode
   answered Panic (mapstructure's rawKey.(string)). *)
Example fixed_F13g :
  decode (m [("steps", VList [VMap [(VStr "name", VStr "s1"); (VStr "command", VStr "echo"); (VInt 1, VStr "x")]])]) = Err
  /\ decode (m [("smtp", VMap [(VNull, VStr "x")])]) = Err.
Proof. vm_compute. auto. Qed.

(* F13d: an `expected:` with the re: prefix whose pattern does not compile.  Before fix 089471d evaluating the
   accepted condition answered Panic (nil logger); now the pattern is dropped and the condition is not met. *)
Example fixed_F13d :
  exists d g, outcome (buildW oYAML d [] []) = Ok g /\ reW "re:[" = false /\
    outcome (evalConditions reW shW metW (g_preconditions g) []) = Err.
Proof.
  eexists (def_of (m [("preconditions", VList [m [("condition", VStr "`echo 1`"); ("expected", VStr "re:[")]]); ("steps", VList [step1])])), _.
  vm_compute. repeat split; reflexivity.
Qed.

(* F13e: nothing to execute.  Before fix aac42fa the model accepted these four definitions with an empty Command,
   CmdWithArgs and executor type; now buildStep rejects them. *)
Example fixed_F13e :
  outcome (loadW oYAML (m [("steps", VList [m [("name", VStr "s1"); ("command", VList [])]])])) = Err /\
  outcome (loadW oYAML (m [("steps", VList [m [("name", VStr "s1"); ("command", VList [VStr ""])]])])) = Err /\
  outcome (loadW oYAML (m [("steps", VList [m [("name", VStr "s1"); ("executor", VStr "")]])])) = Err /\
  outcome (loadW oYAML (m [("functions", VList [m [("name", VStr "f"); ("params", VStr "x"); ("command", VStr "$x")]]);
                           ("steps", VList [m [("name", VStr "s1"); ("call", m [("function", VStr "f"); ("args", m [("x", VStr "")])])]])])) = Err.
Proof. vm_compute. auto. Qed.

(* F13f: executor config holding a mapping inside a list / a non-finite float.  Before fix 667fb54 the model
   accepted both with json_ok g = false and serve_status g = Panic; now the mapping inside the list is converted
   (the DAG is accepted and serialisable) and the non-finite float is rejected. *)
Definition tree_F13f_map := m [("steps", VList [m [("name", VStr "s1"); ("executor",
        m [("type", VStr "http"); ("config", m [("headers", VList [m [("a", VInt 1)]])])])]])].
Definition tree_F13f_nan := m [("steps", VList [m [("name", VStr "s1"); ("executor",
        m [("type", VStr "http"); ("config", m [("timeout", VFloat FNaN "NaN" 0)])])]])].
Example fixed_F13f :
  (exists g, outcome (loadW oYAML tree_F13f_map) = Ok g /\ json_ok g = true /\ serve_status g = Ok tt) /\
  outcome (loadW oYAML tree_F13f_nan) = Err.
Proof. split; [eexists|]; vm_compute; auto. Qed.

(* ---- C19: the witnesses of the former `_refuted` lemmas ----------------------------------------------------------- *)
(* F19a: a command substitution in logDir.  Before fix 4348d0d the model answered [EExec "touch /x"] under noEval. *)
Example fixed_F19a :
  exists d, d_logDir d = "`touch /x`" /\ effects (buildW oYAML d [] []) = [] /\
            effects (buildW oLoad d [] []) = [EExec "touch /x"].
Proof. exists (def_of (m [("logDir", VStr "`touch /x`"); ("steps", VList [step1])])). vm_compute. auto. Qed.

(* F19b: default parameters.  Before fix a55d876 the model answered [ESetenv "1" "p1"; ESetenv "2" "p2"] under noEval,
   even with metadataOnly. *)
Example fixed_F19b :
  exists d, d_params d = "p1 p2" /\
    effects (buildW oYAML d [] []) = [] /\ effects (buildW oMeta d [] []) = [] /\
    effects (buildW oLoad d [] []) = [ESetenv "1" "p1"; ESetenv "2" "p2"].
Proof. exists (def_of (m [("params", VStr "p1 p2"); ("steps", VList [step1])])). vm_compute. auto. Qed.

(* ---- the premises of the _partial theorems are satisfiable by a non-trivial definition ----------------------- *)
Definition example_tree : yv :=
  m [("name", VStr "wf");
     ("schedule", m [("start", VList [VStr "0 1 * * *"; VStr "TZ=UTC 0 2 * * *"]); ("stop", VStr "0 18 * * *")]);
     ("env", VList [m [("A", VStr "`echo a`")]; m [("B", VInt 2)]]);
     ("functions", VList [m [("name", VStr "f"); ("params", VStr "x"); ("command", VStr "echo $x")]]);
     ("preconditions", VList [m [("condition", VStr "`echo 1`"); ("expected", VStr "re:^[0-9]+$")]]);
     ("steps", VList [
        m [("name", VStr "s1"); ("command", VStr "echo hi"); ("signalOnStop", VStr "SIGTERM");
           ("preconditions", VList [m [("condition", VStr "$A"); ("expected", VStr "a")]])];
        m [("name", VStr "s2"); ("executor", m [("type", VStr "http");
              ("config", m [("timeout", VInt 5); ("headers", m [("h", m [("k", VStr "v")])]); ("codes", VList [VInt 200; VFloat FFin "1.5" 1])])]);
           ("command", VStr "GET http://x"); ("depends", VList [VStr "s1"])];
        m [("name", VStr "s3"); ("call", m [("function", VStr "f"); ("args", m [("x", VStr "v")])])];
        m [("name", VStr "s4"); ("run", VStr "sub"); ("params", VStr "K=1")];
        m [("name", VStr "s5"); ("command", VList [VStr ""; VStr "echo"; VInt 1])]]);
     ("handlerOn", m [("exit", m [("command", VStr "echo bye")]); ("failure", m [("executor", VStr "mail")])])].
Definition example_def := def_of example_tree.

Example premises_satisfiable :
  decode example_tree = Ok example_def /\ no_nil example_def = true /\
  (exists g, outcome (buildW oYAML example_def [] []) = Ok g /\ List.length (all_steps g) = 7 /\
             List.length (g_schedule g) = 2 /\ List.length (all_conditions g) = 2 /\ json_ok g = true) /\
  (exists g, outcome (buildW oLoad example_def [] []) = Ok g /\
             effects (buildW oLoad example_def [] []) = [EExec "echo a"; ESetenv "A" ""; ESetenv "B" "2"]).
Proof. vm_compute. repeat split; eauto 8. Qed.

(* a non-trivial definition WITH default parameters and a command substitution in logDir: loading it for viewing /
   listing has no effect; loading it for execution has the effects of env, params and logDir, in this order *)
Definition example_tree2 : yv :=
  match example_tree with
  | VMap l => VMap (l ++ [(VStr "params", VStr "p1 X=2"); (VStr "logDir", VStr "`echo /tmp/l`")])
  | t => t
  end.
Example no_effects_example :
  decode example_tree2 = Ok (def_of example_tree2) /\
  effects (buildW oYAML (def_of example_tree2) [] []) = [] /\ effects (buildW oMeta (def_of example_tree2) [] []) = [] /\
  effects (buildW oLoad (def_of example_tree2) [] []) =
    [EExec "echo a"; ESetenv "A" ""; ESetenv "B" "2"; ESetenv "1" "p1"; ESetenv "2" "X=2"; EExec "echo /tmp/l"].
Proof. vm_compute. auto. Qed.
