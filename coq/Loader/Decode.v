(* The byte->tree->definition stage as the model sees it (loader.go:239-260): what yaml.v2 + mapstructure
   (ErrorUnused, no weak typing) make of an untyped tree.  This is LIBRARY behaviour re-stated (DESIGN.md
   Appendix B), exercised by the correspondence on every run; the theorems of C13 about `build` quantify
   over all definitions and do not depend on it.

     string <- string | null("")          int <- int | float (truncated) | null(0)      bool <- bool | null
     *T / []T / struct <- null leaves the zero value (so []*T may hold nil elements)
     []T <- sequence only                 struct <- mapping: keys matched case-insensitively, unknown key = error,
     any <- the raw value                 two keys for one field = error
     map[string]any <- mapping with string (or null = "") keys
   A mapping decoded into a NESTED struct arrives as map[interface{}]interface{}; a non-string key there is
   refused by loader.go's decode hook (fix e67ca4a).  At the top level yaml.v2 has already turned every
   scalar key into a string, so it is an unknown key (error).  After decoding, assertNoNullElements
   (fix c021988) refuses null elements in steps / functions / preconditions.
   yaml.v2 rejects a document in which a sequence or mapping is used as a key of a generic map. *)
From Coq Require Import List ZArith String Ascii Bool Arith.
Import ListNotations.
From BD.Loader Require Import Str Model.
Open Scope string_scope.
Open Scope list_scope.

(* combination of independent results: mapstructure decodes every field and collects the errors; a panic
   anywhere wins *)
Definition rpair {A B} (a : res A) (b : res B) : res (A * B) :=
  match a, b with
  | Panic, _ | _, Panic => Panic
  | Err, _ | _, Err => Err
  | Ok x, Ok y => Ok (x, y)
  end.
Definition rmap {A B} (f : A -> B) (a : res A) : res B :=
  match a with Ok x => Ok (f x) | Err => Err | Panic => Panic end.
Fixpoint rall {A} (l : list (res A)) : res (list A) :=
  match l with
  | [] => Ok []
  | x :: r => rmap (fun p => fst p :: snd p) (rpair x (rall r))
  end.

Definition dec_string (v : yv) : res string := match v with VNull => Ok "" | VStr s => Ok s | _ => Err end.
Definition dec_int (v : yv) : res Z := match v with VNull => Ok 0%Z | VInt z => Ok z | VFloat _ _ t => Ok t | _ => Err end.
Definition dec_bool (v : yv) : res bool := match v with VNull => Ok false | VBool b => Ok b | _ => Err end.
Definition dec_any (v : yv) : res yv := Ok v.
Definition dec_list {A} (f : yv -> res A) (v : yv) : res (list A) :=
  match v with VNull => Ok [] | VList l => rall (map f l) | _ => Err end.
Definition dec_ptr {A} (f : yv -> res A) (v : yv) : res (option A) :=
  match v with VNull => Ok None | _ => rmap Some (f v) end.

(* field lookup: entries whose key folds to the field name.  The keys of the mapping are lowered once
   (lower_keys); field names are written in lower case below. *)
Definition lower_keys (m : list (yv * yv)) : list (yv * yv) :=
  map (fun kv => (match fst kv with VStr k => VStr (lower k) | x => x end, snd kv)) m.
Definition key_is (name : string) (kv : yv * yv) : bool :=
  match fst kv with VStr k => String.eqb k name | _ => false end.
Definition field (m : list (yv * yv)) (name : string) : yv :=
  match filter (key_is name) m with
  | [] => VNull
  | kv :: _ => snd kv
  end.

(* keys: Err on a non-string key, an unknown key or two keys of one field.  (A non-string key of a NESTED
   struct map is refused by the decode hook stringKeysHook since fix e67ca4a; before it mapstructure's
   report of unused keys did rawKey.(string) and panicked.) *)
Definition keys_check (nested : bool) (fields : list string) (m : list (yv * yv)) : res unit :=
  if nested && negb (forallb (fun kv => is_vstr (fst kv)) m) then Err
  else if forallb (fun kv => match fst kv with VStr k => existsb (String.eqb k) fields | _ => false end) m &&
          forallb (fun f => Nat.leb (List.length (filter (key_is f) m)) 1) fields
       then Ok tt else Err.

(* decode of a struct: null = zero value; mapping = fields + key check; anything else = error *)
Definition dec_struct {A} (nested : bool) (fields : list string) (zero : A) (body : list (yv * yv) -> res A) (v : yv) : res A :=
  match v with
  | VNull => Ok zero
  | VMap m0 => let m := lower_keys m0 in rmap snd (rpair (keys_check nested fields m) (body m))
  | _ => Err
  end.

Definition zero_cond := {| c_condition := ""; c_expected := "" |}.
Definition dec_conditionDef : yv -> res conditionDef :=
  dec_struct true ["condition"; "expected"] zero_cond (fun m =>
    rmap (fun p => {| c_condition := fst p; c_expected := snd p |})
         (rpair (dec_string (field m "condition")) (dec_string (field m "expected")))).

Definition zero_func := {| f_name := ""; f_params := ""; f_command := "" |}.
Definition dec_funcDef : yv -> res funcDef :=
  dec_struct true ["name"; "params"; "command"] zero_func (fun m =>
    rmap (fun p => {| f_name := fst (fst p); f_params := snd (fst p); f_command := snd p |})
         (rpair (rpair (dec_string (field m "name")) (dec_string (field m "params"))) (dec_string (field m "command")))).

(* map[string]any: keys string (null = ""), anything else is an error; values raw *)
Fixpoint dec_args_entries (m : list (yv * yv)) : res (list (string * yv)) :=
  match m with
  | [] => Ok []
  | (VStr k, v) :: r => rmap (fun x => (k, v) :: x) (dec_args_entries r)
  | (VNull, v) :: r => rmap (fun x => ("", v) :: x) (dec_args_entries r)
  | _ :: _ => Err
  end.
Definition dec_args (v : yv) : res (list (string * yv)) :=
  match v with VNull => Ok [] | VMap m => dec_args_entries m | _ => Err end.

Definition zero_call := {| cf_function := ""; cf_args := [] |}.
Definition dec_callFuncDef : yv -> res callFuncDef :=
  dec_struct true ["function"; "args"] zero_call (fun m =>
    rmap (fun p => {| cf_function := fst p; cf_args := snd p |})
         (rpair (dec_string (field m "function")) (dec_args (field m "args")))).

Definition dec_continueOn : yv -> res continueOnDef :=
  dec_struct true ["failure"; "skipped"] {| co_failure := false; co_skipped := false |} (fun m =>
    rmap (fun p => {| co_failure := fst p; co_skipped := snd p |})
         (rpair (dec_bool (field m "failure")) (dec_bool (field m "skipped")))).
Definition dec_repeatPolicy : yv -> res repeatPolicyDef :=
  dec_struct true ["repeat"; "intervalsec"] {| rp_repeat := false; rp_intervalSec := 0 |} (fun m =>
    rmap (fun p => {| rp_repeat := fst p; rp_intervalSec := snd p |})
         (rpair (dec_bool (field m "repeat")) (dec_int (field m "intervalsec")))).
Definition dec_retryPolicy : yv -> res retryPolicyDef :=
  dec_struct true ["limit"; "intervalsec"] {| rt_limit := 0; rt_intervalSec := 0 |} (fun m =>
    rmap (fun p => {| rt_limit := fst p; rt_intervalSec := snd p |})
         (rpair (dec_int (field m "limit")) (dec_int (field m "intervalsec")))).

Definition step_fields := ["name"; "description"; "dir"; "executor"; "command"; "script"; "stdout"; "stderr"; "output";
  "depends"; "continueon"; "retrypolicy"; "repeatpolicy"; "mailonerror"; "preconditions"; "signalonstop"; "env"; "call"; "run"; "params"].
Definition zero_step : stepDef :=
  {| sd_name := ""; sd_description := ""; sd_dir := ""; sd_executor := VNull; sd_command := VNull; sd_script := "";
     sd_stdout := ""; sd_stderr := ""; sd_output := ""; sd_depends := []; sd_continueOn := None; sd_retryPolicy := None;
     sd_repeatPolicy := None; sd_mailOnError := false; sd_preconditions := []; sd_signalOnStop := None; sd_env := "";
     sd_call := None; sd_run := ""; sd_params := "" |}.

Definition dec_stepDef : yv -> res stepDef :=
  dec_struct true step_fields zero_step (fun m =>
    let s := fun k => dec_string (field m k) in
    rmap (fun p =>
            let '(name, desc, dir, script, out, err, output, senv, run, params,
                  depends, con, retry, repeat, moe, pre, sig, call) := p in
            {| sd_name := name; sd_description := desc; sd_dir := dir; sd_executor := field m "executor";
               sd_command := field m "command"; sd_script := script; sd_stdout := out; sd_stderr := err; sd_output := output;
               sd_depends := depends; sd_continueOn := con; sd_retryPolicy := retry; sd_repeatPolicy := repeat;
               sd_mailOnError := moe; sd_preconditions := pre; sd_signalOnStop := sig; sd_env := senv; sd_call := call;
               sd_run := run; sd_params := params |})
      (rpair (rpair (rpair (rpair (rpair (rpair (rpair (rpair (rpair (rpair (rpair (rpair (rpair (rpair (rpair (rpair (rpair
        (s "name") (s "description")) (s "dir")) (s "script")) (s "stdout")) (s "stderr")) (s "output")) (s "env")) (s "run")) (s "params"))
        (dec_list dec_string (field m "depends")))
        (dec_ptr dec_continueOn (field m "continueon")))
        (dec_ptr dec_retryPolicy (field m "retrypolicy")))
        (dec_ptr dec_repeatPolicy (field m "repeatpolicy")))
        (dec_bool (field m "mailonerror")))
        (dec_list (dec_ptr dec_conditionDef) (field m "preconditions")))
        (dec_ptr dec_string (field m "signalonstop")))
        (dec_ptr dec_callFuncDef (field m "call")))).

Definition zero_handlers := {| h_failure := None; h_success := None; h_cancel := None; h_exit := None |}.
Definition dec_handlerOn : yv -> res handlerOnDef :=
  dec_struct true ["failure"; "success"; "cancel"; "exit"] zero_handlers (fun m =>
    rmap (fun p => let '(f, s, c, e) := p in {| h_failure := f; h_success := s; h_cancel := c; h_exit := e |})
         (rpair (rpair (rpair (dec_ptr dec_stepDef (field m "failure")) (dec_ptr dec_stepDef (field m "success")))
                       (dec_ptr dec_stepDef (field m "cancel"))) (dec_ptr dec_stepDef (field m "exit")))).

Definition zero_smtp := {| sm_host := ""; sm_port := ""; sm_username := ""; sm_password := "" |}.
Definition dec_smtp : yv -> res smtpConfigDef :=
  dec_struct true ["host"; "port"; "username"; "password"] zero_smtp (fun m =>
    rmap (fun p => let '(h, po, u, pw) := p in {| sm_host := h; sm_port := po; sm_username := u; sm_password := pw |})
         (rpair (rpair (rpair (dec_string (field m "host")) (dec_string (field m "port")))
                       (dec_string (field m "username"))) (dec_string (field m "password")))).
Definition zero_mail := {| mc_from := ""; mc_to := ""; mc_prefix := ""; mc_attachLogs := false |}.
Definition dec_mailConfig : yv -> res mailConfigDef :=
  dec_struct true ["from"; "to"; "prefix"; "attachlogs"] zero_mail (fun m =>
    rmap (fun p => let '(f, t, pr, a) := p in {| mc_from := f; mc_to := t; mc_prefix := pr; mc_attachLogs := a |})
         (rpair (rpair (rpair (dec_string (field m "from")) (dec_string (field m "to")))
                       (dec_string (field m "prefix"))) (dec_bool (field m "attachlogs")))).
Definition dec_mailOn : yv -> res mailOnDef :=
  dec_struct true ["failure"; "success"] {| mo_failure := false; mo_success := false |} (fun m =>
    rmap (fun p => {| mo_failure := fst p; mo_success := snd p |})
         (rpair (dec_bool (field m "failure")) (dec_bool (field m "success")))).

Definition def_fields := ["name"; "group"; "description"; "schedule"; "logdir"; "env"; "handleron"; "functions"; "steps"; "smtp";
  "mailon"; "errormail"; "infomail"; "timeoutsec"; "delaysec"; "restartwaitsec"; "histretentiondays"; "preconditions";
  "maxactiveruns"; "params"; "maxcleanuptimesec"; "tags"].
Definition zero_def : definition :=
  {| d_name := ""; d_group := ""; d_description := ""; d_schedule := VNull; d_logDir := ""; d_env := VNull;
     d_handlerOn := zero_handlers; d_functions := []; d_steps := []; d_smtp := zero_smtp; d_mailOn := None;
     d_errorMail := zero_mail; d_infoMail := zero_mail; d_timeoutSec := 0; d_delaySec := 0; d_restartWaitSec := 0;
     d_histRetentionDays := None; d_preconditions := []; d_maxActiveRuns := 0; d_params := ""; d_maxCleanUpTimeSec := None;
     d_tags := VNull |}.

Definition dec_definition : yv -> res definition :=
  dec_struct false def_fields zero_def (fun m =>
    let s := fun k => dec_string (field m k) in
    let i := fun k => dec_int (field m k) in
    rmap (fun p =>
            let '(name, group, desc, logdir, params, tsec, dsec, rsec, mar, hist, mcu,
                  handlers, funcs, steps, smtp, mailon, email, imail, pre) := p in
            {| d_name := name; d_group := group; d_description := desc; d_schedule := field m "schedule"; d_logDir := logdir;
               d_env := field m "env"; d_handlerOn := handlers; d_functions := funcs; d_steps := steps; d_smtp := smtp;
               d_mailOn := mailon; d_errorMail := email; d_infoMail := imail; d_timeoutSec := tsec; d_delaySec := dsec;
               d_restartWaitSec := rsec; d_histRetentionDays := hist; d_preconditions := pre; d_maxActiveRuns := mar;
               d_params := params; d_maxCleanUpTimeSec := mcu; d_tags := field m "tags" |})
      (rpair (rpair (rpair (rpair (rpair (rpair (rpair (rpair (rpair (rpair (rpair (rpair (rpair (rpair (rpair (rpair (rpair (rpair
        (s "name") (s "group")) (s "description")) (s "logdir")) (s "params"))
        (i "timeoutsec")) (i "delaysec")) (i "restartwaitsec")) (i "maxactiveruns"))
        (dec_ptr dec_int (field m "histretentiondays"))) (dec_ptr dec_int (field m "maxcleanuptimesec")))
        (dec_handlerOn (field m "handleron")))
        (dec_list (dec_ptr dec_funcDef) (field m "functions")))
        (dec_list (dec_ptr dec_stepDef) (field m "steps")))
        (dec_smtp (field m "smtp")))
        (dec_ptr dec_mailOn (field m "mailon")))
        (dec_mailConfig (field m "errormail")))
        (dec_mailConfig (field m "infomail")))
        (dec_list (dec_ptr dec_conditionDef) (field m "preconditions")))).

(* yaml.v2: a sequence or mapping as a key of a generic map is rejected ("invalid map key") *)
Fixpoint yaml_ok (v : yv) : bool :=
  match v with
  | VList l => forallb yaml_ok l
  | VMap m => forallb (fun kv => match fst kv with VList _ | VMap _ => false | _ => true end && yaml_ok (snd kv)) m
  | _ => true
  end.

(* unmarshalData + decode: the root must be a mapping (or the empty / null document) *)
Definition decode (root : yv) : res definition :=
  if negb (yaml_ok root) then Err
  else match root with
       | VNull | VMap _ =>
           match dec_definition root with
           | Ok d => if no_nil d then Ok d else Err                  (* assertNoNullElements *)
           | r => r
           end
       | _ => Err
       end.

(* every mapping of the tree has string keys only *)
Fixpoint all_keys_strings (v : yv) : bool :=
  match v with
  | VList l => forallb all_keys_strings l
  | VMap m => forallb (fun kv => is_vstr (fst kv) && all_keys_strings (snd kv)) m
  | _ => true
  end.

(* loadYAML / loadDAG without a base configuration: decode, then build *)
Section Load.
Variable cron : string -> cronv.
Variable sig_ok : string -> bool.
Variable tokenize : string -> list (string * string).
Variable sh : string -> option string.
Definition load_tree (o : opts) (root : yv) : M dag :=
  fun e => match decode root with
           | Ok d => build cron sig_ok tokenize sh o d [] e
           | Err => (Err, e, [])
           | Panic => (Panic, e, [])
           end.

(* The display path of the web server (client.GetStatus: details page, API, before delete and the post-actions):
   the DAG is loaded without evaluation and an execution graph is built only to validate it
   (scheduler.NewExecutionGraph -> Node.init on every step).  Node.init gives the node an id and replaces nil
   Variables / Preconditions by empty lists: it evaluates nothing. *)
Definition node_init (s : step) : M step := ret s.
Fixpoint graph_nodes (ss : list step) : M (list step) :=
  match ss with
  | [] => ret []
  | s :: r => x <- node_init s ;; y <- graph_nodes r ;; ret (x :: y)
  end.
Definition display (o : opts) (root : yv) : M dag :=
  g <- load_tree o root ;; u_ <- graph_nodes (g_steps g) ;; ret g.
End Load.
