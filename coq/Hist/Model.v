(* Hist/Model.v - executable model of the history store internal/persistence/jsondb (jsondb.go, writer.go),
   of the status cache internal/persistence/filecache (LoadLatest/IsStale/Store/Invalidate) and of the
   part of the file system they use.  Level L0: paths are REAL STRINGS (the hazards are string-level).
   Executable Gallina only (no proofs here).

   File system     fs   = directory names under the data directory + files (dir, name, content)
   file content         = complete lines (a parseable status `Rec p`, or `Junk n` = n bytes that do not parse),
                          an unterminated tail (nothing / torn JSON prefix / complete JSON without newline),
                          mtime in nanoseconds
   primitive steps prim = mkdir / create / append chunk / unlink / rename / rmdir / chtimes; every store
                          operation is `prims op st : list prim`, running an operation = folding its prims,
                          a crash state = folding a prefix (plus a torn last append)  -- C07
   store operations op  = Open / Write / Close (compaction via <f>.tmp + rename) / Update / Rename / RemoveOld (RemoveAll) / Touch
   queries              = FindByRequestID, ReadStatusToday (latest, today filter optional), ReadStatusRecent n,
                          the last two through the status cache of the asking process.

   External: `loc` (the data directory, a string) and `dirhash` (md5 hex of the DAG path) are Section variables. *)
From Coq Require Import List String Ascii Bool Arith ZArith.
Import ListNotations.
From BD.Hist Require Import GoMatch.
Open Scope string_scope.

(* ------------------------------------------------------------------------------------------ *)
(* Status payloads and file contents                                                          *)
(* ------------------------------------------------------------------------------------------ *)
Record payload := { p_req : string;      (* Status.RequestID *)
                    p_tag : nat;         (* everything else of the status, as one number *)
                    p_size : Z }.        (* length of its JSON encoding in bytes *)

Inductive item := Rec (p : payload) | Junk (n : Z).                     (* one complete line *)
Inductive tail := TNone | TPartial (n : Z) | TFull (p : payload).      (* bytes after the last newline *)
Record file := { items : list item; ftail : tail; mtime : Z }.

Inductive chunk :=                       (* what one write(2) appends *)
| CLine (p : payload)                    (* JSON + newline in one call (status shorter than bufio's 4096) *)
| CJson (p : payload)                    (* JSON alone (status >= 4096 bytes: direct write, newline follows) *)
| CNl                                    (* the newline alone *)
| CPart (n : Z).                         (* n > 0 bytes: a proper prefix of a JSON text (torn write) *)

Definition isize (i : item) : Z := match i with Rec p => p_size p + 1 | Junk n => n end.
Definition tsize (t : tail) : Z := match t with TNone => 0 | TPartial n => n | TFull p => p_size p end.
Definition fsize (f : file) : Z := fold_right (fun i a => isize i + a)%Z (tsize (ftail f)) (items f).

(* O_APPEND write of one chunk.  A status glued to a non-empty tail is one unparseable line. *)
Definition append_chunk (f : file) (c : chunk) (now : Z) : file :=
  let its := items f in
  match c, ftail f with
  | CLine p, TNone => {| items := its ++ [Rec p]; ftail := TNone; mtime := now |}
  | CLine p, t => {| items := its ++ [Junk (tsize t + p_size p + 1)]; ftail := TNone; mtime := now |}
  | CJson p, TNone => {| items := its; ftail := TFull p; mtime := now |}
  | CJson p, t => {| items := its; ftail := TPartial (tsize t + p_size p); mtime := now |}
  | CNl, TFull p => {| items := its ++ [Rec p]; ftail := TNone; mtime := now |}
  | CNl, t => {| items := its ++ [Junk (tsize t + 1)]; ftail := TNone; mtime := now |}
  | CPart n, t => {| items := its; ftail := TPartial (tsize t + n); mtime := now |}
  end.

(* jsondb.ParseFile: the last line that parses; a complete JSON text without newline parses too
   (bufio.Reader.ReadLine returns it at EOF).  None = io.EOF (no parseable line). *)
Fixpoint last_rec (l : list item) (acc : option payload) : option payload :=
  match l with
  | [] => acc
  | Rec p :: r => last_rec r (Some p)
  | Junk _ :: r => last_rec r acc
  end.
Definition parse (f : file) : option payload :=
  match ftail f with TFull p => Some p | _ => last_rec (items f) None end.

Definition empty_file (now : Z) : file := {| items := []; ftail := TNone; mtime := now |}.

(* bufio.Writer (4096): a status of >= 4096 bytes reaches the file in two write calls *)
Definition chunks_of (p : payload) : list chunk :=
  if (p_size p <? 4096)%Z then [CLine p] else [CJson p; CNl].

(* ------------------------------------------------------------------------------------------ *)
(* Strings: filepath.Base / Ext, strings.TrimSuffix / Replace(.., 1), util.TruncString, the     *)
(* time-stamp regexp 2\d{7}.\d{2}:\d{2}:\d{2} (leftmost match over the whole path)             *)
(* ------------------------------------------------------------------------------------------ *)
Fixpoint take (n : nat) (s : string) : string :=
  match n, s with S k, String a r => String a (take k r) | _, _ => "" end.
Fixpoint drop (n : nat) (s : string) : string :=
  match n, s with S k, String _ r => drop k r | _, _ => s end.
Definition is_digit (a : ascii) : bool := let n := nat_of_ascii a in Nat.leb 48 n && Nat.leb n 57.
Fixpoint all_digits (s : string) : bool :=
  match s with "" => true | String a r => is_digit a && all_digits r end.
Definition chr (s : string) (i : nat) : ascii := match get i s with Some a => a | None => "000"%char end.

(* does the regexp match at the beginning of s?  (nested ifs: evaluated lazily under vm_compute) *)
Definition ts_at (s : string) : bool :=
  match s with
  | String c0 r =>
      if Ascii.eqb c0 "2"%char then
        if all_digits (take 7 r) then
          if Nat.leb 17 (String.length s) then
            negb (Ascii.eqb (chr s 8) "010"%char)
            && all_digits (take 2 (drop 9 s)) && Ascii.eqb (chr s 11) ":"%char
            && all_digits (take 2 (drop 12 s)) && Ascii.eqb (chr s 14) ":"%char
            && all_digits (take 2 (drop 15 s))
          else false
        else false
      else false
  | EmptyString => false
  end.
(* after the repair e6d6379 the regexp is: GROUP1 = 2 d{7} any d{2}:d{2}:d{2} with optional .d{3}; then optionally a dot and a run of
   bytes other than dot and slash; then optionally _c; then .dat at the END of the string.  timestamp(file) is GROUP1: the stamp (with
   milliseconds when present) that ENDS the base name.  (Before the repair: the leftmost 17-byte match anywhere in the path - F6a, F6c.) *)
Fixpoint no_dot_slash (s : string) : bool :=
  match s with "" => true | String c r => negb (Ascii.eqb c "."%char) && negb (Ascii.eqb c "/"%char) && no_dot_slash r end.
(* does s match the part of the regexp after GROUP1 ? *)
Definition tail_ok (s : string) : bool :=
  let n := String.length s in
  if Nat.leb 4 n then
    if String.eqb (drop (n - 4) s) ".dat" then
      let s' := take (n - 4) s in
      String.eqb s' "" || String.eqb s' "_c"
      || match s' with String c r => Ascii.eqb c "."%char && no_dot_slash r | EmptyString => false end
    else false
  else false.
Definition ms_at (s : string) : bool :=
  match s with
  | String c0 (String c1 (String c2 (String c3 _))) => Ascii.eqb c0 "."%char && is_digit c1 && is_digit c2 && is_digit c3
  | _ => false
  end.
(* the match attempt at the beginning of s (leftmost-first: the optional milliseconds are preferred) *)
Definition ts_match (s : string) : option string :=
  if ts_at s then
    let r := drop 17 s in
    if (if ms_at r then tail_ok (drop 4 r) else false) then Some (take 21 s)
    else if tail_ok r then Some (take 17 s) else None
  else None.
Fixpoint find_ts (s : string) : string :=
  match ts_match s with
  | Some t => t
  | None => match s with "" => "" | String _ r => find_ts r end
  end.

(* escapeGlob (8ffc003): a backslash in front of every backslash, star, question mark and opening bracket *)
Fixpoint esc_glob (s : string) : string :=
  match s with
  | "" => ""
  | String c r =>
      if Ascii.eqb c "\"%char || Ascii.eqb c "*"%char || Ascii.eqb c "?"%char || Ascii.eqb c "["%char
      then String "\"%char (String c (esc_glob r)) else String c (esc_glob r)
  end.

Fixpoint rindex_from (s : string) (c : ascii) (i : nat) (acc : option nat) : option nat :=
  match s with "" => acc | String a r => rindex_from r c (S i) (if Ascii.eqb a c then Some i else acc) end.
Definition base (p : string) : string :=
  match rindex_from p "/"%char 0 None with Some i => drop (S i) p | None => p end.
Definition ext (b : string) : string :=
  match rindex_from b "."%char 0 None with Some i => drop i b | None => "" end.
Definition trim_ext (b : string) : string := take (String.length b - String.length (ext b)) b.
(* jsondb.prefix: TrimSuffix(Base(dagFile), Ext(dagFile)) *)
Definition prefix_of (dagfile : string) : string := trim_ext (base dagfile).

(* util.AddYamlExtension (fe0ec16): .yaml stays, .yml becomes .yaml, anything else (no or a foreign suffix) gets .yaml appended *)
Definition add_yaml (f : string) : string :=
  let e := ext (base f) in
  if String.eqb e ".yaml" then f
  else if String.eqb e ".yml" then take (String.length f - 4) f ++ ".yaml"
  else f ++ ".yaml".

Fixpoint prefixb (p s : string) : bool :=
  match p, s with
  | "", _ => true
  | String a p', String b s' => Ascii.eqb a b && prefixb p' s'
  | _, _ => false
  end.
(* strings.Replace(s, old, new, 1) *)
Fixpoint replace1 (s old new : string) : string :=
  if prefixb old s then new ++ drop (String.length old) s
  else match s with "" => "" | String c r => String c (replace1 r old new) end.

Definition trunc8 (s : string) : string := take 8 s.

(* stable insertion sorts (sort.Strings on distinct names; sort.Slice below 13 elements) *)
Fixpoint ins_by {A} (lt : A -> A -> bool) (x : A) (l : list A) : list A :=
  match l with
  | [] => [x]
  | y :: r => if lt x y then x :: l else y :: ins_by lt x r
  end.
Definition isort {A} (lt : A -> A -> bool) (l : list A) : list A :=
  fold_left (fun acc x => ins_by lt x acc) l [].

(* filterLatest's order: descending by key, stable.  x goes after every y with key y >= key x. *)
Fixpoint ins_desc {A} (key : A -> string) (x : A) (l : list A) : list A :=
  match l with
  | [] => [x]
  | y :: r => if String.ltb (key y) (key x) then x :: l else y :: ins_desc key x r
  end.
Definition sort_desc {A} (key : A -> string) (l : list A) : list A :=
  fold_left (fun acc x => ins_desc key x acc) l [].

(* ------------------------------------------------------------------------------------------ *)
(* The file system                                                                            *)
(* ------------------------------------------------------------------------------------------ *)
Definition fent := (string * string * file)%type.            (* directory name, file name, content *)
Definition e_dir (e : fent) : string := fst (fst e).
Definition e_name (e : fent) : string := snd (fst e).
Definition e_file (e : fent) : file := snd e.
Record fs := { dirs : list string; files : list fent }.
Definition fs_empty : fs := {| dirs := []; files := [] |}.

Definition is_at (dir fn : string) (e : fent) : bool := String.eqb (e_dir e) dir && String.eqb (e_name e) fn.
Definition get_file (st : fs) (dir fn : string) : option file :=
  match filter (is_at dir fn) (files st) with e :: _ => Some (e_file e) | [] => None end.
Definition has_file (st : fs) (dir fn : string) : bool :=
  match get_file st dir fn with Some _ => true | None => false end.
Definition has_dir (st : fs) (dir : string) : bool := existsb (String.eqb dir) (dirs st).
Definition dir_empty (st : fs) (dir : string) : bool := negb (existsb (fun e => String.eqb (e_dir e) dir) (files st)).

Inductive prim :=
| PMkdir (dir : string)                               (* MkdirAll: no-op when it exists *)
| PCreate (dir fn : string) (now : Z)                 (* OpenOrCreateFile: creates an empty file when missing *)
| PAppend (dir fn : string) (c : chunk) (now : Z)     (* write(2) on the O_APPEND descriptor of that file *)
| PUnlink (dir fn : string)
| PRename (dir fn dir' fn' : string)                  (* rename(2): replaces an existing target *)
| PRmdir (dir : string)                               (* succeeds only on an empty directory *)
| PTouch (dir fn : string) (t : Z).                   (* os.Chtimes *)

Definition run_prim (st : fs) (p : prim) : fs :=
  match p with
  | PMkdir d => if has_dir st d then st else {| dirs := dirs st ++ [d]; files := files st |}
  | PCreate d n now =>
      if has_file st d n then st
      else {| dirs := dirs st; files := files st ++ [(d, n, empty_file now)] |}
  | PAppend d n c now =>
      {| dirs := dirs st;
         files := map (fun e => if is_at d n e then (d, n, append_chunk (e_file e) c now) else e) (files st) |}
  | PUnlink d n => {| dirs := dirs st; files := filter (fun e => negb (is_at d n e)) (files st) |}
  | PRename d n d' n' =>
      if has_file st d n then
        if String.eqb d d' && String.eqb n n' then st else
        {| dirs := dirs st;
           files := map (fun e => if is_at d n e then (d', n', e_file e) else e)
                        (filter (fun e => negb (is_at d' n' e)) (files st)) |}
      else st
  | PRmdir d => if dir_empty st d then {| dirs := filter (fun x => negb (String.eqb x d)) (dirs st); files := files st |} else st
  | PTouch d n t =>
      {| dirs := dirs st;
         files := map (fun e => if is_at d n e then (d, n, {| items := items (e_file e); ftail := ftail (e_file e); mtime := t |}) else e) (files st) |}
  end.
Definition run_prims (st : fs) (ps : list prim) : fs := fold_left run_prim ps st.

(* ------------------------------------------------------------------------------------------ *)
(* Status cache of one process (filecache.Cache keyed by the full path)                        *)
(* ------------------------------------------------------------------------------------------ *)
Record centry := { c_data : payload; c_size : Z; c_mt : Z (* seconds *) }.
Definition cache := list (string * string * centry).
Definition nsec : Z := 1000000000.
Definition mtsec (f : file) : Z := (mtime f / nsec)%Z.

Definition cache_get (c : cache) (dir fn : string) : option centry :=
  match filter (fun e => String.eqb (fst (fst e)) dir && String.eqb (snd (fst e)) fn) c with
  | e :: _ => Some (snd e) | [] => None end.
Definition cache_del (c : cache) (dir fn : string) : cache :=
  filter (fun e => negb (String.eqb (fst (fst e)) dir && String.eqb (snd (fst e)) fn)) c.
Definition cache_put (c : cache) (dir fn : string) (e : centry) : cache := (dir, fn, e) :: cache_del c dir fn.

Inductive lres := LNoData | LErr | LOk (p : payload).
(* Cache.LoadLatest(file, ParseFile): stat error -> error; stale (or absent: the zero entry is stale for
   every positive mtime) -> parse, store on success; else the cached value. *)
Definition load_latest (c : cache) (st : fs) (dir fn : string) : cache * option payload :=
  match get_file st dir fn with
  | None => (c, None)
  | Some f =>
      let stale := match cache_get c dir fn with
                   | None => true
                   | Some e => (c_mt e <? mtsec f)%Z || negb (c_size e =? fsize f)%Z
                   end in
      if stale then
        match parse f with
        | Some p => (cache_put c dir fn {| c_data := p; c_size := fsize f; c_mt := mtsec f |}, Some p)
        | None => (c, None)
        end
      else match cache_get c dir fn with Some e => (c, Some (c_data e)) | None => (c, None) end
  end.

Section H.
Variable loc : string.                    (* data directory (no glob characters) *)
Variable dirhash : string -> string.      (* hex md5 of the DAG path *)

Definition dirname (d : string) : string := prefix_of d ++ "-" ++ dirhash d.
Definition fname (d stamp r8 : string) (c : bool) : string :=
  prefix_of d ++ "." ++ stamp ++ "." ++ r8 ++ (if c then "_c.dat" else ".dat").
Definition fpath (dir fn : string) : string := loc ++ "/" ++ dir ++ "/" ++ fn.

(* ---- filepath.Glob(loc/dirpat/filepat), two levels under loc ---------------------------- *)
Inductive gres := GErr | GOk (l : list fent).
Definition matches (pat n : string) : bool := match go_match pat n with Some true => true | _ => false end.
(* glob(dir, pattern, m): names in byte order; the first Match error aborts with ErrBadPattern *)
Fixpoint glob_names (pat : string) (l : list fent) (acc : list fent) : gres :=
  match l with
  | [] => GOk (rev acc)
  | e :: r => match go_match pat (e_name e) with
              | None => GErr
              | Some true => glob_names pat r (e :: acc)
              | Some false => glob_names pat r acc
              end
  end.
Fixpoint glob_dirs (pat : string) (st : fs) (ds : list string) (acc : list fent) : gres :=
  match ds with
  | [] => GOk acc
  | d :: r =>
      match glob_names pat (isort (fun x y => String.ltb (e_name x) (e_name y))
                                  (filter (fun e => String.eqb (e_dir e) d) (files st))) [] with
      | GErr => GErr
      | GOk l => glob_dirs pat st r (acc ++ l)
      end
  end.
(* the directory part is globbed first when it has metacharacters: Match(dirpat, name) for every entry of loc, in byte order *)
Fixpoint sel_dirs (dirpat : string) (l : list string) : option (list string) :=
  match l with
  | [] => Some []
  | d :: r => match go_match dirpat d with
              | None => None
              | Some b => match sel_dirs dirpat r with None => None | Some r' => Some (if b then d :: r' else r') end
              end
  end.
Definition glob (st : fs) (dirpat filepat : string) : gres :=
  match go_match (loc ++ "/" ++ dirpat ++ "/" ++ filepat) "" with
  | None => GErr
  | Some _ =>
      if has_meta dirpat then
        match go_match (loc ++ "/" ++ dirpat) "" with
        | None => GErr
        | Some _ =>
            match sel_dirs dirpat (isort String.ltb (dirs st)) with
            | None => GErr
            | Some ds => glob_dirs filepat st ds []
            end
        end
      else glob_dirs filepat st (filter (String.eqb dirpat) (dirs st)) []
  end.

Definition ts_of (e : fent) : string := find_ts (fpath (e_dir e) (e_name e)).
(* dropCompacted (eb925d1): a match is dropped when some match m ends in _c.dat and TrimSuffix(m, _c.dat) + .dat is its path *)
Definition has_suffix (s suf : string) : bool :=
  Nat.leb (String.length suf) (String.length s) && String.eqb (drop (String.length s - String.length suf) s) suf.
Definition orig_of (p : string) : option string :=
  if has_suffix p "_c.dat" then Some (take (String.length p - 6) p ++ ".dat") else None.
Definition drop_compacted (l : list fent) : list fent :=
  filter (fun e => negb (existsb (fun m => match orig_of (fpath (e_dir m) (e_name m)) with
                                           | Some o => String.eqb o (fpath (e_dir e) (e_name e))
                                           | None => false end) l)) l.
(* filterLatest(files, n): dropCompacted, then sort.Slice by timestamp(file) descending (insertion sort: stable), first n *)
Definition filter_latest (l : list fent) (n : nat) : list fent :=
  firstn n (map snd (sort_desc fst (map (fun e => (ts_of e, e)) (drop_compacted l)))).

(* the patterns are built from the ESCAPED directory and prefix (8ffc003) *)
Definition dirpat (d : string) : string := esc_glob (dirname d).
Definition pat_all (d : string) : string := esc_glob (prefix_of d) ++ "*.dat".        (* globPattern *)
Definition pat_latest (d : string) (day : option string) : string :=                   (* latestToday *)
  match day with Some dd => esc_glob (prefix_of d) ++ "." ++ dd ++ "*.*.dat" | None => esc_glob (prefix_of d) ++ ".*.*.dat" end.

(* ---- queries ------------------------------------------------------------------------------ *)
(* FindByRequestID: "" is refused; matches in reverse byte order of the full path; first file whose last
   parseable status carries the id.  Result: the file and the status. *)
Inductive fres := FErr | FNone | FFound (dir fn : string) (p : payload).
Definition find_in (g : gres) (req : string) : fres :=
  if String.eqb req "" then FNone else
  match g with
  | GErr => FErr
  | GOk l =>
      let l' := rev (isort (fun x y => String.ltb (fpath (e_dir x) (e_name x)) (fpath (e_dir y) (e_name y))) l) in
      match filter (fun e => match parse (e_file e) with Some pl => String.eqb (p_req pl) req | None => false end) l' with
      | e :: _ => match parse (e_file e) with Some pl => FFound (e_dir e) (e_name e) pl | None => FNone end
      | [] => FNone
      end
  end.
Definition q_find (st : fs) (d req : string) : fres := find_in (glob st (dirpat d) (pat_all d)) req.

(* ReadStatusToday (day = Some yyyymmdd when latestStatusToday is configured) *)
(* 3aa388e: the files newest first; the first one that loads is the answer, files without a parseable status are skipped *)
Fixpoint load_first (c : cache) (st : fs) (l : list fent) : cache * lres :=
  match l with
  | [] => (c, LNoData)                                  (* ErrNoStatusData *)
  | e :: r => match load_latest c st (e_dir e) (e_name e) with
              | (c', Some p) => (c', LOk p)
              | (c', None) => load_first c' st r
              end
  end.
Definition latest_of (c : cache) (st : fs) (g : gres) : cache * lres :=
  match g with
  | GErr | GOk [] => (c, LNoData)
  | GOk l => load_first c st (filter_latest l (List.length l))
  end.
Definition q_latest (c : cache) (st : fs) (d : string) (day : option string) : cache * lres :=
  latest_of c st (glob st (dirpat d) (pat_latest d day)).

(* ReadStatusRecent n (3aa388e): the files newest first, loaded until n statuses are collected; files that fail to load are skipped
   and do not use up a slot *)
Fixpoint load_upto (c : cache) (st : fs) (l : list fent) (n : nat) {struct l} : cache * list payload :=
  match l with
  | [] => (c, [])
  | e :: r =>
      match n with
      | O => (c, [])
      | S n' => match load_latest c st (e_dir e) (e_name e) with
                | (c', Some p) => let (c'', ps) := load_upto c' st r n' in (c'', p :: ps)
                | (c', None) => load_upto c' st r n
                end
      end
  end.
Definition recent_of (c : cache) (st : fs) (g : gres) (n : nat) : cache * list payload :=
  match g with
  | GErr => (c, [])
  | GOk [] => (c, [])
  | GOk l => load_upto c st (filter_latest l (List.length l)) n
  end.
Definition q_recent (c : cache) (st : fs) (d : string) (n : nat) : cache * list payload :=
  recent_of c st (glob st (dirpat d) (pat_all d)) n.

(* ---- the recording process ---------------------------------------------------------------- *)
(* writer: target path (used by Close), where the open descriptor's file now lives (None once unlinked;
   follows a rename), the run's request id *)
Record writer := { w_dir : string; w_name : string; w_fd : option (string * string); w_req : string }.
Record hstate := { hfs : fs; hwr : option writer; hcache : cache }.
Definition h_init : hstate := {| hfs := fs_empty; hwr := None; hcache := [] |}.

Inductive op :=
| OOpen (d stamp req : string) (now : Z)
| OWrite (tag : nat) (size : Z) (now : Z)        (* the status carries the open run's request id *)
| OClose (now : Z)
| OUpdate (d req : string) (tag : nat) (size : Z) (now : Z)
| ORename (d d' : string)
| ORemoveOld (d : string) (cutoff : Z)            (* cutoff = now - retention; RemoveAll: cutoff = now *)
| OTouch (d stamp r8 : string) (c : bool) (t : Z).   (* os.Chtimes on one history file (environment) *)

(* writer.open (32b069b): MkdirAll, OpenOrCreateFile (O_APPEND), and - when the file is not empty and its last byte is not a
   newline (a previous writer was killed inside a line) - one newline, so that the next status starts on its own line *)
Definition wopen (st : fs) (dir fn : string) (now : Z) : list prim :=
  [PMkdir dir; PCreate dir fn now]
  ++ match get_file st dir fn with
     | Some f => match ftail f with TNone => [] | _ => [PAppend dir fn CNl now] end
     | None => []
     end.

Definition glob_list (st : fs) (d : string) : list fent :=
  match glob st (dirpat d) (pat_all d) with GOk l => l | GErr => [] end.

Definition prims (o : op) (h : hstate) : list prim :=
  let st := hfs h in
  match o with
  | OOpen d stamp req now => wopen st (dirname d) (fname d stamp (trunc8 req) false) now
  | OWrite tag size now =>
      match hwr h with
      | Some w => match w_fd w with
                  | Some (dir, fn) => map (fun c => PAppend dir fn c now) (chunks_of {| p_req := w_req w; p_tag := tag; p_size := size |})
                  | None => []
                  end
      | None => []
      end
  | OClose now =>
      match hwr h with
      | Some w =>
          match get_file st (w_dir w) (w_name w) with
          | None => []
          | Some f =>
              match parse f with
              | None => []
              | Some pl =>
                  (* eb925d1: the copy is written as <f>.tmp (removed first, so it starts empty), closed, renamed to <f>, then
                     the original is removed *)
                  let fnc := trim_ext (w_name w) ++ "_c.dat" in
                  let tmp := fnc ++ ".tmp" in
                  [PUnlink (w_dir w) tmp; PMkdir (w_dir w); PCreate (w_dir w) tmp now]
                  ++ map (fun c => PAppend (w_dir w) tmp c now) (chunks_of pl)
                  ++ [PRename (w_dir w) tmp (w_dir w) fnc; PUnlink (w_dir w) (w_name w)]
              end
          end
      | None => []
      end
  | OUpdate d req tag size now =>
      match q_find st d req with
      | FFound dir fn _ => wopen st dir fn now
                           ++ map (fun c => PAppend dir fn c now) (chunks_of {| p_req := req; p_tag := tag; p_size := size |})
      | _ => []
      end
  | ORename d0 d0' =>
      (* jsondb.Rename works on AddYamlExtension of both names *)
      let d := add_yaml d0 in let d' := add_yaml d0' in
      if has_dir st (dirname d) then
        match glob st (dirpat d) (pat_all d) with
        | GErr => [PMkdir (dirname d')]                       (* the pattern error is returned after MkdirAll *)
        | GOk l =>
            [PMkdir (dirname d')]
            ++ map (fun e => PRename (e_dir e) (e_name e) (dirname d') (replace1 (e_name e) (prefix_of d) (prefix_of d'))) l
            ++ [PRmdir (dirname d)]
        end
      else []
  | ORemoveOld d cutoff =>
      map (fun e => PUnlink (e_dir e) (e_name e)) (filter (fun e => (mtime (e_file e) <? cutoff)%Z) (glob_list st d))
  | OTouch d stamp r8 c t => [PTouch (dirname d) (fname d stamp r8 c) t]
  end.

(* the open descriptor follows its file *)
Definition track_fd (fd : option (string * string)) (p : prim) : option (string * string) :=
  match fd, p with
  | Some (dir, fn), PUnlink d n => if String.eqb d dir && String.eqb n fn then None else fd
  | Some (dir, fn), PRename d n d' n' =>
      if String.eqb d dir && String.eqb n fn then Some (d', n')
      else if String.eqb d' dir && String.eqb n' fn then None else fd
  | _, _ => fd
  end.
Definition track_wr (w : option writer) (ps : list prim) : option writer :=
  match w with
  | Some w => Some {| w_dir := w_dir w; w_name := w_name w; w_fd := fold_left track_fd ps (w_fd w); w_req := w_req w |}
  | None => None
  end.

Definition apply (h : hstate) (o : op) : hstate :=
  let ps := prims o h in
  let st' := run_prims (hfs h) ps in
  match o with
  | OOpen d stamp req now =>
      let dir := dirname d in let fn := fname d stamp (trunc8 req) false in
      {| hfs := st';
         hwr := Some {| w_dir := dir; w_name := fn; w_fd := Some (dir, fn); w_req := req |};
         hcache := hcache h |}
  | OClose _ =>
      match hwr h with
      | Some w => {| hfs := st'; hwr := None;
                     (* Invalidate(target) unless Compact failed (target cannot be opened) *)
                     hcache := match get_file (hfs h) (w_dir w) (w_name w) with
                               | Some _ => cache_del (hcache h) (w_dir w) (w_name w)
                               | None => hcache h end |}
      | None => h
      end
  | OUpdate d req _ _ _ =>
      match q_find (hfs h) d req with
      | FFound dir fn _ => {| hfs := st'; hwr := track_wr (hwr h) ps; hcache := cache_del (hcache h) dir fn |}
      | _ => h
      end
  | _ => {| hfs := st'; hwr := track_wr (hwr h) ps; hcache := hcache h |}
  end.

Definition run_ops (h : hstate) (os : list op) : hstate := fold_left apply os h.

(* ---- crash states of one operation (C07) -------------------------------------------------- *)
(* An interrupted append stops after j bytes, 0 < j < length of the chunk: a torn JSON prefix, or - for
   a JSON+newline chunk cut exactly before the newline - the complete JSON without newline. *)
Definition torn (p : prim) : list prim :=
  match p with
  | PAppend d n (CLine pl) now => [PAppend d n (CPart 1) now; PAppend d n (CJson pl) now]
  | PAppend d n (CJson pl) now => [PAppend d n (CPart 1) now]
  | _ => []
  end.
(* all crash states: every prefix of the primitive steps, and every prefix followed by a torn version of
   the next step.  (The representative CPart 1 stands for every torn length: parse, and hence every query,
   does not depend on the number n > 0 of torn bytes; sizes are compared up to that number by the check.) *)
Fixpoint crash_from (st : fs) (ps : list prim) : list fs :=
  match ps with
  | [] => [st]
  | p :: r => st :: map (run_prim st) (torn p) ++ crash_from (run_prim st p) r
  end.
Definition crash_states (h : hstate) (o : op) : list fs := crash_from (hfs h) (prims o h).

End H.
