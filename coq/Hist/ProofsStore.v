(* Hist/ProofsStore.v - facts about the structured store (Hist/SModel.v): lookup, the effect of the primitive
   step lists of the operations (a run of appends, a list of unlinks, a list of renames), file sizes.
   String-free; used by ProofsRefine.v (refinement to the run map), ProofsCache.v and ProofsCrash.v. *)
From Coq Require Import List String Ascii Bool Arith ZArith Lia Permutation.
Import ListNotations.
From BD.Hist Require Import Model SModel ProofsLib.

Lemma skey_eqb_neq a b : skey_eqb a b = false <-> a <> b.
Proof.
  split.
  - intros H E. subst. rewrite skey_eqb_refl in H. discriminate.
  - intros N. destruct (skey_eqb a b) eqn:E; auto. apply skey_eqb_eq in E. contradiction.
Qed.

Definition keys (s : sfs) : list skey := map fst (sfiles s).

(* ---- lookup ------------------------------------------------------------------------------------------- *)
Lemma sget_in s k f : sget s k = Some f -> In (k, f) (sfiles s).
Proof.
  unfold sget. destruct (filter _ _) as [|e r] eqn:F; [discriminate|]. intros H. inversion H; subst.
  assert (I : In e (e :: r)) by (simpl; auto). rewrite <- F in I. apply filter_In in I. destruct I as [I E].
  apply skey_eqb_eq in E. subst. destruct e; auto.
Qed.
Lemma sget_none s k : sget s k = None <-> ~ In k (keys s).
Proof.
  unfold sget, keys. split.
  - destruct (filter _ _) as [|e r] eqn:F; [|discriminate]. intros _ I. apply in_map_iff in I. destruct I as [e [E I]].
    assert (In e (filter (fun e => skey_eqb k (fst e)) (sfiles s))).
    { apply filter_In. split; auto. subst. apply skey_eqb_refl. }
    rewrite F in H. destruct H.
  - intros N. destruct (filter _ _) as [|e r] eqn:F; auto. exfalso. apply N.
    assert (I : In e (e :: r)) by (simpl; auto). rewrite <- F in I. apply filter_In in I. destruct I as [I E].
    apply skey_eqb_eq in E. subst. apply in_map. auto.
Qed.
Lemma in_sget s k f : NoDup (keys s) -> In (k, f) (sfiles s) -> sget s k = Some f.
Proof.
  unfold sget, keys. induction (sfiles s) as [|e l IH]; simpl; intros N I; [tauto|].
  inversion N; subst. destruct I as [I|I].
  - subst. simpl. rewrite skey_eqb_refl. auto.
  - destruct (skey_eqb k (fst e)) eqn:E.
    + apply skey_eqb_eq in E. subst. exfalso. apply H1. apply in_map_iff. exists (fst e, f). auto.
    + apply IH; auto.
Qed.
Lemma shas_true s k : shas s k = true <-> In k (keys s).
Proof.
  unfold shas. destruct (sget s k) eqn:E.
  - split; auto. intros _. apply sget_in in E. unfold keys. apply in_map_iff. exists (k, f). auto.
  - split; [discriminate|]. intros I. apply sget_none in E. contradiction.
Qed.
Lemma shas_false s k : shas s k = false <-> ~ In k (keys s).
Proof. rewrite <- shas_true. destruct (shas s k); split; congruence. Qed.

Lemma NoDup_map_inj {A B} (f : A -> B) l x y : NoDup (map f l) -> In x l -> In y l -> f x = f y -> x = y.
Proof.
  induction l as [|a l IH]; simpl; intros N Ix Iy E; [tauto|].
  inversion N; subst. destruct Ix as [Ix|Ix], Iy as [Iy|Iy]; subst; auto.
  - exfalso. apply H1. rewrite E. apply in_map; auto.
  - exfalso. apply H1. rewrite <- E. apply in_map; auto.
Qed.

(* ---- a run of appends to one file ------------------------------------------------------------------------ *)
Definition upd_key (k : skey) (g : file -> file) (l : list sent) : list sent :=
  map (fun e => if skey_eqb k (fst e) then (k, g (snd e)) else e) l.
Lemma upd_key_keys k g l : map fst (upd_key k g l) = map fst l.
Proof.
  unfold upd_key. rewrite map_map. apply map_ext. intros e. destruct (skey_eqb k (fst e)) eqn:E; auto.
  apply skey_eqb_eq in E. auto.
Qed.
Lemma upd_key_comp k g1 g2 l : upd_key k g2 (upd_key k g1 l) = upd_key k (fun f => g2 (g1 f)) l.
Proof.
  unfold upd_key. rewrite map_map. apply map_ext. intros e. destruct (skey_eqb k (fst e)) eqn:E; simpl.
  - rewrite skey_eqb_refl. auto.
  - rewrite E. auto.
Qed.
Lemma upd_key_absent k g l : ~ In k (map fst l) -> upd_key k g l = l.
Proof.
  unfold upd_key. intros N. rewrite <- (map_id l) at 2. apply map_ext_in. intros e He.
  destruct (skey_eqb k (fst e)) eqn:E; auto. apply skey_eqb_eq in E. subst. exfalso. apply N. apply in_map. auto.
Qed.

Definition appends (cs : list chunk) (now : Z) (f : file) : file := fold_left (fun f c => append_chunk f c now) cs f.
Lemma run_appends k now cs : forall s,
  run_sprims s (map (fun c => SAppend k c now) cs) = {| sdirs := sdirs s; sfiles := upd_key k (appends cs now) (sfiles s) |}.
Proof.
  induction cs as [|c cs IH]; intros s; simpl.
  - unfold upd_key, appends. simpl. destruct s. simpl. f_equal. rewrite <- (map_id sfiles) at 1. apply map_ext.
    intros e. destruct (skey_eqb k (fst e)) eqn:E; auto. apply skey_eqb_eq in E. subst. destruct e; auto.
  - rewrite IH. simpl. f_equal. fold (upd_key k (fun f => append_chunk f c now) (sfiles s)).
    rewrite upd_key_comp. reflexivity.
Qed.

(* the chunks of a status appended to a file without torn tail: one more record *)
Lemma appends_status p now f : ftail f = TNone ->
  appends (chunks_of p) now f = {| items := items f ++ [Rec p]; ftail := TNone; mtime := now |}.
Proof.
  intros T. unfold chunks_of, appends. destruct (p_size p <? 4096)%Z; simpl; unfold append_chunk; simpl; rewrite T; reflexivity.
Qed.
Lemma parse_rec_snoc its p now : parse {| items := its ++ [Rec p]; ftail := TNone; mtime := now |} = Some p.
Proof. unfold parse. simpl. rewrite last_rec_app. reflexivity. Qed.

(* ---- sizes --------------------------------------------------------------------------------------------- *)
Definition csize (c : chunk) : Z :=
  match c with CLine p => p_size p + 1 | CJson p => p_size p | CNl => 1 | CPart n => n end.
Definition isum (l : list item) : Z := fold_right (fun i a => isize i + a)%Z 0%Z l.
Lemma fsize_sum f : fsize f = (isum (items f) + tsize (ftail f))%Z.
Proof. unfold fsize, isum. induction (items f); simpl; lia. Qed.
Lemma isum_app l x : isum (l ++ [x]) = (isum l + isize x)%Z.
Proof. unfold isum. induction l; simpl; lia. Qed.
Lemma fsize_append f c now : fsize (append_chunk f c now) = (fsize f + csize c)%Z.
Proof.
  rewrite !fsize_sum. unfold append_chunk. destruct c, (ftail f); simpl; rewrite ?isum_app; simpl; lia.
Qed.
Lemma fsize_appends cs now : forall f, fsize (appends cs now f) = (fsize f + fold_right (fun c a => csize c + a) 0 cs)%Z.
Proof.
  unfold appends. induction cs as [|c cs IH]; intros f; simpl; [lia|]. rewrite IH, fsize_append. lia.
Qed.
Lemma csize_chunks p : fold_right (fun c a => csize c + a)%Z 0%Z (chunks_of p) = (p_size p + 1)%Z.
Proof. unfold chunks_of. destruct (p_size p <? 4096)%Z; simpl; lia. Qed.

(* ---- a list of unlinks ----------------------------------------------------------------------------------- *)
Lemma run_unlinks ks : forall s,
  run_sprims s (map SUnlink ks) = {| sdirs := sdirs s; sfiles := filter (fun e => negb (existsb (fun k => skey_eqb k (fst e)) ks)) (sfiles s) |}.
Proof.
  induction ks as [|k ks IH]; intros s; simpl.
  - rewrite filter_true. destruct s; auto.
  - rewrite IH. simpl. f_equal. rewrite filter_filter. apply filter_ext. intros e.
    destruct (skey_eqb k (fst e)); simpl; auto.
Qed.

(* ---- a list of renames (re-keying to another DAG) ------------------------------------------------------------ *)
Lemma rekey_dag d k : k_dag (rekey d k) = d.
Proof. reflexivity. Qed.
Lemma rekey_inj d k1 k2 : k_dag k1 = k_dag k2 -> rekey d k1 = rekey d k2 -> k1 = k2.
Proof. unfold rekey, mkkey. destruct k1, k2; simpl. intros E H. inversion H; subst. auto. Qed.

Definition rekey_in (d' : string) (ks : list skey) (l : list sent) : list sent :=
  map (fun e => if existsb (fun k => skey_eqb k (fst e)) ks then (rekey d' (fst e), snd e) else e) l.

Lemma run_renames d d' : d <> d' -> forall ks s,
  NoDup ks -> NoDup (keys s) ->
  (forall k, In k ks -> In k (keys s) /\ k_dag k = d) ->
  (forall k, In k ks -> ~ In (rekey d' k) (keys s)) ->
  run_sprims s (map (fun k => SRename k (rekey d' k)) ks) = {| sdirs := sdirs s; sfiles := rekey_in d' ks (sfiles s) |}.
Proof.
  intros Nd. induction ks as [|k ks IH]; intros s NDks ND P F; simpl.
  - unfold rekey_in. simpl. rewrite map_id. destruct s; auto.
  - destruct (P k) as [Pk Dk]; simpl; auto.
    assert (HK : shas s k = true) by (apply shas_true; auto). rewrite HK.
    assert (NE : skey_eqb k (rekey d' k) = false).
    { apply skey_eqb_neq. intro E. apply Nd. rewrite <- Dk. rewrite E. reflexivity. }
    rewrite NE.
    assert (FK : filter (fun e => negb (skey_eqb (rekey d' k) (fst e))) (sfiles s) = sfiles s).
    { rewrite <- (filter_true (sfiles s)) at 2. apply filter_ext_in. intros e He.
      destruct (skey_eqb (rekey d' k) (fst e)) eqn:E; auto. apply skey_eqb_eq in E.
      exfalso. apply (F k); simpl; auto. rewrite E. apply in_map. auto. }
    rewrite FK.
    set (s1 := {| sdirs := sdirs s; sfiles := map (fun e => if skey_eqb k (fst e) then (rekey d' k, snd e) else e) (sfiles s) |}).
    assert (K1 : forall x, In x (keys s1) -> x = rekey d' k \/ (In x (keys s) /\ x <> k)).
    { intros x Hx. unfold keys, s1 in Hx. simpl in Hx. rewrite map_map in Hx. apply in_map_iff in Hx.
      destruct Hx as [e [E I]]. destruct (skey_eqb k (fst e)) eqn:E2; simpl in E; subst; auto.
      right. split. { apply in_map; auto. } apply skey_eqb_neq in E2. auto. }
    assert (K2 : forall x, In x (keys s) -> x <> k -> In x (keys s1)).
    { intros x Hx Nx. unfold keys in *. apply in_map_iff in Hx. destruct Hx as [e [E I]]. subst.
      unfold s1. simpl. rewrite map_map. apply in_map_iff. exists e. split; auto.
      destruct (skey_eqb k (fst e)) eqn:E2; auto. apply skey_eqb_eq in E2. congruence. }
    assert (ND1 : NoDup (keys s1)).
    { unfold keys, s1. simpl. rewrite map_map. unfold keys in ND.
      assert (G : forall l, NoDup (map fst l) -> (forall e, In e l -> In (fst e) (keys s)) ->
                  NoDup (map (fun x : sent => fst (if skey_eqb k (fst x) then (rekey d' k, snd x) else x)) l)).
      { induction l as [|e l IHl]; simpl; intros N I; [constructor|]. inversion N; subst.
        constructor; [|apply IHl; auto].
        intro In1. apply in_map_iff in In1. destruct In1 as [e2 [E2 I2]].
        destruct (skey_eqb k (fst e)) eqn:Ee, (skey_eqb k (fst e2)) eqn:Ee2; simpl in E2.
        - apply skey_eqb_eq in Ee, Ee2. apply H1. rewrite <- Ee, Ee2. apply in_map; auto.
        - apply skey_eqb_eq in Ee. apply (F k); simpl; auto. rewrite <- E2. apply I. auto.
        - apply skey_eqb_eq in Ee2. apply (F k); simpl; auto. rewrite E2. apply I. auto.
        - apply H1. rewrite <- E2. apply in_map; auto. }
      apply G; auto. intros e He. apply in_map; auto. }
    inversion NDks as [|? ? NKk NDks']; subst.
    rewrite (IH s1); auto.
    + unfold s1, rekey_in. simpl. f_equal. rewrite map_map. apply map_ext_in. intros e He.
      destruct (skey_eqb k (fst e)) eqn:E; simpl.
      * apply skey_eqb_eq in E.
        assert (X : existsb (fun k0 => skey_eqb k0 (rekey d' k)) ks = false).
        { apply not_true_is_false. intro X. apply existsb_exists in X. destruct X as [k2 [I2 E2]].
          apply skey_eqb_eq in E2. destruct (P k2) as [_ D2]; simpl; auto. apply Nd. rewrite <- D2, E2. reflexivity. }
        rewrite X. subst k. reflexivity.
      * reflexivity.
    + intros k2 I2. destruct (P k2) as [P2 D2]; simpl; auto. split; auto. apply K2; auto. intro; subst. contradiction.
    + intros k2 I2 X. apply K1 in X. destruct X as [X|[X _]].
      * apply rekey_inj in X. { subst. contradiction. } destruct (P k2) as [_ D2]; simpl; auto; try congruence.
      * apply (F k2); simpl; auto.
Qed.

(* ---- writer.open: on a file without a torn tail (every file of a crash-free state) it is mkdir + create --------------- *)
Lemma sopen_fresh s k now : ~ In k (keys s) -> sopen s k now = [SMkdir (k_dag k); SCreate k now].
Proof. intros N. unfold sopen. rewrite (proj2 (sget_none s k) N). reflexivity. Qed.
Lemma sopen_clean s k f now : sget s k = Some f -> ftail f = TNone -> sopen s k now = [SMkdir (k_dag k); SCreate k now].
Proof. intros G T. unfold sopen. rewrite G, T. reflexivity. Qed.
Lemma sopen_torn s k f now : sget s k = Some f -> ftail f <> TNone -> sopen s k now = [SMkdir (k_dag k); SCreate k now; SAppend k CNl now].
Proof. intros G T. unfold sopen. rewrite G. destruct (ftail f); try reflexivity. congruence. Qed.

(* ---- the steps of the compaction (eb925d1): remove a stale temporary copy, write the copy, publish it with a rename ------------ *)
Lemma unlink_absent s k : ~ In k (keys s) -> run_sprim s (SUnlink k) = s.
Proof.
  intros N. simpl. destruct s as [ds fs]. simpl in *. f_equal.
  transitivity (filter (fun _ : sent => true) fs); [|apply filter_true]. apply filter_ext_in. intros e Ie.
  destruct (skey_eqb k (fst e)) eqn:E; auto. apply skey_eqb_eq in E. subst k. exfalso. apply N. unfold keys. simpl. apply in_map. auto.
Qed.
Lemma tmpk_neq k : k_tmp k = false -> tmpk k <> k.
Proof. intros T E. assert (X : k_tmp (tmpk k) = k_tmp k) by (rewrite E; reflexivity). simpl in X. congruence. Qed.
Lemma tmpk_absent s k : (forall e, In e (sfiles s) -> k_tmp (fst e) = false) -> ~ In (tmpk k) (keys s).
Proof.
  intros P I. unfold keys in I. apply in_map_iff in I. destruct I as [e [E Ie]]. specialize (P e Ie). rewrite E in P. discriminate.
Qed.
(* renaming the last entry kt to a key kc that is not in the store *)
Lemma rename_rest kt kc (fs : list sent) : ~ In kt (map fst fs) -> ~ In kc (map fst fs) ->
  map (fun e : sent => if skey_eqb kt (fst e) then (kc, snd e) else e) (filter (fun e : sent => negb (skey_eqb kc (fst e))) fs) = fs.
Proof.
  induction fs as [|e fs IH]; simpl; intros Nt Nc; auto.
  assert (E1 : skey_eqb kc (fst e) = false) by (apply skey_eqb_neq; intro X; apply Nc; auto).
  assert (E2 : skey_eqb kt (fst e) = false) by (apply skey_eqb_neq; intro X; apply Nt; auto).
  rewrite E1. simpl. rewrite E2. f_equal. apply IH; auto.
Qed.
Lemma rename_last ds fs kt kc f : ~ In kt (map fst fs) -> ~ In kc (map fst fs) -> kt <> kc ->
  run_sprim {| sdirs := ds; sfiles := fs ++ [(kt, f)] |} (SRename kt kc) = {| sdirs := ds; sfiles := fs ++ [(kc, f)] |}.
Proof.
  intros Nt Nc Ne. cbn [run_sprim].
  assert (HS : shas {| sdirs := ds; sfiles := fs ++ [(kt, f)] |} kt = true).
  { apply shas_true. unfold keys. cbn [sfiles]. rewrite map_app. apply in_or_app. right. simpl. auto. }
  rewrite HS. apply skey_eqb_neq in Ne. rewrite Ne. cbn [sdirs sfiles]. f_equal.
  rewrite filter_app, map_app. f_equal.
  - apply rename_rest; auto.
  - simpl. rewrite (skey_eqb_sym kc kt), Ne. simpl. rewrite skey_eqb_refl. reflexivity.
Qed.
