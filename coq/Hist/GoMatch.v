(* Hist/GoMatch.v - byte-level port of Go's path/filepath.Match and hasMeta (unix flavour, go1.23
   src/path/filepath/match.go: Match, scanChunk, matchChunk, getEsc), for ASCII names.
   Executable Gallina only.  go_match p n = None        <-> Match returns ErrBadPattern
                             go_match p n = Some b      <-> Match returns (b, nil).
   Used by Hist/Model.v for the two-level filepath.Glob of the history store; no theorem about it is
   needed beyond the per-path decidable premises of Hist/ProofsString.v (DESIGN.md Appendix A.3).
   Tie to the code: every differential history of the C06 check goes through it. *)
From Coq Require Import List String Ascii Bool Arith.
Import ListNotations.
Open Scope char_scope.

Definition la := list ascii.
Definition aeq (a b : ascii) : bool := Ascii.eqb a b.
Definition an (a : ascii) : nat := nat_of_ascii a.

Fixpoint skip_stars (p : la) : bool * la :=
  match p with
  | c :: r => if aeq c "*" then (true, snd (skip_stars r)) else (false, p)
  | [] => (false, [])
  end.

(* scanChunk after the stars: returns (chunk, rest) *)
Fixpoint scan (p : la) (inrange : bool) (acc : la) : la * la :=
  match p with
  | [] => (rev acc, [])
  | c :: r =>
      if aeq c "\" then
        match r with
        | [] => (rev (c :: acc), [])
        | d :: r' => scan r' inrange (d :: c :: acc)
        end
      else if aeq c "[" then scan r true (c :: acc)
      else if aeq c "]" then scan r false (c :: acc)
      else if aeq c "*" then (if inrange then scan r inrange (c :: acc) else (rev acc, p))
      else scan r inrange (c :: acc)
  end.

Inductive mres := MErr | MFail | MOk (rest : la).

(* getEsc: (rune, rest) or error *)
Definition get_esc (ch : la) : option (ascii * la) :=
  match ch with
  | [] => None
  | c :: r =>
      if aeq c "-" || aeq c "]" then None
      else
        let ch1 := if aeq c "\" then r else ch in
        match ch1 with
        | [] => None
        | x :: nch => match nch with [] => None | _ => Some (x, nch) end
        end
  end.

(* the range loop of a character class; r = None when the match has already failed *)
Fixpoint class_loop (fuel : nat) (ch : la) (r : option ascii) (nrange : nat) (matched : bool)
  : option (bool * la) :=
  match fuel with
  | O => None
  | S f =>
      match ch with
      | c :: rest =>
          if aeq c "]" && (0 <? nrange)%nat then Some (matched, rest)
          else
            match get_esc ch with
            | None => None
            | Some (lo, ch1) =>
                let '(hi, ch2, bad) :=
                  match ch1 with
                  | d :: ch1' => if aeq d "-" then
                                   match get_esc ch1' with
                                   | Some (h, c2) => (h, c2, false)
                                   | None => (lo, ch1, true)
                                   end
                                 else (lo, ch1, false)
                  | [] => (lo, ch1, false)
                  end in
                if bad then None else
                let m := match r with
                         | Some x => ((an lo <=? an x)%nat && (an x <=? an hi)%nat)
                         | None => false end in
                class_loop f ch2 r (S nrange) (matched || m)
            end
      | [] => match get_esc ch with None => None | Some _ => None end
      end
  end.

Fixpoint mchunk (fuel : nat) (chunk s : la) (failed : bool) : mres :=
  match fuel with
  | O => MErr
  | S f =>
      match chunk with
      | [] => if failed then MFail else MOk s
      | c :: ch =>
          let failed := failed || (match s with [] => true | _ => false end) in
          if aeq c "[" then
            let '(r, s') := if failed then (None, s) else (match s with x :: t => (Some x, t) | [] => (None, s) end) in
            let '(negated, ch1) := match ch with d :: t => if aeq d "^" then (true, t) else (false, ch) | [] => (false, ch) end in
            match class_loop (S (List.length ch1)) ch1 r O false with
            | None => MErr
            | Some (matched, ch2) => mchunk f ch2 s' (failed || Bool.eqb matched negated)
            end
          else if aeq c "?" then
            if failed then mchunk f ch s failed
            else match s with
                 | x :: t => mchunk f ch t (aeq x "/")
                 | [] => mchunk f ch s true
                 end
          else
            let lit (x : ascii) (ch' : la) :=
              if failed then mchunk f ch' s failed
              else match s with
                   | y :: t => mchunk f ch' t (negb (aeq x y))
                   | [] => mchunk f ch' s true
                   end in
            if aeq c "\" then
              match ch with
              | [] => MErr
              | x :: ch' => lit x ch'
              end
            else lit c ch
      end
  end.

Definition mch (chunk s : la) : mres := mchunk (S (S (List.length chunk))) chunk s false.

Fixpoint has_sep (s : la) : bool := match s with [] => false | c :: r => aeq c "/" || has_sep r end.

(* the star loop: try matching chunk at name[i+1:] for i = 0.. while name[i] is not a separator *)
Fixpoint star_loop (chunk name : la) (last : bool) : option (option la) :=
  (* Some (Some t): matched with rest t; Some None: no match; None: bad pattern *)
  match name with
  | [] => Some None
  | c :: r =>
      if aeq c "/" then Some None
      else match mch chunk r with
           | MOk t => if last && (match t with [] => false | _ => true end) then star_loop chunk r last else Some (Some t)
           | MErr => None
           | MFail => star_loop chunk r last
           end
  end.

Fixpoint gmatch (fuel : nat) (pattern name : la) : option bool :=
  match fuel with
  | O => None
  | S f =>
      match pattern with
      | [] => Some (match name with [] => true | _ => false end)
      | _ =>
          let '(star, p1) := skip_stars pattern in
          let '(chunk, rest) := scan p1 false [] in
          let rest_empty := match rest with [] => true | _ => false end in
          match chunk with
          | [] => if star then Some (negb (has_sep name))
                  else (* empty chunk without star cannot happen for non-empty pattern *) Some (match name with [] => true | _ => false end)
          | _ =>
              let fallback :=
                if star then
                  match star_loop chunk name rest_empty with
                  | None => None
                  | Some None => Some false
                  | Some (Some t) => gmatch f rest t
                  end
                else Some false in
              match mch chunk name with
              | MOk t => if (match t with [] => true | _ => false end) || negb rest_empty
                         then gmatch f rest t else fallback
              | MErr => None
              | MFail => fallback
              end
          end
      end
  end.

Definition go_match (pattern name : string) : option bool :=
  let p := list_ascii_of_string pattern in
  gmatch (S (List.length p)) p (list_ascii_of_string name).

Definition has_meta (s : string) : bool :=
  existsb (fun c => aeq c "*" || aeq c "?" || aeq c "[" || aeq c "\") (list_ascii_of_string s).

