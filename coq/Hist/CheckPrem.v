(* Hist/CheckPrem.v - evaluates the premises of the C06 theorems (Props/C06.v: names_okb, closedb, premises) on a harness
   case, over the canonical universe of the history (its DAG names, the day of the run, every (stamp, request id) it opens or
   touches).  Used by tools/props/C06.py to measure how many generated histories the `_partial` theorems apply to, and to
   check that on those the implementation is conform (theorem + correspondence + monitor must agree). *)
From Coq Require Import List String Ascii Bool Arith ZArith.
Import ListNotations.
From BD.Hist Require Import GoMatch Model SModel Spec Check ProofsString ProofsRefine ProofsTop ProofsC06.
Open Scope string_scope.

Definition pair_eqb (a b : string * string) : bool := String.eqb (fst a) (fst b) && String.eqb (snd a) (snd b).
Definition add_pair (p : string * string) (l : list (string * string)) : list (string * string) :=
  if existsb (pair_eqb p) l then l else l ++ [p].
Fixpoint runs_of_ops (os : list op) (acc : list (string * string)) : list (string * string) :=
  match os with
  | [] => acc
  | OOpen _ stamp req _ :: r => runs_of_ops r (add_pair (stamp, trunc8 req) acc)
  | OTouch _ stamp r8 _ _ :: r => runs_of_ops r (add_pair (stamp, r8) acc)
  | _ :: r => runs_of_ops r acc
  end.
Definition prem_hcase (c : hcase) : bool :=
  let D := map fst (h_names c) in
  let os := map s_op (h_steps c) in
  all_premisesb (h_loc c) (lookup (h_names c)) D [h_today c] (univ D (runs_of_ops os [])) (map EOp os).
Fixpoint prem_from (k : nat) (cs : list hcase) : list nat :=
  match cs with [] => [] | c :: r => if prem_hcase c then k :: prem_from (S k) r else prem_from (S k) r end.
Definition premises_hold := prem_from 0.
