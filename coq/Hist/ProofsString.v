(* Hist/ProofsString.v - L0 ~ L1: the string-level model of the history store (Hist/Model.v) run on the
   RENDERING of a structured store equals the rendering of the structured model (Hist/SModel.v), operation by
   operation and query by query, under decidable per-path premises `names_okb` (DESIGN.md Appendix A.3):

     for the DAG paths D, days and file keys K a history uses
       - directory names of distinct DAGs differ, the (escaped) patterns are well-formed and select the DAG's own directory, the DAG
         path ends in .yaml (AddYamlExtension, which Rename applies, is the identity on it)
       - the glob patterns of a key's DAG match the key's rendered file name (today pattern: iff the day agrees)
       - the time-stamp scan of a key's rendered path finds its start stamp (with milliseconds)
       - rendering is injective on K; the compaction twin's name is the one jsondb.Compact computes; no pattern matches the temporary
         copy <twin>.tmp; only a compacted key's path ends in _c.dat and dropCompacted maps it to the path of its original; the
         compacted copy's path is greater than its original's (reverse-order lookup)
   Before the repairs 8ffc003 / e6d6379 names with glob metacharacters or stamp-like substrings falsified these premises
   (F6b / F6c); on the repaired code they satisfy them (Examples in Hist/ProofsC06Ex.v).
   No string reasoning happens beyond these premises (and replace1 on a prefix). *)
From Coq Require Import List String Ascii Bool Arith ZArith Lia Permutation.
Import ListNotations.
From BD.Hist Require Import GoMatch Model SModel ProofsLib.
Open Scope string_scope.

Arguments wopen : simpl never.
Arguments sopen : simpl never.

Section R.
Variable loc : string.
Variable dirhash : string -> string.

Definition rdir (d : string) : string := dirname dirhash d.
Definition rname (k : skey) : string := fname (k_dag k) (k_stamp k) (k_r8 k) (k_c k) ++ (if k_tmp k then ".tmp" else "").
Definition rpath (k : skey) : string := fpath loc (rdir (k_dag k)) (rname k).
Definition render_ent (e : sent) : fent := (rdir (k_dag (fst e)), rname (fst e), snd e).
Definition render_fs (s : sfs) : fs := {| dirs := map rdir (sdirs s); files := map render_ent (sfiles s) |}.
Definition render_prim (p : sprim) : prim :=
  match p with
  | SMkdir d => PMkdir (rdir d)
  | SCreate k now => PCreate (rdir (k_dag k)) (rname k) now
  | SAppend k c now => PAppend (rdir (k_dag k)) (rname k) c now
  | SUnlink k => PUnlink (rdir (k_dag k)) (rname k)
  | SRename k k' => PRename (rdir (k_dag k)) (rname k) (rdir (k_dag k')) (rname k')
  | SRmdir d => PRmdir (rdir d)
  | STouch k t => PTouch (rdir (k_dag k)) (rname k) t
  end.
Definition render_cache (c : scache) : cache := map (fun e => (rdir (k_dag (fst e)), rname (fst e), snd e)) c.
Definition render_fd (k : skey) : string * string := (rdir (k_dag k), rname k).
Definition render_wr (w : swriter) : writer :=
  {| w_dir := rdir (k_dag (sw_key w)); w_name := rname (sw_key w); w_fd := option_map render_fd (sw_fd w); w_req := sw_req w |}.
Definition render_state (h : sstate) : hstate :=
  {| hfs := render_fs (sst h); hwr := option_map render_wr (swr h); hcache := render_cache (scch h) |}.

(* ---------------------------------------------------------------------------------------------- *)
(* The decidable premises                                                                          *)
(* ---------------------------------------------------------------------------------------------- *)
Definition rdirpat (d : string) : string := dirpat dirhash d.     (* the escaped directory name, as it stands in the glob patterns *)
Definition pat_ok (d pat : string) : bool :=
  match go_match (loc ++ "/" ++ rdirpat d ++ "/" ++ pat) "" with Some _ => true | None => false end.
Definition obool_eqb (a : option bool) (b : bool) : bool :=
  match a with Some x => Bool.eqb x b | None => false end.
(* how Glob finds the directory of d: without metacharacters in the (escaped) directory pattern by name - the pattern then is the
   name itself; with metacharacters (i.e. escapes) by matching the pattern against every directory: it must match its own only *)
Definition dirsel_okb (D : list string) (d : string) : bool :=
  if has_meta (rdirpat d)
  then match go_match (loc ++ "/" ++ rdirpat d) "" with Some _ => true | None => false end
       && forallb (fun d' => obool_eqb (go_match (rdirpat d) (rdir d')) (String.eqb d d')) D
  else String.eqb (rdirpat d) (rdir d).
Definition dag_okb (D : list string) (days : list string) (d : string) : bool :=
  dirsel_okb D d
  && pat_ok d (pat_all d) && pat_ok d (pat_latest d None)
  && forallb (fun day => pat_ok d (pat_latest d (Some day))) days
  && forallb (fun d' => implb (String.eqb (rdir d) (rdir d')) (String.eqb d d')) D
  && String.eqb (add_yaml d) d.
(* dropCompacted on rendered paths is dropCompacted on keys: only a compacted key's path ends in _c.dat, and the path it
   stands for is the path of the uncompacted key it is the twin of *)
Definition orig_okb (K : list skey) (m : skey) : bool :=
  match orig_of (rpath m) with
  | Some o => k_c m && forallb (fun k => Bool.eqb (String.eqb o (rpath k)) (negb (k_c k) && negb (k_tmp k) && skey_eqb (twin k) m)) K
  | None => negb (k_c m)
  end.
Definition key_okb (D : list string) (days : list string) (K : list skey) (k : skey) : bool :=
  existsb (String.eqb (k_dag k)) D
  && obool_eqb (go_match (pat_all (k_dag k)) (rname k)) (in_patk PAll k)
  && obool_eqb (go_match (pat_latest (k_dag k) None) (rname k)) (in_patk (PLatest None) k)
  && forallb (fun day => obool_eqb (go_match (pat_latest (k_dag k) (Some day)) (rname k)) (in_patk (PLatest (Some day)) k)) days
  && (k_tmp k || String.eqb (find_ts (rpath k)) (k_stamp k))
  && forallb (fun k' => implb (String.eqb (rname k) (rname k') && String.eqb (k_dag k) (k_dag k')) (skey_eqb k k')) K
  && (k_c k || k_tmp k || String.eqb (trim_ext (rname k) ++ "_c.dat") (rname (twin k)))
  && (k_tmp k || orig_okb K k)
  && (k_c k || k_tmp k || String.ltb (rpath k) (rpath (twin k))).
Definition names_okb (D : list string) (days : list string) (K : list skey) : bool :=
  forallb (dag_okb D days) D && forallb (key_okb D days K) K.

Section U.
Variable D : list string.
Variable days : list string.
Variable K : list skey.
Hypothesis OK : names_okb D days K = true.

Lemma dag_ok d : In d D -> dag_okb D days d = true.
Proof. intros H. unfold names_okb in OK. apply andb_prop in OK. destruct OK as [A _]. rewrite forallb_forall in A. auto. Qed.
Lemma key_ok k : In k K -> key_okb D days K k = true.
Proof. intros H. unfold names_okb in OK. apply andb_prop in OK. destruct OK as [_ A]. rewrite forallb_forall in A. auto. Qed.

Ltac andb_all := repeat match goal with H : (_ && _)%bool = true |- _ => apply andb_prop in H; destruct H end.
Ltac dag_facts d H := let A := fresh "A" in pose proof (dag_ok d H) as A; unfold dag_okb in A; andb_all.
Ltac key_facts k H := let A := fresh "A" in pose proof (key_ok k H) as A; unfold key_okb in A; andb_all.

Lemma nk_dirsel d : In d D -> dirsel_okb D d = true.
Proof. intros H. dag_facts d H. assumption. Qed.
Lemma nk_dir_inj d d' : In d D -> In d' D -> rdir d = rdir d' -> d = d'.
Proof.
  intros H H' E. dag_facts d H.
  match goal with X : forallb (fun d' => implb _ _) D = true |- _ => rewrite forallb_forall in X; specialize (X d' H');
    rewrite E, String.eqb_refl in X; simpl in X; apply String.eqb_eq; exact X end.
Qed.
Lemma nk_dir_eqb d d' : In d D -> In d' D -> String.eqb (rdir d) (rdir d') = String.eqb d d'.
Proof.
  intros H H'. destruct (String.eqb d d') eqn:E.
  - apply String.eqb_eq in E. subst. apply String.eqb_refl.
  - apply String.eqb_neq. intro N. apply nk_dir_inj in N; auto. subst. rewrite String.eqb_refl in E. discriminate.
Qed.
Lemma nk_yaml d : In d D -> add_yaml d = d.
Proof. intros H. dag_facts d H. apply String.eqb_eq. assumption. Qed.
Lemma nk_pat_all d : In d D -> pat_ok d (pat_all d) = true.
Proof. intros H. dag_facts d H. assumption. Qed.
Lemma nk_pat_latest d day : In d D -> (match day with Some x => In x days | None => True end) -> pat_ok d (pat_latest d day) = true.
Proof.
  intros H Hd. dag_facts d H. destruct day; [|assumption].
  match goal with X : forallb (fun day => pat_ok _ _) days = true |- _ => rewrite forallb_forall in X; auto end.
Qed.
Lemma nk_dag k : In k K -> In (k_dag k) D.
Proof.
  intros H. key_facts k H.
  match goal with X : existsb _ D = true |- _ => apply existsb_exists in X; destruct X as [x [I E]]; apply String.eqb_eq in E; subst; auto end.
Qed.
Lemma obool_eqb_true a b : obool_eqb a b = true -> a = Some b.
Proof. destruct a; simpl; intros H; try discriminate. apply Bool.eqb_prop in H. subst. auto. Qed.
Lemma nk_own_all k : In k K -> go_match (pat_all (k_dag k)) (rname k) = Some (in_patk PAll k).
Proof. intros H. key_facts k H. apply obool_eqb_true; assumption. Qed.
Lemma nk_own_latest k : In k K -> go_match (pat_latest (k_dag k) None) (rname k) = Some (in_patk (PLatest None) k).
Proof. intros H. key_facts k H. apply obool_eqb_true; assumption. Qed.
Lemma nk_own_day k day : In k K -> In day days ->
  go_match (pat_latest (k_dag k) (Some day)) (rname k) = Some (in_patk (PLatest (Some day)) k).
Proof.
  intros H Hd. key_facts k H.
  match goal with X : forallb (fun day => obool_eqb _ _) days = true |- _ => rewrite forallb_forall in X; apply obool_eqb_true; auto end.
Qed.
Lemma nk_scan k : In k K -> k_tmp k = false -> find_ts (rpath k) = k_stamp k.
Proof.
  intros H T. key_facts k H.
  match goal with X : (k_tmp k || String.eqb (find_ts _) _)%bool = true |- _ => rewrite T in X; simpl in X; apply String.eqb_eq; exact X end.
Qed.
Lemma nk_inj k k' : In k K -> In k' K -> rname k = rname k' -> k_dag k = k_dag k' -> k = k'.
Proof.
  intros H H' E1 E2. key_facts k H.
  match goal with X : forallb (fun k' => implb _ _) K = true |- _ => rewrite forallb_forall in X; specialize (X k' H');
    rewrite E1, E2, !String.eqb_refl in X; simpl in X; apply skey_eqb_eq; exact X end.
Qed.
Lemma nk_twin k : In k K -> k_c k = false -> k_tmp k = false -> trim_ext (rname k) ++ "_c.dat" = rname (twin k).
Proof.
  intros H C T. key_facts k H.
  match goal with X : (k_c k || k_tmp k || _)%bool = true |- _ => rewrite C, T in X; simpl in X; apply String.eqb_eq; exact X end.
Qed.
(* the compacted copy's path is the larger one: FindByRequestID, which scans the matches in reverse order, meets it first *)
Lemma nk_twin_lt k : In k K -> k_c k = false -> k_tmp k = false -> String.ltb (rpath k) (rpath (twin k)) = true.
Proof.
  intros H C T. key_facts k H.
  match goal with X : (k_c k || k_tmp k || String.ltb _ _)%bool = true |- _ => rewrite C, T in X; simpl in X; exact X end.
Qed.
Lemma app_empty_r (x : string) : x ++ "" = x.
Proof. induction x; simpl; auto. f_equal. auto. Qed.
Lemma sapp_assoc (x y z : string) : (x ++ y) ++ z = x ++ (y ++ z).
Proof. induction x; simpl; auto. f_equal. auto. Qed.
Lemma rname_plain d st r c : rname (mkkey d st r c) = fname d st r c.
Proof. unfold rname. simpl. apply app_empty_r. Qed.
Lemma rname_tmpk k : k_tmp k = false -> rname (tmpk k) = rname k ++ ".tmp".
Proof. intros T. unfold rname. simpl. rewrite T, app_empty_r. reflexivity. Qed.
Lemma nk_orig m k : In m K -> In k K -> k_tmp m = false -> k_tmp k = false ->
  match orig_of (rpath m) with Some o => String.eqb o (rpath k) | None => false end = negb (k_c k) && skey_eqb (twin k) m.
Proof.
  intros Hm Hk Tm Tk. key_facts m Hm.
  match goal with X : (k_tmp m || orig_okb K m)%bool = true |- _ => rewrite Tm in X; simpl in X; unfold orig_okb in X end.
  destruct (orig_of (rpath m)) as [o|].
  - match goal with X : (k_c m && forallb _ K)%bool = true |- _ => apply andb_prop in X; destruct X as [_ X]; rewrite forallb_forall in X;
      specialize (X k Hk); apply Bool.eqb_prop in X; rewrite X, Tk end. simpl. rewrite andb_true_r. reflexivity.
  - match goal with X : negb (k_c m) = true |- _ => apply negb_true_iff in X; rename X into Cm end.
    destruct (skey_eqb (twin k) m) eqn:E; [|rewrite andb_false_r; reflexivity].
    apply skey_eqb_eq in E. subst m. simpl in Cm. discriminate.
Qed.

(* the key comparison of L0 (directory and name strings) is the key comparison of L1 *)
Lemma render_key_eqb k k' : In k K -> In k' K ->
  (String.eqb (rdir (k_dag k')) (rdir (k_dag k)) && String.eqb (rname k') (rname k))%bool = skey_eqb k k'.
Proof.
  intros H H'. destruct (skey_eqb k k') eqn:E.
  - apply skey_eqb_eq in E. subst. rewrite !String.eqb_refl. auto.
  - destruct (String.eqb (rdir (k_dag k')) (rdir (k_dag k))) eqn:E1; auto.
    destruct (String.eqb (rname k') (rname k)) eqn:E2; auto.
    apply String.eqb_eq in E1, E2. apply nk_dir_inj in E1; auto using nk_dag.
    assert (k = k') by (apply nk_inj; auto). subst. rewrite skey_eqb_refl in E. discriminate.
Qed.
Lemma is_at_render k e : In k K -> In (fst e) K -> is_at (rdir (k_dag k)) (rname k) (render_ent e) = skey_eqb k (fst e).
Proof. intros H H'. unfold is_at, render_ent, e_dir, e_name. simpl. apply render_key_eqb; auto. Qed.

Definition keys_in (s : sfs) : Prop := (forall e, In e (sfiles s) -> In (fst e) K) /\ (forall d, In d (sdirs s) -> In d D).
Definition dirs_nodup (s : sfs) : Prop := NoDup (sdirs s).

Lemma get_render s k : keys_in s -> In k K -> get_file (render_fs s) (rdir (k_dag k)) (rname k) = sget s k.
Proof.
  intros [KI _] H. unfold get_file, sget, render_fs. simpl.
  rewrite filter_map_comm.
  rewrite (filter_ext_in' (fun x => is_at (rdir (k_dag k)) (rname k) (render_ent x)) (fun e => skey_eqb k (fst e))).
  - unfold sent. generalize (filter (fun e : skey * file => skey_eqb k (fst e)) (sfiles s)). intros l. destruct l; simpl; auto.
  - intros x Hx. apply is_at_render; auto.
Qed.
Lemma has_render s k : keys_in s -> In k K -> has_file (render_fs s) (rdir (k_dag k)) (rname k) = shas s k.
Proof. intros. unfold has_file, shas. rewrite get_render; auto. Qed.
Lemma has_dir_render s d : keys_in s -> In d D -> has_dir (render_fs s) (rdir d) = shas_dir s d.
Proof.
  intros [_ DI] H. unfold has_dir, shas_dir, render_fs. simpl.
  induction (sdirs s) as [|x l IH]; simpl; auto.
  rewrite nk_dir_eqb; auto. { f_equal. apply IH. intros; apply DI; simpl; auto. } apply DI; simpl; auto.
Qed.
Lemma dir_empty_render s d : keys_in s -> In d D -> dir_empty (render_fs s) (rdir d) = sdir_empty s d.
Proof.
  intros [KI _] H. unfold dir_empty, sdir_empty, render_fs. simpl. f_equal.
  induction (sfiles s) as [|x l IH]; simpl; auto.
  unfold e_dir at 1. simpl. rewrite nk_dir_eqb; auto.
  - f_equal. apply IH. intros; apply KI; simpl; auto.
  - apply nk_dag, KI. simpl; auto.
Qed.

(* ---- primitive steps ---------------------------------------------------------------------------- *)
Definition prim_in (p : sprim) : Prop :=
  match p with
  | SMkdir d | SRmdir d => In d D
  | SCreate k _ | SAppend k _ _ | SUnlink k | STouch k _ => In k K
  | SRename k k' => In k K /\ In k' K
  end.

Lemma keys_in_run_sprim s p : keys_in s -> prim_in p -> keys_in (run_sprim s p).
Proof.
  intros [KI DI] P. destruct p; simpl in *.
  - destruct (shas_dir s d); split; auto. simpl. intros x Hx. apply in_app_or in Hx. destruct Hx as [|[|[]]]; subst; auto.
  - destruct (shas s k); split; auto. simpl. intros x Hx. apply in_app_or in Hx. destruct Hx as [|[|[]]]; subst; auto.
  - split; auto. simpl. intros x Hx. apply in_map_iff in Hx. destruct Hx as [y [E I]].
    destruct (skey_eqb k (fst y)); subst; simpl; auto.
  - split; auto. simpl. intros x Hx. apply filter_In in Hx. destruct Hx. auto.
  - destruct P as [P1 P2]. destruct (shas s k); [destruct (skey_eqb k k')|]; split; auto. simpl.
    intros x Hx. apply in_map_iff in Hx. destruct Hx as [y [E I]]. apply filter_In in I. destruct I.
    destruct (skey_eqb k (fst y)); subst; simpl; auto.
  - destruct (sdir_empty s d); split; auto. simpl. intros x Hx. apply filter_In in Hx. destruct Hx. auto.
  - split; auto. simpl. intros x Hx. apply in_map_iff in Hx. destruct Hx as [y [E I]].
    destruct (skey_eqb k (fst y)); subst; simpl; auto.
Qed.

Lemma map_render_upd s k (g : file -> file) (k2 : skey) : keys_in s -> In k K ->
  map (fun e => if is_at (rdir (k_dag k)) (rname k) e then (rdir (k_dag k2), rname k2, g (e_file e)) else e) (map render_ent (sfiles s))
  = map render_ent (map (fun e => if skey_eqb k (fst e) then (k2, g (snd e)) else e) (sfiles s)).
Proof.
  intros [KI _] H. rewrite !map_map. apply map_ext_in. intros e He.
  rewrite is_at_render; auto. destruct (skey_eqb k (fst e)); auto.
Qed.

Lemma run_prim_render s p : keys_in s -> prim_in p -> run_prim (render_fs s) (render_prim p) = render_fs (run_sprim s p).
Proof.
  intros KI P. destruct p; simpl in *.
  - rewrite has_dir_render; auto. destruct (shas_dir s d); auto. unfold render_fs. simpl. rewrite map_app. auto.
  - rewrite has_render; auto. destruct (shas s k); auto. unfold render_fs. simpl. rewrite map_app. auto.
  - unfold render_fs. simpl. f_equal. apply (map_render_upd s k (fun f => append_chunk f c now) k); auto.
  - unfold render_fs. simpl. f_equal. rewrite filter_map_comm. f_equal. apply filter_ext_in'.
    intros e He. rewrite is_at_render; auto. destruct KI as [KI _]. auto.
  - destruct P as [P1 P2]. rewrite has_render; auto. destruct (shas s k); auto.
    rewrite (String.eqb_sym (rdir (k_dag k))), (String.eqb_sym (rname k)), render_key_eqb; auto.
    destruct (skey_eqb k k') eqn:E; auto.
    unfold render_fs. simpl. f_equal.
    assert (KI' : keys_in {| sdirs := sdirs s; sfiles := filter (fun e => negb (skey_eqb k' (fst e))) (sfiles s) |}).
    { destruct KI as [KI DI]. split; auto. simpl. intros x Hx. apply filter_In in Hx. destruct Hx. auto. }
    pose proof (map_render_upd _ k (fun f => f) k' KI' P1) as M. simpl in M. rewrite <- M. f_equal.
    rewrite filter_map_comm. f_equal. apply filter_ext_in'. intros e He. rewrite is_at_render; auto. destruct KI as [KI _]. auto.
  - rewrite dir_empty_render; auto. destruct (sdir_empty s d); auto. unfold render_fs. simpl. f_equal.
    rewrite filter_map_comm. f_equal. apply filter_ext_in'. intros x Hx. destruct KI as [_ DI]. rewrite nk_dir_eqb; auto.
  - unfold render_fs. simpl. f_equal.
    apply (map_render_upd s k (fun f => {| items := items f; ftail := ftail f; mtime := t |}) k); auto.
Qed.

Lemma run_prims_render ps : forall s, keys_in s -> Forall prim_in ps ->
  run_prims (render_fs s) (map render_prim ps) = render_fs (run_sprims s ps) /\ keys_in (run_sprims s ps).
Proof.
  induction ps as [|p ps IH]; intros s KI F; simpl; auto.
  inversion F; subst. rewrite run_prim_render; auto. apply IH; auto. apply keys_in_run_sprim; auto.
Qed.


Lemma dirs_nodup_run_sprim s p : dirs_nodup s -> dirs_nodup (run_sprim s p).
Proof.
  unfold dirs_nodup. intros N. destruct p; simpl; auto.
  - destruct (shas_dir s d) eqn:E; auto. simpl.
    apply (Permutation_NoDup (l := d :: sdirs s)). { apply Permutation_cons_append. }
    constructor; auto.
    intro I. unfold shas_dir in E. assert (existsb (String.eqb d) (sdirs s) = true).
    { apply existsb_exists. exists d. split; auto. apply String.eqb_refl. } congruence.
  - destruct (shas s k); auto.
  - destruct (shas s k); [destruct (skey_eqb k k')|]; auto.
  - destruct (sdir_empty s d); auto. simpl. apply NoDup_filter; auto.
Qed.
Lemma dirs_nodup_run_sprims ps : forall s, dirs_nodup s -> dirs_nodup (run_sprims s ps).
Proof. induction ps; simpl; auto. intros. apply IHps, dirs_nodup_run_sprim; auto. Qed.

(* ---- glob ------------------------------------------------------------------------------------------ *)
Definition pat_of (d : string) (pk : patk) : string :=
  match pk with PAll => pat_all d | PLatest day => pat_latest d day end.
Definition pk_in (pk : patk) : Prop := match pk with PLatest (Some day) => In day days | _ => True end.

Lemma own_match k pk : In k K -> pk_in pk -> go_match (pat_of (k_dag k) pk) (rname k) = Some (in_patk pk k).
Proof.
  intros H P. destruct pk as [|[day|]]; simpl in *.
  - apply nk_own_all; auto.
  - apply nk_own_day; auto.
  - apply nk_own_latest; auto.
Qed.

Lemma glob_names_render d pk l : pk_in pk -> (forall e, In e l -> In (fst e) K /\ k_dag (fst e) = d) -> forall acc,
  glob_names (pat_of d pk) (map render_ent l) acc = GOk (rev acc ++ map render_ent (filter (fun e => in_patk pk (fst e)) l))%list.
Proof.
  intros P. induction l as [|e l IH]; intros H acc; simpl.
  - rewrite app_nil_r. auto.
  - destruct (H e) as [HK Hd]; simpl; auto.
    unfold e_name at 1. simpl. rewrite <- Hd at 1. rewrite own_match; auto.
    destruct (in_patk pk (fst e)).
    + rewrite IH by (intros; apply H; simpl; auto). simpl. rewrite <- app_assoc. auto.
    + apply IH. intros; apply H; simpl; auto.
Qed.

Lemma filter_dirs_render s d : keys_in s -> dirs_nodup s -> In d D ->
  filter (String.eqb (rdir d)) (map rdir (sdirs s)) = if shas_dir s d then [rdir d] else [].
Proof.
  intros [_ DI] N H. unfold shas_dir. unfold dirs_nodup in N.
  induction (sdirs s) as [|x l IH]; simpl; auto.
  inversion N; subst. rewrite nk_dir_eqb by (auto; apply DI; simpl; auto).
  destruct (String.eqb d x) eqn:E; simpl.
  - apply String.eqb_eq in E. subst x. f_equal.
    rewrite IH by (auto; intros; apply DI; simpl; auto).
    destruct (existsb (String.eqb d) l) eqn:E2; auto.
    apply existsb_exists in E2. destruct E2 as [y [I Ey]]. apply String.eqb_eq in Ey. subst. contradiction.
  - apply IH; auto. intros; apply DI; simpl; auto.
Qed.

Lemma sel_dirs_filter pat (f : string -> bool) l : (forall x, In x l -> go_match pat x = Some (f x)) -> sel_dirs pat l = Some (filter f l).
Proof.
  induction l as [|x l IH]; simpl; intros H; auto.
  rewrite (H x (or_introl eq_refl)). rewrite IH by (intros; apply H; auto). destruct (f x); reflexivity.
Qed.

(* the directories Glob visits for the pattern of d: its own directory, when it exists *)
Lemma glob_dir_list s d : keys_in s -> dirs_nodup s -> In d D ->
  (if has_meta (rdirpat d)
   then match go_match (loc ++ "/" ++ rdirpat d) "" with
        | None => None
        | Some _ => sel_dirs (rdirpat d) (isort String.ltb (map rdir (sdirs s)))
        end
   else Some (filter (String.eqb (rdirpat d)) (map rdir (sdirs s))))
  = Some (if shas_dir s d then [rdir d] else []).
Proof.
  intros KI N H. pose proof (nk_dirsel d H) as DS. unfold dirsel_okb in DS.
  destruct (has_meta (rdirpat d)).
  - apply andb_prop in DS. destruct DS as [V M]. destruct (go_match (loc ++ "/" ++ rdirpat d) ""); [|discriminate].
    rewrite forallb_forall in M.
    rewrite (sel_dirs_filter (rdirpat d) (String.eqb (rdir d))).
    + f_equal. pose proof (filter_dirs_render s d KI N H) as FD.
      assert (PM : Permutation (filter (String.eqb (rdir d)) (isort String.ltb (map rdir (sdirs s)))) (filter (String.eqb (rdir d)) (map rdir (sdirs s))))
        by (apply Permutation_filter, isort_perm).
      rewrite FD in PM. destruct (shas_dir s d).
      * apply Permutation_length_1_inv. apply Permutation_sym. exact PM.
      * apply Permutation_nil. apply Permutation_sym. exact PM.
    + intros x Ix. eapply Permutation_in in Ix; [|apply isort_perm]. apply in_map_iff in Ix. destruct Ix as [d0 [E I0]]. subst x.
      destruct KI as [_ DI]. specialize (M d0 (DI d0 I0)). apply obool_eqb_true in M. rewrite M. f_equal.
      symmetry. apply nk_dir_eqb; auto.
  - apply String.eqb_eq in DS. rewrite DS. f_equal. apply filter_dirs_render; auto.
Qed.

Lemma glob_render s d pk : keys_in s -> dirs_nodup s -> In d D -> pk_in pk ->
  glob loc (render_fs s) (rdirpat d) (pat_of d pk) = GOk (map render_ent (sglob rname s d pk)).
Proof.
  intros KI N H P. unfold glob.
  assert (V : pat_ok d (pat_of d pk) = true).
  { destruct pk as [|day]; simpl; [apply nk_pat_all; auto | apply nk_pat_latest; auto]. }
  unfold pat_ok in V. destruct (go_match _ "") eqn:G; [|discriminate].
  pose proof (glob_dir_list s d KI N H) as DL. simpl dirs.
  assert (MAIN : glob_dirs (pat_of d pk) (render_fs s) (if shas_dir s d then [rdir d] else []) [] = GOk (map render_ent (sglob rname s d pk))).
  { unfold sglob. destruct (shas_dir s d); simpl; auto.
    assert (F : filter (fun e => String.eqb (e_dir e) (rdir d)) (map render_ent (sfiles s))
                = map render_ent (filter (fun e => String.eqb (k_dag (fst e)) d) (sfiles s))).
    { rewrite filter_map_comm. f_equal. apply filter_ext_in'. intros e He. unfold e_dir. simpl.
      destruct KI as [KI _]. apply nk_dir_eqb; auto. apply nk_dag; auto. }
    rewrite F.
    rewrite (isort_map render_ent (fun x y => String.ltb (rname (fst x)) (rname (fst y)))) by reflexivity.
    rewrite (glob_names_render d pk); auto.
    intros e He. eapply Permutation_in in He; [|apply isort_perm]. apply filter_In in He. destruct He as [I E].
    apply String.eqb_eq in E. destruct KI as [KI _]. auto. }
  destruct (has_meta (rdirpat d)).
  - destruct (go_match (loc ++ "/" ++ rdirpat d) ""); [|discriminate]. rewrite DL. exact MAIN.
  - inversion DL as [DL']. rewrite DL'. exact MAIN.
Qed.

(* elements of a glob result are files of the store, of that DAG *)
Lemma sglob_in s d pk e : In e (sglob rname s d pk) -> In e (sfiles s) /\ k_dag (fst e) = d /\ in_patk pk (fst e) = true.
Proof.
  unfold sglob. destruct (shas_dir s d); [|intros []]. intros H. apply filter_In in H. destruct H as [H P].
  eapply Permutation_in in H; [|apply isort_perm]. apply filter_In in H. destruct H as [I E]. apply String.eqb_eq in E. auto.
Qed.

(* ---- filterLatest --------------------------------------------------------------------------------- *)
Lemma existsb_map' {A B} (f : A -> B) (g : B -> bool) l : existsb g (map f l) = existsb (fun x => g (f x)) l.
Proof. induction l; simpl; auto. rewrite IHl. reflexivity. Qed.
Lemma existsb_ext_in' {A} (f g : A -> bool) l : (forall x, In x l -> f x = g x) -> existsb f l = existsb g l.
Proof. induction l; simpl; intros H; auto. rewrite H, IHl; auto. Qed.
Definition plain_in (l : list sent) : Prop := forall e, In e l -> In (fst e) K /\ k_tmp (fst e) = false.
Lemma drop_compacted_render l : plain_in l -> drop_compacted loc (map render_ent l) = map render_ent (sdrop_compacted l).
Proof.
  intros H. unfold drop_compacted, sdrop_compacted. rewrite filter_map_comm. f_equal.
  apply filter_ext_in'. intros e He. f_equal. rewrite existsb_map'. unfold sdropped.
  destruct (H e He) as [Ke Te].
  transitivity (existsb (fun m : sent => negb (k_c (fst e)) && skey_eqb (twin (fst e)) (fst m)) l).
  - apply existsb_ext_in'. intros m Hm. destruct (H m Hm) as [Km Tm].
    change (fpath loc (e_dir (render_ent m)) (e_name (render_ent m))) with (rpath (fst m)).
    change (fpath loc (e_dir (render_ent e)) (e_name (render_ent e))) with (rpath (fst e)).
    apply nk_orig; auto.
  - clear. induction l as [|m l IH]; simpl; [rewrite andb_false_r; reflexivity|].
    rewrite IH. destruct (negb (k_c (fst e))); reflexivity.
Qed.
Lemma sdrop_in l e : In e (sdrop_compacted l) -> In e l.
Proof. unfold sdrop_compacted. intros H. apply filter_In in H. apply H. Qed.
Lemma filter_latest_render l n : plain_in l ->
  filter_latest loc (map render_ent l) n = map render_ent (sfilter_latest l n).
Proof.
  intros H. unfold filter_latest, sfilter_latest. rewrite drop_compacted_render by auto.
  rewrite map_map.
  rewrite (map_ext_in (fun x => (ts_of loc (render_ent x), render_ent x)) (fun x => (fun p => (fst p, render_ent (snd p))) (sts_of x, x))).
  2:{ intros e He. simpl. f_equal. unfold ts_of, sts_of. apply sdrop_in in He. apply nk_scan; apply H; auto. }
  rewrite <- (map_map (fun e => (sts_of e, e)) (fun p => (fst p, render_ent (snd p)))).
  rewrite sort_desc_map. simpl. rewrite map_map. simpl. rewrite <- (map_map snd render_ent). rewrite firstn_map. reflexivity.
Qed.


(* ---- FindByRequestID -------------------------------------------------------------------------------- *)
Definition render_fres (r : sfres) : fres :=
  match r with SFNone => FNone | SFFound k p => FFound (rdir (k_dag k)) (rname k) p end.
Lemma find_pick (l0 : list sent) :
  match map render_ent l0 with
  | [] => FNone
  | e :: _ => match parse (e_file e) with Some pl => FFound (e_dir e) (e_name e) pl | None => FNone end
  end
  = render_fres (match l0 with [] => SFNone | e :: _ => match parse (snd e) with Some pl => SFFound (fst e) pl | None => SFNone end end).
Proof. destruct l0 as [|e0 r0]; simpl; auto. unfold e_file, e_dir, e_name. simpl. destruct (parse (snd e0)); auto. Qed.
Lemma find_in_render l req : find_in loc (GOk (map render_ent l)) req = render_fres (sfind_in rpath l req).
Proof.
  unfold find_in, sfind_in. destruct (String.eqb req ""); auto.
  rewrite (isort_map render_ent (fun x y => String.ltb (rpath (fst x)) (rpath (fst y)))) by reflexivity.
  rewrite <- map_rev, filter_map_comm.
  apply find_pick.
Qed.

(* ---- the status cache --------------------------------------------------------------------------------- *)
Definition cache_in (c : scache) : Prop := forall e, In e c -> In (fst e) K.
Lemma cache_test_render k (e : skey * centry) : In k K -> In (fst e) K ->
  (String.eqb (fst (fst (rdir (k_dag (fst e)), rname (fst e), snd e))) (rdir (k_dag k))
   && String.eqb (snd (fst (rdir (k_dag (fst e)), rname (fst e), snd e))) (rname k))%bool = skey_eqb k (fst e).
Proof. intros. simpl. apply render_key_eqb; auto. Qed.
Lemma cache_get_render c k : cache_in c -> In k K -> cache_get (render_cache c) (rdir (k_dag k)) (rname k) = scache_get c k.
Proof.
  intros CI H. unfold cache_get, scache_get, render_cache. rewrite filter_map_comm.
  rewrite (filter_ext_in' _ (fun e => skey_eqb k (fst e))).
  - generalize (filter (fun e : skey * centry => skey_eqb k (fst e)) c). intros l. destruct l; simpl; auto.
  - intros e He. apply cache_test_render; auto.
Qed.
Lemma cache_del_render c k : cache_in c -> In k K -> cache_del (render_cache c) (rdir (k_dag k)) (rname k) = render_cache (scache_del c k).
Proof.
  intros CI H. unfold cache_del, scache_del, render_cache. rewrite filter_map_comm. f_equal.
  apply filter_ext_in'. intros e He. f_equal. apply cache_test_render; auto.
Qed.
Lemma cache_in_del c k : cache_in c -> cache_in (scache_del c k).
Proof. intros CI e He. apply filter_In in He. destruct He. auto. Qed.
Lemma cache_in_put c k x : cache_in c -> In k K -> cache_in (scache_put c k x).
Proof. intros CI H e [He|He]; subst; auto. apply cache_in_del in He; auto. Qed.

Lemma load_latest_render c s k : keys_in s -> cache_in c -> In k K ->
  load_latest (render_cache c) (render_fs s) (rdir (k_dag k)) (rname k)
  = (render_cache (fst (sload_latest c s k)), snd (sload_latest c s k)) /\ cache_in (fst (sload_latest c s k)).
Proof.
  intros KI CI H. unfold load_latest, sload_latest. rewrite get_render, cache_get_render by auto.
  destruct (sget s k) as [f|]; simpl; auto.
  destruct (scache_get c k) as [e|] eqn:G; simpl.
  - destruct ((c_mt e <? mtsec f)%Z || negb (c_size e =? fsize f)%Z)%bool; simpl; auto.
    destruct (parse f); simpl; auto. unfold cache_put. rewrite cache_del_render by auto.
    split; [reflexivity | apply cache_in_put; auto].
  - destruct (parse f); simpl; auto. unfold cache_put. rewrite cache_del_render by auto.
    split; [reflexivity | apply cache_in_put; auto].
Qed.

Lemma load_first_render s l : keys_in s -> (forall e, In e l -> In (fst e) K) -> forall c, cache_in c ->
  load_first (render_cache c) (render_fs s) (map render_ent l)
  = (render_cache (fst (sload_first c s l)), snd (sload_first c s l)) /\ cache_in (fst (sload_first c s l)).
Proof.
  intros KI. induction l as [|e l IH]; intros H c CI; simpl; auto.
  unfold e_dir, e_name. simpl.
  destruct (load_latest_render c s (fst e)) as [E CI']; auto. { apply H; simpl; auto. }
  rewrite E. destruct (sload_latest c s (fst e)) as [c' [p|]]; simpl in *; auto.
Qed.

Lemma load_upto_render s l : keys_in s -> (forall e, In e l -> In (fst e) K) -> forall n c, cache_in c ->
  load_upto (render_cache c) (render_fs s) (map render_ent l) n
  = (render_cache (fst (sload_upto c s l n)), snd (sload_upto c s l n)) /\ cache_in (fst (sload_upto c s l n)).
Proof.
  intros KI. induction l as [|e l IH]; intros H n c CI; simpl; auto.
  destruct n as [|n']; simpl; auto.
  unfold e_dir, e_name. simpl.
  destruct (load_latest_render c s (fst e)) as [E CI']; auto. { apply H; simpl; auto. }
  rewrite E. destruct (sload_latest c s (fst e)) as [c' [p|]]; simpl in *.
  - destruct (IH (fun x Hx => H x (or_intror Hx)) n' c' CI') as [E2 CI2]. rewrite E2.
    destruct (sload_upto c' s l n') as [c'' ps]; simpl in *. auto.
  - apply IH; auto.
Qed.

Lemma sfilter_latest_in l n e : In e (sfilter_latest l n) -> In e l.
Proof.
  unfold sfilter_latest. intros H. apply firstn_incl in H. apply in_map_iff in H. destruct H as [[t x] [E I]]. simpl in E. subst.
  eapply Permutation_in in I; [|apply sort_desc_perm]. apply in_map_iff in I. destruct I as [y [E I]]. inversion E; subst.
  apply sdrop_in; auto.
Qed.

Lemma sglob_plain s d pk : keys_in s -> plain_in (sglob rname s d pk).
Proof.
  intros [KI _] e He. apply sglob_in in He. destruct He as [I [_ P]]. split; auto.
  unfold in_patk in P. apply andb_prop in P. destruct P as [P _]. apply negb_true_iff in P. exact P.
Qed.
Lemma latest_of_render c s l : keys_in s -> cache_in c -> plain_in l ->
  latest_of loc (render_cache c) (render_fs s) (GOk (map render_ent l))
  = (render_cache (fst (slatest_of c s l)), snd (slatest_of c s l)) /\ cache_in (fst (slatest_of c s l)).
Proof.
  intros KI CI H. unfold latest_of, slatest_of. destruct l as [|e0 l0]; simpl map; auto.
  rewrite <- (map_cons render_ent), filter_latest_render by auto. rewrite map_length.
  apply load_first_render; auto. intros e He. apply H. eapply sfilter_latest_in; eauto.
Qed.

Lemma recent_of_render c s l n : keys_in s -> cache_in c -> plain_in l ->
  recent_of loc (render_cache c) (render_fs s) (GOk (map render_ent l)) n
  = (render_cache (fst (srecent_of c s l n)), snd (srecent_of c s l n)) /\ cache_in (fst (srecent_of c s l n)).
Proof.
  intros KI CI H. unfold recent_of, srecent_of. destruct l as [|e0 l0]; simpl map; auto.
  rewrite <- (map_cons render_ent), filter_latest_render by auto. rewrite map_length.
  apply load_upto_render; auto. intros e He. apply H. eapply sfilter_latest_in; eauto.
Qed.

(* ---- operations ----------------------------------------------------------------------------------------- *)
(* K is closed under the compaction twin and under re-keying to the DAGs of D (decidable) *)
Definition closedb : bool :=
  forallb (fun k => existsb (skey_eqb (twin k)) K && existsb (skey_eqb (tmpk (twin k))) K
                    && forallb (fun d' => existsb (skey_eqb (rekey d' k)) K) D) K.
Hypothesis KC : closedb = true.
Lemma existsb_skey k : existsb (skey_eqb k) K = true -> In k K.
Proof. intros H. apply existsb_exists in H. destruct H as [x [I E]]. apply skey_eqb_eq in E. subst. auto. Qed.
Lemma twin_in k : In k K -> In (twin k) K.
Proof.
  intros H. unfold closedb in KC. rewrite forallb_forall in KC. specialize (KC k H). apply andb_prop in KC.
  destruct KC as [A _]. apply andb_prop in A. destruct A as [A _]. apply existsb_skey; auto.
Qed.
Lemma tmp_twin_in k : In k K -> In (tmpk (twin k)) K.
Proof.
  intros H. unfold closedb in KC. rewrite forallb_forall in KC. specialize (KC k H). apply andb_prop in KC.
  destruct KC as [A _]. apply andb_prop in A. destruct A as [_ A]. apply existsb_skey; auto.
Qed.
Lemma rekey_in k d' : In k K -> In d' D -> In (rekey d' k) K.
Proof.
  intros H H'. unfold closedb in KC. rewrite forallb_forall in KC. specialize (KC k H). apply andb_prop in KC.
  destruct KC as [_ A]. rewrite forallb_forall in A. apply existsb_skey; auto.
Qed.

Definition op_in (o : op) : Prop :=
  match o with
  | OOpen d stamp req _ => In d D /\ In (mkkey d stamp (trunc8 req) false) K
  | OWrite _ _ _ | OClose _ => True
  | OUpdate d _ _ _ _ => In d D
  | ORename d d' => In d D /\ In d' D
  | ORemoveOld d _ => In d D
  | OTouch d stamp r8 c _ => In (mkkey d stamp r8 c) K
  end.
Definition wr_in (w : option swriter) : Prop :=
  match w with
  | Some w => In (sw_key w) K /\ (k_c (sw_key w) = false /\ k_tmp (sw_key w) = false) /\ match sw_fd w with Some k => In k K | None => True end
  | None => True
  end.
Definition state_in (h : sstate) : Prop :=
  keys_in (sst h) /\ dirs_nodup (sst h) /\ cache_in (scch h) /\ wr_in (swr h).

Lemma sfind_in_key l req k p : sfind_in rpath l req = SFFound k p -> exists e, In e l /\ fst e = k.
Proof.
  unfold sfind_in. destruct (String.eqb req ""); [discriminate|].
  destruct (filter _ _) as [|e r] eqn:F; [discriminate|].
  destruct (parse (snd e)); [|discriminate]. intros H. inversion H; subst.
  assert (I : In e (e :: r)) by (simpl; auto). rewrite <- F in I. apply filter_In in I. destruct I as [I _].
  apply in_rev in I. eapply Permutation_in in I; [|apply isort_perm]. eauto.
Qed.

Lemma q_find_render s d req : keys_in s -> dirs_nodup s -> In d D ->
  q_find loc dirhash (render_fs s) d req = render_fres (sq_find rname rpath s d req).
Proof.
  intros KI N H. unfold q_find, sq_find.
  change (pat_all d) with (pat_of d PAll). fold (rdirpat d). rewrite glob_render; simpl; auto. apply find_in_render.
Qed.
Lemma sq_find_key s d req k p : keys_in s -> sq_find rname rpath s d req = SFFound k p -> In k K /\ k_dag k = d.
Proof.
  intros [KI _] H. apply sfind_in_key in H. destruct H as [e [I E]]. apply sglob_in in I. destruct I as [I [Ed _]]. subst. auto.
Qed.

Lemma fname_rekey k d' : replace1 (rname k) (prefix_of (k_dag k)) (prefix_of d') = rname (rekey d' k).
Proof. unfold rname, fname. cbn [rekey k_dag k_stamp k_r8 k_c k_tmp]. rewrite !sapp_assoc. apply replace1_prefix. Qed.

Lemma sopen_in st k now : In k K -> Forall prim_in (sopen st k now).
Proof.
  intros H. unfold sopen. apply Forall_app. split. { repeat constructor; simpl; auto. apply nk_dag; auto. }
  destruct (sget st k) as [f|]; [|constructor]. destruct (ftail f); repeat constructor; simpl; auto.
Qed.
Lemma wopen_render s k now : keys_in s -> In k K ->
  wopen (render_fs s) (rdir (k_dag k)) (rname k) now = map render_prim (sopen s k now).
Proof.
  intros KI H. unfold wopen, sopen. rewrite get_render by auto. rewrite map_app. f_equal.
  destruct (sget s k) as [f|]; auto. destruct (ftail f); auto.
Qed.

Lemma sprims_in o h : state_in h -> op_in o -> Forall prim_in (sprims rname rpath o h).
Proof.
  intros [KI [N [CI WI]]] P. destruct o; simpl in *.
  - destruct P. apply sopen_in; auto.
  - destruct (swr h) as [w|]; [|constructor]. destruct WI as [_ [_ W]]. destruct (sw_fd w); [|constructor].
    apply Forall_forall. intros x Hx. apply in_map_iff in Hx. destruct Hx as [c [E _]]. subst. simpl. auto.
  - destruct (swr h) as [w|]; [|constructor]. destruct WI as [W [_ _]].
    destruct (sget (sst h) (sw_key w)); [|constructor]. destruct (parse f); [|constructor].
    constructor. { simpl. apply tmp_twin_in; auto. }
    constructor. { simpl. apply nk_dag; auto. }
    constructor. { simpl. apply tmp_twin_in; auto. }
    apply Forall_app. split.
    + apply Forall_forall. intros x Hx. apply in_map_iff in Hx. destruct Hx as [c [E _]]. subst. simpl. apply tmp_twin_in; auto.
    + repeat constructor; auto. { apply tmp_twin_in; auto. } apply twin_in; auto.
  - destruct (sq_find rname rpath (sst h) d req) as [|k p] eqn:F; [constructor|].
    apply sq_find_key in F; auto. destruct F as [F _].
    change (Forall prim_in (sopen (sst h) k now ++ map (fun c : chunk => SAppend k c now) (chunks_of {| p_req := req; p_tag := tag; p_size := size |}))).
    apply Forall_app. split. { apply sopen_in; auto. }
    apply Forall_forall. intros x Hx. apply in_map_iff in Hx. destruct Hx as [c [E _]]. subst. simpl. auto.
  - destruct P as [P1 P2]. destruct (shas_dir (sst h) d); [|constructor].
    constructor; [simpl; auto|]. apply Forall_app. split; [|repeat constructor; auto].
    apply Forall_forall. intros x Hx. apply in_map_iff in Hx. destruct Hx as [e [E I]]. subst. simpl.
    apply sglob_in in I. destruct I as [I _]. destruct KI as [KI _]. split; auto. apply rekey_in; auto.
  - apply Forall_forall. intros x Hx. apply in_map_iff in Hx. destruct Hx as [e [E I]]. subst. simpl.
    apply filter_In in I. destruct I as [I _]. apply sglob_in in I. destruct I as [I _]. destruct KI as [KI _]. auto.
  - repeat constructor; auto.
Qed.

Lemma prims_render o h : state_in h -> op_in o ->
  prims loc dirhash o (render_state h) = map render_prim (sprims rname rpath o h).
Proof.
  intros [KI [N [CI WI]]] P. destruct o; simpl in *.
  - destruct P as [P1 P2]. rewrite <- (rname_plain d stamp (trunc8 req) false).
    apply (wopen_render (sst h) (mkkey d stamp (trunc8 req) false) now); auto.
  - destruct (swr h) as [w|]; simpl; auto. destruct (sw_fd w); simpl; auto. rewrite map_map. reflexivity.
  - destruct (swr h) as [w|]; simpl; auto. destruct WI as [W [[C T] _]].
    rewrite get_render by auto. destruct (sget (sst h) (sw_key w)); simpl; auto. destruct (parse f); simpl; auto.
    rewrite nk_twin by auto. rewrite <- (rname_tmpk (twin (sw_key w))) by reflexivity. rewrite map_app, map_map. reflexivity.
  - rewrite q_find_render by auto. destruct (sq_find rname rpath (sst h) d req) as [|k p] eqn:F; simpl; auto.
    destruct (sq_find_key _ _ _ _ _ KI F) as [Fk _].
    rewrite get_render by auto. rewrite map_app, map_map.
    destruct (sget (sst h) k) as [f|]; [destruct (ftail f)|]; reflexivity.
  - destruct P as [P1 P2]. rewrite (nk_yaml d P1), (nk_yaml d' P2). fold (rdir d). rewrite has_dir_render by auto. destruct (shas_dir (sst h) d); simpl; auto.
    change (pat_all d) with (pat_of d PAll). fold (rdirpat d). rewrite glob_render; simpl; auto.
    f_equal. rewrite map_app, !map_map. f_equal. apply map_ext_in. intros e He. simpl.
    unfold e_dir, e_name. simpl. apply sglob_in in He. destruct He as [_ [Ed _]]. rewrite <- Ed at 1. rewrite fname_rekey. reflexivity.
  - unfold glob_list. change (pat_all d) with (pat_of d PAll). fold (rdirpat d). rewrite glob_render; simpl; auto.
    rewrite filter_map_comm, !map_map. reflexivity.
  - rewrite rname_plain. reflexivity.
Qed.

Lemma track_fd_render fd p : (match fd with Some k => In k K | None => True end) -> prim_in p ->
  track_fd (option_map render_fd fd) (render_prim p) = option_map render_fd (strack_fd fd p)
  /\ (match strack_fd fd p with Some k => In k K | None => True end).
Proof.
  intros F P. destruct fd as [k|]; simpl; [|destruct p; simpl; auto].
  destruct p; simpl in *; auto.
  - rewrite render_key_eqb by auto. rewrite skey_eqb_sym. destruct (skey_eqb k0 k); simpl; auto.
  - destruct P as [P1 P2]. rewrite render_key_eqb by auto. rewrite (skey_eqb_sym k k0).
    destruct (skey_eqb k0 k); simpl; auto.
    rewrite render_key_eqb by auto. rewrite (skey_eqb_sym k k'). destruct (skey_eqb k' k); simpl; auto.
Qed.
Lemma track_fds_render ps : forall fd, (match fd with Some k => In k K | None => True end) -> Forall prim_in ps ->
  fold_left track_fd (map render_prim ps) (option_map render_fd fd) = option_map render_fd (fold_left strack_fd ps fd)
  /\ (match fold_left strack_fd ps fd with Some k => In k K | None => True end).
Proof.
  induction ps as [|p ps IH]; intros fd F P; simpl; auto.
  inversion P; subst. destruct (track_fd_render fd p) as [E I]; auto. rewrite E. apply IH; auto.
Qed.
Lemma track_wr_render w ps : wr_in w -> Forall prim_in ps ->
  track_wr (option_map render_wr w) (map render_prim ps) = option_map render_wr (strack_wr w ps) /\ wr_in (strack_wr w ps).
Proof.
  intros W P. destruct w as [w|]; simpl; auto. destruct W as [W1 [W2 W3]].
  destruct (track_fds_render ps (sw_fd w)) as [E I]; auto. rewrite E. unfold render_wr. simpl. auto.
Qed.

Theorem apply_render o h : state_in h -> op_in o ->
  apply loc dirhash (render_state h) o = render_state (sapply rname rpath h o) /\ state_in (sapply rname rpath h o).
Proof.
  intros SI P. pose proof (sprims_in o h SI P) as PI. pose proof (prims_render o h SI P) as PR.
  destruct SI as [KI [N [CI WI]]].
  destruct (run_prims_render (sprims rname rpath o h) (sst h) KI PI) as [RR KI'].
  pose proof (dirs_nodup_run_sprims (sprims rname rpath o h) (sst h) N) as N'.
  unfold apply, sapply. rewrite PR. simpl hfs. rewrite RR.
  destruct o.
  - simpl in P. destruct P as [P1 P2]. split; [rewrite <- (rname_plain d stamp (trunc8 req) false); reflexivity|].
    repeat split; simpl; auto; try apply KI'.
  - destruct (track_wr_render (swr h) (sprims rname rpath (OWrite tag size now) h) WI PI) as [E W']. simpl hwr. rewrite E.
    split; [reflexivity|]. repeat split; simpl; auto; apply KI'.
  - simpl hwr. destruct (swr h) as [w|] eqn:EW; simpl.
    + destruct WI as [W1 [W2 W3]]. rewrite get_render by auto. destruct (sget (sst h) (sw_key w)).
      * rewrite cache_del_render by auto. split; [reflexivity|]. repeat split; simpl; auto; try apply KI'. apply cache_in_del; auto.
      * split; [reflexivity|]. repeat split; simpl; auto; apply KI'.
    + split; [unfold render_state; simpl; rewrite EW; reflexivity|]. repeat split; simpl; auto; try apply KI; rewrite ?EW; simpl; auto.
  - simpl in P. simpl hfs. rewrite q_find_render by auto.
    destruct (sq_find rname rpath (sst h) d req) as [|k p] eqn:F; cbn [render_fres].
    + split; [reflexivity|]. repeat split; simpl; auto; apply KI.
    + destruct (sq_find_key _ _ _ _ _ KI F) as [Fk _].
      destruct (track_wr_render (swr h) (sprims rname rpath (OUpdate d req tag size now) h) WI PI) as [E W'].
      simpl hwr. rewrite E. simpl hcache. rewrite cache_del_render by auto.
      split; [reflexivity|]. repeat split; simpl; auto; try apply KI'. apply cache_in_del; auto.
  - destruct (track_wr_render (swr h) (sprims rname rpath (ORename d d') h) WI PI) as [E W']. simpl hwr. rewrite E.
    split; [reflexivity|]. repeat split; simpl; auto; apply KI'.
  - destruct (track_wr_render (swr h) (sprims rname rpath (ORemoveOld d cutoff) h) WI PI) as [E W']. simpl hwr. rewrite E.
    split; [reflexivity|]. repeat split; simpl; auto; apply KI'.
  - destruct (track_wr_render (swr h) (sprims rname rpath (OTouch d stamp r8 c t) h) WI PI) as [E W']. simpl hwr. rewrite E.
    split; [reflexivity|]. repeat split; simpl; auto; apply KI'.
Qed.


Lemma q_latest_render c s d day : keys_in s -> dirs_nodup s -> cache_in c -> In d D -> pk_in (PLatest day) ->
  q_latest loc dirhash (render_cache c) (render_fs s) d day
  = (render_cache (fst (sq_latest rname c s d day)), snd (sq_latest rname c s d day)) /\ cache_in (fst (sq_latest rname c s d day)).
Proof.
  intros KI N CI H P. unfold q_latest, sq_latest.
  change (pat_latest d day) with (pat_of d (PLatest day)). fold (rdirpat d). rewrite glob_render by auto.
  apply latest_of_render; auto. apply sglob_plain; auto.
Qed.
Lemma q_recent_render c s d n : keys_in s -> dirs_nodup s -> cache_in c -> In d D ->
  q_recent loc dirhash (render_cache c) (render_fs s) d n
  = (render_cache (fst (sq_recent rname c s d n)), snd (sq_recent rname c s d n)) /\ cache_in (fst (sq_recent rname c s d n)).
Proof.
  intros KI N CI H. unfold q_recent, sq_recent.
  change (pat_all d) with (pat_of d PAll). fold (rdirpat d). rewrite glob_render; simpl; auto.
  apply recent_of_render; auto. apply sglob_plain; auto.
Qed.

Lemma state_in_init : state_in s_init.
Proof.
  unfold state_in, keys_in, dirs_nodup, cache_in. simpl. repeat split; try (intros ? []); auto. constructor.
Qed.

Theorem run_ops_render ops : forall h, state_in h -> Forall op_in ops ->
  run_ops loc dirhash (render_state h) ops = render_state (srun_ops rname rpath h ops) /\ state_in (srun_ops rname rpath h ops).
Proof.
  induction ops as [|o ops IH]; intros h SI F; simpl; auto.
  inversion F; subst. destruct (apply_render o h SI) as [E SI']; auto. rewrite E. apply IH; auto.
Qed.

(* ---- crash states ------------------------------------------------------------------------------------- *)
Lemma torn_render p : torn (render_prim p) = map render_prim (storn p).
Proof. destruct p; simpl; auto. destruct c; simpl; auto. Qed.
Lemma storn_in p : prim_in p -> Forall prim_in (storn p).
Proof. destruct p; simpl; try constructor. destruct c; simpl; repeat constructor; auto. Qed.
Lemma crash_from_render ps : forall s, keys_in s -> Forall prim_in ps ->
  crash_from (render_fs s) (map render_prim ps) = map render_fs (scrash_from s ps).
Proof.
  induction ps as [|p ps IH]; intros s KI F; simpl; auto.
  inversion F; subst. f_equal. rewrite map_app. f_equal.
  - rewrite torn_render, !map_map. apply map_ext_in. intros x Hx. apply run_prim_render; auto.
    pose proof (storn_in p H1) as T. rewrite Forall_forall in T. auto.
  - rewrite run_prim_render by auto. apply IH; auto. apply keys_in_run_sprim; auto.
Qed.
Theorem crash_states_render o h : state_in h -> op_in o ->
  crash_states loc dirhash (render_state h) o = map render_fs (scrash_states rname rpath h o).
Proof.
  intros SI P. unfold crash_states, scrash_states. rewrite prims_render by auto.
  simpl hfs. apply crash_from_render. { apply SI. } apply sprims_in; auto.
Qed.


Lemma scrash_in ps : forall s x, keys_in s -> dirs_nodup s -> Forall prim_in ps -> In x (scrash_from s ps) -> keys_in x /\ dirs_nodup x.
Proof.
  induction ps as [|p ps IH]; intros s x KI N F IN; simpl in IN.
  - destruct IN as [IN|[]]. subst. auto.
  - inversion F; subst. destruct IN as [IN|IN]. { subst. auto. }
    apply in_app_or in IN. destruct IN as [IN|IN].
    + apply in_map_iff in IN. destruct IN as [q [E Iq]]. subst x.
      pose proof (storn_in p H1) as T. rewrite Forall_forall in T. split.
      * apply keys_in_run_sprim; auto.
      * apply dirs_nodup_run_sprim; auto.
    + apply (IH (run_sprim s p)); auto. apply keys_in_run_sprim; auto. apply dirs_nodup_run_sprim; auto.
Qed.

(* a fresh process asking the three queries on the rendering of a structured store is answered as on the structured store *)
Lemma fresh_answers_render s d : keys_in s -> dirs_nodup s -> In d D ->
  (forall req, q_find loc dirhash (render_fs s) d req = render_fres (sq_find rname rpath s d req))
  /\ (forall day, pk_in (PLatest day) -> snd (q_latest loc dirhash [] (render_fs s) d day) = snd (sq_latest rname [] s d day))
  /\ (forall n, snd (q_recent loc dirhash [] (render_fs s) d n) = snd (sq_recent rname [] s d n)).
Proof.
  intros KI N Id. assert (CI : cache_in []) by (intros e []).
  split; [|split].
  - intros req. apply q_find_render; auto.
  - intros day Pd. destruct (q_latest_render [] s d day KI N CI Id Pd) as [E _]. change (@nil (string * string * centry)) with (render_cache []).
    rewrite E. reflexivity.
  - intros n. destruct (q_recent_render [] s d n KI N CI Id) as [E _]. change (@nil (string * string * centry)) with (render_cache []).
    rewrite E. reflexivity.
Qed.

End U.
End R.
