(* Hist/ProofsSpec.v - properties of the specification itself (Hist/Spec.v), independent of any store:
   - the three queries about DAG d depend only on the runs of d (`dag_view`)
   - isolation: an operation leaves the runs of every DAG it does not name untouched (`sp_isolation`)
   - rename carries every run of d to d' (`sp_rename_carries`)
   - retention removes exactly the runs of d older than the cutoff (`sp_retention_exact`)
   - newest_first really is "most recently started first": a permutation, sorted by start stamp
   Together with the refinement (ProofsRefine.v) these transfer to the concrete store. *)
From Coq Require Import List String Ascii Bool Arith ZArith Lia Permutation Sorting.Sorted.
Import ListNotations.
From BD.Hist Require Import Model SModel Spec ProofsLib ProofsStore.
Open Scope string_scope.
Open Scope list_scope.

Definition dagP (d : string) (a : arun) : bool := String.eqb (a_dag a) d.
Definition dag_view (H : hist) (d : string) : list arun := filter (dagP d) (h_runs H).

Lemma find_filter_imp {A} (P Q : A -> bool) l : (forall a, P a = true -> Q a = true) -> find P (filter Q l) = find P l.
Proof.
  intros I. induction l as [|a l IH]; simpl; auto. destruct (Q a) eqn:Eq; simpl.
  - destruct (P a); auto.
  - destruct (P a) eqn:Ep; auto. rewrite (I a Ep) in Eq. discriminate.
Qed.

Definition dayP (day : option string) (a : arun) : bool :=
  match day with Some dd => String.eqb (take 8 (a_stamp a)) dd | None => true end.
Lemma runs_of_view H d day : runs_of H d day = filter (dayP day) (dag_view H d).
Proof. unfold runs_of, dag_view. rewrite filter_filter. reflexivity. Qed.
Opaque take.

Theorem queries_depend_on_view H H' d : dag_view H d = dag_view H' d ->
  (forall req, sp_find H d req = sp_find H' d req) /\ (forall day, sp_latest H d day = sp_latest H' d day)
  /\ (forall n, sp_recent H d n = sp_recent H' d n).
Proof.
  intros E. split; [|split].
  - intros req. unfold sp_find. destruct (String.eqb req ""); auto.
    assert (I : forall a, is_run d req a = true -> dagP d a = true).
    { intros a X. unfold is_run in X. apply andb_prop in X. destruct X as [X _]. apply andb_prop in X. destruct X as [X _]. exact X. }
    rewrite <- (find_filter_imp (is_run d req) (dagP d) (h_runs H) I), <- (find_filter_imp (is_run d req) (dagP d) (h_runs H') I).
    fold (dag_view H d). fold (dag_view H' d). rewrite E. reflexivity.
  - intros day. unfold sp_latest. rewrite !runs_of_view, E. reflexivity.
  - intros n. unfold sp_recent. rewrite !runs_of_view, E. reflexivity.
Qed.

(* ---- isolation ------------------------------------------------------------------------------------------------------ *)
Definition op_dags (H : hist) (o : op) : list string :=
  match o with
  | OOpen d _ _ _ | OUpdate d _ _ _ _ | ORemoveOld d _ | OTouch d _ _ _ _ => [d]
  | ORename d d' => [d; d']
  | OWrite _ _ _ | OClose _ =>
      match h_cur H with Some id => match get_run id (h_runs H) with Some a => [a_dag a] | None => [] end | None => [] end
  end.

Lemma filter_map_stable {A} (P : A -> bool) (g : A -> A) l :
  (forall a, In a l -> g a = a \/ (P a = false /\ P (g a) = false)) -> filter P (map g l) = filter P l.
Proof.
  induction l as [|a l IH]; simpl; intros Hg; auto.
  rewrite IH by (intros; apply Hg; auto). destruct (Hg a (or_introl eq_refl)) as [E|[E1 E2]].
  - rewrite E. reflexivity.
  - rewrite E1, E2. reflexivity.
Qed.

Lemma upd_run_view d' id f l : (forall a, a_dag (f a) = a_dag a) ->
  (forall a, In a l -> a_id a = id -> a_dag a <> d') -> filter (dagP d') (upd_run id f l) = filter (dagP d') l.
Proof.
  intros Fd N. unfold upd_run. apply filter_map_stable. intros a Ia. destruct (Nat.eqb (a_id a) id) eqn:E; auto.
  right. apply Nat.eqb_eq in E. unfold dagP. rewrite Fd. split; apply String.eqb_neq; auto.
Qed.

Lemma get_run_some id l a : get_run id l = Some a -> In a l /\ a_id a = id.
Proof. unfold get_run. intros F. apply find_some in F. destruct F as [I E]. apply Nat.eqb_eq in E. auto. Qed.

Theorem sp_isolation H o d' : NoDup (map a_id (h_runs H)) -> ~ In d' (op_dags H o) -> dag_view (sp_apply H o) d' = dag_view H d'.
Proof.
  intros ND N. unfold dag_view. destruct o; simpl in *.
  - rewrite filter_app. simpl. unfold dagP at 2. simpl.
    assert (X : String.eqb d d' = false) by (apply String.eqb_neq; intro; subst; tauto). rewrite X. apply app_nil_r.
  - destruct (h_cur H) as [id|]; auto. destruct (get_run id (h_runs H)) as [a|] eqn:G; auto. simpl.
    apply get_run_some in G. destruct G as [Ia Ei]. apply upd_run_view; auto.
    intros b Ib Eb X. apply N. left. assert (a = b). { apply (NoDup_map_inj a_id (h_runs H)); auto. congruence. } subst. auto.
  - destruct (h_cur H) as [id|]; auto. simpl. destruct (get_run id (h_runs H)) as [a|] eqn:G.
    + apply get_run_some in G. destruct G as [Ia Ei]. apply upd_run_view.
      * intros b. destruct (a_sts b); reflexivity.
      * intros b Ib Eb X. apply N. left. assert (a = b). { apply (NoDup_map_inj a_id (h_runs H)); auto. congruence. } subst. auto.
    + apply upd_run_view. { intros b. destruct (a_sts b); reflexivity. }
      intros b Ib Eb. exfalso. unfold get_run in G. apply (find_none _ _ G) in Ib. apply Nat.eqb_neq in Ib. contradiction.
  - destruct (String.eqb req ""); auto. destruct (find (is_run d req) (h_runs H)) as [a|] eqn:F; auto. simpl.
    apply find_some in F. destruct F as [Ia Ra]. apply upd_run_view; auto.
    intros b Ib Eb X. assert (a = b). { apply (NoDup_map_inj a_id (h_runs H)); auto. } subst b.
    unfold is_run in Ra. apply andb_prop in Ra. destruct Ra as [Ra _]. apply andb_prop in Ra. destruct Ra as [Ra _].
    apply String.eqb_eq in Ra. apply N. left. congruence.
  - apply filter_map_stable. intros a Ia. destruct (String.eqb (a_dag a) d) eqn:E; auto. right.
    apply String.eqb_eq in E. unfold dagP. simpl. split; apply String.eqb_neq; intro X; apply N; [left|right; left]; congruence.
  - rewrite filter_filter. apply filter_ext. intros a. unfold dagP. destruct (String.eqb (a_dag a) d') eqn:E; [|apply andb_false_r].
    apply String.eqb_eq in E. assert (X : String.eqb (a_dag a) d = false). { apply String.eqb_neq. intro Y. apply N. left. congruence. }
    rewrite X. reflexivity.
  - apply filter_map_stable. intros a Ia.
    destruct (String.eqb (a_dag a) d && String.eqb (a_stamp a) stamp && String.eqb (trunc8 (a_req a)) r8)%bool eqn:E; auto.
    right. apply andb_prop in E. destruct E as [E _]. apply andb_prop in E. destruct E as [E _]. apply String.eqb_eq in E.
    unfold dagP. simpl. split; apply String.eqb_neq; intro X; apply N; left; congruence.
Qed.

(* ---- rename carries ----------------------------------------------------------------------------------------------------- *)
Lemma find_map {A} (P : A -> bool) (g : A -> A) l : find P (map g l) = option_map g (find (fun a => P (g a)) l).
Proof. induction l as [|a l IH]; simpl; auto. destruct (P (g a)); auto. Qed.

Lemma dayfilter_map (g : arun -> arun) day l : (forall a, a_stamp (g a) = a_stamp a) ->
  filter (dayP day) (map g l) = map g (filter (dayP day) l).
Proof.
  intros G. rewrite filter_map_comm. f_equal. apply filter_ext. intros a. unfold dayP. rewrite G. reflexivity.
Qed.
Lemma statusfilter_map (g : arun -> arun) l : (forall a, a_sts (g a) = a_sts a) ->
  filter has_status (map g l) = map g (filter has_status l).
Proof. intros G. rewrite filter_map_comm. f_equal. apply filter_ext. intros a. unfold has_status. rewrite G. reflexivity. Qed.
Lemma newest_map (g : arun -> arun) l : (forall a, a_stamp (g a) = a_stamp a) -> newest_first (map g l) = map g (newest_first l).
Proof.
  intros G. unfold newest_first. rewrite sort_desc_map. f_equal. apply sort_desc_ext. intros x y _ _. rewrite !G. reflexivity.
Qed.

Theorem sp_rename_carries H d d' : d <> d' -> dag_view H d' = [] ->
  let H' := sp_apply H (ORename d d') in
  (forall req, sp_find H' d' req = sp_find H d req) /\ (forall day, sp_latest H' d' day = sp_latest H d day)
  /\ (forall n, sp_recent H' d' n = sp_recent H d n).
Proof.
  intros Nd E H'.
  assert (V : dag_view H' d' = map (set_dag d') (dag_view H d)).
  { unfold H', dag_view. simpl. unfold dag_view in E.
    induction (h_runs H) as [|a l IH]; simpl in *; auto.
    destruct (dagP d' a) eqn:E1; [discriminate|]. unfold dagP in *.
    destruct (String.eqb (a_dag a) d) eqn:E2; simpl.
    - rewrite String.eqb_refl. simpl. f_equal. apply IH; auto.
    - rewrite E1. apply IH; auto. }
  assert (DV : forall a, In a (dag_view H d) -> a_dag a = d).
  { intros a I. unfold dag_view in I. apply filter_In in I. destruct I as [_ X]. apply String.eqb_eq in X. auto. }
  split; [|split].
  - intros req. unfold sp_find. destruct (String.eqb req ""); auto.
    assert (I1 : forall a, is_run d' req a = true -> dagP d' a = true).
    { intros a X. unfold is_run in X. apply andb_prop in X. destruct X as [X _]. apply andb_prop in X. destruct X as [X _]. exact X. }
    assert (I2 : forall a, is_run d req a = true -> dagP d a = true).
    { intros a X. unfold is_run in X. apply andb_prop in X. destruct X as [X _]. apply andb_prop in X. destruct X as [X _]. exact X. }
    rewrite <- (find_filter_imp _ _ (h_runs H') I1), <- (find_filter_imp _ _ (h_runs H) I2).
    fold (dag_view H' d'). fold (dag_view H d). rewrite V, find_map.
    assert (X : forall l, (forall a, In a l -> a_dag a = d) ->
                find (fun a => is_run d' req (set_dag d' a)) l = find (is_run d req) l).
    { induction l as [|a l IH]; simpl; intros Hl; auto. unfold is_run at 1 3. simpl.
      rewrite String.eqb_refl, (Hl a (or_introl eq_refl)), String.eqb_refl. simpl.
      destruct (String.eqb (a_req a) req && match a_sts a with [] => false | _ :: _ => true end)%bool; auto. }
    rewrite X by exact DV. destruct (find (is_run d req) (dag_view H d)); reflexivity.
  - intros day. unfold sp_latest. rewrite !runs_of_view, V. rewrite (dayfilter_map (set_dag d')) by reflexivity.
    rewrite (statusfilter_map (set_dag d')) by reflexivity. rewrite (newest_map (set_dag d')) by reflexivity.
    destruct (newest_first (filter has_status (filter (dayP day) (dag_view H d)))); reflexivity.
  - intros n. unfold sp_recent. rewrite !runs_of_view, V. rewrite (dayfilter_map (set_dag d')) by reflexivity.
    rewrite (statusfilter_map (set_dag d')) by reflexivity. rewrite (newest_map (set_dag d')) by reflexivity. rewrite firstn_map.
    rewrite !flat_map_concat_map, map_map. reflexivity.
Qed.

(* ---- retention ------------------------------------------------------------------------------------------------------------- *)
Theorem sp_retention_exact H d cutoff a :
  In a (h_runs (sp_apply H (ORemoveOld d cutoff))) <-> In a (h_runs H) /\ ~ (a_dag a = d /\ (a_mtime a < cutoff)%Z).
Proof.
  simpl. rewrite filter_In. split; intros [I X]; split; auto.
  - intros [E1 E2]. rewrite E1, String.eqb_refl in X. apply Z.ltb_lt in E2. rewrite E2 in X. discriminate.
  - apply negb_true_iff. apply not_true_is_false. intro Y. apply andb_prop in Y. destruct Y as [Y1 Y2].
    apply String.eqb_eq in Y1. apply Z.ltb_lt in Y2. tauto.
Qed.

(* ---- what "most recently started first" means ----------------------------------------------------------------------------------- *)
Theorem newest_first_spec l :
  Permutation (newest_first l) l /\ StronglySorted (fun a b => String.ltb (a_stamp a) (a_stamp b) = false) (newest_first l).
Proof. split. apply sort_desc_perm. apply (sort_desc_sorted a_stamp). Qed.
