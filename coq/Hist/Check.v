(* Hist/Check.v - entry points evaluated on harness cases (tools/props/C06.py, C07.py).
   A case is one operation history executed on the real jsondb by harness/cmd/hist: after EVERY operation the
   harness recorded the answers of three store instances (W: the mutating process, R0/R1: readers, R1 with the
   today filter) for every DAG name, and a dump of the data directory.  `check_hcase` replays the operations on
   the model (Hist/Model.v) and returns the first step and component where model and implementation differ. *)
From Coq Require Import List String Ascii Bool Arith ZArith.
Import ListNotations.
From BD.Hist Require Import GoMatch Model.
Open Scope string_scope.

Definition ans := (nat * string * nat)%type.                      (* code 0 ok / 1 no data / 2 error, request id, tag *)
Definition fnd := (nat * string * string * nat)%type.             (* code 0 found / 1 not found / 2 error, file name, request id, tag *)
Definition lined := (nat * string * nat * Z)%type.                (* kind, request id, tag, size *)
Definition filed := (string * string * Z * Z * list lined * lined)%type.   (* dir, name, size, mtime, lines, tail *)

Record pername := { o_latW : ans; o_lat0 : ans; o_lat1 : ans;
                    o_rec1 : list ans; o_rec2 : list ans; o_recN : list ans; o_recW : list ans;
                    o_finds : list fnd }.
Record step := { s_op : op; s_reqs : list string; s_per : list pername; s_dirs : list string; s_files : list filed }.
Record hcase := { h_loc : string; h_today : string; h_nrec : nat; h_names : list (string * string); h_steps : list step }.

Definition lookup (tbl : list (string * string)) (d : string) : string :=
  match filter (fun e => String.eqb (fst e) d) tbl with e :: _ => snd e | [] => "" end.

Fixpoint list_eqb {A} (eqb : A -> A -> bool) (l1 l2 : list A) : bool :=
  match l1, l2 with [], [] => true | a :: r1, b :: r2 => eqb a b && list_eqb eqb r1 r2 | _, _ => false end.
Definition ans_eqb (a b : ans) : bool :=
  let '(c1, r1, t1) := a in let '(c2, r2, t2) := b in Nat.eqb c1 c2 && String.eqb r1 r2 && Nat.eqb t1 t2.
Definition fnd_eqb (a b : fnd) : bool :=
  let '(c1, f1, r1, t1) := a in let '(c2, f2, r2, t2) := b in Nat.eqb c1 c2 && String.eqb f1 f2 && String.eqb r1 r2 && Nat.eqb t1 t2.
Definition lined_eqb (a b : lined) : bool :=
  let '(k1, r1, t1, n1) := a in let '(k2, r2, t2, n2) := b in Nat.eqb k1 k2 && String.eqb r1 r2 && Nat.eqb t1 t2 && Z.eqb n1 n2.
Definition filed_eqb (a b : filed) : bool :=
  let '(d1, n1, s1, m1, l1, t1) := a in let '(d2, n2, s2, m2, l2, t2) := b in
  String.eqb d1 d2 && String.eqb n1 n2 && Z.eqb s1 s2 && Z.eqb m1 m2 && list_eqb lined_eqb l1 l2 && lined_eqb t1 t2.

Definition ans_of (r : lres) : ans :=
  match r with LOk p => (0, p_req p, p_tag p) | LNoData => (1, "", 0) | LErr => (2, "", 0) end.
Definition ans_of_pl (p : payload) : ans := (0, p_req p, p_tag p).
Definition fnd_of (r : fres) : fnd :=
  match r with FFound _ fn p => (0, fn, p_req p, p_tag p) | FNone => (1, "", "", 0) | FErr => (2, "", "", 0) end.

Definition lined_of_item (i : item) : lined :=
  match i with Rec p => (0, p_req p, p_tag p, p_size p) | Junk n => (1, "", 0, n) end.
Definition lined_of_tail (t : tail) : lined :=
  match t with TNone => (0, "", 0, 0%Z) | TPartial n => (1, "", 0, n) | TFull p => (2, p_req p, p_tag p, p_size p) end.
Definition filed_of (e : fent) : filed :=
  (e_dir e, e_name e, fsize (e_file e), mtime (e_file e), map lined_of_item (items (e_file e)), lined_of_tail (ftail (e_file e))).
Definition fent_lt (x y : fent) : bool :=
  String.ltb (e_dir x) (e_dir y) || (String.eqb (e_dir x) (e_dir y) && String.ltb (e_name x) (e_name y)).
Definition dump_files (st : fs) : list filed := map filed_of (isort fent_lt (files st)).
Definition dump_dirs (st : fs) : list string := isort String.ltb (dirs st).

Section C.
Variable loc : string.
Variable dh : string -> string.
Variable today : string.
Variable nrec : nat.

(* model state of the whole experiment: the mutating process and the caches of the two readers *)
Record mstate := { m_h : hstate; m_c0 : cache; m_c1 : cache }.

(* the observations of one DAG name, in the order in which the harness asks *)
Definition observe (m : mstate) (reqs : list string) (d : string) : mstate * pername :=
  let st := hfs (m_h m) in
  (* the glob results are shared between the calls (q_latest / q_recent / q_find are these compositions) *)
  let gl := glob loc st (dirpat dh d) (pat_latest d None) in
  let gt := glob loc st (dirpat dh d) (pat_latest d (Some today)) in
  let ga := glob loc st (dirpat dh d) (pat_all d) in
  let '(cw, latW) := latest_of loc (hcache (m_h m)) st gl in
  let '(c0, lat0) := latest_of loc (m_c0 m) st gl in
  let '(c1, lat1) := latest_of loc (m_c1 m) st gt in
  let '(c0, rec1) := recent_of loc c0 st ga 1 in
  let '(c1, rec2) := recent_of loc c1 st ga 2 in
  let '(c0, recN) := recent_of loc c0 st ga nrec in
  let '(cw, recW) := recent_of loc cw st ga 3 in
  let finds := map (fun rq => fnd_of (find_in loc ga rq)) reqs in
  ({| m_h := {| hfs := st; hwr := hwr (m_h m); hcache := cw |}; m_c0 := c0; m_c1 := c1 |},
   {| o_latW := ans_of latW; o_lat0 := ans_of lat0; o_lat1 := ans_of lat1;
      o_rec1 := map ans_of_pl rec1; o_rec2 := map ans_of_pl rec2; o_recN := map ans_of_pl recN; o_recW := map ans_of_pl recW;
      o_finds := finds |}).

Fixpoint observe_all (m : mstate) (reqs : list string) (ds : list string) : mstate * list pername :=
  match ds with
  | [] => (m, [])
  | d :: r => let '(m1, o) := observe m reqs d in let '(m2, os) := observe_all m1 reqs r in (m2, o :: os)
  end.

(* component codes: 1 latW 2 lat0 3 lat1 4 rec1 5 rec2 6 recN 7 recW 8 finds; 0 = equal *)
Definition per_diff (a b : pername) : nat :=
  if negb (ans_eqb (o_latW a) (o_latW b)) then 1 else
  if negb (ans_eqb (o_lat0 a) (o_lat0 b)) then 2 else
  if negb (ans_eqb (o_lat1 a) (o_lat1 b)) then 3 else
  if negb (list_eqb ans_eqb (o_rec1 a) (o_rec1 b)) then 4 else
  if negb (list_eqb ans_eqb (o_rec2 a) (o_rec2 b)) then 5 else
  if negb (list_eqb ans_eqb (o_recN a) (o_recN b)) then 6 else
  if negb (list_eqb ans_eqb (o_recW a) (o_recW b)) then 7 else
  if negb (list_eqb fnd_eqb (o_finds a) (o_finds b)) then 8 else 0.
Fixpoint pers_diff (k : nat) (a b : list pername) : nat * nat :=      (* (name index, component) *)
  match a, b with
  | [], [] => (0, 0)
  | x :: r1, y :: r2 => match per_diff x y with 0 => pers_diff (S k) r1 r2 | c => (k, c) end
  | _, _ => (k, 20)
  end.

(* an ENVIRONMENT step of the harness (not a store operation, so not an `op` of the proved model): the recording process is killed in the
   middle of a status line - n > 0 bytes of a JSON text reach the file of the open descriptor, without a newline, and the writer is gone.
   `tears` lists (step index, n, mtime) of such steps; the step's s_op is a placeholder there.  What the proved model says about a
   status update after such a step is Props/C07.v C07_update_after_torn. *)
Definition tear_state (h : hstate) (n now : Z) : hstate :=
  match hwr h with
  | Some w => match w_fd w with
              | Some (dir, fn) => {| hfs := run_prim (hfs h) (PAppend dir fn (CPart n) now); hwr := None; hcache := hcache h |}
              | None => {| hfs := hfs h; hwr := None; hcache := hcache h |}
              end
  | None => h
  end.
Definition tear_at (tears : list (nat * Z * Z)) (idx : nat) : option (Z * Z) :=
  match filter (fun t => Nat.eqb (fst (fst t)) idx) tears with t :: _ => Some (snd (fst t), snd t) | [] => None end.
Variable tears : list (nat * Z * Z).
Definition step_state (h : hstate) (s : step) (idx : nat) : hstate :=
  match tear_at tears idx with Some (n, now) => tear_state h n now | None => apply loc dh h (s_op s) end.

(* result: (step index, name index, component); component 0 = the whole history agrees;
   9 = directory names differ, 10 = files differ, 20/21 = malformed case *)
Fixpoint run_check (names : list string) (m : mstate) (steps : list step) (idx : nat) : nat * nat * nat :=
  match steps with
  | [] => (0, 0, 0)
  | s :: r =>
      let h' := step_state (m_h m) s idx in
      let m' := {| m_h := h'; m_c0 := m_c0 m; m_c1 := m_c1 m |} in
      let '(m2, per) := observe_all m' (s_reqs s) names in
      match pers_diff 0 per (s_per s) with
      | (_, 0) =>
          if negb (list_eqb String.eqb (dump_dirs (hfs h')) (s_dirs s)) then (idx, 0, 9)
          else if negb (list_eqb filed_eqb (dump_files (hfs h')) (s_files s)) then (idx, 0, 10)
          else run_check names m2 r (S idx)
      | (k, c) => (idx, k, c)
      end
  end.

(* debugging aid: the model's observations and dump after the first n steps *)
Fixpoint model_at (names : list string) (m : mstate) (steps : list step) (idx n : nat) : list pername * list string * list filed :=
  match steps with
  | [] => ([], [], [])
  | s :: r =>
      let h' := step_state (m_h m) s idx in
      let m' := {| m_h := h'; m_c0 := m_c0 m; m_c1 := m_c1 m |} in
      let '(m2, per) := observe_all m' (s_reqs s) names in
      match n with
      | O => (per, dump_dirs (hfs h'), dump_files (hfs h'))
      | S n' => model_at names m2 r (S idx) n'
      end
  end.
End C.

Definition m_init : mstate := {| m_h := h_init; m_c0 := []; m_c1 := [] |}.
Definition check_hcase_t (c : hcase) (tears : list (nat * Z * Z)) : nat * nat * nat :=
  run_check (h_loc c) (lookup (h_names c)) (h_today c) (h_nrec c) tears (map fst (h_names c)) m_init (h_steps c) 0.
Definition check_hcase (c : hcase) : nat * nat * nat := check_hcase_t c [].
Definition debug_hcase (c : hcase) (n : nat) :=
  model_at (h_loc c) (lookup (h_names c)) (h_today c) (h_nrec c) [] (map fst (h_names c)) m_init (h_steps c) 0 n.

(* indices of the histories on which model and implementation differ, with the place *)
Fixpoint mismatches_from (k : nat) (cs : list hcase) : list (nat * (nat * nat * nat)) :=
  match cs with
  | [] => []
  | c :: r => match check_hcase c with
              | (_, _, 0) => mismatches_from (S k) r
              | x => (k, x) :: mismatches_from (S k) r
              end
  end.
Definition mismatches := mismatches_from 0.
(* the same for histories with environment steps: cases paired with their tears *)
Fixpoint mismatches_t_from (k : nat) (cs : list (hcase * list (nat * Z * Z))) : list (nat * (nat * nat * nat)) :=
  match cs with
  | [] => []
  | (c, ts) :: r => match check_hcase_t c ts with
                    | (_, _, 0) => mismatches_t_from (S k) r
                    | x => (k, x) :: mismatches_t_from (S k) r
                    end
  end.
Definition mismatches_t := mismatches_t_from 0.
