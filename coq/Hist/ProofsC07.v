(* Hist/ProofsC07.v - property C07 on the string-level model (re-exported by Props/C07.v): what a FRESH process is answered
   on the directory that survives a kill of the recording process at any point of any operation applied to any reachable
   state.  crash_states (Model.v) = every prefix of the operation's primitive FS steps + every torn last append; they
   are the renderings of the structured crash states (ProofsString.crash_states_render), for which ProofsCrash.v shows
   that the answers are those of the run map before or after the operation - since eb925d1 for Close too; and (32b069b) a
   status update recorded by a new process after a kill inside a Write / Update is what the queries answer afterwards. *)
From Coq Require Import List String Ascii Bool Arith ZArith Lia Permutation.
Import ListNotations.
From BD.Hist Require Import GoMatch Model SModel Spec ProofsLib ProofsStore ProofsString ProofsRefine ProofsCache ProofsSpec ProofsTop ProofsC06 ProofsCrash.
Open Scope string_scope.
Open Scope list_scope.

Section C.
Variable loc : string.
Variable dirhash : string -> string.
Variable D : list string.
Variable days : list string.
Variable K : list skey.
Hypothesis OK : names_okb loc dirhash D days K = true.
Hypothesis KC : closedb D K = true.

(* the answers of a fresh process (empty cache) on the directory fs', for the DAGs and days of the universe *)
Definition answers0 (fs' : fs) (H : hist) : Prop :=
  forall d, In d D ->
    (forall req, fpayload (q_find loc dirhash fs' d req) = sp_find H d req)
    /\ (forall day, (match day with Some x => In x days | None => True end) -> snd (q_latest loc dirhash [] fs' d day) = sp_latest H d day)
    /\ (forall n, snd (q_recent loc dirhash [] fs' d n) = sp_recent H d n).

Lemma evs_okb_snoc es e : forall ys H, evs_okb loc dirhash ys H (es ++ [e]) = true ->
  evs_okb loc dirhash ys H es = true
  /\ (match e with
      | EOp o => op_okb (ys_h (fold_left (ysstep loc dirhash) es ys)) (ys_seen (fold_left (ysstep loc dirhash) es ys)) o
                 && hist_okb (sp_apply (fold_left (fun H e => fst (sp_step H e)) es H) o)
      | _ => true end = true).
Proof.
  induction es as [|x es IH]; intros ys H P; simpl in *.
  - rewrite andb_true_r in P. auto.
  - apply andb_prop in P. destruct P as [P1 P2]. destruct (IH _ _ P2) as [A B]. rewrite P1, A. auto.
Qed.

Lemma premises_snoc es o : premises loc dirhash D days K (es ++ [EOp o]) ->
  premises loc dirhash D days K es /\ op_in D K o
  /\ op_okb (ys_h (fold_left (ysstep loc dirhash) es ysys_init)) (ys_seen (fold_left (ysstep loc dirhash) es ysys_init)) o = true
  /\ hist_okb (sp_apply (sp_state es) o) = true.
Proof.
  intros [F P]. apply Forall_app in F. destruct F as [F1 F2]. inversion F2; subst.
  destruct (evs_okb_snoc es (EOp o) _ _ P) as [A B]. apply andb_prop in B. destruct B as [B1 B2].
  repeat split; auto.
Qed.

(* the answers of a fresh process on the rendering of a structured store are its answers on the structured store *)
Lemma answers_render s H : keys_in D K s -> dirs_nodup s -> answers_as rname (rpath loc dirhash) s H -> answers0 (render_fs dirhash s) H.
Proof.
  intros KI ND A d Id. destruct (fresh_answers_render loc dirhash D days K OK s d KI ND Id) as [A1 [A2 A3]]. destruct (A d) as [B1 [B2 B3]].
  split; [|split].
  - intros req. rewrite A1. rewrite <- B1. destruct (sq_find rname (rpath loc dirhash) s d req); reflexivity.
  - intros day Dy. rewrite A2 by auto. apply B2.
  - intros n. rewrite A3. apply B3.
Qed.

(* every L0 crash state is the rendering of an L1 crash state, on which the three queries agree *)
Lemma crash_state_l1 es o fs' : premises loc dirhash D days K (es ++ [EOp o]) ->
  In fs' (crash_states loc dirhash (y_h (yrun loc dirhash sys_init es)) o) ->
  let ys := fold_left (ysstep loc dirhash) es ysys_init in
  exists s', In s' (scrash_states rname (rpath loc dirhash) (ys_h ys) o) /\ fs' = render_fs dirhash s'
    /\ (forall H, answers_as rname (rpath loc dirhash) s' H -> answers0 fs' H)
    /\ (forall d req, In d D -> fpayload (q_find loc dirhash fs' d req) = fres_payload (sq_find rname (rpath loc dirhash) s' d req)).
Proof.
  intros P IN ys. destruct (premises_snoc es o P) as [Pes [Oin [Ook Ohk]]].
  pose proof (reach_inv loc dirhash D days K OK KC es Pes) as I. fold ys in I.
  destruct I as [Ih _ Iin _ _ _ _ _ _].
  rewrite Ih in IN. rewrite (crash_states_render loc dirhash D days K OK KC o (ys_h ys) Iin Oin) in IN.
  apply in_map_iff in IN. destruct IN as [s' [E IN]]. exists s'. split; auto. split; auto.
  destruct Iin as [KI [ND [CI WI]]].
  assert (SI : state_in D K (ys_h ys)) by exact (conj KI (conj ND (conj CI WI))).
  destruct (scrash_in D K _ _ s' KI ND (sprims_in loc dirhash D days K OK KC o (ys_h ys) SI Oin) IN) as [KI' ND'].
  assert (FA : forall d, In d D ->
    (forall req, fpayload (q_find loc dirhash fs' d req) = fres_payload (sq_find rname (rpath loc dirhash) s' d req))
    /\ (forall day, (match day with Some x => In x days | None => True end) ->
          snd (q_latest loc dirhash [] fs' d day) = snd (sq_latest rname [] s' d day))
    /\ (forall n, snd (q_recent loc dirhash [] fs' d n) = snd (sq_recent rname [] s' d n))).
  { intros d Id. subst fs'. destruct (fresh_answers_render loc dirhash D days K OK s' d KI' ND' Id) as [A1 [A2 A3]].
    split; [|split]; auto. intros req. rewrite A1. destruct (sq_find rname (rpath loc dirhash) s' d req); reflexivity. }
  split.
  - intros H A d Id. destruct (FA d Id) as [A1 [A2 A3]]. destruct (A d) as [B1 [B2 B3]].
    split; [|split].
    + intros req. rewrite A1. apply B1.
    + intros day Dy. rewrite A2 by auto. apply B2.
    + intros n. rewrite A3. apply B3.
  - intros d req Id. apply (FA d Id).
Qed.

(* open / write / close (compaction, since eb925d1) / update / chtimes are atomic under a kill: every crash state answers every
   query as the run map BEFORE or AFTER the operation *)
Definition atomic_op (o : op) : bool :=
  match o with OOpen _ _ _ _ | OWrite _ _ _ | OClose _ | OUpdate _ _ _ _ _ | OTouch _ _ _ _ _ => true | _ => false end.

Theorem crash_atomic es o fs' : premises loc dirhash D days K (es ++ [EOp o]) -> atomic_op o = true ->
  In fs' (crash_states loc dirhash (y_h (yrun loc dirhash sys_init es)) o) ->
  answers0 fs' (sp_state es) \/ answers0 fs' (sp_state (es ++ [EOp o])).
Proof.
  intros P AO IN. destruct (crash_state_l1 es o fs' P IN) as [s' [IN' [E [TR _]]]].
  destruct (premises_snoc es o P) as [Pes [Oin [Ook Ohk]]].
  pose proof (reach_inv loc dirhash D days K OK KC es Pes) as I.
  set (ys := fold_left (ysstep loc dirhash) es ysys_init) in *.
  destruct I as [_ _ _ _ [L R] Iok Iseen _ _].
  rewrite sp_state_snoc. simpl fst.
  assert (X : answers_as rname (rpath loc dirhash) s' (sp_state es) \/ answers_as rname (rpath loc dirhash) s' (sp_apply (sp_state es) o)).
  { destruct o; try discriminate.
    - eapply crash_open; eauto.
    - eapply crash_write; eauto.
    - eapply crash_close; eauto.
    - eapply crash_update; eauto.
    - eapply crash_touch; eauto. }
  destruct X as [X|X]; [left|right]; apply TR; auto.
Qed.

(* the instance for Close, spelled out: no crash state of the compaction is an exception any more (before eb925d1: the window in
   which the compacted twin was complete and the original not yet unlinked) *)
Theorem crash_close0 es now fs' : premises loc dirhash D days K (es ++ [EOp (OClose now)]) ->
  In fs' (crash_states loc dirhash (y_h (yrun loc dirhash sys_init es)) (OClose now)) ->
  answers0 fs' (sp_state es) \/ answers0 fs' (sp_state (es ++ [EOp (OClose now)])).
Proof. intros P IN. apply (crash_atomic es (OClose now) fs' P eq_refl IN). Qed.

(* F7c repaired (32b069b): the process is killed inside a Write or an Update (any crash state, torn tails included); afterwards a NEW
   process records a status update.  Whatever the kill left, the store then answers every query as the run map in which that update
   is recorded - on top of the run map before or after the interrupted operation. *)
Definition fresh_state (fs' : fs) : hstate := {| hfs := fs'; hwr := None; hcache := [] |}.
Theorem torn_then_update0 es o fs' d req tag size now : premises loc dirhash D days K (es ++ [EOp o]) ->
  match o with OWrite _ _ _ | OUpdate _ _ _ _ _ => True | _ => False end ->
  In fs' (crash_states loc dirhash (y_h (yrun loc dirhash sys_init es)) o) -> In d D ->
  let u := OUpdate d req tag size now in
  let fs2 := hfs (apply loc dirhash (fresh_state fs') u) in
  answers0 fs2 (sp_apply (sp_state es) u) \/ answers0 fs2 (sp_apply (sp_state (es ++ [EOp o])) u).
Proof.
  intros P AO IN Id u fs2.
  destruct (premises_snoc es o P) as [Pes [Oin [Ook Ohk]]].
  pose proof (reach_inv loc dirhash D days K OK KC es Pes) as I.
  set (ys := fold_left (ysstep loc dirhash) es ysys_init) in *.
  destruct I as [Ih _ Iin _ [L R] Iok Iseen _ _].
  rewrite Ih in IN. rewrite (crash_states_render loc dirhash D days K OK KC o (ys_h ys) Iin Oin) in IN.
  apply in_map_iff in IN. destruct IN as [s' [E IN]].
  destruct Iin as [KI [ND [CI WI]]].
  assert (SI : state_in D K (ys_h ys)) by exact (conj KI (conj ND (conj CI WI))).
  destruct (scrash_in D K _ _ s' KI ND (sprims_in loc dirhash D days K OK KC o (ys_h ys) SI Oin) IN) as [KI' ND'].
  assert (SD : state_in D K (dead s')). { split; auto. split; auto. split; [intros e []|exact Logic.I]. }
  assert (UI : op_in D K u) by exact Id.
  destruct (apply_render loc dirhash D days K OK KC u (dead s') SD UI) as [AR [KI2 [ND2 _]]].
  assert (F2 : fs2 = render_fs dirhash (sst (sapply rname (rpath loc dirhash) (dead s') u))).
  { unfold fs2, fresh_state. rewrite <- E. change {| hfs := render_fs dirhash s'; hwr := None; hcache := [] |} with (render_state dirhash (dead s')).
    rewrite AR. reflexivity. }
  rewrite F2. rewrite sp_state_snoc. simpl fst.
  destruct (torn_then_update rname (rpath loc dirhash) (ys_h ys) (sp_state es) L o s' d req tag size now R Iok Ohk AO IN) as [X|X];
    [left|right]; apply answers_render; auto.
Qed.

(* retention: whatever prefix of the unlinks was executed, every run NOT up for removal is found with its last status *)
Theorem crash_removeold0 es d cutoff fs' : premises loc dirhash D days K (es ++ [EOp (ORemoveOld d cutoff)]) ->
  In fs' (crash_states loc dirhash (y_h (yrun loc dirhash sys_init es)) (ORemoveOld d cutoff)) ->
  forall a, In a (h_runs (sp_state es)) -> In (a_dag a) D -> a_req a <> "" -> ~ (a_dag a = d /\ (a_mtime a < cutoff)%Z) ->
  fpayload (q_find loc dirhash fs' (a_dag a) (a_req a)) = last_opt (a_sts a).
Proof.
  intros P IN a Ia Id Nr NE. destruct (crash_state_l1 es _ fs' P IN) as [s' [IN' [E [TR FQ]]]].
  destruct (premises_snoc es _ P) as [Pes [Oin [Ook Ohk]]].
  pose proof (reach_inv loc dirhash D days K OK KC es Pes) as I.
  set (ys := fold_left (ysstep loc dirhash) es ysys_init) in *.
  destruct I as [_ _ _ _ [L R] Iok _ _ _].
  rewrite FQ by auto. eapply crash_removeold; eauto.
Qed.


(* rename: whatever prefix of the renames was executed, a run of another DAG is found intact, and a run of the renamed DAG
   is found intact under exactly one of the old and the new name (P1) *)
Theorem crash_rename0 es d d' fs' : premises loc dirhash D days K (es ++ [EOp (ORename d d')]) ->
  In fs' (crash_states loc dirhash (y_h (yrun loc dirhash sys_init es)) (ORename d d')) ->
  forall a, In a (h_runs (sp_state es)) -> In (a_dag a) D -> a_req a <> "" ->
    (a_dag a <> d -> fpayload (q_find loc dirhash fs' (a_dag a) (a_req a)) = last_opt (a_sts a))
    /\ (a_dag a = d ->
         (fpayload (q_find loc dirhash fs' d (a_req a)) = last_opt (a_sts a) /\ fpayload (q_find loc dirhash fs' d' (a_req a)) = None)
         \/ (fpayload (q_find loc dirhash fs' d (a_req a)) = None /\ fpayload (q_find loc dirhash fs' d' (a_req a)) = last_opt (a_sts a))).
Proof.
  intros P IN a Ia Id Nr. destruct (crash_state_l1 es _ fs' P IN) as [s' [IN' [E [TR FQ]]]].
  destruct (premises_snoc es _ P) as [Pes [Oin [Ook Ohk]]].
  pose proof (reach_inv loc dirhash D days K OK KC es Pes) as I.
  set (ys := fold_left (ysstep loc dirhash) es ysys_init) in *.
  destruct I as [_ _ _ _ [L R] Iok Iseen _ _].
  destruct Oin as [Od Od'].
  destruct (crash_rename rname (rpath loc dirhash) (ys_h ys) (sp_state es) L (ys_seen ys) d d' s' R Iok Iseen Ook Ohk IN' a Ia Nr) as [A B].
  split.
  - intros Nd. rewrite FQ by auto. apply A; auto.
  - intros Dd. rewrite !FQ by auto. apply B; auto.
Qed.


(* an update after a kill inside Close: whatever point of the compaction the kill hit (temporary copy absent / empty / torn / complete,
   compacted copy published next to the original, original removed), a status update of ANY run recorded afterwards by a new process is
   what all queries answer - on top of the run map before or after the close.  Reasons: no pattern matches the temporary copy (neither
   the lookup nor the listings see it), and next to its original the compacted copy is the file the reverse-order lookup finds and the
   listings read. *)
Theorem close_then_update0 es now fs' d req tag size now2 : premises loc dirhash D days K (es ++ [EOp (OClose now)]) ->
  In fs' (crash_states loc dirhash (y_h (yrun loc dirhash sys_init es)) (OClose now)) -> In d D ->
  let u := OUpdate d req tag size now2 in
  let fs2 := hfs (apply loc dirhash (fresh_state fs') u) in
  answers0 fs2 (sp_apply (sp_state es) u) \/ answers0 fs2 (sp_apply (sp_state (es ++ [EOp (OClose now)])) u).
Proof.
  intros P IN Id u fs2.
  destruct (premises_snoc es _ P) as [Pes [Oin [Ook Ohk]]].
  pose proof (reach_inv loc dirhash D days K OK KC es Pes) as I.
  set (ys := fold_left (ysstep loc dirhash) es ysys_init) in *.
  destruct I as [Ih _ Iin _ [L R] Iok Iseen _ _].
  rewrite Ih in IN. rewrite (crash_states_render loc dirhash D days K OK KC (OClose now) (ys_h ys) Iin Oin) in IN.
  apply in_map_iff in IN. destruct IN as [s' [E IN]].
  destruct Iin as [KI [ND [CI WI]]].
  assert (SI : state_in D K (ys_h ys)) by exact (conj KI (conj ND (conj CI WI))).
  destruct (scrash_in D K _ _ s' KI ND (sprims_in loc dirhash D days K OK KC (OClose now) (ys_h ys) SI Oin) IN) as [KI' ND'].
  assert (SD : state_in D K (dead s')). { split; auto. split; auto. split; [intros e []|exact Logic.I]. }
  assert (UI : op_in D K u) by exact Id.
  destruct (apply_render loc dirhash D days K OK KC u (dead s') SD UI) as [AR [KI2 [ND2 _]]].
  assert (F2 : fs2 = render_fs dirhash (sst (sapply rname (rpath loc dirhash) (dead s') u))).
  { unfold fs2, fresh_state. rewrite <- E. change {| hfs := render_fs dirhash s'; hwr := None; hcache := [] |} with (render_state dirhash (dead s')).
    rewrite AR. reflexivity. }
  assert (LT : forall w, swr (ys_h ys) = Some w -> String.ltb (rpath loc dirhash (sw_key w)) (rpath loc dirhash (twin (sw_key w))) = true).
  { intros w EW. unfold wr_in in WI. rewrite EW in WI. destruct WI as [W1 [[W2 W3] _]].
    apply (nk_twin_lt loc dirhash D days K OK); auto. }
  rewrite F2. rewrite sp_state_snoc. simpl fst.
  destruct (close_then_update rname (rpath loc dirhash) (ys_h ys) (sp_state es) L (ys_seen ys) now s' d req tag size now2 R Iok Iseen Ook Ohk LT IN) as [X|X];
    [left|right]; apply answers_render; auto.
Qed.

(* retention, in full: every crash state answers EVERY query as the run map in which some of the runs that are up for removal are
   already gone (and nothing else has changed) *)
Theorem crash_removeold_full0 es d cutoff fs' : premises loc dirhash D days K (es ++ [EOp (ORemoveOld d cutoff)]) ->
  In fs' (crash_states loc dirhash (y_h (yrun loc dirhash sys_init es)) (ORemoveOld d cutoff)) ->
  exists H', answers0 fs' H' /\ hist_okb H' = true
    /\ (forall a, In a (h_runs H') -> In a (h_runs (sp_state es)))
    /\ (forall a, In a (h_runs (sp_state es)) -> ~ (a_dag a = d /\ (a_mtime a < cutoff)%Z) -> In a (h_runs H'))
    /\ NoDup (map a_id (h_runs H')).
Proof.
  intros P IN. destruct (crash_state_l1 es _ fs' P IN) as [s' [IN' [E [TR FQ]]]].
  destruct (premises_snoc es _ P) as [Pes [Oin [Ook Ohk]]].
  pose proof (reach_inv loc dirhash D days K OK KC es Pes) as I.
  set (ys := fold_left (ysstep loc dirhash) es ysys_init) in *.
  destruct I as [_ _ _ _ [L R] Iok _ _ _].
  destruct (crash_removeold_full rname (rpath loc dirhash) (ys_h ys) (sp_state es) L d cutoff s' R Iok IN') as [H' [A [B C]]].
  exists H'. split; auto.
Qed.

(* rename, in full: every crash state answers EVERY query as the run map in which some of the runs of d already belong to d' *)
Theorem crash_rename_full0 es d d' fs' : premises loc dirhash D days K (es ++ [EOp (ORename d d')]) ->
  In fs' (crash_states loc dirhash (y_h (yrun loc dirhash sys_init es)) (ORename d d')) ->
  exists H', answers0 fs' H' /\ hist_okb H' = true
    /\ exists l, Permutation l (h_runs (sp_state es)) /\ Forall2 (rrel d d') l (h_runs H').
Proof.
  intros P IN. destruct (crash_state_l1 es _ fs' P IN) as [s' [IN' [E [TR FQ]]]].
  destruct (premises_snoc es _ P) as [Pes [Oin [Ook Ohk]]].
  pose proof (reach_inv loc dirhash D days K OK KC es Pes) as I.
  set (ys := fold_left (ysstep loc dirhash) es ysys_init) in *.
  destruct I as [_ _ _ _ [L R] Iok Iseen _ _].
  destruct (crash_rename_full rname (rpath loc dirhash) (ys_h ys) (sp_state es) L (ys_seen ys) d d' s' R Iok Iseen Ook Ohk IN') as [H' [A [B C]]].
  exists H'. split; auto.
Qed.

End C.
