(* Hist/CheckCrash.v - entry point of the C07 correspondence: is the directory that survived a kill of the real jsondb one
   of the crash states the model predicts for the operation that was in progress?  (mtimes and the number of bytes of a torn
   tail are not compared: the model's torn tail stands for every torn length.) *)
From Coq Require Import List String Ascii Bool Arith ZArith.
Import ListNotations.
From BD.Hist Require Import GoMatch Model Check.
Open Scope string_scope.

Definition nfiled := (string * string * list lined * lined)%type.
Definition ntail (t : tail) : lined :=
  match t with TNone => (0, "", 0, 0%Z) | TPartial _ => (1, "", 0, 0%Z) | TFull p => (2, p_req p, p_tag p, p_size p) end.
Definition nfile_of (e : fent) : nfiled := (e_dir e, e_name e, map lined_of_item (items (e_file e)), ntail (ftail (e_file e))).
Definition ndump (st : fs) : list string * list nfiled := (dump_dirs st, map nfile_of (isort fent_lt (files st))).
Definition nfiled_eqb (a b : nfiled) : bool :=
  let '(d1, n1, l1, t1) := a in let '(d2, n2, l2, t2) := b in
  String.eqb d1 d2 && String.eqb n1 n2 && list_eqb lined_eqb l1 l2 && lined_eqb t1 t2.
Definition ndump_eqb (a b : list string * list nfiled) : bool :=
  list_eqb String.eqb (fst a) (fst b) && list_eqb nfiled_eqb (snd a) (snd b).

Record ccase := { c_loc : string; c_names : list (string * string); c_done : list op; c_cur : option op;
                  c_dirs : list string; c_files : list nfiled }.
(* 0 = the observed directory is the i-th crash state (i+1 returned); 0 = not a crash state of the model *)
Fixpoint find_state (obs : list string * list nfiled) (l : list fs) (i : nat) : nat :=
  match l with [] => 0 | x :: r => if ndump_eqb (ndump x) obs then S i else find_state obs r (S i) end.
Definition crash_member (c : ccase) : nat * nat :=
  let dh := lookup (c_names c) in
  let h := run_ops (c_loc c) dh h_init (c_done c) in
  let h' := {| hfs := hfs h; hwr := hwr h; hcache := [] |} in
  let states := match c_cur c with Some o => crash_states (c_loc c) dh h' o | None => [hfs h'] end in
  (find_state (c_dirs c, c_files c) states 0, List.length states).
Fixpoint members (cs : list ccase) : list (nat * nat) :=
  match cs with [] => [] | c :: r => crash_member c :: members r end.
