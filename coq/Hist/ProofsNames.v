(* Hist/ProofsNames.v - non-vacuity of the per-path string premises (names_okb, closedb) beyond single Examples, by bounded exhaustive
   sweeps (vm_compute, lifted with forallb_forall; the bounds are in the statements): EVERY DAG base name of length <= 2 over an
   alphabet that contains letters, digits, space, dot, underscore, minus, colon AND every glob metacharacter ( [ ] * ? backslash ),
   and every name of length <= 3 over the hazardous part of it, satisfies the premises (for two runs, one of them with a short request id, and two days), and so does every pair of distinct
   names of length <= 1 in one universe (directory selection and separation between two DAGs).
   On the model of the pinned code the names with metacharacters failed these premises (F6b); the general statement for all names
   is not proved - the premises are evaluated on every generated history by the check. *)
From Coq Require Import List String Ascii Bool Arith ZArith.
Import ListNotations.
From BD.Hist Require Import GoMatch Model SModel Spec ProofsString ProofsRefine ProofsTop ProofsC06.
Open Scope string_scope.

Definition alphabet : list ascii := ["a";"b";"Z";"0";"2";" ";".";"_";"-";"[";"]";"*";"?";"\";":"]%char.
Definition hazards : list ascii := ["a";"2";".";"[";"*";"?";"\";":"]%char.
Fixpoint words_over (al : list ascii) (n : nat) : list string :=
  match n with
  | O => [""]
  | S k => let w := words_over al k in
           w ++ flat_map (fun s => map (fun c => String c s) al) (filter (fun s => Nat.eqb (String.length s) k) w)
  end.
Definition words := words_over alphabet.
Definition hwords := words_over hazards.
(* an injective stand-in for md5: the hex encoding of the path *)
Definition hexd (n : nat) : ascii := ascii_of_nat (if Nat.ltb n 10 then 48 + n else 87 + n).
Fixpoint hexs (s : string) : string :=
  match s with "" => "" | String c r => String (hexd (nat_of_ascii c / 16)) (String (hexd (nat_of_ascii c mod 16)) (hexs r)) end.
Definition dhx (d : string) : string := hexs d.
Definition dag_of (w : string) : string := "/x/" ++ w ++ ".yaml".
Definition locN := "/data/h".
Definition daysN := ["20240101"; "20240102"].
Definition runsN := [("20240101.10:00:00.100", "req-aaaa"); ("20240101.10:00:00.300", "r2")].
Definition okD (D : list string) : bool := names_okb locN dhx D daysN (univ D runsN) && closedb D (univ D runsN).

Lemma names_ok_words2 : forallb (fun w => okD [dag_of w]) (words 2) = true.
Proof. vm_compute. reflexivity. Qed.
Lemma names_ok_hwords3 : forallb (fun w => okD [dag_of w]) (hwords 3) = true.
Proof. vm_compute. reflexivity. Qed.
Lemma names_ok_pairs1 :
  forallb (fun w1 => forallb (fun w2 => String.eqb w1 w2 || okD [dag_of w1; dag_of w2]) (words 1)) (words 1) = true.
Proof. vm_compute. reflexivity. Qed.

Theorem names_premises_bounded :
  List.length (words 2) = 241 /\ List.length (hwords 3) = 585
  /\ (forall w, In w (words 2) \/ In w (hwords 3) ->
        names_okb locN dhx [dag_of w] daysN (univ [dag_of w] runsN) = true /\ closedb [dag_of w] (univ [dag_of w] runsN) = true)
  /\ (forall w1 w2, In w1 (words 1) -> In w2 (words 1) -> w1 <> w2 ->
        names_okb locN dhx [dag_of w1; dag_of w2] daysN (univ [dag_of w1; dag_of w2] runsN) = true).
Proof.
  split; [vm_compute; reflexivity|]. split; [vm_compute; reflexivity|]. split.
  - intros w [I|I].
    + pose proof names_ok_words2 as H. rewrite forallb_forall in H. specialize (H w I). unfold okD in H. apply andb_prop in H. exact H.
    + pose proof names_ok_hwords3 as H. rewrite forallb_forall in H. specialize (H w I). unfold okD in H. apply andb_prop in H. exact H.
  - intros w1 w2 I1 I2 N. pose proof names_ok_pairs1 as H. rewrite forallb_forall in H. specialize (H w1 I1).
    rewrite forallb_forall in H. specialize (H w2 I2). apply orb_prop in H. destruct H as [H|H].
    + apply String.eqb_eq in H. contradiction.
    + unfold okD in H. apply andb_prop in H. apply H.
Qed.
