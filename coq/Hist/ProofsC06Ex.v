(* Hist/ProofsC06Ex.v - concrete evaluations for C06 (all by vm_compute on the string-level model of the REPAIRED code):
   (1) the former `_refuted` witnesses - same-second runs (F6a), glob metacharacters in the DAG name (F6b), stamp-like DAG
       names (F6c), update during a run (F6d) - now satisfy every premise of the refinement theorem and are answered as the
       specification says (each with a note of what the model of the pinned code answered before the fix);
       two premises that are still needed are shown to be needed: identical start stamps, re-created paths.
   (2) the premises are satisfiable: a trace over four DAG names (shared prefixes, a space, the _c suffix) with
       open/write/close, update, rename, retention and interleaved queries by two readers and the operating
       process satisfies every premise, and its answers are the (non-trivial) ones of the specification. *)
From Coq Require Import List String Ascii Bool Arith ZArith.
Import ListNotations.
From BD.Hist Require Import GoMatch Model SModel Spec ProofsString ProofsRefine ProofsTop ProofsC06.
Open Scope string_scope.
Open Scope list_scope.

(* real md5 values of these DAG paths (the proofs only ever use that the resulting directory names differ) *)
Definition dh (d : string) : string :=
  if String.eqb d "/x/a.yaml" then "942ffe3d9505dd317630ccda32f9b969" else
  if String.eqb d "/x/ab.yaml" then "dca4f83ba2c302d7af6dc6af9fb10fd1" else
  if String.eqb d "/x/a b.yaml" then "55de50f18204bb351511ad74240b0358" else
  if String.eqb d "/x/w_c.yaml" then "c4dbda5f752c13c8d558e9a058c82b07" else
  if String.eqb d "/x/a[1].yaml" then "0b0bb5b6b0c1e6e2c2b0d0d1c5e5a5f5" else
  if String.eqb d "/x/q*.yaml" then "7c1d3f6a9b2e4d5f8a0b1c2d3e4f5a6b" else
  if String.eqb d "/x/n20240101.10:00:00.yaml" then "11538ca288a971e68a5fe691b6628a7b" else "00000000000000000000000000000000".
Definition loc := "/data".
(* operations with times and sizes written as nat literals *)
Definition xOpen d st rq (t : nat) := EOp (OOpen d st rq (Z.of_nat t)).
Definition xWrite (tag size t : nat) := EOp (OWrite tag (Z.of_nat size) (Z.of_nat t)).
Definition xClose (t : nat) := EOp (OClose (Z.of_nat t)).
Definition xUpdate d rq (tag size t : nat) := EOp (OUpdate d rq tag (Z.of_nat size) (Z.of_nat t)).
Definition xRemoveOld d (cutoff : nat) := EOp (ORemoveOld d (Z.of_nat cutoff)).
Definition xTouch d st r8 c (t : nat) := EOp (OTouch d st r8 c (Z.of_nat t)).
Definition pl (rq : string) (tag size : nat) := {| p_req := rq; p_tag := tag; p_size := Z.of_nat size |}.
Definition a := "/x/a.yaml".
Definition ab := "/x/ab.yaml".
Definition asp := "/x/a b.yaml".
Definition wc := "/x/w_c.yaml".

(* ---- F6a (fixed by e6d6379): two runs of one DAG started in the same second -------------------------------------------- *)
Definition esA : list ev :=
  [xOpen a "20240101.10:00:00.100" "req-aaaa-1" 1; xWrite 1 10 2; xClose 3;
   xOpen a "20240101.10:00:00.300" "req-bbbb-2" 4; xWrite 2 10 5; xClose 6;
   ELatest (Some 0) a None; ERecent (Some 0) a 2].
Definition runsA := [("20240101.10:00:00.100", "req-aaaa"); ("20240101.10:00:00.300", "req-bbbb")].
(* before fix e6d6379 the model answered: latest = req-aaaa-1 (the OLDER run), recent 2 = [req-aaaa-1; req-bbbb-2] (oldest first),
   and the premise "start stamps distinct at seconds" failed for this trace *)
Example fixed_same_second :
  all_premisesb loc dh [a] [] (univ [a] runsA) esA = true
  /\ ytrace loc dh sys_init esA = [ANone; ANone; ANone; ANone; ANone; ANone;
        ALatest (LOk (pl "req-bbbb-2" 2 10)); ARecent [(pl "req-bbbb-2" 2 10); (pl "req-aaaa-1" 1 10)]]
  /\ sp_trace hist_init esA = ytrace loc dh sys_init esA.
Proof. repeat split; vm_compute; reflexivity. Qed.

(* ---- F6b (fixed by 8ffc003): glob metacharacters in the DAG name ------------------------------------------------------------- *)
Definition b := "/x/a[1].yaml".
Definition q := "/x/q*.yaml".
Definition esB : list ev :=
  [xOpen b "20240101.10:00:00.100" "req-aaaa-1" 1; xWrite 1 10 2; xClose 3; EFind b "req-aaaa-1"; ELatest None b None;
   EOp (ORename b q); EFind q "req-aaaa-1"; EFind b "req-aaaa-1"; ERecent (Some 1) q 3].
Definition runsB := [("20240101.10:00:00.100", "req-aaaa")].
(* before fix 8ffc003 the model answered: find = None and latest = no data for a[1] (its own history invisible), and the string
   premise names_okb failed for this name *)
Example fixed_glob_meta :
  all_premisesb loc dh [b; q] [] (univ [b; q] runsB) esB = true
  /\ ytrace loc dh sys_init esB = [ANone; ANone; ANone; AFind (Some (pl "req-aaaa-1" 1 10)); ALatest (LOk (pl "req-aaaa-1" 1 10));
        ANone; AFind (Some (pl "req-aaaa-1" 1 10)); AFind None; ARecent [(pl "req-aaaa-1" 1 10)]]
  /\ sp_trace hist_init esB = ytrace loc dh sys_init esB.
Proof. repeat split; vm_compute; reflexivity. Qed.

(* ---- F6c (fixed by e6d6379): a DAG name containing something shaped like a time stamp ------------------------------------------- *)
Definition c := "/x/n20240101.10:00:00.yaml".
Definition esC : list ev :=
  [xOpen c "20240202.10:00:00.000" "req-aaaa-1" 1; xWrite 1 10 2; xClose 3;
   xOpen c "20240202.10:01:00.000" "req-bbbb-2" 4; xWrite 2 10 5; xClose 6; ELatest (Some 0) c None].
Definition runsC := [("20240202.10:00:00.000", "req-aaaa"); ("20240202.10:01:00.000", "req-bbbb")].
(* before fix e6d6379 the model answered: latest = req-aaaa-1 (every file of this DAG got the key 20240101.10:00:00 from its own
   directory name), and names_okb failed *)
Example fixed_stamp_like_name :
  all_premisesb loc dh [c] [] (univ [c] runsC) esC = true
  /\ ytrace loc dh sys_init esC = [ANone; ANone; ANone; ANone; ANone; ANone; ALatest (LOk (pl "req-bbbb-2" 2 10))]
  /\ sp_trace hist_init esC = ytrace loc dh sys_init esC.
Proof. repeat split; vm_compute; reflexivity. Qed.

(* ---- F6d (fixed by e2affa2): a manual update of the run that is still being recorded ----------------------------------------------- *)
Definition esD : list ev :=
  [xOpen a "20240101.10:00:00.100" "req-aaaa-1" 1; xWrite 1 10 2; xUpdate a "req-aaaa-1" 2 12 3; ELatest (Some 0) a None;
   xWrite 3 10 4; ELatest (Some 0) a None; EFind a "req-aaaa-1"].
(* before fix e2affa2 histories of this shape were outside the model's domain (the creating descriptor had no O_APPEND: the real
   store overwrote the update in place and the reader's cache kept answering status 2 after status 3 was written) *)
Example fixed_update_during_run :
  all_premisesb loc dh [a] [] (univ [a] runsA) esD = true
  /\ ytrace loc dh sys_init esD = [ANone; ANone; ANone; ALatest (LOk (pl "req-aaaa-1" 2 12)); ANone; ALatest (LOk (pl "req-aaaa-1" 3 10));
                                  AFind (Some (pl "req-aaaa-1" 3 10))]
  /\ sp_trace hist_init esD = ytrace loc dh sys_init esD.
Proof. repeat split; vm_compute; reflexivity. Qed.

(* ---- premises that are still needed, and why ------------------------------------------------------------------------------------------ *)
(* identical start stamps (same millisecond) of two runs of one DAG: "most recently started" is undefined; the specification breaks
   the tie by recording order, the store by file name *)
Definition esM : list ev :=
  [xOpen a "20240101.10:00:00.100" "req-zzzz-1" 1; xWrite 1 10 2; xClose 3;
   xOpen a "20240101.10:00:00.100" "req-bbbb-2" 4; xWrite 2 10 5; xClose 6; ELatest (Some 0) a None].
Lemma same_ms_needs_premise :
  (exists es, ytrace loc dh sys_init es <> sp_trace hist_init es) /\ evs_okb loc dh ysys_init hist_init esM = false.
Proof. split; [exists esM|]; vm_compute; [intro X; discriminate X | reflexivity]. Qed.
(* a path that is deleted and re-created with a status of the same size within the same second: the cache of a reader cannot see the
   difference (same size, same mtime second) - paths embed start milliseconds and request id, so this needs a re-used request id *)
Definition esR : list ev :=
  [xOpen a "20240101.10:00:00.100" "req-aaaa-1" 1; xWrite 1 10 2; ELatest (Some 0) a None; xRemoveOld a 100;
   xOpen a "20240101.10:00:00.100" "req-aaaa-1" 3; xWrite 2 10 4; ELatest (Some 0) a None; ELatest (Some 1) a None].
Lemma recreated_path_needs_premise :
  ytrace loc dh sys_init esR = [ANone; ANone; ALatest (LOk (pl "req-aaaa-1" 1 10)); ANone; ANone; ANone;
                                ALatest (LOk (pl "req-aaaa-1" 1 10)); ALatest (LOk (pl "req-aaaa-1" 2 10))]
  /\ evs_okb loc dh ysys_init hist_init esR = false.
Proof. split; vm_compute; reflexivity. Qed.

(* ---- the premises are satisfiable by a non-trivial trace ------------------------------------------------------------------ *)
Definition DE := [a; ab; asp; wc].
Definition daysE := ["20240101"; "20240102"].
Definition runsE := [("20240101.10:00:00.100", "req-aaaa"); ("20240101.10:00:01.300", "req-bbbb"); ("20240102.09:00:00.000", "req-cccc")].
Definition KE := univ DE runsE.
Definition esE : list ev :=
  [xOpen a "20240101.10:00:00.100" "req-aaaa-1" 1000; xWrite 1 10 1001; ELatest (Some 0) a None;
   xWrite 2 12 1002; xClose 1003; ELatest (Some 0) a None;
   xOpen a "20240101.10:00:01.300" "req-bbbb-2" 1004; xWrite 3 5000 1005; xClose 1006;
   xOpen ab "20240102.09:00:00.000" "req-cccc-3" 1007; xWrite 4 10 1008;
   ERecent (Some 1) a 2; ELatest None a (Some "20240101"); ELatest (Some 0) ab (Some "20240101");
   xUpdate a "req-aaaa-1" 5 11 1009; EFind a "req-aaaa-1"; EFind ab "req-aaaa-1"; ERecent (Some 1) a 2;
   xClose 1010; xTouch a "20240101.10:00:00.100" "req-aaaa" true 5;
   EOp (ORename a wc); EFind wc "req-bbbb-2"; ERecent None wc 5; ERecent None a 5;
   xRemoveOld wc 100; ERecent (Some 0) wc 5; ELatest (Some 1) ab None].

Example premises_satisfiable :
  names_okb loc dh DE daysE KE = true /\ closedb DE KE = true /\ premisesb loc dh DE daysE KE esE = true.
Proof. repeat split; vm_compute; reflexivity. Qed.

(* ... and what the theorem then says about this trace (the answers are not trivial) *)
Definition p1 := (pl "req-aaaa-1" 1 10).
Definition p2 := (pl "req-aaaa-1" 2 12).
Definition p3 := (pl "req-bbbb-2" 3 5000).
Definition p4 := (pl "req-cccc-3" 4 10).
Definition p5 := (pl "req-aaaa-1" 5 11).
Example premises_instance :
  ytrace loc dh sys_init esE = sp_trace hist_init esE
  /\ sp_trace hist_init esE =
     [ANone; ANone; ALatest (LOk p1); ANone; ANone; ALatest (LOk p2); ANone; ANone; ANone; ANone; ANone;
      ARecent [p3; p2]; ALatest (LOk p3); ALatest LNoData;
      ANone; AFind (Some p5); AFind None; ARecent [p3; p5];
      ANone; ANone; ANone; AFind (Some p3); ARecent [p3; p5]; ARecent [];
      ANone; ARecent [p3]; ALatest (LOk p4)].
Proof.
  split.
  - apply (refinement loc dh DE daysE KE); try apply premises_satisfiable.
    apply premisesb_sound. apply premises_satisfiable.
  - vm_compute. reflexivity.
Qed.
