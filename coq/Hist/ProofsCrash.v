(* Hist/ProofsCrash.v - C07 at level L1: what a fresh process finds after the recording process was killed at ANY
   point of ANY operation applied to ANY reachable (crash-free) state.  A crash state = the store after a prefix of
   the operation's primitive steps, possibly followed by a torn version of the next append (SModel.scrash_states).

   Tool: the query-level simulation relation `R2g false` (ProofsRefine.v) also relates crash states - a torn tail or
   a changed mtime is invisible to the queries - so the answers of a crash state are the specification's answers
   on some run map H' (`answers_as s' H'`):
     open / write / close / update / chtimes : every crash state answers as the run map BEFORE or AFTER the operation (atomic).
                                       Close (eb925d1): the temporary copy is matched by no pattern (`view_answers`), and once the
                                       rename has published the compacted file the readers drop the original (`published_view`):
                                       the store already answers as after the unlink
     update after a kill             : the crash states of write / update are RELATED (R2g false) to the run map before or after;
                                       a later update by a new process keeps the relation, because writer.open terminates a torn
                                       last line first (32b069b; `sim_update_g`, `torn_then_update`)
     retention / rename              : every prefix answers as a run map between BEFORE and AFTER (P1)
   F7a / F7b / F7c are repaired; their former witnesses are positive Examples in ProofsC07Ex.v. *)
From Coq Require Import List String Ascii Bool Arith ZArith Lia Permutation Sorted.
Import ListNotations.
From BD.Hist Require Import Model SModel Spec ProofsLib ProofsStore ProofsRefine ProofsCache.
Open Scope string_scope.
Open Scope list_scope.

Definition dead (s : sfs) : sstate := {| sst := s; swr := None; scch := [] |}.
Definition hdead (H : hist) : hist := {| h_runs := h_runs H; h_cur := None; h_next := h_next H |}.

Section K.
Variable kname : skey -> string.
Variable kpath : skey -> string.

(* what a fresh process (empty cache) is answered on store s' is what the run map H says *)
Definition answers_as (s' : sfs) (H : hist) : Prop :=
  forall d, (forall req, fres_payload (sq_find kname kpath s' d req) = sp_find H d req)
         /\ (forall day, snd (sq_latest kname [] s' d day) = sp_latest H d day)
         /\ (forall n, snd (sq_recent kname [] s' d n) = sp_recent H d n).

Lemma cache_sound_nil s : cache_sound [] s.
Proof. intros k e f G. discriminate. Qed.

Lemma R2g_answers st s' H L : R2g st (dead s') (hdead H) L -> hist_okb H = true -> answers_as s' H.
Proof.
  intros R O d. assert (O' : hist_okb (hdead H) = true) by exact O.
  split; [|split].
  - intros req. apply (find_refines kname kpath st (dead s') (hdead H) L d req R O').
  - intros day. apply (latest_refines kname st (dead s') (hdead H) L [] d day R O' (cache_sound_nil s')).
  - intros n. apply (recent_refines kname st (dead s') (hdead H) L [] d n R O' (cache_sound_nil s')).
Qed.

Lemma frun_weaken e a : frun true e a -> frun false e a.
Proof. intros [F1 [F2 [F3 [F4 [_ [_ F7]]]]]]. repeat split; auto; discriminate. Qed.
Lemma R2g_weaken h H L : R2 h H L -> R2g false (dead (sst h)) (hdead H) L.
Proof.
  intros R. constructor; simpl; try apply R.
  - eapply Forall_impl; [|apply (r_frun _ _ _ _ R)]. intros x. apply frun_weaken.
  - exact I.
Qed.
Lemma R2g_dirs st s H L s' : R2g st (dead s) H L -> sfiles s' = sfiles s -> (forall d, shas_dir s d = true -> shas_dir s' d = true) ->
  R2g st (dead s') H L.
Proof.
  intros R E Dd. constructor; simpl; try apply R.
  - rewrite E. apply (r_fst _ _ _ _ R).
  - unfold keys. rewrite E. apply (r_keys _ _ _ _ R).
  - intros e Ie. rewrite E in Ie. apply Dd. apply (r_dirs _ _ _ _ R e Ie).
  - intros e Ie. rewrite E in Ie. apply (r_plain _ _ _ _ R e Ie).
Qed.

(* ---- crash states of a list of primitive steps: membership ---------------------------------------------------------- *)
Lemma scrash_from_ne s ps : scrash_from s ps <> [].
Proof. destruct ps; simpl; discriminate. Qed.
Lemma scrash_from_app a : forall s b, scrash_from s (a ++ b) =
  removelast (scrash_from s a) ++ scrash_from (run_sprims s a) b.
Proof.
  induction a as [|p a IH]; intros s b; simpl app; auto.
  cbn [scrash_from]. rewrite IH.
  change (s :: map (run_sprim s) (storn p) ++ scrash_from (run_sprim s p) a)
    with ((s :: map (run_sprim s) (storn p)) ++ scrash_from (run_sprim s p) a).
  rewrite removelast_app by apply scrash_from_ne.
  destruct (map (run_sprim s) (storn p) ++ scrash_from (run_sprim s p) a) eqn:E.
  { exfalso. apply app_eq_nil in E. destruct E as [_ E]. apply (scrash_from_ne _ _ E). }
  cbn [app]. rewrite <- app_assoc. reflexivity.
Qed.
Lemma scrash_last ps : forall s, In (run_sprims s ps) (scrash_from s ps).
Proof. induction ps as [|p ps IH]; intros s; simpl; auto. right. apply in_or_app. right. apply IH. Qed.
Lemma in_removelast {A} (l : list A) x : In x (removelast l) -> In x l.
Proof. induction l as [|a l IH]; simpl; auto. destruct l; simpl in *; [tauto|]. intros [H|H]; auto. Qed.
Lemma scrash_app_in s a b x : In x (scrash_from s (a ++ b)) -> In x (scrash_from s a) \/ In x (scrash_from (run_sprims s a) b).
Proof. rewrite scrash_from_app. intros H. apply in_app_or in H. destruct H; auto. left. apply in_removelast. auto. Qed.

(* ---- appends (Write, Update): every crash state holds, at key k, the old file or a file that parses to the old status
        or to the new one ------------------------------------------------------------------------------------------------ *)
Definition appended (p : payload) (g : file -> file) : Prop :=
  forall f, ftail f = TNone -> parse (g f) = parse f \/ (parse (g f) = Some p).

Lemma crash_appends k now p s x : In x (scrash_from s (map (fun c => SAppend k c now) (chunks_of p))) ->
  exists g, x = {| sdirs := sdirs s; sfiles := upd_key k g (sfiles s) |} /\ appended p g.
Proof.
  assert (ID : {| sdirs := sdirs s; sfiles := upd_key k (fun f => f) (sfiles s) |} = s).
  { destruct s as [ds fl]. simpl. f_equal. unfold upd_key. rewrite <- (map_id fl) at 2. apply map_ext. intros e.
    destruct (skey_eqb k (fst e)) eqn:E; auto. apply skey_eqb_eq in E. subst. destruct e; reflexivity. }
  assert (UP : forall c, run_sprim s (SAppend k c now) = {| sdirs := sdirs s; sfiles := upd_key k (fun f => append_chunk f c now) (sfiles s) |})
    by reflexivity.
  assert (PARSE1 : forall f, ftail f = TNone -> parse (append_chunk f (CPart 1) now) = parse f).
  { intros f T. unfold append_chunk, parse. simpl. rewrite T. reflexivity. }
  assert (PARSE2 : forall f, ftail f = TNone -> parse (append_chunk f (CJson p) now) = Some p).
  { intros f T. unfold append_chunk, parse. simpl. rewrite T. reflexivity. }
  assert (PARSE3 : forall f, ftail f = TNone -> parse (append_chunk f (CLine p) now) = Some p).
  { intros f T. unfold append_chunk. rewrite T. apply parse_rec_snoc. }
  assert (L1 : scrash_from s [SAppend k (CLine p) now] =
               [s; run_sprim s (SAppend k (CPart 1) now); run_sprim s (SAppend k (CJson p) now); run_sprim s (SAppend k (CLine p) now)])
    by reflexivity.
  assert (L2 : scrash_from s [SAppend k (CJson p) now; SAppend k CNl now] =
               [s; run_sprim s (SAppend k (CPart 1) now); run_sprim s (SAppend k (CJson p) now);
                run_sprim (run_sprim s (SAppend k (CJson p) now)) (SAppend k CNl now)])
    by reflexivity.
  unfold chunks_of. destruct (p_size p <? 4096)%Z; cbn [map]; [rewrite L1 | rewrite L2]; intros H.
  - destruct H as [H|[H|[H|[H|[]]]]]; subst x.
    + exists (fun f => f). split; [symmetry; exact ID|]. intros f T. auto.
    + exists (fun f => append_chunk f (CPart 1) now). split; [apply UP|]. intros f T. left. apply PARSE1; auto.
    + exists (fun f => append_chunk f (CJson p) now). split; [apply UP|]. intros f T. right. apply PARSE2; auto.
    + exists (fun f => append_chunk f (CLine p) now). split; [apply UP|]. intros f T. right. apply PARSE3; auto.
  - destruct H as [H|[H|[H|[H|[]]]]]; subst x.
    + exists (fun f => f). split; [symmetry; exact ID|]. intros f T. auto.
    + exists (fun f => append_chunk f (CPart 1) now). split; [apply UP|]. intros f T. left. apply PARSE1; auto.
    + exists (fun f => append_chunk f (CJson p) now). split; [apply UP|]. intros f T. right. apply PARSE2; auto.
    + exists (fun f => append_chunk (append_chunk f (CJson p) now) CNl now). split.
      * rewrite UP. cbn [run_sprim sdirs sfiles]. f_equal.
        fold (upd_key k (fun f => append_chunk f CNl now) (upd_key k (fun f => append_chunk f (CJson p) now) (sfiles s))).
        rewrite upd_key_comp. reflexivity.
      * intros f T. right. unfold append_chunk at 1. simpl. rewrite T. simpl. unfold parse. simpl. rewrite last_rec_app. reflexivity.
Qed.

(* a crash state of appends on the file of the pair (e0, a0) is related to (hence answers as) H or H with the status added to that run *)
Definition related (s' : sfs) (H : hist) : Prop := exists L, R2g false (dead s') (hdead H) L.
Lemma related_answers s' H : related s' H -> hist_okb H = true -> answers_as s' H.
Proof. intros [L R] O. apply (R2g_answers false s' H L); auto. Qed.
Lemma related_pre h H L : R2 h H L -> related (sst h) H.
Proof. intros R. exists L. apply R2g_weaken; auto. Qed.
Lemma appends_related h H L e0 a0 p now g :
  R2 h H L -> In (e0, a0) L -> p_req p = a_req a0 -> appended p g ->
  let H1 := {| h_runs := upd_run (a_id a0) (add_status p now) (h_runs H); h_cur := h_cur H; h_next := h_next H |} in
  let s' := {| sdirs := sdirs (sst h); sfiles := upd_key (fst e0) g (sfiles (sst h)) |} in
  related s' H \/ related s' H1.
Proof.
  intros R I0 Pr AP H1 s'.
  pose proof (R2g_weaken h H L R) as RW.
  pose proof (L_frun h H L R (e0, a0) I0) as FR. simpl in FR. destruct FR as [F1 [F2 [F3 [F4 [F5 [F6 F7]]]]]].
  destruct (AP (snd e0) (F5 eq_refl)) as [PA|PA].
  - left. exists (map (upd_pair (fst e0) g (fun a => a)) L).
    apply (R2_update false (dead (sst h)) (hdead H) L (fst e0) (a_id a0) g (fun a => a) (dead s') (hdead H) e0 a0); auto.
    + unfold frun. simpl. rewrite PA. repeat split; auto; discriminate.
    + intros a. split; reflexivity.
    + simpl. unfold upd_run. rewrite <- (map_id (h_runs H)) at 1. apply map_ext. intros a. destruct (Nat.eqb (a_id a) (a_id a0)); reflexivity.
  - right. exists (map (upd_pair (fst e0) g (add_status p now)) L).
    apply (R2_update false (dead (sst h)) (hdead H) L (fst e0) (a_id a0) g (add_status p now) (dead s') (hdead H1) e0 a0); auto.
    + unfold frun. simpl. rewrite PA, last_opt_snoc. repeat split; auto; try discriminate. apply Forall_app. split; auto.
    + apply pres_add.
Qed.
Lemma rel_answers s' H H1 : hist_okb H = true -> hist_okb H1 = true -> related s' H \/ related s' H1 -> answers_as s' H \/ answers_as s' H1.
Proof. intros O O1 [X|X]; [left|right]; apply related_answers; auto. Qed.


Lemma pre_answers h H L : R2 h H L -> hist_okb H = true -> answers_as (sst h) H.
Proof. intros R O. apply (R2g_answers false (sst h) H L); auto. apply R2g_weaken; auto. Qed.
Lemma post_answers h H L seen o : R2 h H L -> hist_okb H = true -> incl (keys (sst h)) seen -> op_okb h seen o = true ->
  hist_okb (sp_apply H o) = true -> answers_as (sst (sapply kname kpath h o)) (sp_apply H o).
Proof.
  intros R O IS P O'. destruct (step_sim kname kpath h H L seen o R O IS P) as [L' R'].
  apply (pre_answers _ _ L'); auto.
Qed.

(* ---- Write ------------------------------------------------------------------------------------------------------------- *)
Lemma crash_write_rel h H L tag size now s' :
  R2 h H L ->
  In s' (scrash_states kname kpath h (OWrite tag size now)) ->
  related s' H \/ related s' (sp_apply H (OWrite tag size now)).
Proof.
  intros R IN. unfold scrash_states in IN. simpl sprims in IN. simpl sp_apply in *.
  pose proof (r_wr _ _ _ _ R) as W. unfold wr_ok in W.
  destruct (swr h) as [w|] eqn:EW, (h_cur H) as [id|] eqn:EC; try contradiction.
  2:{ simpl in IN. destruct IN as [IN|[]]. subst s'. left. apply (related_pre h H L); auto. }
  destruct W as [W1 [W2 [e0 [a0 [I0 [E1 [E2 E3]]]]]]]. rewrite W1 in IN.
  assert (GR : get_run id (h_runs H) = Some a0).
  { apply get_run_unique; auto. apply (r_ids _ _ _ _ R). apply (L_in_run h H L R (e0, a0)); auto. }
  rewrite GR in *. rewrite <- E3 in *.
  set (p := {| p_req := sw_req w; p_tag := tag; p_size := size |}) in *.
  apply crash_appends in IN. destruct IN as [g [Es AP]]. subst s'. rewrite <- E1. rewrite <- E2.
  apply (appends_related h H L e0 a0 p now g); auto.
Qed.
Theorem crash_write h H L tag size now s' :
  R2 h H L -> hist_okb H = true -> hist_okb (sp_apply H (OWrite tag size now)) = true ->
  In s' (scrash_states kname kpath h (OWrite tag size now)) ->
  answers_as s' H \/ answers_as s' (sp_apply H (OWrite tag size now)).
Proof. intros R O O' IN. apply rel_answers; auto. apply (crash_write_rel h H L); auto. Qed.

(* ---- Update ------------------------------------------------------------------------------------------------------------ *)
Lemma crash_update_rel h H L d req tag size now s' :
  R2 h H L -> hist_okb H = true ->
  In s' (scrash_states kname kpath h (OUpdate d req tag size now)) ->
  related s' H \/ related s' (sp_apply H (OUpdate d req tag size now)).
Proof.
  intros R O IN. unfold scrash_states in IN. cbn [sprims] in IN. simpl sp_apply in *.
  pose proof (find_refines_pair kname kpath true h H L d req R O) as F.
  destruct (sq_find kname kpath (sst h) d req) as [|k p0] eqn:Q.
  { simpl in IN. destruct IN as [IN|[]]. subst s'. left. apply (related_pre h H L); auto. }
  destruct F as [Nr [e [a [I [E1 [E2 [E3 E4]]]]]]]. apply String.eqb_neq in Nr. rewrite Nr, E4 in *.
  set (p := {| p_req := req; p_tag := tag; p_size := size |}) in *.
  assert (Ie : In e (sfiles (sst h))) by (apply (L_in_file h H L R (e, a)); auto).
  assert (Dk : shas_dir (sst h) (k_dag k) = true). { rewrite <- E1. apply (r_dirs _ _ _ _ R); auto. }
  assert (Ik : In k (keys (sst h))). { rewrite <- E1. unfold keys. apply in_map. auto. }
  assert (SO : sopen (sst h) k now = [SMkdir (k_dag k); SCreate k now]).
  { apply (sopen_clean (sst h) k (snd e)). { rewrite <- E1. apply (L_sget h H L R e a I). } apply (L_frun h H L R (e, a) I). reflexivity. }
  rewrite SO in IN. fold p in IN.
  apply scrash_app_in in IN. destruct IN as [IN|IN].
  - left. assert (s' = sst h).
    { assert (CL : scrash_from (sst h) [SMkdir (k_dag k); SCreate k now]
                   = [sst h; run_sprim (sst h) (SMkdir (k_dag k)); run_sprim (run_sprim (sst h) (SMkdir (k_dag k))) (SCreate k now)])
        by reflexivity.
      rewrite CL, (mkdir_noop _ _ Dk), (create_noop _ k now Ik) in IN.
      destruct IN as [X|[X|[X|[]]]]; auto. }
    subst s'. apply (related_pre h H L); auto.
  - assert (RS : run_sprims (sst h) [SMkdir (k_dag k); SCreate k now] = sst h).
    { unfold run_sprims. cbn [fold_left]. rewrite (mkdir_noop _ _ Dk), (create_noop _ k now Ik). reflexivity. }
    rewrite RS in IN. apply crash_appends in IN. destruct IN as [g [Es AP]]. subst s'. rewrite <- E1.
    apply find_some in E4. destruct E4 as [Ia IR]. unfold is_run in IR.
    apply andb_prop in IR. destruct IR as [IR _]. apply andb_prop in IR. destruct IR as [_ IR]. apply String.eqb_eq in IR.
    apply (appends_related h H L e a p now g); auto.
Qed.
Theorem crash_update h H L d req tag size now s' :
  R2 h H L -> hist_okb H = true -> hist_okb (sp_apply H (OUpdate d req tag size now)) = true ->
  In s' (scrash_states kname kpath h (OUpdate d req tag size now)) ->
  answers_as s' H \/ answers_as s' (sp_apply H (OUpdate d req tag size now)).
Proof. intros R O O' IN. apply rel_answers; auto. apply (crash_update_rel h H L); auto. Qed.

(* ---- F7c repaired (32b069b): a status update recorded by a NEW process after the kill --------------------------------------------
   The crash states of Write / Update are RELATED to the run map before or after (torn tails and all); writer.open terminates a
   torn last line, so the update becomes the last complete line of the file and the relation is kept (sim_update_g): the
   acknowledged update is what every query answers afterwards. *)
Lemma forallb_map' {A B} (g : A -> B) (P : B -> bool) l : forallb P (map g l) = forallb (fun a => P (g a)) l.
Proof. induction l; simpl; auto. rewrite IHl. reflexivity. Qed.
Lemma forallb_ext' {A} (P Q : A -> bool) l : (forall a, P a = Q a) -> forallb P l = forallb Q l.
Proof. intros E. induction l; simpl; auto. rewrite E, IHl. reflexivity. Qed.
Lemma hist_okb_upd_run id f H H' : (forall x, a_id (f x) = a_id x /\ a_dag (f x) = a_dag x /\ a_req (f x) = a_req x /\ a_stamp (f x) = a_stamp x) ->
  h_runs H' = upd_run id f (h_runs H) -> hist_okb H' = hist_okb H.
Proof.
  intros Pf E. unfold hist_okb. rewrite E. unfold upd_run.
  set (g := fun a : arun => if Nat.eqb (a_id a) id then f a else a).
  assert (G : forall x, a_id (g x) = a_id x /\ a_dag (g x) = a_dag x /\ a_req (g x) = a_req x /\ a_stamp (g x) = a_stamp x).
  { intros x. unfold g. destruct (Nat.eqb (a_id x) id); auto. }
  rewrite forallb_map'. apply forallb_ext'. intros a. rewrite forallb_map'. apply forallb_ext'. intros b.
  destruct (G a) as [A1 [A2 [A3 A4]]], (G b) as [B1 [B2 [B3 B4]]]. unfold clash. rewrite A1, A2, A3, A4, B1, B2, B3, B4. reflexivity.
Qed.
Lemma hist_okb_update H d req tag size now : hist_okb (sp_apply H (OUpdate d req tag size now)) = hist_okb H.
Proof.
  simpl. destruct (String.eqb req ""); auto. destruct (find (is_run d req) (h_runs H)) as [a|]; auto.
  apply (hist_okb_upd_run (a_id a) (add_status {| p_req := req; p_tag := tag; p_size := size |} now)).
  - intros x. repeat split; reflexivity.
  - reflexivity.
Qed.
Lemma hdead_update H d req tag size now : sp_apply (hdead H) (OUpdate d req tag size now) = hdead (sp_apply H (OUpdate d req tag size now)).
Proof. simpl. destruct (String.eqb req ""); auto. destruct (find (is_run d req) (h_runs H)); reflexivity. Qed.
Lemma sapply_dead_update s d req tag size now :
  sapply kname kpath (dead s) (OUpdate d req tag size now) = dead (sst (sapply kname kpath (dead s) (OUpdate d req tag size now))).
Proof. unfold sapply. cbn [sst dead swr scch]. destruct (sq_find kname kpath s d req); reflexivity. Qed.
Lemma related_update s H d req tag size now : related s H -> hist_okb H = true ->
  related (sst (sapply kname kpath (dead s) (OUpdate d req tag size now))) (sp_apply H (OUpdate d req tag size now)).
Proof.
  intros [L R] O.
  destruct (sim_update_g kname kpath false (dead s) (hdead H) L d req tag size now R O) as [L' R'].
  exists L'. rewrite <- sapply_dead_update, <- hdead_update. exact R'.
Qed.
Theorem torn_then_update h H L o s' d req tag size now :
  R2 h H L -> hist_okb H = true -> hist_okb (sp_apply H o) = true ->
  match o with OWrite _ _ _ | OUpdate _ _ _ _ _ => True | _ => False end ->
  In s' (scrash_states kname kpath h o) ->
  let u := OUpdate d req tag size now in
  let s2 := sst (sapply kname kpath (dead s') u) in
  answers_as s2 (sp_apply H u) \/ answers_as s2 (sp_apply (sp_apply H o) u).
Proof.
  intros R O O' AO IN u s2.
  assert (RL : related s' H \/ related s' (sp_apply H o)).
  { destruct o; try contradiction.
    - apply (crash_write_rel h H L); auto.
    - apply (crash_update_rel h H L); auto. }
  apply rel_answers; try (unfold u; rewrite hist_okb_update; auto).
  destruct RL as [X|X]; [left|right]; apply related_update; auto.
Qed.

(* ---- Open / Touch: two or three states ------------------------------------------------------------------------------------ *)
Theorem crash_open h H L seen d stamp req now s' :
  R2 h H L -> hist_okb H = true -> incl (keys (sst h)) seen -> op_okb h seen (OOpen d stamp req now) = true ->
  hist_okb (sp_apply H (OOpen d stamp req now)) = true ->
  In s' (scrash_states kname kpath h (OOpen d stamp req now)) ->
  answers_as s' H \/ answers_as s' (sp_apply H (OOpen d stamp req now)).
Proof.
  intros R O IS P O' IN. unfold scrash_states in IN. cbn [sprims] in IN.
  assert (Nk : ~ In (mkkey d stamp (trunc8 req) false) (keys (sst h))).
  { simpl in P. apply andb_prop in P. destruct P as [P1 _]. apply negb_true_iff in P1. apply memk_false in P1. intro X. apply P1, IS, X. }
  set (k := mkkey d stamp (trunc8 req) false) in *.
  rewrite (sopen_fresh _ _ now Nk) in IN.
  assert (CL : scrash_from (sst h) [SMkdir (k_dag k); SCreate k now]
               = [sst h; run_sprim (sst h) (SMkdir d); run_sprim (run_sprim (sst h) (SMkdir d)) (SCreate k now)]) by reflexivity.
  rewrite CL in IN.
  destruct IN as [X|[X|[X|[]]]]; subst s'.
  - left. apply (pre_answers h H L); auto.
  - left. apply (R2g_answers false _ H L); auto.
    apply (R2g_dirs false (sst h)). { apply R2g_weaken; auto. } { apply mkdir_files. } intros d0 Hd. apply mkdir_dir_mono; auto.
  - right.
    assert (PS : sst (sapply kname kpath h (OOpen d stamp req now)) = run_sprim (run_sprim (sst h) (SMkdir d)) (SCreate k now)).
    { unfold sapply. cbn [sprims sst]. fold k. rewrite (sopen_fresh _ _ now Nk). reflexivity. }
    rewrite <- PS. apply (post_answers h H L seen (OOpen d stamp req now)); auto.
Qed.

Theorem crash_touch h H L seen d stamp r8 c t s' :
  R2 h H L -> hist_okb H = true -> incl (keys (sst h)) seen -> op_okb h seen (OTouch d stamp r8 c t) = true ->
  hist_okb (sp_apply H (OTouch d stamp r8 c t)) = true ->
  In s' (scrash_states kname kpath h (OTouch d stamp r8 c t)) ->
  answers_as s' H \/ answers_as s' (sp_apply H (OTouch d stamp r8 c t)).
Proof.
  intros R O IS P O' IN. unfold scrash_states in IN. simpl sprims in IN. simpl scrash_from in IN.
  destruct IN as [X|[X|[]]]; subst s'.
  - left. apply (pre_answers h H L); auto.
  - right. apply (post_answers h H L seen (OTouch d stamp r8 c t)); auto.
Qed.


(* ---- Close: the compaction window ------------------------------------------------------------------------------------------- *)
Lemma pick_first_all (l : list sent) p : l <> [] -> (forall e, In e l -> parse (snd e) = Some p) -> fres_payload (pick_first l) = Some p.
Proof. destruct l as [|e r]; [congruence|]. intros _ A. simpl. rewrite (A e (or_introl eq_refl)). reflexivity. Qed.

Definition dagf (d : string) (e : sent) : bool := String.eqb (k_dag (fst e)) d.

Lemma sglob_all_perm_raw s d : shas_dir s d = true -> (forall e, In e (sfiles s) -> k_tmp (fst e) = false) ->
  Permutation (sglob kname s d PAll) (filter (dagf d) (sfiles s)).
Proof.
  intros Dd Pl. unfold sglob. rewrite Dd.
  rewrite (filter_ext_in' _ (fun _ => true)). { rewrite filter_true. apply isort_perm. }
  intros e Ie. eapply Permutation_in in Ie; [|apply isort_perm]. apply filter_In in Ie. destruct Ie as [Ie _].
  unfold in_patk. rewrite (Pl e Ie). reflexivity.
Qed.

(* the candidates of a lookup in a crash-free state: at most one *)
Lemma cands_le1 h H L d req x y : R2 h H L -> hist_okb H = true ->
  In x (sfiles (sst h)) -> In y (sfiles (sst h)) -> dagf d x = true -> dagf d y = true -> reqP req x = true -> reqP req y = true -> x = y.
Proof.
  intros R O Ix Iy Dx Dy Px Py. unfold dagf in *. apply String.eqb_eq in Dx, Dy.
  destruct (file_in_L h H L R x Ix) as [ax Lx], (file_in_L h H L R y Iy) as [ay Ly].
  assert (RQ : forall e a, In (e, a) L -> reqP req e = true -> a_req a = req).
  { intros e a I Pe. unfold reqP in Pe. destruct (parse (snd e)) eqn:Ep; [|discriminate]. apply String.eqb_eq in Pe.
    pose proof (L_frun h H L R (e, a) I) as FR. simpl in FR. destruct (frun_req _ e a p FR Ep). congruence. }
  pose proof (L_frun h H L R (x, ax) Lx) as [Fx _]. pose proof (L_frun h H L R (y, ay) Ly) as [Fy _]. simpl in Fx, Fy.
  assert (ax = ay).
  { apply (hist_ok_prop H); auto. apply (r_ids _ _ _ _ R). apply (L_in_run h H L R (x, ax)); auto. apply (L_in_run h H L R (y, ay)); auto.
    congruence. left. rewrite (RQ x ax), (RQ y ay); auto. }
  subst ay. assert (E : (x, ax) = (y, ax)) by (apply (L_id_unique h H L R); auto). inversion E. auto.
Qed.

Lemma find_extra h H L kx fx e0 a0 pl d req :
  R2 h H L -> hist_okb H = true -> ~ In kx (keys (sst h)) -> k_tmp kx = false -> In (e0, a0) L -> k_dag kx = k_dag (fst e0) ->
  parse (snd e0) = Some pl -> (parse fx = None \/ parse fx = Some pl) ->
  let s' := {| sdirs := sdirs (sst h); sfiles := sfiles (sst h) ++ [(kx, fx)] |} in
  fres_payload (sq_find kname kpath s' d req) = fres_payload (sq_find kname kpath (sst h) d req).
Proof.
  intros R O Nk Tk I0 Dk P0 Px s'. unfold sq_find. rewrite !sfind_in_eq. destruct (String.eqb req ""); auto.
  set (srt := fun l : list sent => rev (isort (fun x y : sent => String.ltb (kpath (fst x)) (kpath (fst y))) l)).
  assert (SP : forall l, Permutation (srt l) l).
  { intros l. unfold srt. eapply Permutation_trans; [apply Permutation_sym, Permutation_rev|]. apply isort_perm. }
  fold (srt (sglob kname s' d PAll)). fold (srt (sglob kname (sst h) d PAll)).
  assert (Ie0 : In e0 (sfiles (sst h))) by (apply (L_in_file h H L R (e0, a0)); auto).
  assert (D0 : shas_dir (sst h) (k_dag (fst e0)) = true) by (apply (r_dirs _ _ _ _ R); auto).
  destruct (shas_dir (sst h) d) eqn:Dd.
  2:{ (* no directory of d: both lookups see nothing *)
    assert (G1 : sglob kname s' d PAll = []). { unfold sglob. change (shas_dir s' d) with (shas_dir (sst h) d). rewrite Dd. reflexivity. }
    assert (G2 : sglob kname (sst h) d PAll = []). { unfold sglob. rewrite Dd. reflexivity. }
    rewrite G1, G2. reflexivity. }
  assert (PM1 : Permutation (filter (reqP req) (srt (sglob kname (sst h) d PAll))) (filter (reqP req) (filter (dagf d) (sfiles (sst h))))).
  { apply Permutation_filter. eapply Permutation_trans; [apply SP|]. apply sglob_all_perm_raw; auto. apply (r_plain _ _ _ _ R). }
  assert (PM2 : Permutation (filter (reqP req) (srt (sglob kname s' d PAll)))
                            (filter (reqP req) (filter (dagf d) (sfiles (sst h))) ++ filter (reqP req) (filter (dagf d) [(kx, fx)]))).
  { rewrite <- filter_app, <- filter_app. apply Permutation_filter. eapply Permutation_trans; [apply SP|].
    apply (sglob_all_perm_raw s' d). { exact Dd. }
    intros e Ie. unfold s' in Ie. cbn [sfiles] in Ie. apply in_app_or in Ie. destruct Ie as [Ie|[Ie|[]]].
    - apply (r_plain _ _ _ _ R); auto.
    - subst e. exact Tk. }
  set (C := filter (reqP req) (filter (dagf d) (sfiles (sst h)))) in *.
  assert (CL : forall x y, In x C -> In y C -> x = y).
  { intros x y Ix Iy. unfold C in Ix, Iy. apply filter_In in Ix, Iy. destruct Ix as [Ix Px'], Iy as [Iy Py'].
    apply filter_In in Ix, Iy. destruct Ix as [Ix Dx], Iy as [Iy Dy]. eapply cands_le1; eauto. }
  assert (NDC : NoDup C). { unfold C. apply NoDup_filter, NoDup_filter, NoDup_sfiles, (r_keys _ _ _ _ R). }
  assert (C1 : (List.length C <= 1)%nat).
  { destruct C as [|x [|y r]] eqn:EC; simpl; try lia. exfalso.
    assert (x = y) by (apply CL; simpl; auto). subst y. inversion NDC; subst. simpl in *. tauto. }
  assert (E1 : filter (reqP req) (srt (sglob kname (sst h) d PAll)) = C).
  { destruct C as [|x [|y r]] eqn:EC; simpl in C1; try lia.
    - apply Permutation_nil. apply Permutation_sym. exact PM1.
    - apply Permutation_length_1_inv. apply Permutation_sym. exact PM1. }
  rewrite E1.
  destruct (filter (reqP req) (filter (dagf d) [(kx, fx)])) as [|z r] eqn:EX.
  - rewrite app_nil_r in PM2.
    assert (E2 : filter (reqP req) (srt (sglob kname s' d PAll)) = C).
    { destruct C as [|x [|y r]] eqn:EC; simpl in C1; try lia.
      - apply Permutation_nil. apply Permutation_sym. exact PM2.
      - apply Permutation_length_1_inv. apply Permutation_sym. exact PM2. }
    rewrite E2. reflexivity.
  - (* the extra file is a candidate: it parses to pl, asked for pl's request id in the DAG of e0 - so e0 is THE candidate *)
    assert (Z : z = (kx, fx) /\ r = [] /\ dagf d (kx, fx) = true /\ reqP req (kx, fx) = true).
    { simpl in EX. destruct (dagf d (kx, fx)) eqn:E3; simpl in EX; [|discriminate].
      destruct (reqP req (kx, fx)) eqn:E4; simpl in EX; [|discriminate]. inversion EX. auto. }
    destruct Z as [Z1 [Z2 [Z3 Z4]]]. subst z r.
    unfold reqP in Z4. simpl in Z4. destruct Px as [Px|Px]; rewrite Px in Z4; [discriminate|].
    assert (IC : In e0 C).
    { unfold C. apply filter_In. split.
      - apply filter_In. split; auto. unfold dagf in *. simpl in Z3. rewrite <- Dk. exact Z3.
      - unfold reqP. rewrite P0. exact Z4. }
    assert (EC : C = [e0]).
    { destruct C as [|x [|y r]] eqn:EC'; simpl in C1; try lia; [destruct IC|]. destruct IC as [IC|[]]. subst. reflexivity. }
    rewrite EC in *. simpl. rewrite P0. simpl.
    apply pick_first_all.
    + intro X. rewrite X in PM2. apply Permutation_nil in PM2. discriminate.
    + intros e Ie. eapply Permutation_in in Ie; [|exact PM2]. destruct Ie as [Ie|[Ie|[]]]; subst e; simpl; auto.
Qed.

(* ---- what the queries see of a store: its directories and its plain files (no pattern matches a temporary copy) ---------------- *)
Definition plainb (e : sent) : bool := negb (k_tmp (fst e)).
Definition same_view (s s' : sfs) : Prop :=
  (forall d, shas_dir s' d = shas_dir s d) /\ filter plainb (sfiles s') = filter plainb (sfiles s).

Lemma sglob_plain_eq s d pk :
  sglob kname s d pk = if shas_dir s d
                       then filter (fun e : sent => in_patk pk (fst e))
                                   (isort (klt (fun e : sent => kname (fst e))) (filter (dagf d) (filter plainb (sfiles s))))
                       else [].
Proof.
  unfold sglob. destruct (shas_dir s d); auto.
  set (PK := fun e : sent => in_patk pk (fst e)).
  set (KL := klt (fun e : sent => kname (fst e))).
  change (filter PK (isort KL (filter (dagf d) (sfiles s))) = filter PK (isort KL (filter (dagf d) (filter plainb (sfiles s))))).
  assert (E1 : forall l, filter PK l = filter PK (filter plainb l)).
  { intros l. rewrite filter_filter. apply filter_ext. intros e. unfold PK, plainb, in_patk. destruct (negb (k_tmp (fst e))); reflexivity. }
  rewrite (E1 (isort KL (filter (dagf d) (sfiles s)))). f_equal. unfold KL. rewrite isort_filter. f_equal.
  rewrite !filter_filter. apply filter_ext. intros e. apply andb_comm.
Qed.
Lemma sglob_view s s' d pk : same_view s s' -> sglob kname s' d pk = sglob kname s d pk.
Proof. intros [V1 V2]. rewrite !sglob_plain_eq, V1, V2. reflexivity. Qed.
Lemma sglob_iff s d pk e : In e (sglob kname s d pk) <->
  shas_dir s d = true /\ In e (sfiles s) /\ k_dag (fst e) = d /\ in_patk pk (fst e) = true.
Proof.
  unfold sglob. destruct (shas_dir s d).
  - rewrite filter_In. split.
    + intros [I P]. eapply Permutation_in in I; [|apply isort_perm]. apply filter_In in I. destruct I as [I E]. apply String.eqb_eq in E. auto.
    + intros [_ [I [E P]]]. split; auto. eapply Permutation_in; [apply Permutation_sym, isort_perm|]. apply filter_In. split; auto.
      apply String.eqb_eq; auto.
  - split; [intros []|intros [X _]; discriminate].
Qed.
Lemma sglob_plain_keys s d pk e : In e (sglob kname s d pk) -> k_tmp (fst e) = false.
Proof. intros I. apply sglob_iff in I. destruct I as [_ [_ [_ P]]]. unfold in_patk in P. apply andb_prop in P. destruct P as [P _]. apply negb_true_iff in P. exact P. Qed.

Lemma sget_plain s k : k_tmp k = false -> sget s k = lget (filter plainb (sfiles s)) k.
Proof.
  intros T. unfold sget, lget. rewrite filter_filter.
  rewrite (filter_ext (fun x : sent => plainb x && skey_eqb k (fst x)) (fun x : sent => skey_eqb k (fst x))); auto.
  intros x. destruct (skey_eqb k (fst x)) eqn:E; [|apply andb_false_r]. apply skey_eqb_eq in E. unfold plainb. rewrite <- E, T. reflexivity.
Qed.
Lemma sload_latest_view c s s' k : same_view s s' -> k_tmp k = false -> sload_latest c s' k = sload_latest c s k.
Proof. intros [_ V] T. unfold sload_latest. rewrite !(sget_plain _ k T), V. reflexivity. Qed.
Lemma sload_first_view s s' l : same_view s s' -> (forall e, In e l -> k_tmp (fst e) = false) -> forall c, sload_first c s' l = sload_first c s l.
Proof.
  intros V. induction l as [|e l IH]; intros P c; simpl; auto.
  rewrite (sload_latest_view c s s' (fst e) V) by (apply P; simpl; auto).
  destruct (sload_latest c s (fst e)) as [c' [p|]]; auto. apply IH. intros; apply P; simpl; auto.
Qed.
Lemma sload_upto_view s s' l : same_view s s' -> (forall e, In e l -> k_tmp (fst e) = false) -> forall n c, sload_upto c s' l n = sload_upto c s l n.
Proof.
  intros V. induction l as [|e l IH]; intros P n c; simpl; auto. destruct n as [|n']; auto.
  rewrite (sload_latest_view c s s' (fst e) V) by (apply P; simpl; auto).
  destruct (sload_latest c s (fst e)) as [c' [p|]].
  - rewrite IH by (intros; apply P; simpl; auto). reflexivity.
  - apply IH. intros; apply P; simpl; auto.
Qed.
Lemma sfilter_latest_sub l n e : In e (sfilter_latest l n) -> In e l.
Proof.
  rewrite sfilter_latest_eq. intros I. apply firstn_incl in I. eapply Permutation_in in I; [|apply sort_desc_perm].
  unfold sdrop_compacted in I. apply filter_In in I. apply I.
Qed.
(* a store with the same directories and the same plain files answers the same *)
Lemma view_answers s s' H : same_view s s' -> answers_as s H -> answers_as s' H.
Proof.
  intros V A d. destruct (A d) as [A1 [A2 A3]]. split; [|split].
  - intros req. rewrite <- A1. unfold sq_find. rewrite (sglob_view s s' d PAll V). reflexivity.
  - intros day. rewrite <- A2. unfold sq_latest, slatest_of. rewrite (sglob_view s s' d (PLatest day) V).
    destruct (sglob kname s d (PLatest day)) as [|e0 l0] eqn:G; auto.
    rewrite (sload_first_view s s'); auto. intros e Ie. apply sfilter_latest_sub in Ie. rewrite <- G in Ie. eapply sglob_plain_keys; eauto.
  - intros n. rewrite <- A3. unfold sq_recent, srecent_of. rewrite (sglob_view s s' d PAll V).
    destruct (sglob kname s d PAll) as [|e0 l0] eqn:G; auto.
    rewrite (sload_upto_view s s'); auto. intros e Ie. apply sfilter_latest_sub in Ie. rewrite <- G in Ie. eapply sglob_plain_keys; eauto.
Qed.
Lemma same_view_tmp s kx fx : k_tmp kx = true -> same_view s {| sdirs := sdirs s; sfiles := sfiles s ++ [(kx, fx)] |}.
Proof. intros T. split; [reflexivity|]. cbn [sfiles]. rewrite filter_app. simpl. unfold plainb at 2. simpl. rewrite T. simpl. apply app_nil_r. Qed.

(* ---- the published copy next to the original: dropCompacted makes the store answer as after the unlink ----------------------- *)
Definition nk (k : skey) (e : sent) : bool := negb (skey_eqb k (fst e)).
Lemma existsb_filter_irr {A} (f P : A -> bool) l : (forall m, In m l -> P m = false -> f m = false) -> existsb f (filter P l) = existsb f l.
Proof.
  induction l as [|m l IH]; simpl; intros Hm; auto. destruct (P m) eqn:E; simpl.
  - rewrite IH; auto.
  - rewrite (Hm m (or_introl eq_refl) E). simpl. apply IH. auto.
Qed.
Lemma sdrop_unlink l k : k_c k = false -> (In k (map fst l) -> In (twin k) (map fst l)) ->
  sdrop_compacted (filter (nk k) l) = sdrop_compacted l /\ ~ In k (map fst (sdrop_compacted l)).
Proof.
  intros C Tw.
  assert (S1 : forall e, sdropped (filter (nk k) l) e = sdropped l e).
  { intros e. unfold sdropped. f_equal. apply existsb_filter_irr. intros m _ Pm. unfold nk in Pm. apply negb_false_iff in Pm.
    apply skey_eqb_eq in Pm. rewrite <- Pm. apply skey_eqb_neq. intro X. rewrite <- X in C. simpl in C. discriminate. }
  assert (S2 : ~ In k (map fst (sdrop_compacted l))).
  { intro I. apply in_map_iff in I. destruct I as [e [E I]]. unfold sdrop_compacted in I. apply filter_In in I. destruct I as [I D].
    apply negb_true_iff in D. unfold sdropped in D. rewrite E, C in D. simpl in D.
    match type of D with ?a = false => assert (X : a = true) end.
    { assert (T : In (twin k) (map fst l)) by (apply Tw; rewrite <- E; apply in_map; auto).
      apply in_map_iff in T. destruct T as [m [Em Im]]. apply existsb_exists. exists m. split; auto. rewrite Em. apply skey_eqb_refl. }
    rewrite X in D. discriminate. }
  split; auto.
  unfold sdrop_compacted at 1. rewrite (filter_ext _ (fun e => negb (sdropped l e))) by (intros e; rewrite S1; reflexivity).
  rewrite filter_filter. rewrite (filter_ext (fun x : sent => nk k x && negb (sdropped l x)) (fun x : sent => negb (sdropped l x) && nk k x)) by (intros x; apply andb_comm).
  rewrite <- filter_filter. fold (sdrop_compacted l).
  transitivity (filter (fun _ : sent => true) (sdrop_compacted l)); [|apply filter_true].
  apply filter_ext_in. intros e Ie. unfold nk. apply negb_true_iff. apply skey_eqb_neq. intro X. apply S2. rewrite X. apply in_map. auto.
Qed.
Lemma slatest_of_eq c st l : slatest_of c st l = sload_first c st (sort_desc sts_of (sdrop_compacted l)).
Proof. unfold slatest_of. destruct l as [|e l]; [reflexivity|]. rewrite sfilter_latest_all. reflexivity. Qed.
Lemma srecent_of_eq c st l n : srecent_of c st l n = sload_upto c st (sort_desc sts_of (sdrop_compacted l)) n.
Proof. unfold srecent_of. destruct l as [|e l]; [reflexivity|]. rewrite sfilter_latest_all. reflexivity. Qed.
Lemma filter_comm {A} (p q : A -> bool) l : filter p (filter q l) = filter q (filter p l).
Proof. rewrite !filter_filter. apply filter_ext. intros x. apply andb_comm. Qed.
Lemma sglob_unlink s k d pk : sglob kname (run_sprim s (SUnlink k)) d pk = filter (nk k) (sglob kname s d pk).
Proof.
  unfold sglob. cbn [run_sprim sdirs sfiles]. unfold shas_dir. cbn [sdirs].
  destruct (existsb (String.eqb d) (sdirs s)); auto.
  set (PK := fun e : sent => in_patk pk (fst e)).
  set (KL := klt (fun e : sent => kname (fst e))).
  change (filter PK (isort KL (filter (dagf d) (filter (nk k) (sfiles s)))) = filter (nk k) (filter PK (isort KL (filter (dagf d) (sfiles s))))).
  rewrite (filter_comm (nk k) PK). f_equal. unfold KL. rewrite isort_filter. f_equal. apply filter_comm.
Qed.
Lemma sload_latest_unlink c s k k' : k' <> k -> sload_latest c (run_sprim s (SUnlink k)) k' = sload_latest c s k'.
Proof.
  intros N. unfold sload_latest. rewrite !sget_lget. cbn [run_sprim sfiles]. rewrite lget_filter_ne.
  apply skey_eqb_neq in N. rewrite N. reflexivity.
Qed.
Lemma sload_first_unlink s k l : ~ In k (map fst l) -> forall c, sload_first c (run_sprim s (SUnlink k)) l = sload_first c s l.
Proof.
  induction l as [|e l IH]; intros N c; [reflexivity|]. cbn [sload_first].
  rewrite sload_latest_unlink by (intro X; apply N; simpl; auto).
  destruct (sload_latest c s (fst e)) as [c' [p|]]; auto. apply IH. intro X. apply N. simpl. auto.
Qed.
Lemma sload_upto_unlink s k l : ~ In k (map fst l) -> forall n c, sload_upto c (run_sprim s (SUnlink k)) l n = sload_upto c s l n.
Proof.
  induction l as [|e l IH]; intros N n c; [reflexivity|]. cbn [sload_upto]. destruct n as [|n']; auto.
  rewrite sload_latest_unlink by (intro X; apply N; simpl; auto).
  destruct (sload_latest c s (fst e)) as [c' [p|]].
  - rewrite IH by (intro X; apply N; simpl; auto). reflexivity.
  - apply IH. intro X. apply N. simpl. auto.
Qed.
(* the store in which the plain file k and its compacted twin both exist answers latest / recent as the store without k *)
Lemma published_view s k : k_c k = false -> k_tmp k = false -> In (twin k) (keys s) ->
  forall c d, (forall day, sq_latest kname c s d day = sq_latest kname c (run_sprim s (SUnlink k)) d day)
           /\ (forall n, sq_recent kname c s d n = sq_recent kname c (run_sprim s (SUnlink k)) d n).
Proof.
  intros C T Tw c d.
  assert (G : forall pk, sdrop_compacted (sglob kname (run_sprim s (SUnlink k)) d pk) = sdrop_compacted (sglob kname s d pk)
                         /\ ~ In k (map fst (sort_desc sts_of (sdrop_compacted (sglob kname s d pk))))).
  { intros pk. rewrite sglob_unlink.
    destruct (sdrop_unlink (sglob kname s d pk) k C) as [S1 S2].
    - intros I. apply in_map_iff in I. destruct I as [e [E I]]. apply sglob_iff in I. destruct I as [Dd [If [Ed Pk]]].
      unfold keys in Tw. apply in_map_iff in Tw. destruct Tw as [m [Em Im]].
      apply in_map_iff. exists m. split; auto. apply sglob_iff. repeat split; auto.
      + rewrite Em. simpl. rewrite <- E. exact Ed.
      + rewrite Em. rewrite <- E in *. unfold in_patk in *.
        change (k_tmp (twin (fst e))) with false. change (k_stamp (twin (fst e))) with (k_stamp (fst e)). rewrite T in Pk. exact Pk.
    - split; auto. intro I. apply S2. apply in_map_iff in I. destruct I as [e [E I]]. eapply Permutation_in in I; [|apply sort_desc_perm].
      apply in_map_iff. exists e. auto. }
  split.
  - intros day. unfold sq_latest. rewrite !slatest_of_eq. destruct (G (PLatest day)) as [G1 G2]. rewrite G1.
    symmetry. apply sload_first_unlink; auto.
  - intros n. unfold sq_recent. rewrite !srecent_of_eq. destruct (G PAll) as [G1 G2]. rewrite G1.
    symmetry. apply sload_upto_unlink; auto.
Qed.

(* ---- FindByRequestID next to a shadowed file: the lookup scans the matches in REVERSE path order, so a file k whose every hit is also
   a hit of a file with a larger path (the compacted copy next to its original) is never the file found ---------------------------------- *)
Lemma isort_sorted {A} (key : A -> string) l : StronglySorted (asc key) (isort (klt key) l).
Proof.
  unfold isort.
  assert (G : forall l acc, StronglySorted (asc key) acc -> StronglySorted (asc key) (fold_left (fun acc x => ins_by (klt key) x acc) l acc)).
  { induction l0 as [|x l0 IH]; simpl; auto. intros acc S. apply IH, ins_by_sorted; auto. }
  apply G. constructor.
Qed.
Lemma sorted_earlier {A} (key : A -> string) l1 x l2 y : StronglySorted (asc key) (l1 ++ x :: l2) -> In y l1 -> String.ltb (key x) (key y) = false.
Proof.
  induction l1 as [|a l1 IH]; simpl; intros S I; [tauto|]. inversion S as [|? ? S' F]; subst. destruct I as [I|I]; auto.
  subst a. rewrite Forall_forall in F. apply F. apply in_or_app. right. simpl. auto.
Qed.
Lemma hd_filter_skip {A} (P N : A -> bool) R :
  (forall l1 ex l2, R = l1 ++ ex :: l2 -> P ex = true -> N ex = false -> exists e, In e l1 /\ P e = true) ->
  hd_error (filter P R) = hd_error (filter N (filter P R)).
Proof.
  induction R as [|a R IH]; simpl; auto. intros Hx. destruct (P a) eqn:Pa.
  - simpl. destruct (N a) eqn:Na; [reflexivity|]. exfalso. destruct (Hx [] a R eq_refl Pa Na) as [e [[] _]].
  - apply IH. intros l1 ex l2 E Pe Ne. destruct (Hx (a :: l1) ex l2) as [e [Ie Pe']]; auto. { rewrite E. reflexivity. }
    destruct Ie as [Ie|Ie]; [subst e; congruence|]. eauto.
Qed.
Lemma filter_rev' {A} (P : A -> bool) l : filter P (rev l) = rev (filter P l).
Proof. induction l as [|a l IH]; simpl; auto. rewrite filter_app, IH. simpl. destruct (P a); simpl; auto. rewrite app_nil_r. reflexivity. Qed.
Lemma pick_first_hd l : pick_first l = match hd_error l with None => SFNone | Some e => match parse (snd e) with Some pl => SFFound (fst e) pl | None => SFNone end end.
Proof. destruct l; reflexivity. Qed.

Definition shadowed (S : sfs) (k : skey) : Prop :=
  exists ey, In ey (sfiles S) /\ k_dag (fst ey) = k_dag k /\ k_tmp (fst ey) = false /\ String.ltb (kpath k) (kpath (fst ey)) = true
    /\ (forall ex, In ex (sfiles S) -> fst ex = k -> forall rq, reqP rq ex = true -> reqP rq ey = true).
Lemma find_unlink_shadow S k d req : shadowed S k ->
  sq_find kname kpath S d req = sq_find kname kpath (run_sprim S (SUnlink k)) d req.
Proof.
  intros [ey [Iy [Dy [Ty [Ly Py]]]]]. unfold sq_find. rewrite sglob_unlink, !sfind_in_eq. destruct (String.eqb req ""); auto.
  set (l := sglob kname S d PAll). set (KP := fun e : sent => kpath (fst e)).
  change (fun x y : sent => String.ltb (kpath (fst x)) (kpath (fst y))) with (klt KP).
  rewrite <- (isort_filter KP (nk k) l), <- filter_rev', (filter_comm (reqP req) (nk k)).
  rewrite !pick_first_hd. rewrite <- (hd_filter_skip (reqP req) (nk k) (rev (isort (klt KP) l))); auto.
  intros l1 ex l2 E Pe Ne. unfold nk in Ne. apply negb_false_iff in Ne. apply skey_eqb_eq in Ne.
  assert (Il : In ex l).
  { eapply Permutation_in; [apply isort_perm|]. apply in_rev. rewrite E. apply in_or_app. right. simpl. auto. }
  unfold l in Il. apply sglob_iff in Il. destruct Il as [Dd [If [Ed Pk]]].
  assert (Iyl : In ey l).
  { unfold l. apply sglob_iff. repeat split; auto. { rewrite Dy, Ne. exact Ed. } unfold in_patk. rewrite Ty. reflexivity. }
  assert (Pey : reqP req ey = true) by (apply (Py ex If (eq_sym Ne)); auto).
  exists ey. split; auto.
  assert (Iyr : In ey (rev (isort (klt KP) l))). { rewrite <- in_rev. eapply Permutation_in; [apply Permutation_sym, isort_perm|]. auto. }
  rewrite E in Iyr. apply in_app_or in Iyr. destruct Iyr as [Iyr|[Iyr|Iyr]]; auto.
  - exfalso. subst ey. rewrite <- Ne in Ly. rewrite sltb_irrefl in Ly. discriminate.
  - exfalso. assert (SS : StronglySorted (asc KP) (rev l2 ++ ex :: rev l1)).
    { pose proof (isort_sorted KP l) as SS. rewrite <- (rev_involutive (isort (klt KP) l)), E in SS. rewrite rev_app_distr in SS. simpl in SS.
      rewrite <- app_assoc in SS. exact SS. }
    pose proof (sorted_earlier KP (rev l2) ex (rev l1) ey SS (proj1 (in_rev _ _) Iyr)) as X. unfold KP in X. rewrite Ne in Ly. congruence.
Qed.
(* a store in which the plain file k is shadowed by its compacted twin answers every query as the store without k *)
Lemma published_answers S k X : k_c k = false -> k_tmp k = false -> In (twin k) (keys S) -> shadowed S k ->
  answers_as (run_sprim S (SUnlink k)) X -> answers_as S X.
Proof.
  intros C T Tw Sh A d. destruct (A d) as [A1 [A2 A3]]. destruct (published_view S k C T Tw [] d) as [V1 V2].
  split; [|split].
  - intros req. rewrite (find_unlink_shadow S k d req Sh). apply A1.
  - intros day. rewrite V1. apply A2.
  - intros n. rewrite V2. apply A3.
Qed.

(* ---- the steps of an update commute with the removal of a file they do not touch --------------------------------------------------------- *)
Definition avoidp (k : skey) (p : sprim) : Prop :=
  match p with SMkdir _ => True | SCreate k' _ | SAppend k' _ _ => k' <> k | _ => False end.
Lemma shas_unlink S k k' : k' <> k -> shas (run_sprim S (SUnlink k)) k' = shas S k'.
Proof. intros N. unfold shas. rewrite !sget_lget. cbn [run_sprim sfiles]. rewrite lget_filter_ne. apply skey_eqb_neq in N. rewrite N. reflexivity. Qed.
Lemma run_unlink_comm1 S k p : avoidp k p -> run_sprim (run_sprim S (SUnlink k)) p = run_sprim (run_sprim S p) (SUnlink k).
Proof.
  destruct p; simpl avoidp; intros Av; try contradiction.
  - cbn [run_sprim]. unfold shas_dir. cbn [sdirs]. destruct (existsb (String.eqb d) (sdirs S)); reflexivity.
  - pose proof (shas_unlink S k k0 Av) as HS. cbn [run_sprim] in *. rewrite HS. destruct (shas S k0); [reflexivity|].
    cbn [sdirs sfiles]. f_equal. rewrite filter_app. simpl. apply skey_eqb_neq in Av. rewrite (skey_eqb_sym k k0), Av. reflexivity.
  - cbn [run_sprim sdirs sfiles]. f_equal. rewrite filter_map_comm. f_equal. apply filter_ext. intros e.
    destruct (skey_eqb k0 (fst e)) eqn:E; auto. apply skey_eqb_eq in E. simpl. rewrite E. reflexivity.
Qed.
Lemma run_unlink_comm ps : forall S k, Forall (avoidp k) ps -> run_sprims (run_sprim S (SUnlink k)) ps = run_sprim (run_sprims S ps) (SUnlink k).
Proof.
  induction ps as [|p ps IH]; intros S k F; [reflexivity|]. inversion F; subst. cbn [run_sprims fold_left].
  rewrite run_unlink_comm1 by auto. apply (IH (run_sprim S p) k); auto.
Qed.
Lemma same_view_unlink_tmp S kt : k_tmp kt = true -> same_view (run_sprim S (SUnlink kt)) S.
Proof.
  intros T. split; [reflexivity|]. cbn [run_sprim sfiles]. rewrite filter_comm. symmetry.
  transitivity (filter (fun _ : sent => true) (filter plainb (sfiles S))); [|apply filter_true]. apply filter_ext_in. intros e Ie.
  apply filter_In in Ie. destruct Ie as [_ Pe]. apply negb_true_iff. apply skey_eqb_neq. intro X. unfold plainb in Pe. rewrite <- X, T in Pe. discriminate.
Qed.
Lemma sfind_in_found l req kf p : sfind_in kpath l req = SFFound kf p -> exists e, In e l /\ fst e = kf /\ reqP req e = true /\ parse (snd e) = Some p.
Proof.
  rewrite sfind_in_eq. destruct (String.eqb req ""); [discriminate|].
  destruct (filter (reqP req) _) as [|e r] eqn:F; [discriminate|]. simpl. destruct (parse (snd e)) eqn:Pe; [|discriminate]. intros X. inversion X; subst.
  assert (I : In e (e :: r)) by (simpl; auto). rewrite <- F in I. apply filter_In in I. destruct I as [I Pq].
  apply in_rev in I. eapply Permutation_in in I; [|apply isort_perm]. exists e. auto.
Qed.
(* an update by a new process on a store S, seen from the store without a file k that the lookup cannot find (shadowed or temporary):
   the same file is found and updated, and removing k afterwards gives the updated store without k *)
Lemma update_unlink_comm S k d req tag size now :
  (forall d0 rq, sq_find kname kpath S d0 rq = sq_find kname kpath (run_sprim S (SUnlink k)) d0 rq) -> ~ In k (keys (run_sprim S (SUnlink k))) ->
  sst (sapply kname kpath (dead (run_sprim S (SUnlink k))) (OUpdate d req tag size now))
  = run_sprim (sst (sapply kname kpath (dead S) (OUpdate d req tag size now))) (SUnlink k).
Proof.
  intros FQ Nk. unfold sapply. cbn [sprims sst dead]. rewrite <- (FQ d req).
  destruct (sq_find kname kpath S d req) as [|kf p] eqn:Q; [reflexivity|]. cbn [sst].
  assert (Nkf : kf <> k).
  { intro X. subst kf. rewrite (FQ d req) in Q. unfold sq_find in Q. apply sfind_key in Q. apply in_map_iff in Q. destruct Q as [e [E I]].
    apply sglob_iff in I. destruct I as [_ [I _]]. apply Nk. unfold keys. apply in_map_iff. exists e. auto. }
  assert (SO : sopen (run_sprim S (SUnlink k)) kf now = sopen S kf now).
  { unfold sopen. rewrite !sget_lget. cbn [run_sprim sfiles]. rewrite lget_filter_ne. apply skey_eqb_neq in Nkf. rewrite Nkf. reflexivity. }
  rewrite SO. apply run_unlink_comm. apply Forall_app. split.
  - unfold sopen. apply Forall_app. split. { repeat constructor; simpl; auto. }
    destruct (sget S kf) as [f|]; [destruct (ftail f)|]; repeat constructor; simpl; auto.
  - apply Forall_forall. intros x Hx. apply in_map_iff in Hx. destruct Hx as [c [E _]]. subst x. simpl. auto.
Qed.

Lemma close_find_same H now d req : sp_find (sp_apply H (OClose now)) d req = sp_find H d req.
Proof.
  unfold sp_find. destruct (String.eqb req ""); auto. simpl. destruct (h_cur H) as [id|]; auto. simpl.
  unfold upd_run.
  set (g := fun a : arun => if Nat.eqb (a_id a) id then match a_sts a with [] => a | _ :: _ => set_mtime now a end else a).
  assert (G1 : forall a, is_run d req (g a) = is_run d req a).
  { intros a. unfold g. destruct (Nat.eqb (a_id a) id); auto. destruct (a_sts a) eqn:E; auto; try (unfold is_run; simpl; rewrite E; reflexivity). }
  assert (G2 : forall a, last_opt (a_sts (g a)) = last_opt (a_sts a)).
  { intros a. unfold g. destruct (Nat.eqb (a_id a) id); auto. destruct (a_sts a) eqn:E; auto; try (simpl; rewrite E; reflexivity). }
  assert (F : forall l, find (is_run d req) (map g l) = option_map g (find (is_run d req) l)).
  { induction l as [|a l IH]; simpl; auto. rewrite G1. destruct (is_run d req a); auto. }
  fold g. rewrite F. destruct (find (is_run d req) (h_runs H)); simpl; auto.
Qed.

(* Close is atomic under a kill (since eb925d1): the copy is invisible until the rename publishes it; from then on the original is
   dropped by the readers, i.e. the store already answers as after the unlink *)
Theorem crash_close h H L seen now s' :
  R2 h H L -> hist_okb H = true -> incl (keys (sst h)) seen -> op_okb h seen (OClose now) = true ->
  hist_okb (sp_apply H (OClose now)) = true ->
  In s' (scrash_states kname kpath h (OClose now)) ->
  answers_as s' H \/ answers_as s' (sp_apply H (OClose now)).
Proof.
  intros R O IS P O' IN.
  assert (PRE : answers_as (sst h) H) by (apply (pre_answers h H L R O)).
  assert (POST : answers_as (sst (sapply kname kpath h (OClose now))) (sp_apply H (OClose now)))
    by (apply (post_answers h H L seen (OClose now)); auto).
  unfold scrash_states in IN. simpl sprims in IN.
  pose proof (r_wr _ _ _ _ R) as W. unfold wr_ok in W. simpl in P.
  destruct (swr h) as [w|] eqn:EW.
  2:{ simpl in IN. destruct IN as [IN|[]]. subst s'. left. exact PRE. }
  destruct (h_cur H) as [id|] eqn:EC; [|contradiction].
  destruct W as [W1 [W2 [e0 [a0 [I0 [E1 [E2 E3]]]]]]].
  pose proof (L_sget h H L R e0 a0 I0) as G0. rewrite E1 in G0. rewrite G0 in IN.
  destruct (parse (snd e0)) as [pl|] eqn:Pp.
  2:{ simpl in IN. destruct IN as [IN|[]]. subst s'. left. exact PRE. }
  set (k := sw_key w) in *. set (kc := twin k) in *. set (kt := tmpk kc) in *.
  apply andb_prop in P. destruct P as [P _]. apply negb_true_iff in P. apply memk_false in P.
  assert (Nkc : ~ In kc (keys (sst h))) by (intro X; apply P, IS, X).
  assert (Nkt : ~ In kt (keys (sst h))) by (apply tmpk_absent, (r_plain _ _ _ _ R)).
  assert (Tk : k_tmp k = false). { rewrite <- E1. apply (r_plain _ _ _ _ R). apply (L_in_file h H L R (e0, a0)); auto. }
  assert (Dk : shas_dir (sst h) (k_dag kc) = true).
  { change (k_dag kc) with (k_dag k). rewrite <- E1. apply (r_dirs _ _ _ _ R). apply (L_in_file h H L R (e0, a0)); auto. }
  (* every state before the rename: the store plus (at most) the temporary copy *)
  assert (TMP : forall fx, answers_as {| sdirs := sdirs (sst h); sfiles := sfiles (sst h) ++ [(kt, fx)] |} H).
  { intros fx. apply (view_answers (sst h)); auto. apply same_view_tmp. reflexivity. }
  change (SUnlink kt :: SMkdir (k_dag k) :: SCreate kt now :: map (fun c : chunk => SAppend kt c now) (chunks_of pl) ++ [SRename kt kc; SUnlink k])
    with ([SUnlink kt; SMkdir (k_dag kc); SCreate kt now] ++ (map (fun c : chunk => SAppend kt c now) (chunks_of pl) ++ [SRename kt kc; SUnlink k])) in IN.
  apply scrash_app_in in IN. destruct IN as [IN|IN].
  - assert (CL : scrash_from (sst h) [SUnlink kt; SMkdir (k_dag kc); SCreate kt now]
                 = [sst h; run_sprim (sst h) (SUnlink kt); run_sprim (run_sprim (sst h) (SUnlink kt)) (SMkdir (k_dag kc));
                    run_sprim (run_sprim (run_sprim (sst h) (SUnlink kt)) (SMkdir (k_dag kc))) (SCreate kt now)])
      by reflexivity.
    rewrite CL, (unlink_absent _ _ Nkt), (mkdir_noop _ _ Dk), (create_fresh _ kt now Nkt) in IN.
    destruct IN as [X|[X|[X|[X|[]]]]]; subst s'; left; auto.
  - assert (RS : run_sprims (sst h) [SUnlink kt; SMkdir (k_dag kc); SCreate kt now]
                 = {| sdirs := sdirs (sst h); sfiles := sfiles (sst h) ++ [(kt, empty_file now)] |}).
    { unfold run_sprims. cbn [fold_left]. rewrite (unlink_absent _ _ Nkt), (mkdir_noop _ _ Dk), (create_fresh _ kt now Nkt). reflexivity. }
    rewrite RS in IN. set (sc := {| sdirs := sdirs (sst h); sfiles := sfiles (sst h) ++ [(kt, empty_file now)] |}) in *.
    assert (UK : forall g, upd_key kt g (sfiles sc) = sfiles (sst h) ++ [(kt, g (empty_file now))]).
    { intros g. unfold sc. cbn [sfiles]. rewrite upd_key_app, (upd_key_absent kt g (sfiles (sst h))) by exact Nkt. rewrite upd_key_single. reflexivity. }
    apply scrash_app_in in IN. destruct IN as [IN|IN].
    + apply crash_appends in IN. destruct IN as [g [Es AP]]. subst s'. rewrite UK. cbn [sdirs sc]. left. apply TMP.
    + rewrite run_appends in IN. rewrite UK in IN. rewrite appends_status in IN by reflexivity. cbn [sdirs sc items empty_file app] in IN.
      set (fc := {| items := [Rec pl]; ftail := TNone; mtime := now |}) in *.
      set (stmp := {| sdirs := sdirs (sst h); sfiles := sfiles (sst h) ++ [(kt, fc)] |}) in *.
      set (sfull := {| sdirs := sdirs (sst h); sfiles := sfiles (sst h) ++ [(kc, fc)] |}).
      assert (RN : run_sprim stmp (SRename kt kc) = sfull).
      { unfold stmp, sfull. apply rename_last; auto. apply tmpk_neq. reflexivity. }
      assert (CL : scrash_from stmp [SRename kt kc; SUnlink k] = [stmp; run_sprim stmp (SRename kt kc); run_sprim (run_sprim stmp (SRename kt kc)) (SUnlink k)])
        by reflexivity.
      rewrite CL, RN in IN.
      assert (PS : sst (sapply kname kpath h (OClose now)) = run_sprim sfull (SUnlink k)).
      { unfold sapply. cbn [sprims sst]. rewrite EW. cbn [sst]. fold k. rewrite G0, Pp. fold kc. fold kt.
        match goal with |- context [run_sprims (sst h) ?ps] =>
          change (run_sprims (sst h) ps) with
            (run_sprims (sst h) ([SUnlink (tmpk (twin k)); SMkdir (k_dag (twin k)); SCreate (tmpk (twin k)) now]
                ++ map (fun c => SAppend (tmpk (twin k)) c now) (chunks_of pl) ++ [SRename (tmpk (twin k)) (twin k); SUnlink k])) end.
        rewrite (close_run (sst h) k pl now Nkc Nkt Dk). reflexivity. }
      destruct IN as [X|[X|[X|[]]]]; subst s'.
      * left. apply TMP.
      * right. rewrite PS in POST. intros d. destruct (POST d) as [A1 [A2 A3]].
        assert (Ikc : In (twin k) (keys sfull)).
        { unfold keys, sfull. cbn [sfiles]. rewrite map_app. apply in_or_app. right. simpl. auto. }
        destruct (published_view sfull k W2 Tk Ikc [] d) as [V1 V2].
        split; [|split].
        -- intros req. rewrite (close_find_same H now d req). unfold sfull.
           rewrite (find_extra h H L kc fc e0 a0 pl d req); auto. { apply PRE. } rewrite E1. reflexivity.
        -- intros day. rewrite V1. apply A2.
        -- intros n. rewrite V2. apply A3.
      * right. rewrite <- PS. exact POST.
Qed.


(* ---- an update by a new process after a kill inside Close ---------------------------------------------------------------------------
   the crash states of Close, classified *)
Lemma close_states h H L seen now s' :
  R2 h H L -> incl (keys (sst h)) seen -> op_okb h seen (OClose now) = true ->
  In s' (scrash_states kname kpath h (OClose now)) ->
  s' = sst h
  \/ (exists kt fx, k_tmp kt = true /\ ~ In kt (keys (sst h)) /\ s' = {| sdirs := sdirs (sst h); sfiles := sfiles (sst h) ++ [(kt, fx)] |})
  \/ (exists w e0 a0 pl fc, swr h = Some w /\ In (e0, a0) L /\ fst e0 = sw_key w /\ k_c (sw_key w) = false /\ parse (snd e0) = Some pl /\ parse fc = Some pl
        /\ ~ In (twin (sw_key w)) (keys (sst h))
        /\ s' = {| sdirs := sdirs (sst h); sfiles := sfiles (sst h) ++ [(twin (sw_key w), fc)] |}
        /\ sst (sapply kname kpath h (OClose now)) = run_sprim s' (SUnlink (sw_key w)))
  \/ s' = sst (sapply kname kpath h (OClose now)).
Proof.
  intros R IS P IN.
  unfold scrash_states in IN. simpl sprims in IN.
  pose proof (r_wr _ _ _ _ R) as W. unfold wr_ok in W. simpl in P.
  destruct (swr h) as [w|] eqn:EW.
  2:{ simpl in IN. destruct IN as [IN|[]]. auto. }
  destruct (h_cur H) as [id|] eqn:EC; [|contradiction].
  destruct W as [W1 [W2 [e0 [a0 [I0 [E1 [E2 E3]]]]]]].
  pose proof (L_sget h H L R e0 a0 I0) as G0. rewrite E1 in G0. rewrite G0 in IN.
  destruct (parse (snd e0)) as [pl|] eqn:Pp.
  2:{ simpl in IN. destruct IN as [IN|[]]. auto. }
  set (k := sw_key w) in *. set (kc := twin k) in *. set (kt := tmpk kc) in *.
  apply andb_prop in P. destruct P as [P _]. apply negb_true_iff in P. apply memk_false in P.
  assert (Nkc : ~ In kc (keys (sst h))) by (intro X; apply P, IS, X).
  assert (Nkt : ~ In kt (keys (sst h))) by (apply tmpk_absent, (r_plain _ _ _ _ R)).
  assert (Dk : shas_dir (sst h) (k_dag kc) = true).
  { change (k_dag kc) with (k_dag k). rewrite <- E1. apply (r_dirs _ _ _ _ R). apply (L_in_file h H L R (e0, a0)); auto. }
  assert (TMP : forall fx, exists kt0 fx0, k_tmp kt0 = true /\ ~ In kt0 (keys (sst h))
            /\ {| sdirs := sdirs (sst h); sfiles := sfiles (sst h) ++ [(kt, fx)] |} = {| sdirs := sdirs (sst h); sfiles := sfiles (sst h) ++ [(kt0, fx0)] |}).
  { intros fx. exists kt, fx. auto. }
  change (SUnlink kt :: SMkdir (k_dag k) :: SCreate kt now :: map (fun c : chunk => SAppend kt c now) (chunks_of pl) ++ [SRename kt kc; SUnlink k])
    with ([SUnlink kt; SMkdir (k_dag kc); SCreate kt now] ++ (map (fun c : chunk => SAppend kt c now) (chunks_of pl) ++ [SRename kt kc; SUnlink k])) in IN.
  apply scrash_app_in in IN. destruct IN as [IN|IN].
  - assert (CL : scrash_from (sst h) [SUnlink kt; SMkdir (k_dag kc); SCreate kt now]
                 = [sst h; run_sprim (sst h) (SUnlink kt); run_sprim (run_sprim (sst h) (SUnlink kt)) (SMkdir (k_dag kc));
                    run_sprim (run_sprim (run_sprim (sst h) (SUnlink kt)) (SMkdir (k_dag kc))) (SCreate kt now)])
      by reflexivity.
    rewrite CL, (unlink_absent _ _ Nkt), (mkdir_noop _ _ Dk), (create_fresh _ kt now Nkt) in IN.
    destruct IN as [X|[X|[X|[X|[]]]]]; subst s'; auto; right; left; apply TMP.
  - assert (RS : run_sprims (sst h) [SUnlink kt; SMkdir (k_dag kc); SCreate kt now]
                 = {| sdirs := sdirs (sst h); sfiles := sfiles (sst h) ++ [(kt, empty_file now)] |}).
    { unfold run_sprims. cbn [fold_left]. rewrite (unlink_absent _ _ Nkt), (mkdir_noop _ _ Dk), (create_fresh _ kt now Nkt). reflexivity. }
    rewrite RS in IN. set (sc := {| sdirs := sdirs (sst h); sfiles := sfiles (sst h) ++ [(kt, empty_file now)] |}) in *.
    assert (UK : forall g, upd_key kt g (sfiles sc) = sfiles (sst h) ++ [(kt, g (empty_file now))]).
    { intros g. unfold sc. cbn [sfiles]. rewrite upd_key_app, (upd_key_absent kt g (sfiles (sst h))) by exact Nkt. rewrite upd_key_single. reflexivity. }
    apply scrash_app_in in IN. destruct IN as [IN|IN].
    + apply crash_appends in IN. destruct IN as [g [Es AP]]. subst s'. rewrite UK. cbn [sdirs sc]. right. left. apply TMP.
    + rewrite run_appends in IN. rewrite UK in IN. rewrite appends_status in IN by reflexivity. cbn [sdirs sc items empty_file app] in IN.
      set (fc := {| items := [Rec pl]; ftail := TNone; mtime := now |}) in *.
      set (stmp := {| sdirs := sdirs (sst h); sfiles := sfiles (sst h) ++ [(kt, fc)] |}) in *.
      set (sfull := {| sdirs := sdirs (sst h); sfiles := sfiles (sst h) ++ [(kc, fc)] |}).
      assert (RN : run_sprim stmp (SRename kt kc) = sfull).
      { unfold stmp, sfull. apply rename_last; auto. apply tmpk_neq. reflexivity. }
      assert (CL : scrash_from stmp [SRename kt kc; SUnlink k] = [stmp; run_sprim stmp (SRename kt kc); run_sprim (run_sprim stmp (SRename kt kc)) (SUnlink k)])
        by reflexivity.
      rewrite CL, RN in IN.
      assert (PS : sst (sapply kname kpath h (OClose now)) = run_sprim sfull (SUnlink k)).
      { unfold sapply. cbn [sprims sst]. rewrite EW. cbn [sst]. fold k. rewrite G0, Pp. fold kc. fold kt.
        match goal with |- context [run_sprims (sst h) ?ps] =>
          change (run_sprims (sst h) ps) with
            (run_sprims (sst h) ([SUnlink (tmpk (twin k)); SMkdir (k_dag (twin k)); SCreate (tmpk (twin k)) now]
                ++ map (fun c => SAppend (tmpk (twin k)) c now) (chunks_of pl) ++ [SRename (tmpk (twin k)) (twin k); SUnlink k])) end.
        rewrite (close_run (sst h) k pl now Nkc Nkt Dk). reflexivity. }
      destruct IN as [X|[X|[X|[]]]]; subst s'.
      * right. left. apply TMP.
      * right. right. left. exists w, e0, a0, pl, fc. repeat split; auto.
      * right. right. right. auto.
Qed.

Lemma upd_key_in_other kf g (l : list sent) ex k : In ex (upd_key kf g l) -> fst ex = k -> kf <> k -> In ex l.
Proof.
  unfold upd_key. intros I E N. apply in_map_iff in I. destruct I as [e [Ee Ie]].
  destruct (skey_eqb kf (fst e)) eqn:Q; subst ex; auto. simpl in E. congruence.
Qed.

Theorem close_then_update h H L seen now s' d req tag size now2 :
  R2 h H L -> hist_okb H = true -> incl (keys (sst h)) seen -> op_okb h seen (OClose now) = true ->
  hist_okb (sp_apply H (OClose now)) = true ->
  (forall w, swr h = Some w -> String.ltb (kpath (sw_key w)) (kpath (twin (sw_key w))) = true) ->
  In s' (scrash_states kname kpath h (OClose now)) ->
  let u := OUpdate d req tag size now2 in
  let s2 := sst (sapply kname kpath (dead s') u) in
  answers_as s2 (sp_apply H u) \/ answers_as s2 (sp_apply (sp_apply H (OClose now)) u).
Proof.
  intros R O IS P O' LT IN u s2.
  assert (OU : forall X, hist_okb X = true -> hist_okb (sp_apply X u) = true) by (intros X OX; unfold u; rewrite hist_okb_update; auto).
  assert (RPOST : related (sst (sapply kname kpath h (OClose now))) (sp_apply H (OClose now))).
  { destruct (step_sim kname kpath h H L seen (OClose now) R O IS P) as [L' R']. apply (related_pre _ _ L'); auto. }
  destruct (close_states h H L seen now s' R IS P IN) as [E|[[kt [fx [Tk [Nk E]]]]|[[w [e0 [a0 [pl [fc [EW [I0 [E1 [W2 [Pp [Pf [Nkc [E PS]]]]]]]]]]]]]|E]]].
  - left. subst s'. apply related_answers; auto. apply related_update; auto. apply (related_pre h H L); auto.
  - (* the temporary copy is there: invisible to the lookup and to the listings *)
    left.
    assert (UL : run_sprim s' (SUnlink kt) = sst h).
    { subst s'. cbn [run_sprim sdirs sfiles]. rewrite filter_app. simpl. rewrite skey_eqb_refl. simpl. rewrite app_nil_r.
      destruct (sst h) as [ds fl]. cbn [sdirs sfiles] in *. f_equal.
      transitivity (filter (fun _ : sent => true) fl); [|apply filter_true]. apply filter_ext_in. intros e Ie.
      apply negb_true_iff. apply skey_eqb_neq. intro X. apply Nk. rewrite X. unfold keys. simpl. apply in_map. auto. }
    assert (FQ : forall d0 rq, sq_find kname kpath s' d0 rq = sq_find kname kpath (run_sprim s' (SUnlink kt)) d0 rq).
    { intros d0 rq. unfold sq_find. rewrite (sglob_view (run_sprim s' (SUnlink kt)) s' d0 PAll); auto. apply same_view_unlink_tmp; auto. }
    pose proof (update_unlink_comm s' kt d req tag size now2 FQ) as CM. rewrite UL in CM. specialize (CM Nk). fold u in CM. fold s2 in CM.
    apply (view_answers (run_sprim s2 (SUnlink kt))). { apply same_view_unlink_tmp; auto. }
    rewrite <- CM. apply related_answers; auto. apply related_update; auto. apply (related_pre h H L); auto.
  - (* the compacted copy is published next to the original *)
    right. set (k := sw_key w) in *. set (kc := twin k) in *.
    assert (Ie0 : In e0 (sfiles (sst h))) by (apply (L_in_file h H L R (e0, a0)); auto).
    assert (Tk : k_tmp k = false). { rewrite <- E1. apply (r_plain _ _ _ _ R); auto. }
    assert (Nkk : k <> kc). { intro X. assert (Y : k_c k = k_c kc) by congruence. unfold kc in Y. simpl in Y. congruence. }
    assert (UQ : forall ex, In ex (sfiles (sst h)) -> fst ex = k -> ex = e0).
    { intros ex Ix Ex. apply (NoDup_map_inj fst (sfiles (sst h))); auto. apply (r_keys _ _ _ _ R). congruence. }
    assert (INK : forall ex, In ex (sfiles s') -> fst ex = k -> ex = e0).
    { intros ex Ix Ex. subst s'. cbn [sfiles] in Ix. apply in_app_or in Ix. destruct Ix as [Ix|[Ix|[]]]; auto. subst ex. simpl in Ex. congruence. }
    assert (RQ0 : forall rq fy, parse fy = Some pl -> reqP rq e0 = true -> reqP rq (kc, fy) = true).
    { intros rq fy Py. unfold reqP. simpl. rewrite Pp, Py. auto. }
    assert (SH : shadowed s' k).
    { exists (kc, fc). subst s'. cbn [sfiles]. split. { apply in_or_app. right. simpl. auto. } split; [reflexivity|]. split; [reflexivity|].
      split. { apply (LT w EW). } intros ex Ix Ex rq Rq. rewrite (INK ex Ix Ex) in Rq. apply RQ0; auto. }
    assert (FQ : forall d0 rq, sq_find kname kpath s' d0 rq = sq_find kname kpath (run_sprim s' (SUnlink k)) d0 rq)
      by (intros; apply find_unlink_shadow; auto).
    assert (NkP : ~ In k (keys (run_sprim s' (SUnlink k)))).
    { unfold keys. cbn [run_sprim sfiles]. intro X. apply in_map_iff in X. destruct X as [e [Ee Ie]]. apply filter_In in Ie. destruct Ie as [_ Ne].
      rewrite Ee, skey_eqb_refl in Ne. discriminate. }
    pose proof (update_unlink_comm s' k d req tag size now2 FQ NkP) as CM. fold u in CM. fold s2 in CM.
    assert (AP : answers_as (run_sprim s2 (SUnlink k)) (sp_apply (sp_apply H (OClose now)) u)).
    { rewrite <- CM, <- PS. apply related_answers; auto. apply related_update; auto. }
    (* the updated store: the compacted copy still shadows the original *)
    assert (KS : NoDup (keys s')).
    { subst s'. unfold keys. cbn [sfiles]. rewrite map_app. simpl. apply (Permutation_NoDup (l := kc :: map fst (sfiles (sst h)))).
      { apply Permutation_cons_append. } constructor; auto. apply (r_keys _ _ _ _ R). }
    assert (S2 : s2 = s' \/ exists kf g, kf <> k /\ s2 = {| sdirs := sdirs s'; sfiles := upd_key kf g (sfiles s') |}
                                    /\ (kf = kc -> exists its p', g fc = {| items := its ++ [Rec p']; ftail := TNone; mtime := now2 |} /\ p_req p' = p_req pl)).
    { unfold s2, u, sapply. cbn [sprims sst dead]. destruct (sq_find kname kpath s' d req) as [|kf p] eqn:Q; [left; reflexivity|]. right. cbn [sst].
      assert (Nkf : kf <> k).
      { intro X. subst kf. rewrite (FQ d req) in Q. unfold sq_find in Q. apply sfind_key in Q. apply in_map_iff in Q. destruct Q as [e [Ee Ie]].
        apply sglob_iff in Ie. destruct Ie as [_ [Ie _]]. apply NkP. unfold keys. apply in_map_iff. exists e. auto. }
      unfold sq_find in Q. apply sfind_in_found in Q. destruct Q as [e [Ie [Ee [Re Pe]]]]. apply sglob_iff in Ie. destruct Ie as [Dd [Ie [De _]]].
      assert (G : sget s' kf = Some (snd e)). { apply in_sget; auto. rewrite <- Ee. destruct e; auto. }
      assert (Dk : shas_dir s' (k_dag kf) = true) by (rewrite <- Ee, De; auto).
      destruct (sopen_appends s' kf (snd e) {| p_req := req; p_tag := tag; p_size := size |} now2 G Dk) as [g [RUN [[its GF] _]]].
      exists kf, g. split; auto. split; [exact RUN|]. intros Ekf. exists its, {| p_req := req; p_tag := tag; p_size := size |}.
      assert (e = (kc, fc)).
      { apply (NoDup_map_inj fst (sfiles s')); auto. { subst s'. cbn [sfiles]. apply in_or_app. right. simpl. auto. } simpl. congruence. }
      subst e. simpl in GF. split; auto. simpl. unfold reqP in Re. simpl in Re. rewrite Pf in Re. apply String.eqb_eq in Re. auto. }
    apply (published_answers s2 k); auto.
    + destruct S2 as [S2|[kf [g [Nkf [S2 _]]]]]; rewrite S2.
      * subst s'. unfold keys. cbn [sfiles]. rewrite map_app. apply in_or_app. right. simpl. auto.
      * unfold keys. cbn [sfiles]. rewrite upd_key_keys. subst s'. cbn [sfiles]. rewrite map_app. apply in_or_app. right. simpl. auto.
    + destruct S2 as [S2|[kf [g [Nkf [S2 GC]]]]]; rewrite S2; auto.
      exists (if skey_eqb kf kc then (kc, g fc) else (kc, fc)). cbn [sfiles].
      assert (IY : In (kc, fc) (sfiles s')). { subst s'. cbn [sfiles]. apply in_or_app. right. simpl. auto. }
      split.
      { unfold upd_key. apply in_map_iff. exists (kc, fc). split; auto. simpl. destruct (skey_eqb kf kc) eqn:Q; auto.
        apply skey_eqb_eq in Q. subst kf. reflexivity. }
      split. { destruct (skey_eqb kf kc); reflexivity. } split. { destruct (skey_eqb kf kc); reflexivity. }
      split. { destruct (skey_eqb kf kc); apply (LT w EW). }
      intros ex Ix Ex rq Rq. apply (upd_key_in_other kf g (sfiles s') ex k) in Ix; auto. rewrite (INK ex Ix Ex) in Rq.
      destruct (skey_eqb kf kc) eqn:Q; [|apply RQ0; auto].
      apply skey_eqb_eq in Q. destruct (GC Q) as [its [p' [GF Rp]]]. unfold reqP in *. simpl. rewrite GF, parse_rec_snoc. rewrite Pp in Rq. congruence.
  - right. subst s'. apply related_answers; auto. apply related_update; auto.
Qed.

(* ---- retention and rename: every prefix is related to a run map between BEFORE and AFTER --------------------------------------- *)
Definition hist_ok (H : hist) : Prop := forall a b, In a (h_runs H) -> In b (h_runs H) -> clash a b = true -> a_id a = a_id b.
Lemma hist_okb_iff H : hist_okb H = true <-> hist_ok H.
Proof.
  unfold hist_okb, hist_ok. split.
  - intros O a b Ia Ib C. rewrite forallb_forall in O. specialize (O a Ia). rewrite forallb_forall in O. specialize (O b Ib).
    rewrite C in O. simpl in O. apply Nat.eqb_eq in O. exact O.
  - intros O. apply forallb_forall. intros a Ia. apply forallb_forall. intros b Ib.
    destruct (clash a b) eqn:C; simpl; auto. apply Nat.eqb_eq. apply O; auto.
Qed.

Lemma unlink_step st s H L e a : R2g st (dead s) (hdead H) L -> In (e, a) L ->
  R2g st (dead (run_sprim s (SUnlink (fst e))))
      (hdead {| h_runs := filter (fun b => negb (Nat.eqb (a_id b) (a_id a))) (h_runs H); h_cur := None; h_next := h_next H |})
      (filter (fun x : sent * arun => negb (skey_eqb (fst e) (fst (fst x)))) L).
Proof.
  intros R I.
  pose proof (pair_pick st (dead s) (hdead H) L (fst e) (a_id a) e a R I eq_refl eq_refl) as PK.
  pose proof (r_fst _ _ _ _ R) as RF. simpl in RF.
  constructor; simpl.
  - rewrite <- RF. rewrite filter_map_comm. reflexivity.
  - rewrite (filter_ext_in' _ (fun x : sent * arun => negb (Nat.eqb (a_id (snd x)) (a_id a)))) by (intros x Ix; rewrite (PK x Ix); reflexivity).
    rewrite <- (filter_map_comm snd (fun b => negb (Nat.eqb (a_id b) (a_id a)))). apply Permutation_filter. apply (r_snd _ _ _ _ R).
  - apply Forall_forall. intros x Ix. apply filter_In in Ix. destruct Ix as [Ix _]. apply (L_frun (dead s) (hdead H) L R); auto.
  - exact Logic.I.
  - unfold keys. simpl. apply NoDup_map_filter. apply (r_keys _ _ _ _ R).
  - apply NoDup_map_filter. apply (r_ids _ _ _ _ R).
  - intros b Ib. apply filter_In in Ib. destruct Ib as [Ib _]. apply (r_idlt _ _ _ _ R b Ib).
  - intros x Ix. apply filter_In in Ix. destruct Ix as [Ix _]. apply (r_dirs _ _ _ _ R x Ix).
  - intros x Ix. apply filter_In in Ix. destruct Ix as [Ix _]. apply (r_plain _ _ _ _ R x Ix).
Qed.

Lemma hist_ok_sub H H' : hist_ok H -> (forall a, In a (h_runs H') -> In a (h_runs H)) -> hist_ok H'.
Proof. intros O S a b Ia Ib C. apply O; auto. Qed.

Lemma crash_unlinks st ks : forall s H L, R2g st (dead s) (hdead H) L -> NoDup ks -> (forall k, In k ks -> In k (keys s)) ->
  forall x, In x (scrash_from s (map SUnlink ks)) ->
  exists H' L', R2g st (dead x) (hdead H') L'
    /\ (forall a, In a (h_runs H') -> In a (h_runs H))
    /\ (forall e a, In (e, a) L -> ~ In (fst e) ks -> In (e, a) L').
Proof.
  induction ks as [|k ks IH]; intros s H L R ND IK x IN.
  - simpl in IN. destruct IN as [IN|[]]. subst x. exists H, L. auto.
  - cbn [map scrash_from storn] in IN. simpl in IN. destruct IN as [IN|IN].
    + subst x. exists H, L. split; [exact R|]. split; auto.
    + assert (Ik : In k (keys s)) by (apply IK; simpl; auto).
      unfold keys in Ik. apply in_map_iff in Ik. destruct Ik as [e [Ee Ie]].
      destruct (file_in_L (dead s) (hdead H) L R e Ie) as [a La].
      pose proof (unlink_step st s H L e a R La) as R1. rewrite Ee in R1.
      inversion ND as [|? ? Hn Hd]; subst.
      destruct (IH _ _ _ R1 Hd) with (x := x) as [H' [L' [R' [S1 S2]]]]; auto.
      * intros k2 I2. assert (I2s : In k2 (keys s)) by (apply IK; simpl; auto).
        unfold keys in *. simpl. apply in_map_iff in I2s. destruct I2s as [e2 [E2 J2]]. apply in_map_iff. exists e2. split; auto.
        apply filter_In. split; auto. apply negb_true_iff. apply skey_eqb_neq. intro X. subst. rewrite <- X in I2. contradiction.
      * exists H', L'. split; auto. split.
        -- intros b Ib. apply S1 in Ib. simpl in Ib. apply filter_In in Ib. apply Ib.
        -- intros e2 a2 I2 N2. apply S2.
           ++ apply filter_In. split; auto. apply negb_true_iff. apply skey_eqb_neq. simpl. intro X. apply N2. simpl. auto.
           ++ intro X. apply N2. simpl. auto.
Qed.

(* the last status of a run that is in the run map is what find answers *)
Lemma sp_find_run st h H L e a : R2g st h H L -> hist_okb H = true -> In (e, a) L -> a_req a <> "" ->
  sp_find H (a_dag a) (a_req a) = last_opt (a_sts a).
Proof.
  intros R O I Nr. unfold sp_find. apply String.eqb_neq in Nr. rewrite Nr.
  assert (Ia : In a (h_runs H)) by (apply (L_in_run h H L R (e, a)); auto).
  destruct (find (is_run (a_dag a) (a_req a)) (h_runs H)) as [b|] eqn:F.
  - apply find_some in F. destruct F as [Ib Rb]. unfold is_run in Rb.
    apply andb_prop in Rb. destruct Rb as [Rb _]. apply andb_prop in Rb. destruct Rb as [R1 R2']. apply String.eqb_eq in R1, R2'.
    assert (b = a). { apply (hist_ok_prop H); auto. apply (r_ids _ _ _ _ R). }
    subst. reflexivity.
  - destruct (a_sts a) as [|p0 l0] eqn:Es; [reflexivity|]. exfalso.
    pose proof (find_none _ _ F a Ia) as X. unfold is_run in X. rewrite !String.eqb_refl, Es in X. discriminate.
Qed.

(* P1 for retention: whatever prefix of the unlinks was executed, every run that is NOT up for removal is found intact *)
Theorem crash_removeold h H L d cutoff s' :
  R2 h H L -> hist_okb H = true ->
  In s' (scrash_states kname kpath h (ORemoveOld d cutoff)) ->
  forall a, In a (h_runs H) -> a_req a <> "" -> ~ (a_dag a = d /\ (a_mtime a < cutoff)%Z) ->
  fres_payload (sq_find kname kpath s' (a_dag a) (a_req a)) = last_opt (a_sts a).
Proof.
  intros R O IN a Ia Nr NE. unfold scrash_states in IN. simpl sprims in IN.
  rewrite <- (map_map fst SUnlink) in IN.
  set (ks := map fst (filter (fun e : sent => (mtime (snd e) <? cutoff)%Z) (sglob kname (sst h) d PAll))) in *.
  pose proof (R2g_weaken h H L R) as RW.
  assert (KS : forall k, In k ks -> exists e, In e (sfiles (sst h)) /\ fst e = k /\ k_dag k = d /\ (mtime (snd e) <? cutoff)%Z = true).
  { intros k Ik. unfold ks in Ik. apply in_map_iff in Ik. destruct Ik as [e [Ee Ie]]. apply filter_In in Ie. destruct Ie as [Ig Old].
    apply (sglob_member kname _ h H L d e R) in Ig. destruct Ig as [If Dg]. exists e. subst k. auto. }
  assert (NDk : NoDup ks).
  { unfold ks. apply (NoDup_map_filter fst).
    apply (Permutation_NoDup (l := map fst (filter (fun e : sent => String.eqb (k_dag (fst e)) d && in_patk PAll (fst e)) (sfiles (sst h))))).
    - apply Permutation_map, Permutation_sym, (sglob_perm kname _ h H L d PAll R).
    - apply NoDup_map_filter. apply (r_keys _ _ _ _ R). }
  destruct (crash_unlinks false ks (sst h) H L RW NDk) with (x := s') as [H' [L' [R' [S1 S2]]]]; auto.
  { intros k Ik. destruct (KS k Ik) as [e [Ie [Ee _]]]. subst k. unfold keys. apply in_map. auto. }
  destruct (run_in_L h H L R a Ia) as [e Le].
  assert (Le' : In (e, a) L').
  { apply S2; auto. intro X. destruct (KS _ X) as [e2 [I2 [E2 [D2 Old]]]].
    assert (e2 = e). { apply (NoDup_map_inj fst (sfiles (sst h))); auto. apply (r_keys _ _ _ _ R). apply (L_in_file h H L R (e, a)); auto. }
    subst e2. pose proof (L_frun h H L R (e, a) Le) as [F1 [_ [_ [_ [_ [F6 _]]]]]]. simpl in *.
    apply NE. split. congruence. rewrite <- (F6 eq_refl). apply Z.ltb_lt. exact Old. }
  assert (O' : hist_okb H' = true).
  { apply hist_okb_iff. apply (hist_ok_sub H); auto. apply hist_okb_iff. exact O. }
  pose proof (find_refines kname kpath false (dead s') (hdead H') L' (a_dag a) (a_req a) R' O') as FR. simpl in FR. rewrite FR.
  apply (sp_find_run false (dead s') (hdead H') L' e a R' O' Le' Nr).
Qed.

(* the exact characterisation: a kill inside retention leaves the run map with SOME of the runs that are up for removal already removed
   (each unlink is one primitive step) - and ALL queries answer as that intermediate run map says (P1-P4 for the surviving runs).
   Full before-or-after atomicity is false here (ProofsC07Ex.retention_not_atomic). *)
Theorem crash_removeold_full h H L d cutoff s' :
  R2 h H L -> hist_okb H = true ->
  In s' (scrash_states kname kpath h (ORemoveOld d cutoff)) ->
  exists H', answers_as s' H' /\ hist_okb H' = true
    /\ (forall a, In a (h_runs H') -> In a (h_runs H))
    /\ (forall a, In a (h_runs H) -> ~ (a_dag a = d /\ (a_mtime a < cutoff)%Z) -> In a (h_runs H'))
    /\ NoDup (map a_id (h_runs H')).
Proof.
  intros R O IN. unfold scrash_states in IN. simpl sprims in IN.
  rewrite <- (map_map fst SUnlink) in IN.
  set (ks := map fst (filter (fun e : sent => (mtime (snd e) <? cutoff)%Z) (sglob kname (sst h) d PAll))) in *.
  pose proof (R2g_weaken h H L R) as RW.
  assert (KS : forall k, In k ks -> exists e, In e (sfiles (sst h)) /\ fst e = k /\ k_dag k = d /\ (mtime (snd e) <? cutoff)%Z = true).
  { intros k Ik. unfold ks in Ik. apply in_map_iff in Ik. destruct Ik as [e [Ee Ie]]. apply filter_In in Ie. destruct Ie as [Ig Old].
    apply (sglob_member kname _ h H L d e R) in Ig. destruct Ig as [If Dg]. exists e. subst k. auto. }
  assert (NDk : NoDup ks).
  { unfold ks. apply (NoDup_map_filter fst).
    apply (Permutation_NoDup (l := map fst (filter (fun e : sent => String.eqb (k_dag (fst e)) d && in_patk PAll (fst e)) (sfiles (sst h))))).
    - apply Permutation_map, Permutation_sym, (sglob_perm kname _ h H L d PAll R).
    - apply NoDup_map_filter. apply (r_keys _ _ _ _ R). }
  destruct (crash_unlinks false ks (sst h) H L RW NDk) with (x := s') as [H' [L' [R' [S1 S2]]]]; auto.
  { intros k Ik. destruct (KS k Ik) as [e [Ie [Ee _]]]. subst k. unfold keys. apply in_map. auto. }
  assert (O' : hist_okb H' = true).
  { apply hist_okb_iff. apply (hist_ok_sub H); auto. apply hist_okb_iff. exact O. }
  exists H'. split; [apply (R2g_answers false s' H' L'); auto|]. split; auto. split; auto. split.
  - intros a Ia NE. destruct (run_in_L h H L R a Ia) as [e Le].
    assert (Le' : In (e, a) L').
    { apply S2; auto. intro X. destruct (KS _ X) as [e2 [I2 [E2 [D2 Old]]]].
      assert (e2 = e). { apply (NoDup_map_inj fst (sfiles (sst h))); auto. apply (r_keys _ _ _ _ R). apply (L_in_file h H L R (e, a)); auto. }
      subst e2. pose proof (L_frun h H L R (e, a) Le) as [F1 [_ [_ [_ [_ [F6 _]]]]]]. simpl in *.
      apply NE. split. congruence. rewrite <- (F6 eq_refl). apply Z.ltb_lt. exact Old. }
    apply (L_in_run (dead s') (hdead H') L' R' (e, a) Le').
  - apply (r_ids _ _ _ _ R').
Qed.


(* ---- rename: every prefix of the renames is related to a run map in which some runs of d already belong to d' ------------------- *)
Definition mvd (d' : string) (x : sent * arun) : sent * arun := ((rekey d' (fst (fst x)), snd (fst x)), set_dag d' (snd x)).
Definition mv1 (d' : string) (k : skey) (x : sent * arun) : sent * arun := if skey_eqb k (fst (fst x)) then mvd d' x else x.
Definition H_of (next : nat) (L : pairing) : hist := {| h_runs := map snd L; h_cur := None; h_next := next |}.

Lemma R2g_norm st s H L : R2g st (dead s) (hdead H) L -> R2g st (dead s) (hdead (H_of (h_next H) L)) L.
Proof.
  intros R. constructor; simpl; try apply R.
  - apply Permutation_refl.
  - apply (L_ids_nodup (dead s) (hdead H) L R).
  - intros a Ia. apply in_map_iff in Ia. destruct Ia as [x [E Ix]]. subst a. apply (r_idlt _ _ _ _ R). apply (L_in_run (dead s) (hdead H) L R); auto.
Qed.

Lemma rekey_step st s next L e a d' :
  R2g st (dead s) (hdead (H_of next L)) L -> In (e, a) L -> k_dag (fst e) <> d' -> ~ In (rekey d' (fst e)) (keys s) -> shas_dir s d' = true ->
  R2g st (dead (run_sprim s (SRename (fst e) (rekey d' (fst e))))) (hdead (H_of next (map (mv1 d' (fst e)) L))) (map (mv1 d' (fst e)) L).
Proof.
  intros R I Nd Fr Dd. set (k := fst e) in *. set (k' := rekey d' k) in *.
  pose proof (r_fst _ _ _ _ R) as RF. simpl in RF.
  assert (Ik : In k (keys s)). { unfold keys. rewrite <- RF. rewrite map_map. apply in_map_iff. exists (e, a). auto. }
  assert (NE : skey_eqb k k' = false). { apply skey_eqb_neq. intro X. apply Nd. rewrite X. reflexivity. }
  assert (FK : filter (fun e0 : sent => negb (skey_eqb k' (fst e0))) (sfiles s) = sfiles s).
  { rewrite <- (filter_true (sfiles s)) at 2. apply filter_ext_in. intros e0 He. destruct (skey_eqb k' (fst e0)) eqn:E; auto.
    apply skey_eqb_eq in E. exfalso. apply Fr. fold k'. rewrite E. unfold keys. apply in_map. auto. }
  assert (ST : run_sprim s (SRename k k') = {| sdirs := sdirs s; sfiles := map (fun e0 : sent => if skey_eqb k (fst e0) then (k', snd e0) else e0) (sfiles s) |}).
  { unfold run_sprim. rewrite (proj2 (shas_true s k) Ik), NE. f_equal. f_equal. exact FK. }
  rewrite ST.
  constructor; simpl.
  - rewrite <- RF. rewrite !map_map. apply map_ext. intros x. unfold mv1, mvd. simpl.
    destruct (skey_eqb k (fst (fst x))) eqn:E; [|reflexivity]. apply skey_eqb_eq in E. simpl. unfold k'. rewrite E. reflexivity.
  - apply Permutation_refl.
  - apply Forall_forall. intros y Iy. apply in_map_iff in Iy. destruct Iy as [x [E Ix]]. subst y.
    pose proof (L_frun (dead s) (hdead (H_of next L)) L R x Ix) as FR. unfold mv1. destruct (skey_eqb k (fst (fst x))); auto.
    destruct FR as [G1 [G2 [G3 [G4 [G5 [G6 G7]]]]]]. unfold mvd, frun. simpl. repeat split; auto.
  - exact Logic.I.
  - unfold keys. simpl. rewrite map_map.
    replace (map (fun x : sent => fst (if skey_eqb k (fst x) then (k', snd x) else x)) (sfiles s))
      with (map (fun k0 => if skey_eqb k k0 then k' else k0) (keys s)).
    2:{ unfold keys. rewrite map_map. apply map_ext. intros x. destruct (skey_eqb k (fst x)); reflexivity. }
    apply NoDup_map_of_inj. { apply (r_keys _ _ _ _ R). }
    intros k1 k2 I1 I2 E. destruct (skey_eqb k k1) eqn:E1, (skey_eqb k k2) eqn:E2; auto.
    + apply skey_eqb_eq in E1, E2. congruence.
    + exfalso. apply Fr. fold k'. rewrite E. exact I2.
    + exfalso. apply Fr. fold k'. rewrite <- E. exact I1.
  - rewrite !map_map. rewrite (map_ext _ (fun x : sent * arun => a_id (snd x))).
    + rewrite <- (map_map snd a_id). apply (L_ids_nodup (dead s) (hdead (H_of next L)) L R).
    + intros x. unfold mv1, mvd. destruct (skey_eqb k (fst (fst x))); reflexivity.
  - intros b Ib. rewrite map_map in Ib. apply in_map_iff in Ib. destruct Ib as [x [E Ix]]. subst b.
    assert (X : a_id (snd (mv1 d' k x)) = a_id (snd x)). { unfold mv1, mvd. destruct (skey_eqb k (fst (fst x))); reflexivity. }
    rewrite X. apply (r_idlt _ _ _ _ R). simpl. apply in_map. auto.
  - intros y Iy. apply in_map_iff in Iy. destruct Iy as [e0 [E I0]]. unfold shas_dir. simpl. fold (shas_dir s (k_dag (fst y))).
    destruct (skey_eqb k (fst e0)); subst y; simpl.
    + exact Dd.
    + apply (r_dirs _ _ _ _ R e0 I0).
  - intros y Iy. apply in_map_iff in Iy. destruct Iy as [e0 [E I0]]. pose proof (r_plain _ _ _ _ R e0 I0) as Tp.
    destruct (skey_eqb k (fst e0)) eqn:Ek; subst y; simpl; auto. apply skey_eqb_eq in Ek. rewrite Ek. exact Tp.
Qed.

Definition mrel (d d' : string) (x x' : sent * arun) : Prop := x' = x \/ (k_dag (fst (fst x)) = d /\ x' = mvd d' x).

Lemma Forall2_in_r {A B} (P : A -> B -> Prop) l l' y : Forall2 P l l' -> In y l' -> exists x, In x l /\ P x y.
Proof. induction 1; simpl; intros I; [tauto|]. destruct I as [I|I]. { subst. eauto. } destruct (IHForall2 I) as [x0 [I0 P0]]. eauto. Qed.
Lemma Forall2_in_l {A B} (P : A -> B -> Prop) l l' x : Forall2 P l l' -> In x l -> exists y, In y l' /\ P x y.
Proof. induction 1; simpl; intros I; [tauto|]. destruct I as [I|I]. { subst. eauto. } destruct (IHForall2 I) as [y0 [I0 P0]]. eauto. Qed.
Lemma Forall2_map_r {A B} (P : A -> B -> Prop) (f : A -> B) l : (forall x, In x l -> P x (f x)) -> Forall2 P l (map f l).
Proof. induction l; simpl; intros H; constructor; auto. Qed.
Lemma Forall2_trans' {A} (P Q R : A -> A -> Prop) l1 l2 l3 :
  (forall x y z, P x y -> Q y z -> R x z) -> Forall2 P l1 l2 -> Forall2 Q l2 l3 -> Forall2 R l1 l3.
Proof. intros T F1. revert l3. induction F1; intros l3 F2; inversion F2; subst; constructor; eauto. Qed.

Lemma crash_renames st d d' : d <> d' -> forall ks s next L,
  R2g st (dead s) (hdead (H_of next L)) L -> NoDup ks -> (forall k, In k ks -> In k (keys s) /\ k_dag k = d) ->
  (forall k, In k ks -> ~ In (rekey d' k) (keys s)) -> shas_dir s d' = true ->
  forall x, In x (scrash_from s (map (fun k => SRename k (rekey d' k)) ks)) ->
  exists L', R2g st (dead x) (hdead (H_of next L')) L' /\ Forall2 (mrel d d') L L'.
Proof.
  intros Nd. induction ks as [|k ks IH]; intros s next L R ND IK FR Dd x IN.
  - simpl in IN. destruct IN as [IN|[]]. subst x. exists L. split; auto.
    rewrite <- (map_id L) at 2. apply Forall2_map_r. intros; left; reflexivity.
  - cbn [map scrash_from storn] in IN. simpl in IN. destruct IN as [IN|IN].
    + subst x. exists L. split; auto. rewrite <- (map_id L) at 2. apply Forall2_map_r. intros; left; reflexivity.
    + destruct (IK k (or_introl eq_refl)) as [Ik Dk].
      pose proof (r_fst _ _ _ _ R) as RF. simpl in RF.
      assert (EX : exists e a, In (e, a) L /\ fst e = k).
      { unfold keys in Ik. rewrite <- RF in Ik. rewrite map_map in Ik. apply in_map_iff in Ik. destruct Ik as [[e a] [E I]]. exists e, a. auto. }
      destruct EX as [e [a [La Ee]]]. subst k.
      assert (R1 := rekey_step st s next L e a d' R La).
      assert (Nk : k_dag (fst e) <> d') by (rewrite Dk; auto).
      specialize (R1 Nk (FR (fst e) (or_introl eq_refl)) Dd).
      apply NoDup_cons_iff in ND. destruct ND as [Hn Hd].
      set (s1 := run_sprim s (SRename (fst e) (rekey d' (fst e)))) in *.
      assert (K1 : forall y, In y (keys s1) -> y = rekey d' (fst e) \/ (In y (keys s) /\ y <> fst e)).
      { intros y Hy. pose proof (r_fst _ _ _ _ R1) as RF1. change (sfiles (sst (dead s1))) with (sfiles s1) in RF1. unfold keys in Hy. rewrite <- RF1 in Hy.
        rewrite !map_map in Hy. apply in_map_iff in Hy. destruct Hy as [z [E Iz]]. unfold mv1, mvd in E.
        destruct (skey_eqb (fst e) (fst (fst z))) eqn:E2; simpl in E; subst y.
        - left. apply skey_eqb_eq in E2. rewrite E2. reflexivity.
        - right. split. { unfold keys. rewrite <- RF. rewrite map_map. apply in_map_iff. exists z. auto. }
          apply skey_eqb_neq in E2. auto. }
      assert (K2 : forall y, In y (keys s) -> y <> fst e -> In y (keys s1)).
      { intros y Hy Ny. pose proof (r_fst _ _ _ _ R1) as RF1. change (sfiles (sst (dead s1))) with (sfiles s1) in RF1. unfold keys. rewrite <- RF1. rewrite !map_map.
        unfold keys in Hy. rewrite <- RF in Hy. rewrite map_map in Hy. apply in_map_iff in Hy. destruct Hy as [z [E Iz]].
        apply in_map_iff. exists z. split; auto. unfold mv1. destruct (skey_eqb (fst e) (fst (fst z))) eqn:E2; auto.
        apply skey_eqb_eq in E2. congruence. }
      destruct (IH s1 next (map (mv1 d' (fst e)) L) R1 Hd) with (x := x) as [L' [R' F']]; auto.
      * intros k2 I2. destruct (IK k2 (or_intror I2)) as [P2 D2]. split; auto. apply K2; auto. intro X. subst k2. contradiction.
      * intros k2 I2 X. apply K1 in X. destruct X as [X|[X _]].
        -- apply rekey_inj in X. { subst k2. contradiction. } destruct (IK k2 (or_intror I2)) as [_ D2]. congruence.
        -- apply (FR k2 (or_intror I2)); auto.
      * unfold s1. simpl. destruct (shas s (fst e)); [destruct (skey_eqb (fst e) (rekey d' (fst e)))|]; exact Dd.
      * exists L'. split; auto.
        apply (Forall2_trans' (mrel d d') (mrel d d') (mrel d d') L (map (mv1 d' (fst e)) L) L'); auto.
        -- intros x0 y0 z0 [P1|[P1 P2]] [Q1|[Q1 Q2]]; subst.
           ++ left. reflexivity.
           ++ right. auto.
           ++ right. auto.
           ++ exfalso. unfold mvd in Q1. simpl in Q1. auto.
        -- apply Forall2_map_r. intros x0 I0. unfold mv1. destruct (skey_eqb (fst e) (fst (fst x0))) eqn:E2.
           ++ right. split; auto. apply skey_eqb_eq in E2. rewrite <- E2. exact Dk.
           ++ left. reflexivity.
Qed.


Definition postf (d d' : string) (b : arun) : arun := if String.eqb (a_dag b) d then set_dag d' b else b.

(* the run map of a prefix state is consistent (distinct ids/seconds per DAG) because BEFORE and AFTER are *)
Lemma mixed_hist_ok st s H L d d' next L' : d <> d' -> R2g st (dead s) (hdead H) L -> hist_okb H = true ->
  hist_okb (sp_apply H (ORename d d')) = true -> Forall2 (mrel d d') L L' -> hist_ok (H_of next L').
Proof.
  intros Nd R O O' F. apply hist_okb_iff in O. apply hist_okb_iff in O'.
  assert (POST : forall b, In b (h_runs H) -> In (postf d d' b) (h_runs (sp_apply H (ORename d d')))).
  { intros b Ib. simpl. apply in_map_iff. exists b. split; auto. }
  assert (CL : forall b c b' c', a_req b' = a_req b -> a_stamp b' = a_stamp b -> a_req c' = a_req c -> a_stamp c' = a_stamp c ->
                 a_dag b = a_dag c -> clash b' c' = true -> clash b c = true).
  { intros b c b' c' E1 E2 E3 E4 E5 C. unfold clash in *. apply andb_prop in C. destruct C as [_ C].
    rewrite E1, E2, E3, E4 in C. rewrite E5, String.eqb_refl. exact C. }
  intros x' y' Ix Iy C. simpl in Ix, Iy. apply in_map_iff in Ix, Iy.
  destruct Ix as [px [Ex Ipx]], Iy as [py [Ey Ipy]]. subst x' y'.
  destruct (Forall2_in_r _ _ _ _ F Ipx) as [ox [Iox Rx]]. destruct (Forall2_in_r _ _ _ _ F Ipy) as [oy [Ioy Ry]].
  pose proof (L_in_run (dead s) (hdead H) L R ox Iox) as Hx. pose proof (L_in_run (dead s) (hdead H) L R oy Ioy) as Hy. simpl in Hx, Hy.
  pose proof (L_frun (dead s) (hdead H) L R ox Iox) as [Dx _]. pose proof (L_frun (dead s) (hdead H) L R oy Ioy) as [Dy _].
  assert (DG : a_dag (snd px) = a_dag (snd py)).
  { unfold clash in C. apply andb_prop in C. destruct C as [C _]. apply String.eqb_eq in C. exact C. }
  destruct Rx as [Rx|[Rx1 Rx2]], Ry as [Ry|[Ry1 Ry2]]; subst px py.
  - apply O; auto.
  - (* x unmoved, y moved: compare in AFTER *)
    unfold mvd in *. simpl in *.
    assert (PX : postf d d' (snd ox) = snd ox).
    { unfold postf. destruct (String.eqb (a_dag (snd ox)) d) eqn:E; auto. apply String.eqb_eq in E. exfalso.
      apply Nd. congruence. }
    assert (PY : postf d d' (snd oy) = set_dag d' (snd oy)). { unfold postf. rewrite <- Dy, Ry1, String.eqb_refl. reflexivity. }
    pose proof (O' _ _ (POST _ Hx) (POST _ Hy)) as Q. rewrite PX, PY in Q. apply Q. exact C.
  - unfold mvd in *. simpl in *.
    assert (PY : postf d d' (snd oy) = snd oy).
    { unfold postf. destruct (String.eqb (a_dag (snd oy)) d) eqn:E; auto. apply String.eqb_eq in E. exfalso.
      apply Nd. congruence. }
    assert (PX : postf d d' (snd ox) = set_dag d' (snd ox)). { unfold postf. rewrite <- Dx, Rx1, String.eqb_refl. reflexivity. }
    pose proof (O' _ _ (POST _ Hx) (POST _ Hy)) as Q. rewrite PX, PY in Q. apply Q. exact C.
  - unfold mvd in *. simpl in *. apply O; auto. apply (CL _ _ (set_dag d' (snd ox)) (set_dag d' (snd oy))); auto. congruence.
Qed.

(* P1 for rename: whatever prefix of the renames was executed, a run of another DAG is found intact, and a run of d is found
   intact under exactly one of the two names *)
Lemma rename_related h H L seen d d' s' :
  R2 h H L -> hist_okb H = true -> incl (keys (sst h)) seen -> op_okb h seen (ORename d d') = true ->
  In s' (scrash_states kname kpath h (ORename d d')) ->
  exists L', R2g false (dead s') (hdead (H_of (h_next H) L')) L' /\ Forall2 (mrel d d') L L'.
Proof.
  intros R O IS P IN.
  simpl in P. apply andb_prop in P. destruct P as [P P3]. apply andb_prop in P. destruct P as [P1 _].
  apply negb_true_iff in P1. apply String.eqb_neq in P1.
  pose proof (R2g_weaken h H L R) as RW. pose proof (R2g_norm false (sst h) H L RW) as RN. simpl in RN.
  unfold scrash_states in IN. simpl sprims in IN. destruct (shas_dir (sst h) d) eqn:Dd.
    2:{ simpl in IN. destruct IN as [IN|[]]. subst s'. exists L. split; auto. rewrite <- (map_id L) at 2. apply Forall2_map_r. intros; left; reflexivity. }
    set (G := sglob kname (sst h) d PAll) in *. set (ks := map fst G).
    assert (EQ : map (fun e : skey * file => SRename (fst e) (rekey d' (fst e))) G = map (fun k => SRename k (rekey d' k)) ks)
      by (unfold ks; rewrite map_map; reflexivity).
    change ([SMkdir d'] ++ map (fun e : sent => SRename (fst e) (rekey d' (fst e))) G ++ [SRmdir d])
      with ([SMkdir d'] ++ (map (fun e : skey * file => SRename (fst e) (rekey d' (fst e))) G ++ [SRmdir d])) in IN.
    rewrite EQ in IN.
    set (s1 := run_sprim (sst h) (SMkdir d')) in *.
    assert (F1 : sfiles s1 = sfiles (sst h)) by apply mkdir_files.
    assert (R1 : R2g false (dead s1) (hdead (H_of (h_next H) L)) L).
    { apply (R2g_dirs false (sst h)); auto. intros d0 Hd. apply mkdir_dir_mono; auto. }
    assert (GM : forall e, In e G <-> In e (sfiles (sst h)) /\ k_dag (fst e) = d) by (intros e; apply (sglob_member kname _ h H L d e R)).
    assert (FRESH : forall e, In e (sfiles (sst h)) -> k_dag (fst e) = d -> ~ In (rekey d' (fst e)) (keys (sst h))).
    { intros e Ie De X. rewrite forallb_forall in P3. specialize (P3 e Ie). rewrite De, String.eqb_refl in P3.
      apply negb_true_iff in P3. apply memk_false in P3. apply P3, IS, X. }
    assert (NDG : NoDup ks).
    { unfold ks. apply (Permutation_NoDup (l := map fst (filter (fun e : sent => String.eqb (k_dag (fst e)) d && in_patk PAll (fst e)) (sfiles (sst h))))).
      - apply Permutation_map, Permutation_sym, (sglob_perm kname _ h H L d PAll R).
      - apply NoDup_map_filter. apply (r_keys _ _ _ _ R). }
    assert (K1 : keys s1 = keys (sst h)) by (apply keys_files; auto).
    assert (CR : forall x, In x (scrash_from s1 (map (fun k => SRename k (rekey d' k)) ks)) ->
                 exists L', R2g false (dead x) (hdead (H_of (h_next H) L')) L' /\ Forall2 (mrel d d') L L').
    { intros x Ix. apply (crash_renames false d d' P1 ks s1 (h_next H) L R1 NDG); auto.
      - intros k Ik. unfold ks in Ik. apply in_map_iff in Ik. destruct Ik as [e [Ee Ie]]. apply GM in Ie. destruct Ie as [If Dg].
        subst k. split; auto. rewrite K1. unfold keys. apply in_map. auto.
      - intros k Ik. unfold ks in Ik. apply in_map_iff in Ik. destruct Ik as [e [Ee Ie]]. apply GM in Ie. destruct Ie as [If Dg].
        subst k. rewrite K1. apply FRESH; auto.
      - apply mkdir_dir_self. }
    change (SMkdir d' :: map (fun k : skey => SRename k (rekey d' k)) ks ++ [SRmdir d])
      with ([SMkdir d'] ++ (map (fun k : skey => SRename k (rekey d' k)) ks ++ [SRmdir d])) in IN.
    apply scrash_app_in in IN. destruct IN as [IN|IN].
    - assert (CL : scrash_from (sst h) [SMkdir d'] = [sst h; s1]) by reflexivity. rewrite CL in IN.
      destruct IN as [X|[X|[]]]; subst s'.
      + exists L. split; auto. rewrite <- (map_id L) at 2. apply Forall2_map_r. intros; left; reflexivity.
      + exists L. split; auto. rewrite <- (map_id L) at 2. apply Forall2_map_r. intros; left; reflexivity.
    - change (run_sprims (sst h) [SMkdir d']) with s1 in IN.
      apply scrash_app_in in IN. destruct IN as [IN|IN]; [apply CR; auto|].
      (* after all renames: the rmdir only touches the directory list *)
      set (s2 := run_sprims s1 (map (fun k => SRename k (rekey d' k)) ks)) in *.
      assert (I2 : In s2 (scrash_from s1 (map (fun k => SRename k (rekey d' k)) ks))) by apply scrash_last.
      destruct (CR s2 I2) as [L' [R' F']].
      assert (CL : scrash_from s2 [SRmdir d] = [s2; run_sprim s2 (SRmdir d)]) by reflexivity. rewrite CL in IN.
      destruct IN as [X|[X|[]]]; subst s'; [exists L'; auto|].
      exists L'. split; auto.
      assert (NOD : forall e, In e (sfiles s2) -> k_dag (fst e) <> d).
      { intros e Ie De. pose proof (r_fst _ _ _ _ R') as RF'. simpl in RF'. rewrite <- RF' in Ie. apply in_map_iff in Ie.
        destruct Ie as [x' [Ex Ix']]. destruct (Forall2_in_r _ _ _ _ F' Ix') as [x [Ix Rx]].
        pose proof (L_frun h H L R x Ix) as [Dx _].
        assert (RK : sfiles s2 = rekey_in d' ks (sfiles s1)).
        { unfold s2. rewrite (run_renames d d' P1 ks s1); auto.
          - rewrite K1. apply (r_keys _ _ _ _ R).
          - intros k Ik. unfold ks in Ik. apply in_map_iff in Ik. destruct Ik as [e0 [Ee Ie0]]. apply GM in Ie0. destruct Ie0 as [If Dg].
            subst k. split; auto. rewrite K1. unfold keys. apply in_map. auto.
          - intros k Ik. unfold ks in Ik. apply in_map_iff in Ik. destruct Ik as [e0 [Ee Ie0]]. apply GM in Ie0. destruct Ie0 as [If Dg].
            subst k. rewrite K1. apply FRESH; auto. }
        assert (Ie2 : In e (sfiles s2)) by (rewrite <- RF'; apply in_map_iff; exists x'; auto).
        rewrite RK in Ie2. unfold rekey_in in Ie2. apply in_map_iff in Ie2. destruct Ie2 as [e0 [E0 I0]]. rewrite F1 in I0.
        destruct (existsb (fun k => skey_eqb k (fst e0)) ks) eqn:EXB.
        - rewrite <- E0 in De. simpl in De. apply P1. auto.
        - rewrite E0 in *. assert (In (fst e) ks). { unfold ks. apply in_map. apply GM. auto. }
          assert (existsb (fun k => skey_eqb k (fst e)) ks = true).
          { apply existsb_exists. exists (fst e). split; auto. apply skey_eqb_refl. } congruence. }
      assert (EMP : sdir_empty s2 d = true).
      { unfold sdir_empty. apply negb_true_iff. apply not_true_is_false. intro X. apply existsb_exists in X.
        destruct X as [e [Ie Ee]]. apply String.eqb_eq in Ee. apply (NOD e Ie Ee). }
      assert (ST : run_sprim s2 (SRmdir d) = {| sdirs := filter (fun x => negb (String.eqb x d)) (sdirs s2); sfiles := sfiles s2 |}).
      { simpl. rewrite EMP. reflexivity. }
      rewrite ST. constructor; simpl; try apply R'.
      intros e Ie. unfold shas_dir. simpl. rewrite existsb_filter_ne. fold (shas_dir s2 (k_dag (fst e))).
      pose proof (r_dirs _ _ _ _ R' e Ie) as RD. simpl in RD. rewrite RD. simpl. apply negb_true_iff. apply String.eqb_neq. apply NOD; auto.
Qed.

Theorem crash_rename h H L seen d d' s' :
  R2 h H L -> hist_okb H = true -> incl (keys (sst h)) seen -> op_okb h seen (ORename d d') = true ->
  hist_okb (sp_apply H (ORename d d')) = true ->
  In s' (scrash_states kname kpath h (ORename d d')) ->
  forall a, In a (h_runs H) -> a_req a <> "" ->
    (a_dag a <> d -> fres_payload (sq_find kname kpath s' (a_dag a) (a_req a)) = last_opt (a_sts a))
    /\ (a_dag a = d ->
         (fres_payload (sq_find kname kpath s' d (a_req a)) = last_opt (a_sts a) /\ fres_payload (sq_find kname kpath s' d' (a_req a)) = None)
         \/ (fres_payload (sq_find kname kpath s' d (a_req a)) = None /\ fres_payload (sq_find kname kpath s' d' (a_req a)) = last_opt (a_sts a))).
Proof.
  intros R O IS P O' IN a Ia Nr.
  pose proof (rename_related h H L seen d d' s' R O IS P IN) as EX.
  simpl in P. apply andb_prop in P. destruct P as [P P3]. apply andb_prop in P. destruct P as [P1 _].
  apply negb_true_iff in P1. apply String.eqb_neq in P1.
  pose proof (R2g_weaken h H L R) as RW. pose proof (R2g_norm false (sst h) H L RW) as RN. simpl in RN.
  (* the prefix state and its pairing *)
  destruct EX as [L' [R' F']].
  assert (OK' : hist_okb (H_of (h_next H) L') = true).
  { apply hist_okb_iff. apply (mixed_hist_ok false (sst h) H L d d' (h_next H) L'); auto. }
  assert (FQ : forall d0 req, fres_payload (sq_find kname kpath s' d0 req) = sp_find (H_of (h_next H) L') d0 req).
  { intros d0 req. apply (find_refines kname kpath false (dead s') (hdead (H_of (h_next H) L')) L' d0 req R' OK'). }
  destruct (run_in_L h H L R a Ia) as [e Le].
  destruct (Forall2_in_l _ _ _ _ F' Le) as [x' [Ix' Rx']].
  pose proof (L_frun h H L R (e, a) Le) as [Da _]. simpl in Da.
  (* no run of the OTHER name carries a's request id *)
  assert (NONE : forall other, a_dag (snd x') <> other -> (other = d \/ other = d') -> (a_dag a = d) ->
                 sp_find (H_of (h_next H) L') other (a_req a) = None).
  { intros other No Oth Dd. unfold sp_find. apply String.eqb_neq in Nr. rewrite Nr. simpl.
    destruct (find (is_run other (a_req a)) (map snd L')) as [b|] eqn:Fb; auto. exfalso.
    apply find_some in Fb. destruct Fb as [Ib Rb]. unfold is_run in Rb.
    apply andb_prop in Rb. destruct Rb as [Rb _]. apply andb_prop in Rb. destruct Rb as [Rb1 Rb2]. apply String.eqb_eq in Rb1, Rb2.
    apply in_map_iff in Ib. destruct Ib as [y' [Ey Iy']]. subst b.
    assert (SAME : a_id (snd x') = a_id (snd y')).
    { pose proof (mixed_hist_ok false (sst h) H L d d' (h_next H) L' P1 RW O O' F') as MO.
      destruct (Forall2_in_r _ _ _ _ F' Iy') as [y [Iy Ry]].
      pose proof (L_in_run h H L R y Iy) as Hy. pose proof (L_frun h H L R y Iy) as [Dy _].
      assert (POST : forall b, In b (h_runs H) -> In (postf d d' b) (h_runs (sp_apply H (ORename d d')))).
      { intros b Ib. simpl. apply in_map_iff. exists b. split; auto. }
      apply hist_okb_iff in O. apply hist_okb_iff in O'.
      destruct Rx' as [Rx'|[Rx1 Rx2]], Ry as [Ry|[Ry1 Ry2]]; subst x' y'; unfold mvd in *; simpl in *.
      - (* both unmoved: a has dag d, y has dag `other` = d' *)
        destruct Oth as [Oth|Oth]; [congruence|].
        assert (PA : postf d d' a = set_dag d' a). { unfold postf. rewrite Dd, String.eqb_refl. reflexivity. }
        assert (PY : postf d d' (snd y) = snd y). { unfold postf. rewrite Rb1, Oth. destruct (String.eqb d' d) eqn:E; auto. apply String.eqb_eq in E. congruence. }
        pose proof (O' _ _ (POST _ Ia) (POST _ Hy)) as Q. rewrite PA, PY in Q. apply Q.
        unfold clash. simpl. rewrite Rb1, Oth, String.eqb_refl, Rb2, String.eqb_refl. reflexivity.
      - (* a unmoved (dag d), y moved (dag d'): both in d BEFORE *)
        apply O; auto. unfold clash. rewrite Dd, <- Dy, Ry1, String.eqb_refl. simpl in Rb2. rewrite Rb2, String.eqb_refl. reflexivity.
      - (* a moved (dag d'), y unmoved with dag `other` = d: both in d BEFORE *)
        destruct Oth as [Oth|Oth]; [|congruence].
        apply O; auto. unfold clash. rewrite Dd, Rb1, Oth, String.eqb_refl, Rb2, String.eqb_refl. reflexivity.
      - (* both moved: y' has dag d' = other, but a's image has dag d' too *)
        exfalso. apply No. simpl in Rb1. exact Rb1. }
    assert (x' = y') by (apply (L_id_unique (dead s') (hdead (H_of (h_next H) L')) L' R'); auto).
    subst y'. apply No. exact Rb1. }
  assert (OWN : sp_find (H_of (h_next H) L') (a_dag (snd x')) (a_req a) = last_opt (a_sts a)).
  { destruct x' as [e' a']. simpl in *.
    assert (EA : a_req a' = a_req a /\ a_sts a' = a_sts a).
    { destruct Rx' as [Rx'|[_ Rx']]; inversion Rx'; subst; auto. }
    destruct EA as [E1 E2]. rewrite <- E1, <- E2.
    apply (sp_find_run false (dead s') (hdead (H_of (h_next H) L')) L' e' a' R' OK' Ix'). congruence. }
  split.
  - intros Nd. rewrite FQ. destruct Rx' as [Rx'|[Rx1 _]]; [subst x'; exact OWN | simpl in Rx1; congruence].
  - intros Dd. destruct Rx' as [Rx'|[Rx1 Rx2]].
    + subst x'. simpl in *. left. rewrite !FQ. rewrite <- Dd. split; [exact OWN|]. apply NONE; auto. rewrite Dd. auto.
    + subst x'. unfold mvd in *. simpl in *. right. rewrite !FQ. split; [|exact OWN]. apply NONE; auto.
Qed.


(* the exact characterisation: a kill inside Rename (one rename(2) per history file) leaves SOME of the runs of d already moved to d';
   ALL queries - under the old name, the new name and every other DAG - answer as that intermediate run map says: every run is found
   under exactly one of the two names, and latest / recent of each name list the runs that are currently there.
   Full before-or-after atomicity is false here (ProofsC07Ex.rename_not_atomic). *)
Lemma Forall2_map_in {A B A' B'} (P : A -> B -> Prop) (Q : A' -> B' -> Prop) (f : A -> A') (g : B -> B') l l' :
  Forall2 P l l' -> (forall x y, In x l -> P x y -> Q (f x) (g y)) -> Forall2 Q (map f l) (map g l').
Proof. induction 1; simpl; intros Hq; constructor; auto. Qed.
Definition rrel (d d' : string) (a a' : arun) : Prop := a' = a \/ (a_dag a = d /\ a' = set_dag d' a).
Theorem crash_rename_full h H L seen d d' s' :
  R2 h H L -> hist_okb H = true -> incl (keys (sst h)) seen -> op_okb h seen (ORename d d') = true ->
  hist_okb (sp_apply H (ORename d d')) = true ->
  In s' (scrash_states kname kpath h (ORename d d')) ->
  exists H', answers_as s' H' /\ hist_okb H' = true
    /\ exists l, Permutation l (h_runs H) /\ Forall2 (rrel d d') l (h_runs H').
Proof.
  intros R O IS P O' IN.
  destruct (rename_related h H L seen d d' s' R O IS P IN) as [L' [R' F']].
  simpl in P. apply andb_prop in P. destruct P as [P P3]. apply andb_prop in P. destruct P as [P1 _].
  apply negb_true_iff in P1. apply String.eqb_neq in P1.
  pose proof (R2g_weaken h H L R) as RW.
  assert (OK' : hist_okb (H_of (h_next H) L') = true).
  { apply hist_okb_iff. apply (mixed_hist_ok false (sst h) H L d d' (h_next H) L'); auto. }
  exists (H_of (h_next H) L'). split; [apply (R2g_answers false s' _ L'); auto|]. split; auto.
  exists (map snd L). split; [apply (r_snd _ _ _ _ R)|]. simpl.
  apply (Forall2_map_in (mrel d d') (rrel d d') snd snd L L'); auto.
  intros x x' Ix Rx. destruct Rx as [Rx|[Dx Rx]]; subst x'; [left; reflexivity|]. right. unfold mvd. simpl. split; [|reflexivity].
  pose proof (L_frun h H L R x Ix) as [Fd _]. congruence.
Qed.

End K.
