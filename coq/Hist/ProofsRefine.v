(* Hist/ProofsRefine.v - L1 ~ spec: the structured model of the history store (Hist/SModel.v) refines the run map
   (Hist/Spec.v).  A simulation relation R2 pairs every file of the store with one run of the specification
   (same DAG, start stamp, request id; the file parses to the run's last status; no torn tail; same age) and is
   preserved by every operation (`step_sim`), for ALL operation sequences by induction (`run_sim`), under the
   decidable premises `ops_okb`:
     - after every operation the runs of one DAG have pairwise distinct request ids and pairwise distinct start
       stamps (yyyymmdd.hh:mm:ss.mmm - since e6d6379 the ordering sees the milliseconds)        [hist_okb]
     - a path is never re-created (keys created by open / close / rename are new)             [op_okb, ghost `seen`]
     - rename (of a DAG to a different one) and retention are not applied to the DAG whose run is being recorded
     - recorded statuses have a positive size
   The three queries answer what the specification says (`find_refines`, `latest_refines`, `recent_refines`). *)
From Coq Require Import List String Ascii Bool Arith ZArith Lia Permutation.
Import ListNotations.
From BD.Hist Require Import Model SModel Spec ProofsLib ProofsStore.
Open Scope string_scope.
Open Scope list_scope.

Section F.
Variable kname : skey -> string.
Variable kpath : skey -> string.

(* ---- the decidable premises ---------------------------------------------------------------------------- *)
Definition memk (k : skey) (l : list skey) : bool := existsb (skey_eqb k) l.
Lemma memk_false k l : memk k l = false <-> ~ In k l.
Proof.
  unfold memk. split.
  - intros H I. assert (existsb (skey_eqb k) l = true). { apply existsb_exists. exists k. split; auto. apply skey_eqb_refl. } congruence.
  - intros N. apply not_true_is_false. intro H. apply existsb_exists in H. destruct H as [x [I E]]. apply skey_eqb_eq in E. subst. auto.
Qed.

Definition same_run_key (d stamp r8 : string) (k : skey) : bool :=
  String.eqb (k_dag k) d && String.eqb (k_stamp k) stamp && String.eqb (k_r8 k) r8.
Definition wr_off (h : sstate) (d : string) : bool :=
  match swr h with Some w => negb (String.eqb (k_dag (sw_key w)) d) | None => true end.

Definition op_okb (h : sstate) (seen : list skey) (o : op) : bool :=
  match o with
  | OOpen d stamp req now =>
      negb (memk (mkkey d stamp (trunc8 req) false) seen) && negb (memk (mkkey d stamp (trunc8 req) true) seen)
  | OWrite tag size now => (0 <? size)%Z
  | OClose now => match swr h with
                  | Some w => negb (memk (twin (sw_key w)) seen) && negb (memk (tmpk (twin (sw_key w))) seen)
                  | None => true end
  | OUpdate d req tag size now => (0 <? size)%Z
  | ORename d d' =>
      negb (String.eqb d d') && wr_off h d
      && forallb (fun e => if String.eqb (k_dag (fst e)) d then negb (memk (rekey d' (fst e)) seen) else true) (sfiles (sst h))
  | ORemoveOld d cutoff => wr_off h d
  | OTouch d stamp r8 c t =>
      shas (sst h) (mkkey d stamp r8 c) || negb (existsb (fun e => same_run_key d stamp r8 (fst e)) (sfiles (sst h)))
  end.

(* runs of one DAG: pairwise distinct request ids, pairwise distinct start seconds *)
Definition clash (a b : arun) : bool :=
  String.eqb (a_dag a) (a_dag b) && (String.eqb (a_req a) (a_req b) || String.eqb (a_stamp a) (a_stamp b)).
Definition hist_okb (H : hist) : bool :=
  forallb (fun a => forallb (fun b => implb (clash a b) (Nat.eqb (a_id a) (a_id b))) (h_runs H)) (h_runs H).

Record gstate := { g_h : sstate; g_seen : list skey }.
Definition g_init : gstate := {| g_h := s_init; g_seen := [] |}.
Definition gapply (g : gstate) (o : op) : gstate :=
  let h' := sapply kname kpath (g_h g) o in {| g_h := h'; g_seen := g_seen g ++ keys (sst h') |}.
Definition grun (g : gstate) (os : list op) : gstate := fold_left gapply os g.
Fixpoint ops_okb (g : gstate) (H : hist) (os : list op) : bool :=
  match os with
  | [] => true
  | o :: r => op_okb (g_h g) (g_seen g) o && hist_okb (sp_apply H o) && ops_okb (gapply g o) (sp_apply H o) r
  end.

(* ---- the simulation relation ------------------------------------------------------------------------------ *)
(* st = true: the relation of crash-free states (no torn tail, the file's age is the run's age);
   st = false: what the queries need - it also relates the states a crash leaves behind (ProofsCrash.v) *)
Definition frun (st : bool) (e : sent) (a : arun) : Prop :=
  k_dag (fst e) = a_dag a /\ k_stamp (fst e) = a_stamp a /\ k_r8 (fst e) = trunc8 (a_req a)
  /\ parse (snd e) = last_opt (a_sts a) /\ (st = true -> ftail (snd e) = TNone) /\ (st = true -> mtime (snd e) = a_mtime a)
  /\ Forall (fun p => p_req p = a_req a) (a_sts a).

Definition pairing := list (sent * arun).

Definition wr_ok (L : pairing) (w : option swriter) (cur : option nat) : Prop :=
  match w, cur with
  | None, None => True
  | Some w, Some id =>
      sw_fd w = Some (sw_key w) /\ k_c (sw_key w) = false
      /\ exists e a, In (e, a) L /\ fst e = sw_key w /\ a_id a = id /\ sw_req w = a_req a
  | _, _ => False
  end.

Record R2g (st : bool) (h : sstate) (H : hist) (L : pairing) : Prop := {
  r_fst : map fst L = sfiles (sst h);
  r_snd : Permutation (map snd L) (h_runs H);
  r_frun : Forall (fun x => frun st (fst x) (snd x)) L;
  r_wr : wr_ok L (swr h) (h_cur H);
  r_keys : NoDup (keys (sst h));
  r_ids : NoDup (map a_id (h_runs H));
  r_idlt : forall a, In a (h_runs H) -> (a_id a < h_next H)%nat;
  r_dirs : forall e, In e (sfiles (sst h)) -> shas_dir (sst h) (k_dag (fst e)) = true;
  r_plain : forall e, In e (sfiles (sst h)) -> k_tmp (fst e) = false      (* no temporary copy is left behind *)
}.

Notation R2 := (R2g true).

Lemma R2_init : R2 s_init hist_init [].
Proof. constructor; simpl; auto; try constructor; try tauto. Qed.

(* ---- consequences of the relation -------------------------------------------------------------------------- *)
Section Facts.
Variables (st : bool) (h : sstate) (H : hist) (L : pairing).
Hypothesis R : R2g st h H L.

Lemma L_keys : map fst (map fst L) = keys (sst h).
Proof. unfold keys. rewrite (r_fst _ _ _ _ R). auto. Qed.
Lemma L_in_file x : In x L -> In (fst x) (sfiles (sst h)).
Proof. intros I. rewrite <- (r_fst _ _ _ _ R). apply in_map. auto. Qed.
Lemma L_in_run x : In x L -> In (snd x) (h_runs H).
Proof. intros I. eapply Permutation_in; [apply (r_snd _ _ _ _ R)|]. apply in_map. auto. Qed.
Lemma L_frun x : In x L -> frun st (fst x) (snd x).
Proof. intros I. pose proof (r_frun _ _ _ _ R) as F. rewrite Forall_forall in F. auto. Qed.
Lemma L_ids_nodup : NoDup (map a_id (map snd L)).
Proof. eapply Permutation_NoDup; [|apply (r_ids _ _ _ _ R)]. apply Permutation_map, Permutation_sym, (r_snd _ _ _ _ R). Qed.
Lemma L_key_unique x y : In x L -> In y L -> fst (fst x) = fst (fst y) -> x = y.
Proof.
  intros Ix Iy E. apply (NoDup_map_inj (fun z : sent * arun => fst (fst z)) L); auto.
  replace (map (fun z : sent * arun => fst (fst z)) L) with (map fst (map fst L)) by (rewrite map_map; reflexivity).
  rewrite L_keys. apply (r_keys _ _ _ _ R).
Qed.
Lemma L_id_unique x y : In x L -> In y L -> a_id (snd x) = a_id (snd y) -> x = y.
Proof.
  intros Ix Iy E. apply (NoDup_map_inj (fun z : sent * arun => a_id (snd z)) L); auto.
  replace (map (fun z : sent * arun => a_id (snd z)) L) with (map a_id (map snd L)) by (rewrite map_map; reflexivity).
  apply L_ids_nodup.
Qed.
Lemma run_in_L a : In a (h_runs H) -> exists e, In (e, a) L.
Proof.
  intros I. eapply Permutation_in in I; [|apply Permutation_sym, (r_snd _ _ _ _ R)].
  apply in_map_iff in I. destruct I as [[e a'] [E I]]. simpl in E. subst. eauto.
Qed.
Lemma file_in_L e : In e (sfiles (sst h)) -> exists a, In (e, a) L.
Proof.
  intros I. rewrite <- (r_fst _ _ _ _ R) in I. apply in_map_iff in I. destruct I as [[e' a] [E I]]. simpl in E. subst. eauto.
Qed.
Lemma L_sget e a : In (e, a) L -> sget (sst h) (fst e) = Some (snd e).
Proof.
  intros I. apply in_sget. { apply (r_keys _ _ _ _ R). } apply L_in_file in I. simpl in I. destruct e; auto.
Qed.
Lemma run_unique a b : In a (h_runs H) -> In b (h_runs H) -> a_id a = a_id b -> a = b.
Proof. intros. apply (NoDup_map_inj a_id (h_runs H)); auto. apply (r_ids _ _ _ _ R). Qed.
End Facts.
Arguments L_keys {st}. Arguments L_in_file {st}. Arguments L_in_run {st}. Arguments L_frun {st}. Arguments L_ids_nodup {st}.
Arguments L_key_unique {st}. Arguments L_id_unique {st}. Arguments run_in_L {st}. Arguments file_in_L {st}. Arguments L_sget {st}.
Arguments run_unique {st}.

Lemma hist_ok_prop H a b : hist_okb H = true -> NoDup (map a_id (h_runs H)) -> In a (h_runs H) -> In b (h_runs H) ->
  a_dag a = a_dag b -> (a_req a = a_req b \/ a_stamp a = a_stamp b) -> a = b.
Proof.
  intros O N Ia Ib Ed C. unfold hist_okb in O. rewrite forallb_forall in O. specialize (O a Ia).
  rewrite forallb_forall in O. specialize (O b Ib).
  assert (CL : clash a b = true).
  { unfold clash. apply andb_true_intro. split. { apply String.eqb_eq; auto. }
    apply orb_true_iff. destruct C; [left|right]; apply String.eqb_eq; auto. }
  rewrite CL in O. simpl in O. apply Nat.eqb_eq in O. apply (NoDup_map_inj a_id (h_runs H)); auto.
Qed.


(* ---- helpers on the run list -------------------------------------------------------------------------------- *)
Definition pres (f : arun -> arun) : Prop := forall a, a_id (f a) = a_id a /\ a_req (f a) = a_req a.
Lemma pres_add p now : pres (add_status p now).  Proof. intros a; split; reflexivity. Qed.
Lemma pres_mtime t : pres (set_mtime t).  Proof. intros a; split; reflexivity. Qed.
Lemma pres_dag d : pres (set_dag d).  Proof. intros a; split; reflexivity. Qed.

Lemma upd_run_ids id f l : pres f -> map a_id (upd_run id f l) = map a_id l.
Proof. intros P. unfold upd_run. rewrite map_map. apply map_ext. intros a. destruct (Nat.eqb (a_id a) id); auto. apply P. Qed.
Lemma upd_run_in id f l a' : In a' (upd_run id f l) -> exists a, In a l /\ (a' = a \/ a' = f a).
Proof. unfold upd_run. intros I. apply in_map_iff in I. destruct I as [a [E I]]. exists a. destruct (Nat.eqb (a_id a) id); subst; auto. Qed.
Lemma get_run_unique id l a : NoDup (map a_id l) -> In a l -> a_id a = id -> get_run id l = Some a.
Proof.
  unfold get_run. induction l as [|b l IH]; simpl; intros N I E; [tauto|]. inversion N as [|? ? Hn Hd]; subst.
  destruct I as [I|I].
  - subst. rewrite Nat.eqb_refl. auto.
  - destruct (Nat.eqb (a_id b) (a_id a)) eqn:Eb.
    + apply Nat.eqb_eq in Eb. exfalso. apply Hn. rewrite Eb. apply in_map. auto.
    + apply IH; auto.
Qed.

(* ---- a generic update of one paired (file, run) ---------------------------------------------------------------- *)
Definition upd_pair (k : skey) (g : file -> file) (f : arun -> arun) (x : sent * arun) : sent * arun :=
  if skey_eqb k (fst (fst x)) then ((k, g (snd (fst x))), f (snd x)) else x.

Lemma pair_pick st h H L k id e0 a0 : R2g st h H L -> In (e0, a0) L -> fst e0 = k -> a_id a0 = id ->
  forall x, In x L -> skey_eqb k (fst (fst x)) = Nat.eqb (a_id (snd x)) id.
Proof.
  intros R I0 Ek Ei x Ix. destruct (skey_eqb k (fst (fst x))) eqn:E1.
  - apply skey_eqb_eq in E1. assert (x = (e0, a0)). { apply (L_key_unique h H L R); auto. simpl. congruence. }
    subst x. simpl. symmetry. apply Nat.eqb_eq. auto.
  - destruct (Nat.eqb (a_id (snd x)) id) eqn:E2; auto. apply Nat.eqb_eq in E2.
    assert (x = (e0, a0)). { apply (L_id_unique h H L R); auto. simpl. congruence. }
    subst x. simpl in E1. rewrite Ek, skey_eqb_refl in E1. discriminate.
Qed.

Lemma R2_update st h H L k id g f h' H' e0 a0 :
  R2g st h H L -> In (e0, a0) L -> fst e0 = k -> a_id a0 = id -> frun st (k, g (snd e0)) (f a0) -> pres f ->
  sst h' = {| sdirs := sdirs (sst h); sfiles := upd_key k g (sfiles (sst h)) |} ->
  h_runs H' = upd_run id f (h_runs H) -> h_next H' = h_next H ->
  ((swr h' = swr h /\ h_cur H' = h_cur H) \/ (swr h' = None /\ h_cur H' = None)) ->
  R2g st h' H' (map (upd_pair k g f) L).
Proof.
  intros R I0 Ek Ei FR P ES ER EN EW.
  pose proof (pair_pick _ h H L k id e0 a0 R I0 Ek Ei) as PK.
  constructor.
  - rewrite ES. simpl. rewrite <- (r_fst _ _ _ _ R). unfold upd_key, upd_pair. rewrite !map_map. apply map_ext.
    intros x. simpl. destruct (skey_eqb k (fst (fst x))); auto.
  - rewrite ER. eapply Permutation_trans; [|apply Permutation_map, (r_snd _ _ _ _ R)].
    unfold upd_run. rewrite !map_map. apply Permutation_refl'. apply map_ext_in. intros x Ix.
    unfold upd_pair. rewrite (PK x Ix). destruct (Nat.eqb (a_id (snd x)) id); auto.
  - apply Forall_forall. intros y Iy. apply in_map_iff in Iy. destruct Iy as [x [E Ix]]. subst y.
    unfold upd_pair. destruct (skey_eqb k (fst (fst x))) eqn:E1.
    + apply skey_eqb_eq in E1. assert (x = (e0, a0)). { apply (L_key_unique h H L R); auto. simpl. congruence. }
      subst x. simpl. auto.
    + apply (L_frun h H L R); auto.
  - destruct EW as [[EW1 EW2]|[EW1 EW2]]; rewrite EW1, EW2; [|simpl; auto].
    pose proof (r_wr _ _ _ _ R) as W. unfold wr_ok in *. destruct (swr h) as [w|], (h_cur H) as [c|]; auto.
    destruct W as [W1 [W2 [e [a [I [E1 [E2 E3]]]]]]]. split; auto. split; auto.
    exists (fst (upd_pair k g f (e, a))), (snd (upd_pair k g f (e, a))).
    split. { rewrite <- surjective_pairing. apply in_map. auto. }
    unfold upd_pair. simpl. destruct (skey_eqb k (fst e)) eqn:E4; simpl; auto.
    apply skey_eqb_eq in E4. destruct (P a) as [P1 P2]. repeat split; congruence.
  - rewrite ES. unfold keys. simpl. rewrite upd_key_keys. apply (r_keys _ _ _ _ R).
  - rewrite ER, upd_run_ids by auto. apply (r_ids _ _ _ _ R).
  - rewrite ER, EN. intros a Ia. apply upd_run_in in Ia. destruct Ia as [b [Ib [E|E]]]; subst.
    + apply (r_idlt _ _ _ _ R); auto.
    + destruct (P b) as [P1 _]. rewrite P1. apply (r_idlt _ _ _ _ R); auto.
  - rewrite ES. simpl. intros e Ie. unfold shas_dir. simpl. unfold upd_key in Ie. apply in_map_iff in Ie.
    destruct Ie as [e1 [E I1]]. pose proof (r_dirs _ _ _ _ R e1 I1) as Dd. unfold shas_dir in Dd.
    destruct (skey_eqb k (fst e1)) eqn:E5; subst; auto. simpl. apply skey_eqb_eq in E5. rewrite E5. auto.
  - rewrite ES. simpl. intros e Ie. unfold upd_key in Ie. apply in_map_iff in Ie. destruct Ie as [e1 [E I1]].
    pose proof (r_plain _ _ _ _ R e1 I1) as Tp.
    destruct (skey_eqb k (fst e1)) eqn:E5; subst; auto. simpl. apply skey_eqb_eq in E5. rewrite E5. auto.
Qed.

(* R2 only looks at the components *)
Lemma R2_same st h H L h' H' :
  R2g st h H L -> sst h' = sst h -> swr h' = swr h -> h_runs H' = h_runs H -> h_cur H' = h_cur H -> h_next H' = h_next H -> R2g st h' H' L.
Proof.
  intros R E1 E2 E3 E4 E5. destruct R. constructor; rewrite ?E1, ?E2, ?E3, ?E4, ?E5; auto.
Qed.


(* ---- directories ------------------------------------------------------------------------------------------------ *)
Lemma shas_dir_app s d d0 : shas_dir {| sdirs := sdirs s ++ [d]; sfiles := sfiles s |} d0 = (shas_dir s d0 || String.eqb d0 d)%bool.
Proof. unfold shas_dir. simpl. rewrite existsb_app. simpl. rewrite orb_false_r. reflexivity. Qed.
Lemma mkdir_files s d : sfiles (run_sprim s (SMkdir d)) = sfiles s.
Proof. simpl. destruct (shas_dir s d); reflexivity. Qed.
Lemma mkdir_dir_mono s d d0 : shas_dir s d0 = true -> shas_dir (run_sprim s (SMkdir d)) d0 = true.
Proof. intros H. simpl. destruct (shas_dir s d) eqn:E; auto. rewrite shas_dir_app, H. reflexivity. Qed.
Lemma mkdir_dir_self s d : shas_dir (run_sprim s (SMkdir d)) d = true.
Proof. simpl. destruct (shas_dir s d) eqn:E; auto. rewrite shas_dir_app, String.eqb_refl. apply orb_true_r. Qed.
Lemma mkdir_noop s d : shas_dir s d = true -> run_sprim s (SMkdir d) = s.
Proof. intros H. simpl. rewrite H. reflexivity. Qed.
Lemma shas_files s s' k : sfiles s = sfiles s' -> shas s k = shas s' k.
Proof. unfold shas, sget. intros E. rewrite E. reflexivity. Qed.
Lemma create_fresh s k now : ~ In k (keys s) ->
  run_sprim s (SCreate k now) = {| sdirs := sdirs s; sfiles := sfiles s ++ [(k, empty_file now)] |}.
Proof. intros N. simpl. apply shas_false in N. rewrite N. reflexivity. Qed.
Lemma create_noop s k now : In k (keys s) -> run_sprim s (SCreate k now) = s.
Proof. intros I. simpl. apply shas_true in I. rewrite I. reflexivity. Qed.
Lemma keys_files s s' : sfiles s = sfiles s' -> keys s = keys s'.
Proof. unfold keys. intros E. rewrite E. reflexivity. Qed.
Lemma strack_appends k now cs fd : fold_left strack_fd (map (fun c => SAppend k c now) cs) fd = fd.
Proof. induction cs; simpl; auto. destruct fd; simpl; auto. Qed.

Lemma last_opt_nil {A} : @last_opt A [] = None.  Proof. reflexivity. Qed.
Lemma last_opt_snoc {A} (l : list A) x : last_opt (l ++ [x]) = Some x.
Proof. unfold last_opt. apply last_opt_app. Qed.
Lemma last_opt_none {A} (l : list A) : last_opt l = None -> l = [].
Proof.
  destruct l as [|a l]; auto. intros H. exfalso. revert a H. induction l as [|b l IH]; intros a H; simpl in *; [discriminate|].
  apply (IH b). exact H.
Qed.

(* ---- Open ---------------------------------------------------------------------------------------------------------- *)
Lemma sim_open h H L seen d stamp req now :
  R2 h H L -> incl (keys (sst h)) seen -> op_okb h seen (OOpen d stamp req now) = true ->
  exists L', R2 (sapply kname kpath h (OOpen d stamp req now)) (sp_apply H (OOpen d stamp req now)) L'.
Proof.
  intros R IS O. simpl in O. apply andb_prop in O. destruct O as [O1 _]. apply negb_true_iff in O1. apply memk_false in O1.
  set (k := mkkey d stamp (trunc8 req) false) in *.
  assert (Nk : ~ In k (keys (sst h))) by (intro I; apply O1, IS, I).
  set (a := {| a_id := h_next H; a_dag := d; a_stamp := stamp; a_req := req; a_sts := []; a_mtime := now |}).
  exists (L ++ [((k, empty_file now), a)]).
  assert (SA : sapply kname kpath h (OOpen d stamp req now)
               = {| sst := run_sprim (run_sprim (sst h) (SMkdir d)) (SCreate k now);
                    swr := Some {| sw_key := k; sw_fd := Some k; sw_req := req |}; scch := scch h |}).
  { unfold sapply. cbn [sprims]. fold k. rewrite (sopen_fresh (sst h) k now Nk). reflexivity. }
  rewrite SA.
  set (s1 := run_sprim (sst h) (SMkdir d)).
  assert (F1 : sfiles s1 = sfiles (sst h)) by apply mkdir_files.
  assert (Nk1 : ~ In k (keys s1)) by (rewrite (keys_files s1 (sst h)); auto).
  rewrite (create_fresh s1 k now Nk1).
  constructor; simpl.
  - rewrite map_app, F1. simpl. rewrite (r_fst _ _ _ _ R). reflexivity.
  - rewrite map_app. simpl. apply Permutation_app_tail. apply (r_snd _ _ _ _ R).
  - apply Forall_app. split. { apply (r_frun _ _ _ _ R). }
    constructor; [|constructor]. unfold frun. simpl. repeat split; auto.
  - split; auto. split; auto. exists (k, empty_file now), a. repeat split; auto. apply in_or_app. right. simpl. auto.
  - unfold keys. simpl. rewrite map_app, F1. simpl.
    apply (Permutation_NoDup (l := k :: keys (sst h))). { apply Permutation_cons_append. }
    constructor; auto. apply (r_keys _ _ _ _ R).
  - rewrite map_app. simpl.
    apply (Permutation_NoDup (l := h_next H :: map a_id (h_runs H))). { apply Permutation_cons_append. }
    constructor; [|apply (r_ids _ _ _ _ R)].
    intro I. apply in_map_iff in I. destruct I as [b [E I]]. apply (r_idlt _ _ _ _ R) in I. lia.
  - intros b I. apply in_app_or in I. destruct I as [I|[I|[]]].
    + apply (r_idlt _ _ _ _ R) in I. lia.
    + subst b. simpl. lia.
  - intros e I. unfold shas_dir. simpl. fold (shas_dir s1 (k_dag (fst e))).
    apply in_app_or in I. destruct I as [I|[I|[]]].
    + rewrite F1 in I. apply mkdir_dir_mono. apply (r_dirs _ _ _ _ R); auto.
    + subst e. simpl. apply mkdir_dir_self.
  - intros e I. apply in_app_or in I. destruct I as [I|[I|[]]].
    + rewrite F1 in I. apply (r_plain _ _ _ _ R); auto.
    + subst e. reflexivity.
Qed.

(* ---- Write ---------------------------------------------------------------------------------------------------------- *)
Lemma sim_write h H L seen tag size now :
  R2 h H L -> op_okb h seen (OWrite tag size now) = true ->
  exists L', R2 (sapply kname kpath h (OWrite tag size now)) (sp_apply H (OWrite tag size now)) L'.
Proof.
  intros R O. pose proof (r_wr _ _ _ _ R) as W. unfold wr_ok in W.
  unfold sapply. simpl sprims. simpl sp_apply.
  destruct (swr h) as [w|] eqn:EW, (h_cur H) as [id|] eqn:EC; try contradiction.
  2:{ exists L. eapply R2_same; eauto; simpl; auto; try (rewrite EW; reflexivity). }
  destruct W as [W1 [W2 [e0 [a0 [I0 [E1 [E2 E3]]]]]]]. rewrite W1.
  rewrite (get_run_unique id (h_runs H) a0); auto.
  2:{ apply (r_ids _ _ _ _ R). } 2:{ apply (L_in_run h H L R (e0, a0)); auto. }
  rewrite <- E3.
  set (p := {| p_req := sw_req w; p_tag := tag; p_size := size |}).
  rewrite run_appends.
  exists (map (upd_pair (sw_key w) (appends (chunks_of p) now) (add_status p now)) L).
  eapply (R2_update true h H L (sw_key w) id); eauto.
  - pose proof (L_frun h H L R (e0, a0) I0) as FR. simpl in FR. destruct FR as [F1 [F2 [F3 [F4 [F5 [F6 F7]]]]]].
    rewrite appends_status by auto. unfold frun. simpl. rewrite <- E1.
    repeat split; auto.
    + rewrite parse_rec_snoc, last_opt_snoc. reflexivity.
    + apply Forall_app. split; auto.
  - apply pres_add.
  - left. simpl. split; auto. rewrite EW. simpl. rewrite strack_appends, W1. destruct w; simpl in *. subst. reflexivity.
Qed.


(* ---- the glob of one DAG, up to order ------------------------------------------------------------------------------- *)
Lemma NoDup_sfiles s : NoDup (keys s) -> NoDup (sfiles s).
Proof. unfold keys. apply NoDup_map_inv. Qed.

Lemma sglob_perm st h H L d pk : R2g st h H L ->
  Permutation (sglob kname (sst h) d pk) (filter (fun e => String.eqb (k_dag (fst e)) d && in_patk pk (fst e)) (sfiles (sst h))).
Proof.
  intros R. unfold sglob. destruct (shas_dir (sst h) d) eqn:E.
  - rewrite <- filter_filter. apply Permutation_filter. apply isort_perm.
  - assert (Z : filter (fun e => String.eqb (k_dag (fst e)) d && in_patk pk (fst e)) (sfiles (sst h)) = []).
    { destruct (filter _ _) as [|e r] eqn:F; auto. exfalso.
      assert (I : In e (e :: r)) by (simpl; auto). rewrite <- F in I. apply filter_In in I. destruct I as [I P].
      apply andb_prop in P. destruct P as [P _]. apply String.eqb_eq in P.
      pose proof (r_dirs _ _ _ _ R e I) as Dd. rewrite P in Dd. congruence. }
    rewrite Z. constructor.
Qed.

Lemma last_opt_in {A} (l : list A) x : last_opt l = Some x -> In x l.
Proof.
  unfold last_opt. induction l as [|a l IH]; simpl; [discriminate|]. destruct l as [|b l]; simpl in *.
  - intros E. inversion E. auto.
  - intros E. right. apply IH. exact E.
Qed.

Lemma frun_req st e a p : frun st e a -> parse (snd e) = Some p -> p_req p = a_req a /\ a_sts a <> [].
Proof.
  intros [_ [_ [_ [F4 [_ [_ F7]]]]]] P. rewrite P in F4. symmetry in F4. split.
  - apply last_opt_in in F4. rewrite Forall_forall in F7. auto.
  - intro E. rewrite E in F4. discriminate.
Qed.

(* ---- FindByRequestID ------------------------------------------------------------------------------------------------ *)
Definition reqP (req : string) (e : sent) : bool :=
  match parse (snd e) with Some pl => String.eqb (p_req pl) req | None => false end.
Definition pick_first (l : list sent) : sfres :=
  match l with [] => SFNone | e :: _ => match parse (snd e) with Some pl => SFFound (fst e) pl | None => SFNone end end.
Lemma sfind_in_eq l req : sfind_in kpath l req =
  if String.eqb req "" then SFNone
  else pick_first (filter (reqP req) (rev (isort (fun x y : sent => String.ltb (kpath (fst x)) (kpath (fst y))) l))).
Proof. reflexivity. Qed.
Lemma find_refines_pair st h H L d req : R2g st h H L -> hist_okb H = true ->
  match sq_find kname kpath (sst h) d req with
  | SFFound k p => req <> "" /\ exists e a, In (e, a) L /\ fst e = k /\ parse (snd e) = Some p /\ k_dag k = d
                                          /\ find (is_run d req) (h_runs H) = Some a
  | SFNone => req = "" \/ find (is_run d req) (h_runs H) = None
  end.
Proof.
  intros R O. unfold sq_find. rewrite sfind_in_eq. destruct (String.eqb req "") eqn:Er. { apply String.eqb_eq in Er. auto. }
  apply String.eqb_neq in Er.
  set (P := reqP req).
  set (Fd := filter (fun e : sent => String.eqb (k_dag (fst e)) d && in_patk PAll (fst e)) (sfiles (sst h))).
  set (l' := rev (isort (fun x y : sent => String.ltb (kpath (fst x)) (kpath (fst y))) (sglob kname (sst h) d PAll))).
  assert (PM : Permutation Fd l').
  { unfold l'. eapply Permutation_trans; [|apply Permutation_rev]. apply Permutation_sym.
    eapply Permutation_trans; [apply isort_perm|]. apply (sglob_perm _ h H L _ _ R). }
  assert (REQ : forall e a, In (e, a) L -> P e = true -> a_req a = req /\ a_sts a <> []).
  { intros e a I Pe. unfold P, reqP in Pe. destruct (parse (snd e)) eqn:Ep; [|discriminate]. apply String.eqb_eq in Pe.
    pose proof (L_frun h H L R (e, a) I) as FR. simpl in FR. destruct (frun_req _ e a p FR Ep). split; congruence. }
  assert (DAG : forall e a, In (e, a) L -> k_dag (fst e) = a_dag a).
  { intros e a I. pose proof (L_frun h H L R (e, a) I) as FR. apply FR. }
  assert (FDI : forall e, In e Fd -> In e (sfiles (sst h)) /\ k_dag (fst e) = d).
  { intros e I. apply filter_In in I. destruct I as [I Q]. apply andb_prop in Q. destruct Q as [Q _]. apply String.eqb_eq in Q. auto. }
  assert (UQ : forall x y, In x Fd -> In y Fd -> P x = true -> P y = true -> x = y).
  { intros x y Ix Iy Px Py. destruct (FDI x Ix) as [Fx Dx], (FDI y Iy) as [Fy Dy].
    destruct (file_in_L h H L R x Fx) as [ax Lx], (file_in_L h H L R y Fy) as [ay Ly].
    destruct (REQ x ax Lx Px) as [Rx _], (REQ y ay Ly Py) as [Ry _].
    assert (ax = ay).
    { apply (hist_ok_prop H); auto. apply (r_ids _ _ _ _ R).
      apply (L_in_run h H L R (x, ax)); auto. apply (L_in_run h H L R (y, ay)); auto.
      rewrite <- (DAG x ax), <- (DAG y ay); auto. congruence. left. congruence. }
    subst ay. assert (E : (x, ax) = (y, ax)) by (apply (L_id_unique h H L R); auto). inversion E. auto. }
  assert (ND : NoDup Fd). { apply NoDup_filter, NoDup_sfiles, (r_keys _ _ _ _ R). }
  fold l'. rewrite <- (filter_unique_perm P Fd l' PM UQ ND).
  destruct (filter P Fd) as [|e r] eqn:FP; unfold pick_first.
  - right. destruct (find (is_run d req) (h_runs H)) as [a|] eqn:Ff; auto. exfalso.
    apply find_some in Ff. destruct Ff as [Ia Ra]. unfold is_run in Ra.
    apply andb_prop in Ra. destruct Ra as [Ra R3]. apply andb_prop in Ra. destruct Ra as [R1 R2'].
    apply String.eqb_eq in R1, R2'.
    destruct (run_in_L h H L R a Ia) as [e Le].
    pose proof (L_frun h H L R (e, a) Le) as FR. simpl in FR. destruct FR as [F1 [F2 [F3 [F4 [F5 [F6 F7]]]]]].
    assert (In e (filter P Fd)).
    { apply filter_In. split.
      - apply filter_In. split. { apply (L_in_file h H L R (e, a)); auto. } rewrite F1, R1, String.eqb_refl.
        unfold in_patk. rewrite (r_plain _ _ _ _ R e). { reflexivity. } apply (L_in_file h H L R (e, a)); auto.
      - unfold P, reqP. rewrite F4. destruct (a_sts a) as [|p0 l0] eqn:Es; [discriminate|].
        destruct (last_opt (p0 :: l0)) eqn:El.
        + apply last_opt_in in El. rewrite Forall_forall in F7. rewrite (F7 p); auto. apply String.eqb_eq; auto.
        + apply last_opt_none in El. discriminate. }
    rewrite FP in H0. destruct H0.
  - assert (Ie : In e (filter P Fd)) by (rewrite FP; simpl; auto). apply filter_In in Ie. destruct Ie as [Ie Pe].
    assert (Pe' := Pe). unfold P, reqP in Pe'. destruct (parse (snd e)) as [pl|] eqn:Ep; [|discriminate].
    split; auto. destruct (FDI e Ie) as [Fe De]. destruct (file_in_L h H L R e Fe) as [a La].
    exists e, a. repeat split; auto.
    destruct (REQ e a La Pe) as [Ra Sa].
    assert (IR : is_run d req a = true).
    { unfold is_run. rewrite <- (DAG e a La), De, Ra, !String.eqb_refl. destruct (a_sts a); [congruence|reflexivity]. }
    destruct (find (is_run d req) (h_runs H)) as [a'|] eqn:Ff.
    + apply find_some in Ff. destruct Ff as [Ia' Ra']. f_equal. unfold is_run in Ra'.
      apply andb_prop in Ra'. destruct Ra' as [Ra' _]. apply andb_prop in Ra'. destruct Ra' as [R1 R2']. apply String.eqb_eq in R1, R2'.
      apply (hist_ok_prop H); auto. apply (r_ids _ _ _ _ R). apply (L_in_run h H L R (e, a)); auto.
      rewrite <- (DAG e a La). congruence. left. congruence.
    + exfalso. pose proof (find_none _ _ Ff a (L_in_run h H L R (e, a) La)) as X. simpl in X. congruence.
Qed.

Definition fres_payload (r : sfres) : option payload := match r with SFFound _ p => Some p | SFNone => None end.
Theorem find_refines st h H L d req : R2g st h H L -> hist_okb H = true ->
  fres_payload (sq_find kname kpath (sst h) d req) = sp_find H d req.
Proof.
  intros R O. pose proof (find_refines_pair _ h H L d req R O) as F. unfold sp_find.
  destruct (sq_find kname kpath (sst h) d req) as [|k p]; simpl.
  - destruct F as [F|F]. { subst. reflexivity. } rewrite F. destruct (String.eqb req ""); reflexivity.
  - destruct F as [Nr [e [a [I [E1 [E2 [E3 E4]]]]]]]. apply String.eqb_neq in Nr. rewrite Nr, E4.
    pose proof (L_frun h H L R (e, a) I) as FR. simpl in FR. destruct FR as [_ [_ [_ [F4 _]]]]. congruence.
Qed.


(* ---- the status cache: soundness is all the queries need ------------------------------------------------------------------ *)
Definition load_pure (s : sfs) (k : skey) : option payload := match sget s k with Some f => parse f | None => None end.
Definition cache_sound (c : scache) (s : sfs) : Prop :=
  forall k e f, scache_get c k = Some e -> sget s k = Some f -> c_size e = fsize f -> parse f = Some (c_data e).

Lemma scache_get_put_same c k e : scache_get (scache_put c k e) k = Some e.
Proof. unfold scache_get, scache_put. simpl. rewrite skey_eqb_refl. reflexivity. Qed.
Lemma scache_get_del_other c k k' : k <> k' -> scache_get (scache_del c k) k' = scache_get c k'.
Proof.
  intros N. unfold scache_get, scache_del. rewrite filter_filter.
  rewrite (filter_ext (fun x : skey * centry => negb (skey_eqb k (fst x)) && skey_eqb k' (fst x)) (fun x => skey_eqb k' (fst x))); auto.
  intros x. destruct (skey_eqb k' (fst x)) eqn:E; [|apply andb_false_r]. apply skey_eqb_eq in E. subst k'.
  apply skey_eqb_neq in N. rewrite N. reflexivity.
Qed.
Lemma scache_get_put_other c k k' e : k <> k' -> scache_get (scache_put c k e) k' = scache_get c k'.
Proof.
  intros N. unfold scache_put. unfold scache_get at 1. simpl.
  assert (X : skey_eqb k' k = false) by (apply skey_eqb_neq; auto). rewrite X.
  apply (scache_get_del_other c k k' N).
Qed.
Lemma scache_get_del_same c k : scache_get (scache_del c k) k = None.
Proof.
  unfold scache_get, scache_del. rewrite filter_filter.
  rewrite (filter_ext _ (fun _ => false)). { induction c; simpl; auto. }
  intros x. destruct (skey_eqb k (fst x)); reflexivity.
Qed.

Lemma sload_latest_sound c s k : cache_sound c s ->
  snd (sload_latest c s k) = load_pure s k /\ cache_sound (fst (sload_latest c s k)) s.
Proof.
  intros CS. unfold sload_latest, load_pure. destruct (sget s k) as [f|] eqn:G; simpl; auto.
  assert (PUT : forall p, parse f = Some p -> cache_sound (scache_put c k {| c_data := p; c_size := fsize f; c_mt := mtsec f |}) s).
  { intros p Pp k' e f' Ge Gf Es. destruct (skey_eqb k k') eqn:E.
    - apply skey_eqb_eq in E. subst k'. rewrite scache_get_put_same in Ge. inversion Ge; subst. simpl. congruence.
    - apply skey_eqb_neq in E. rewrite scache_get_put_other in Ge by auto. eapply CS; eauto. }
  destruct (scache_get c k) as [e|] eqn:Ge.
  - destruct ((c_mt e <? mtsec f)%Z || negb (c_size e =? fsize f)%Z)%bool eqn:St.
    + destruct (parse f) eqn:Pf; simpl; auto.
    + simpl. apply orb_false_iff in St. destruct St as [_ St]. apply negb_false_iff in St. apply Z.eqb_eq in St.
      split; auto. symmetry. eapply CS; eauto.
  - destruct (parse f) eqn:Pf; simpl; auto.
Qed.

Definition opt_list {A} (o : option A) : list A := match o with Some x => [x] | None => [] end.
Definition loads (s : sfs) (l : list sent) : list payload := flat_map (fun e => opt_list (load_pure s (fst e))) l.
Lemma sload_first_sound s l : forall c, cache_sound c s ->
  snd (sload_first c s l) = match loads s l with [] => LNoData | p :: _ => LOk p end /\ cache_sound (fst (sload_first c s l)) s.
Proof.
  unfold loads. induction l as [|e l IH]; intros c CS; simpl; auto.
  destruct (sload_latest_sound c s (fst e) CS) as [E CS'].
  destruct (sload_latest c s (fst e)) as [c' [p|]]; simpl in *.
  - rewrite <- E. simpl. auto.
  - rewrite <- E. simpl. apply IH; auto.
Qed.
Lemma sload_upto_sound s l : forall n c, cache_sound c s ->
  snd (sload_upto c s l n) = firstn n (loads s l) /\ cache_sound (fst (sload_upto c s l n)) s.
Proof.
  unfold loads. induction l as [|e l IH]; intros n c CS; simpl. { rewrite firstn_nil. auto. }
  destruct n as [|n']; simpl; auto.
  destruct (sload_latest_sound c s (fst e) CS) as [E CS'].
  destruct (sload_latest c s (fst e)) as [c' [p|]]; simpl in *.
  - destruct (IH n' c' CS') as [E2 CS2]. destruct (sload_upto c' s l n') as [c'' ps]; simpl in *. rewrite <- E. simpl.
    split; [f_equal; exact E2 | exact CS2].
  - rewrite <- E. simpl. apply (IH (S n')); auto.
Qed.
Lemma load_pure_file s e : NoDup (keys s) -> In e (sfiles s) -> load_pure s (fst e) = parse (snd e).
Proof. intros N I. unfold load_pure. rewrite (in_sget s (fst e) (snd e)); auto. destruct e; auto. Qed.

(* ---- ordering: the files of one DAG sorted by what the regexp sees = its runs sorted by start stamp ---------------------------- *)
Lemma undecorate {A} (key : A -> string) (l : list A) : map snd (sort_desc fst (map (fun e => (key e, e)) l)) = sort_desc key l.
Proof. rewrite (sort_desc_map (fun e => (key e, e)) fst). rewrite map_map. simpl. apply map_id. Qed.
Lemma sfilter_latest_eq l n : sfilter_latest l n = firstn n (sort_desc sts_of (sdrop_compacted l)).
Proof. unfold sfilter_latest. rewrite undecorate. reflexivity. Qed.
Lemma filter_len_le {A} (f : A -> bool) l : (List.length (filter f l) <= List.length l)%nat.
Proof. induction l as [|x l IH]; simpl; auto. destruct (f x); simpl; lia. Qed.
(* dropCompacted changes nothing unless a file AND its compacted twin are listed *)
Lemma sdrop_id l : (forall e m, In e l -> In m l -> k_c (fst e) = false -> twin (fst e) = fst m -> False) -> sdrop_compacted l = l.
Proof.
  intros Hn. unfold sdrop_compacted. transitivity (filter (fun _ : sent => true) l); [|apply filter_true]. apply filter_ext_in. intros e Ie.
  unfold sdropped. destruct (k_c (fst e)) eqn:C; [reflexivity|]. simpl.
  match goal with |- negb ?b = true => destruct b eqn:X end; [|reflexivity]. exfalso.
  apply existsb_exists in X. destruct X as [m [Im E]]. apply skey_eqb_eq in E. exact (Hn e m Ie Im C E).
Qed.
Lemma NoDup_map_of_inj {A B} (f : A -> B) l : NoDup l -> (forall x y, In x l -> In y l -> f x = f y -> x = y) -> NoDup (map f l).
Proof.
  induction l as [|a l IH]; simpl; intros N I; [constructor|]. inversion N as [|? ? Hn Hd]; subst. constructor.
  - intro X. apply in_map_iff in X. destruct X as [b [E Ib]]. assert (b = a) by (apply I; auto). subst. contradiction.
  - apply IH; auto.
Qed.

Definition dagday (d : string) (day : option string) (k : skey) : bool :=
  String.eqb (k_dag k) d && in_patk (PLatest day) k.
Definition rundagday (d : string) (day : option string) (a : arun) : bool :=
  String.eqb (a_dag a) d && match day with Some dd => String.eqb (take 8 (a_stamp a)) dd | None => true end.

Section Order.
Variables (st : bool) (h : sstate) (H : hist) (L : pairing).
Hypothesis R : R2g st h H L.
Hypothesis O : hist_okb H = true.
Variables (d : string) (day : option string).

Let Lf := filter (fun x : sent * arun => dagday d day (fst (fst x))) L.
Let S := sort_desc (fun x : sent * arun => a_stamp (snd x)) Lf.

Lemma Lf_in x : In x Lf -> In x L /\ k_dag (fst (fst x)) = d.
Proof. unfold Lf. intros I. apply filter_In in I. destruct I as [I P]. apply andb_prop in P. destruct P as [P _]. apply String.eqb_eq in P. auto. Qed.
Lemma dagday_pair x : In x L -> dagday d day (fst (fst x)) = rundagday d day (snd x).
Proof.
  intros I. pose proof (L_frun h H L R x I) as [F1 [F2 _]]. unfold dagday, rundagday, in_patk.
  rewrite (r_plain _ _ _ _ R (fst x) (L_in_file h H L R x I)). rewrite F1, F2. reflexivity.
Qed.
Lemma Lf_fst : map fst Lf = filter (fun e => dagday d day (fst e)) (sfiles (sst h)).
Proof. unfold Lf. rewrite <- (r_fst _ _ _ _ R). rewrite filter_map_comm. reflexivity. Qed.
Lemma Lf_snd : Permutation (map snd Lf) (runs_of H d day).
Proof.
  unfold Lf, runs_of.
  rewrite (filter_ext_in' (fun x : sent * arun => dagday d day (fst (fst x))) (fun x => rundagday d day (snd x))) by apply dagday_pair.
  rewrite <- filter_map_comm. apply Permutation_filter. apply (r_snd _ _ _ _ R).
Qed.
Lemma Lf_sec_inj x y : In x Lf -> In y Lf -> a_stamp (snd x) = a_stamp (snd y) -> x = y.
Proof.
  intros Ix Iy E. destruct (Lf_in x Ix) as [Lx Dx], (Lf_in y Iy) as [Ly Dy].
  pose proof (L_frun h H L R x Lx) as [Fx _]. pose proof (L_frun h H L R y Ly) as [Fy _].
  assert (snd x = snd y).
  { apply (hist_ok_prop H); auto. apply (r_ids _ _ _ _ R). apply (L_in_run h H L R); auto. apply (L_in_run h H L R); auto. congruence. }
  apply (L_id_unique h H L R); auto. congruence.
Qed.
Lemma Lf_nodup : NoDup Lf.
Proof.
  unfold Lf. apply NoDup_filter.
  apply (NoDup_map_inv (fun z : sent * arun => fst (fst z))).
  replace (map (fun z : sent * arun => fst (fst z)) L) with (map fst (map fst L)) by (rewrite map_map; reflexivity).
  rewrite (L_keys h H L R). apply (r_keys _ _ _ _ R).
Qed.

(* the listing of the directory, sorted by the stamp the regexp extracts, is the first projection of the sorted pairing *)
Lemma glob_sorted : sort_desc sts_of (sglob kname (sst h) d (PLatest day)) = map fst S.
Proof.
  assert (PM : Permutation (map fst Lf) (sglob kname (sst h) d (PLatest day))).
  { rewrite Lf_fst. apply Permutation_sym. apply (sglob_perm _ h H L _ _ R). }
  rewrite <- (sort_desc_perm_inv sts_of (map fst Lf) _ PM).
  2:{ rewrite map_map. apply NoDup_map_of_inj. apply Lf_nodup.
      intros x y Ix Iy E. apply Lf_sec_inj; auto. unfold sts_of in E.
      destruct (Lf_in x Ix) as [Lx _], (Lf_in y Iy) as [Ly _].
      pose proof (L_frun h H L R x Lx) as [_ [Fx _]]. pose proof (L_frun h H L R y Ly) as [_ [Fy _]]. congruence. }
  rewrite sort_desc_map. f_equal. unfold S. apply sort_desc_ext.
  intros x y Ix Iy. unfold sts_of.
  destruct (Lf_in x Ix) as [Lx _], (Lf_in y Iy) as [Ly _].
  pose proof (L_frun h H L R x Lx) as [_ [Fx _]]. pose proof (L_frun h H L R y Ly) as [_ [Fy _]]. rewrite Fx, Fy.
  reflexivity.
Qed.
Lemma runs_sorted : newest_first (runs_of H d day) = map snd S.
Proof.
  unfold newest_first, S. rewrite <- sort_desc_map. symmetry. apply sort_desc_perm_inv. { apply Lf_snd. }
  rewrite map_map. apply NoDup_map_of_inj. apply Lf_nodup.
  intros x y Ix Iy E. apply Lf_sec_inj; auto.
Qed.
Lemma S_in x : In x S -> In x L.
Proof. unfold S. intros I. eapply Permutation_in in I; [|apply sort_desc_perm]. apply Lf_in in I. apply I. Qed.
Lemma S_parse x : In x S -> load_pure (sst h) (fst (fst x)) = last_opt (a_sts (snd x)).
Proof.
  intros I. apply S_in in I. rewrite load_pure_file. 2:{ apply (r_keys _ _ _ _ R). } 2:{ apply (L_in_file h H L R); auto. }
  apply (L_frun h H L R x I).
Qed.
Lemma glob_nil : sglob kname (sst h) d (PLatest day) = [] <-> S = [].
Proof.
  split; intros E.
  - assert (X : map fst S = []) by (rewrite <- glob_sorted, E; reflexivity). destruct S; [auto|discriminate].
  - assert (X : sort_desc sts_of (sglob kname (sst h) d (PLatest day)) = []) by (rewrite glob_sorted, E; reflexivity).
    destruct (sglob kname (sst h) d (PLatest day)) as [|e l] eqn:G; auto. exfalso.
    assert (Permutation (sort_desc sts_of (e :: l)) (e :: l)) by apply sort_desc_perm. rewrite X in H0.
    apply Permutation_nil in H0. discriminate.
Qed.
End Order.

Lemma last_opt_cons {A} (x : A) l : exists y, last_opt (x :: l) = Some y.
Proof.
  revert x. induction l as [|z l IH]; intros x. { exists x. reflexivity. }
  destruct (IH z) as [y Hy]. exists y. unfold last_opt in *. simpl in *. exact Hy.
Qed.
Definition stl (a : arun) : list payload := match last_opt (a_sts a) with Some p => [p] | None => [] end.
Lemma stl_status a : has_status a = true -> exists p, last_opt (a_sts a) = Some p /\ stl a = [p].
Proof. unfold has_status, stl. destruct (a_sts a) as [|x l]; [discriminate|]. intros _. destruct (last_opt_cons x l) as [y Hy]. rewrite Hy. eauto. Qed.
Lemma stl_nostatus a : has_status a = false -> stl a = [].
Proof. unfold has_status, stl. destruct (a_sts a); [reflexivity|discriminate]. Qed.
Lemma flat_stl_filter l : flat_map stl l = flat_map stl (filter has_status l).
Proof.
  induction l as [|a l IH]; simpl; auto. destruct (has_status a) eqn:E; simpl; rewrite IH; auto. rewrite (stl_nostatus a E). reflexivity.
Qed.
Lemma firstn_flat_stl l n : (forall a, In a l -> has_status a = true) -> firstn n (flat_map stl l) = flat_map stl (firstn n l).
Proof.
  revert n. induction l as [|a l IH]; intros n Hs; simpl. { rewrite !firstn_nil. reflexivity. }
  destruct (stl_status a (Hs a (or_introl eq_refl))) as [p [_ E]]. rewrite E. destruct n; simpl; auto.
  rewrite E. simpl. f_equal. apply IH. intros; apply Hs; simpl; auto.
Qed.

(* what the sorted directory listing loads = the last statuses of the runs with a status, newest first *)
Lemma loads_sorted st h H L d day : R2g st h H L -> hist_okb H = true ->
  loads (sst h) (sort_desc sts_of (sglob kname (sst h) d (PLatest day)))
  = flat_map stl (newest_first (filter has_status (runs_of H d day))).
Proof.
  intros R O. rewrite (glob_sorted st h H L R O d day).
  assert (NF : newest_first (filter has_status (runs_of H d day)) = filter has_status (newest_first (runs_of H d day)))
    by (unfold newest_first; symmetry; apply sort_desc_filter).
  rewrite NF, (runs_sorted st h H L R O d day). rewrite <- flat_stl_filter.
  unfold loads. rewrite !flat_map_concat_map, !map_map. f_equal. apply map_ext_in. intros x Ix.
  rewrite (S_parse st h H L R d day x Ix). reflexivity.
Qed.
Lemma sfilter_latest_all l : sfilter_latest l (List.length l) = sort_desc sts_of (sdrop_compacted l).
Proof.
  rewrite sfilter_latest_eq. apply firstn_all2. rewrite (Permutation_length (sort_desc_perm sts_of (sdrop_compacted l))).
  unfold sdrop_compacted. apply filter_len_le.
Qed.
(* in a state related to a run map with distinct start stamps no file is listed next to its compacted twin *)
Lemma sdrop_glob_id st h H L d pk : R2g st h H L -> hist_okb H = true ->
  sdrop_compacted (sglob kname (sst h) d pk) = sglob kname (sst h) d pk.
Proof.
  intros R O. apply sdrop_id. intros e m Ie Im C T.
  assert (FI : forall x, In x (sglob kname (sst h) d pk) -> In x (sfiles (sst h))).
  { intros x Ix. eapply Permutation_in in Ix; [|apply (sglob_perm _ h H L _ _ R)]. apply filter_In in Ix. apply Ix. }
  destruct (file_in_L h H L R e (FI e Ie)) as [ae Le], (file_in_L h H L R m (FI m Im)) as [am Lm].
  pose proof (L_frun h H L R (e, ae) Le) as [Fe1 [Fe2 _]]. pose proof (L_frun h H L R (m, am) Lm) as [Fm1 [Fm2 _]].
  simpl in Fe1, Fe2, Fm1, Fm2. rewrite <- T in Fm1, Fm2. simpl in Fm1, Fm2.
  assert (ae = am).
  { apply (hist_ok_prop H); auto. apply (r_ids _ _ _ _ R). apply (L_in_run h H L R (e, ae)); auto. apply (L_in_run h H L R (m, am)); auto.
    congruence. right. congruence. }
  subst am. assert (E : (e, ae) = (m, ae)) by (apply (L_id_unique h H L R); auto). inversion E. subst m.
  rewrite <- T in C. simpl in C. discriminate.
Qed.

Theorem latest_refines st h H L c d day : R2g st h H L -> hist_okb H = true -> cache_sound c (sst h) ->
  snd (sq_latest kname c (sst h) d day) = sp_latest H d day /\ cache_sound (fst (sq_latest kname c (sst h) d day)) (sst h).
Proof.
  intros R O CS. unfold sq_latest, slatest_of, sp_latest.
  pose proof (loads_sorted st h H L d day R O) as LS.
  assert (SP : match flat_map stl (newest_first (filter has_status (runs_of H d day))) with [] => LNoData | p :: _ => LOk p end
               = match newest_first (filter has_status (runs_of H d day)) with
                 | [] => LNoData | a :: _ => match last_opt (a_sts a) with Some p => LOk p | None => LNoData end end).
  { assert (HS : forall a, In a (newest_first (filter has_status (runs_of H d day))) -> has_status a = true).
    { intros a Ia. eapply Permutation_in in Ia; [|apply sort_desc_perm]. apply filter_In in Ia. apply Ia. }
    destruct (newest_first (filter has_status (runs_of H d day))) as [|a r]; simpl; auto.
    destruct (stl_status a (HS a (or_introl eq_refl))) as [p [E1 E2]]. rewrite E2, E1. reflexivity. }
  destruct (sglob kname (sst h) d (PLatest day)) as [|e0 l0] eqn:G.
  - simpl. split; auto. rewrite <- SP, <- LS. reflexivity.
  - rewrite sfilter_latest_all. rewrite <- G in LS |- *. rewrite (sdrop_glob_id st h H L d (PLatest day) R O).
    destruct (sload_first_sound (sst h) (sort_desc sts_of (sglob kname (sst h) d (PLatest day))) c CS) as [E CS']. split; auto.
    rewrite E, LS. exact SP.
Qed.

Theorem recent_refines st h H L c d n : R2g st h H L -> hist_okb H = true -> cache_sound c (sst h) ->
  snd (sq_recent kname c (sst h) d n) = sp_recent H d n /\ cache_sound (fst (sq_recent kname c (sst h) d n)) (sst h).
Proof.
  intros R O CS. unfold sq_recent, srecent_of, sp_recent.
  assert (GE : sglob kname (sst h) d PAll = sglob kname (sst h) d (PLatest None)) by reflexivity.
  rewrite GE. pose proof (loads_sorted st h H L d None R O) as LS.
  assert (SP : firstn n (flat_map stl (newest_first (filter has_status (runs_of H d None))))
               = flat_map stl (firstn n (newest_first (filter has_status (runs_of H d None))))).
  { apply firstn_flat_stl. intros a Ia. eapply Permutation_in in Ia; [|apply sort_desc_perm]. apply filter_In in Ia. apply Ia. }
  destruct (sglob kname (sst h) d (PLatest None)) as [|e0 l0] eqn:G.
  - simpl. split; auto. fold stl. rewrite <- SP, <- LS. simpl. rewrite firstn_nil. reflexivity.
  - rewrite sfilter_latest_all. rewrite <- G in LS |- *. rewrite (sdrop_glob_id st h H L d (PLatest None) R O).
    destruct (sload_upto_sound (sst h) (sort_desc sts_of (sglob kname (sst h) d (PLatest None))) n c CS) as [E CS']. split; auto.
    rewrite E, LS. exact SP.
Qed.


(* ---- Close (compaction) ------------------------------------------------------------------------------------------------------ *)
Lemma run_sprims_app s a b : run_sprims s (a ++ b) = run_sprims (run_sprims s a) b.
Proof. unfold run_sprims. apply fold_left_app. Qed.

Lemma replace_perm (L : pairing) k x0 (g : arun -> arun) :
  NoDup (map (fun x : sent * arun => fst (fst x)) L) -> In x0 L -> fst (fst x0) = k ->
  Permutation (map snd (filter (fun x : sent * arun => negb (skey_eqb k (fst (fst x)))) L) ++ [g (snd x0)])
              (map (fun x : sent * arun => if skey_eqb k (fst (fst x)) then g (snd x) else snd x) L).
Proof.
  induction L as [|x L IH]; simpl; intros N I E; [tauto|]. inversion N as [|? ? Hn Hd]; subst.
  destruct (skey_eqb (fst (fst x0)) (fst (fst x))) eqn:Ex; simpl.
  - apply skey_eqb_eq in Ex.
    assert (x0 = x).
    { destruct I as [I|I]; auto. exfalso. apply Hn. rewrite <- Ex. apply (in_map (fun z : sent * arun => fst (fst z))). auto. }
    subst x0.
    assert (NF : forall y, In y L -> skey_eqb (fst (fst x)) (fst (fst y)) = false).
    { intros y Iy. apply skey_eqb_neq. intro E. apply Hn. rewrite E. apply (in_map (fun z : sent * arun => fst (fst z))). auto. }
    rewrite (filter_ext_in' _ (fun _ => true)) by (intros y Iy; rewrite NF; auto). rewrite filter_true.
    rewrite (map_ext_in (fun x1 : sent * arun => if skey_eqb (fst (fst x)) (fst (fst x1)) then g (snd x1) else snd x1) snd)
      by (intros y Iy; rewrite NF; auto).
    apply Permutation_sym, Permutation_cons_append.
  - apply perm_skip. apply IH; auto. destruct I as [I|I]; auto. subst. rewrite skey_eqb_refl in Ex. discriminate.
Qed.

Lemma R2_drop_wr h H L h' H' :
  R2 h H L -> sst h' = sst h -> swr h' = None -> h_runs H' = h_runs H -> h_cur H' = None -> h_next H' = h_next H -> R2 h' H' L.
Proof.
  intros R E1 E2 E3 E4 E5. destruct R. constructor; rewrite ?E1, ?E2, ?E3, ?E4, ?E5; simpl; auto.
Qed.

Lemma upd_key_app k g l1 l2 : upd_key k g (l1 ++ l2) = upd_key k g l1 ++ upd_key k g l2.
Proof. unfold upd_key. apply map_app. Qed.
Lemma upd_key_single k g f : upd_key k g [(k, f)] = [(k, g f)].
Proof. unfold upd_key. simpl. rewrite skey_eqb_refl. reflexivity. Qed.

(* the compaction steps on a store without kc and without a stale temporary copy: the copy appears as the last file, then k goes *)
Lemma close_run s k pl now : ~ In (twin k) (keys s) -> ~ In (tmpk (twin k)) (keys s) -> shas_dir s (k_dag (twin k)) = true ->
  run_sprims s ([SUnlink (tmpk (twin k)); SMkdir (k_dag (twin k)); SCreate (tmpk (twin k)) now]
                ++ map (fun c => SAppend (tmpk (twin k)) c now) (chunks_of pl) ++ [SRename (tmpk (twin k)) (twin k); SUnlink k])
  = run_sprims {| sdirs := sdirs s; sfiles := sfiles s ++ [(twin k, {| items := [Rec pl]; ftail := TNone; mtime := now |})] |} [SUnlink k].
Proof.
  intros Nkc Nkt Dk. set (kc := twin k) in *. set (kt := tmpk kc) in *.
  rewrite run_sprims_app. cbn [run_sprims fold_left].
  rewrite (unlink_absent _ _ Nkt), (mkdir_noop _ _ Dk), (create_fresh _ kt now Nkt).
  fold (run_sprims {| sdirs := sdirs s; sfiles := sfiles s ++ [(kt, empty_file now)] |}
          (map (fun c => SAppend kt c now) (chunks_of pl) ++ [SRename kt kc; SUnlink k])).
  rewrite run_sprims_app, run_appends. cbn [sfiles sdirs].
  rewrite upd_key_app, (upd_key_absent kt _ (sfiles s)) by exact Nkt. rewrite upd_key_single.
  rewrite appends_status by reflexivity. cbn [items empty_file app].
  cbn [run_sprims fold_left]. rewrite rename_last; auto. apply tmpk_neq. reflexivity.
Qed.

Lemma sim_close h H L seen now :
  R2 h H L -> incl (keys (sst h)) seen -> op_okb h seen (OClose now) = true ->
  exists L', R2 (sapply kname kpath h (OClose now)) (sp_apply H (OClose now)) L'.
Proof.
  intros R IS O. pose proof (r_wr _ _ _ _ R) as W. unfold wr_ok in W. simpl in O.
  unfold sapply. simpl sprims. simpl sp_apply.
  destruct (swr h) as [w|] eqn:EW, (h_cur H) as [id|] eqn:EC; try contradiction.
  2:{ exists L. eapply R2_same; eauto. }
  destruct W as [W1 [W2 [e0 [a0 [I0 [E1 [E2 E3]]]]]]].
  pose proof (L_sget h H L R e0 a0 I0) as G0. rewrite E1 in G0. rewrite G0.
  pose proof (L_frun h H L R (e0, a0) I0) as FR. simpl in FR. destruct FR as [F1 [F2 [F3 [F4 [F5 [F6 F7]]]]]].
  assert (IA : In a0 (h_runs H)) by (apply (L_in_run h H L R (e0, a0)); auto).
  set (F := fun a : arun => match a_sts a with [] => a | _ :: _ => set_mtime now a end).
  assert (UPD : forall x, In x L -> (if Nat.eqb (a_id (snd x)) id then F (snd x) else snd x)
                                  = (if skey_eqb (sw_key w) (fst (fst x)) then F (snd x) else snd x)).
  { intros x Ix. rewrite (pair_pick _ h H L (sw_key w) id e0 a0 R I0 E1 E2 x Ix). reflexivity. }
  destruct (parse (snd e0)) as [pl|] eqn:Pp.
  - (* compaction *)
    set (k := sw_key w) in *. set (kc := twin k).
    apply andb_prop in O. destruct O as [O _].
    apply negb_true_iff in O. apply memk_false in O. fold k in O. fold kc in O.
    assert (Nkc : ~ In kc (keys (sst h))) by (intro X; apply O, IS, X).
    assert (Dk : shas_dir (sst h) (k_dag kc) = true).
    { change (k_dag kc) with (k_dag k). rewrite <- E1. apply (r_dirs _ _ _ _ R). apply (L_in_file h H L R (e0, a0)); auto. }
    assert (Nkt : ~ In (tmpk kc) (keys (sst h))) by (apply tmpk_absent, (r_plain _ _ _ _ R)).
    change (k_dag k) with (k_dag kc).
    match goal with |- context [run_sprims (sst h) ?ps] =>
      change (run_sprims (sst h) ps) with
        (run_sprims (sst h) ([SUnlink (tmpk (twin k)); SMkdir (k_dag (twin k)); SCreate (tmpk (twin k)) now]
                ++ map (fun c => SAppend (tmpk (twin k)) c now) (chunks_of pl) ++ [SRename (tmpk (twin k)) (twin k); SUnlink k])) end.
    rewrite (close_run (sst h) k pl now Nkc Nkt Dk). fold kc.
    set (fc := {| items := [Rec pl]; ftail := TNone; mtime := now |}).
    unfold run_sprims. simpl fold_left. rewrite filter_app. simpl filter.
    assert (NE : skey_eqb k kc = false).
    { apply skey_eqb_neq. intro X. assert (k_c k = k_c kc) by congruence. unfold kc in H0. simpl in H0. congruence. }
    rewrite NE. simpl negb. cbv iota.
    exists (filter (fun x : sent * arun => negb (skey_eqb k (fst (fst x)))) L ++ [((kc, fc), set_mtime now a0)]).
    assert (NDK : NoDup (map (fun x : sent * arun => fst (fst x)) L)).
    { replace (map (fun z : sent * arun => fst (fst z)) L) with (map fst (map fst L)) by (rewrite map_map; reflexivity).
      rewrite (L_keys h H L R). apply (r_keys _ _ _ _ R). }
    assert (SN : a_sts a0 <> []). { intro X. rewrite X in F4. discriminate. }
    constructor; simpl.
    + rewrite map_app. simpl. f_equal. rewrite <- (r_fst _ _ _ _ R). rewrite filter_map_comm. reflexivity.
    + rewrite map_app. simpl.
      eapply Permutation_trans; [apply (replace_perm L k (e0, a0) (set_mtime now)); auto|].
      eapply Permutation_trans; [|apply Permutation_map, (r_snd _ _ _ _ R)].
      unfold upd_run. rewrite map_map. apply Permutation_refl'. apply map_ext_in. intros x Ix.
      rewrite (pair_pick _ h H L k id e0 a0 R I0 E1 E2 x Ix).
      destruct (Nat.eqb (a_id (snd x)) id) eqn:Ei; auto.
      apply Nat.eqb_eq in Ei. assert (x = (e0, a0)) by (apply (L_id_unique h H L R); auto; simpl; congruence).
      subst x. simpl. unfold F. destruct (a_sts a0); [congruence|reflexivity].
    + apply Forall_app. split.
      * apply Forall_forall. intros x Ix. apply filter_In in Ix. destruct Ix as [Ix _]. apply (L_frun h H L R); auto.
      * constructor; [|constructor]. unfold frun. simpl. rewrite <- E1 in *. repeat split; auto.
    + auto.
    + unfold keys. simpl. rewrite map_app. simpl.
      apply (Permutation_NoDup (l := kc :: map fst (filter (fun e : sent => negb (skey_eqb k (fst e))) (sfiles (sst h))))).
      { apply Permutation_cons_append. }
      constructor.
      * intro X. apply in_map_iff in X. destruct X as [e [Ee Ie]]. apply filter_In in Ie. destruct Ie as [Ie _].
        apply Nkc. rewrite <- Ee. apply in_map. auto.
      * assert (G : forall l : list sent, NoDup (map fst l) -> NoDup (map fst (filter (fun e : sent => negb (skey_eqb k (fst e))) l))).
        { induction l as [|e l IHl]; simpl; intros N; [constructor|]. inversion N as [|? ? Hn Hd]; subst.
          destruct (negb (skey_eqb k (fst e))); simpl; auto. constructor; auto.
          intro X. apply Hn. apply in_map_iff in X. destruct X as [e2 [E4 I4]]. apply filter_In in I4. destruct I4 as [I4 _].
          rewrite <- E4. apply in_map. auto. }
        apply G. apply (r_keys _ _ _ _ R).
    + rewrite upd_run_ids. apply (r_ids _ _ _ _ R). intros a. unfold F. destruct (a_sts a); split; reflexivity.
    + intros a Ia. apply upd_run_in in Ia. destruct Ia as [b [Ib [E|E]]]; subst.
      * apply (r_idlt _ _ _ _ R); auto.
      * unfold F. destruct (a_sts b); simpl; apply (r_idlt _ _ _ _ R); auto.
    + intros e Ie. unfold shas_dir. simpl. fold (shas_dir (sst h) (k_dag (fst e))).
      apply in_app_or in Ie. destruct Ie as [Ie|[Ie|[]]].
      * apply filter_In in Ie. destruct Ie as [Ie _]. apply (r_dirs _ _ _ _ R); auto.
      * subst e. simpl. exact Dk.
    + intros e Ie. apply in_app_or in Ie. destruct Ie as [Ie|[Ie|[]]].
      * apply filter_In in Ie. destruct Ie as [Ie _]. apply (r_plain _ _ _ _ R); auto.
      * subst e. reflexivity.
  - (* nothing to compact: the file has no parseable status *)
    exists L. apply (R2_drop_wr h H L); auto.
    simpl. unfold upd_run. rewrite <- (map_id (h_runs H)) at 2. apply map_ext_in. intros a Ia.
    destruct (Nat.eqb (a_id a) id) eqn:Ei; auto. apply Nat.eqb_eq in Ei.
    assert (a = a0) by (apply (run_unique h H L R); auto; congruence). subst a.
    symmetry in F4. apply last_opt_none in F4. unfold F. rewrite F4. reflexivity.
Qed.


(* ---- the open descriptor is not touched ------------------------------------------------------------------------------------------- *)
Definition avoids (k : skey) (p : sprim) : Prop :=
  match p with SUnlink k1 => k1 <> k | SRename k1 k2 => k1 <> k /\ k2 <> k | _ => True end.
Lemma strack_fd_keep k p : avoids k p -> strack_fd (Some k) p = Some k.
Proof.
  destruct p; simpl; auto.
  - intros N. apply skey_eqb_neq in N. rewrite N. reflexivity.
  - intros [N1 N2]. apply skey_eqb_neq in N1, N2. rewrite N1, N2. reflexivity.
Qed.
Lemma strack_fds_keep k ps : Forall (avoids k) ps -> fold_left strack_fd ps (Some k) = Some k.
Proof.
  induction ps as [|p ps IH]; intros A; cbn [fold_left]; auto. inversion A; subst. rewrite strack_fd_keep by auto. apply IH; auto.
Qed.
Lemma strack_fds_none ps : fold_left strack_fd ps None = None.
Proof. induction ps as [|p ps IH]; cbn [fold_left]; auto. Qed.
Lemma strack_wr_keep w ps : (forall k, sw_fd w = Some k -> Forall (avoids k) ps) -> strack_wr (Some w) ps = Some w.
Proof.
  intros A. unfold strack_wr. destruct w as [key fd rq]. cbn [sw_key sw_fd sw_req] in *. f_equal. f_equal.
  destruct fd as [k|].
  - apply strack_fds_keep. apply A. reflexivity.
  - apply strack_fds_none.
Qed.
Lemma strack_wr_none ps : strack_wr None ps = None.  Proof. reflexivity. Qed.

Lemma NoDup_map_filter {A B} (f : A -> B) (P : A -> bool) l : NoDup (map f l) -> NoDup (map f (filter P l)).
Proof.
  induction l as [|a l IH]; simpl; intros N; [constructor|]. inversion N as [|? ? Hn Hd]; subst.
  destruct (P a); simpl; auto. constructor; auto.
  intro X. apply Hn. apply in_map_iff in X. destruct X as [b [E I]]. apply filter_In in I. destruct I as [I _].
  rewrite <- E. apply in_map. auto.
Qed.

(* ---- Update (manual status update) ---------------------------------------------------------------------------------------------------- *)
(* writer.open + the status on an existing file: a torn tail (a crash state) is terminated first, so the status always becomes the
   file's last complete line *)
Lemma sopen_appends s k f p now : sget s k = Some f -> shas_dir s (k_dag k) = true ->
  exists g, run_sprims s (sopen s k now ++ map (fun c => SAppend k c now) (chunks_of p))
            = {| sdirs := sdirs s; sfiles := upd_key k g (sfiles s) |}
         /\ (exists its, g f = {| items := its ++ [Rec p]; ftail := TNone; mtime := now |})
         /\ (forall fd, fold_left strack_fd (sopen s k now ++ map (fun c => SAppend k c now) (chunks_of p)) fd = fd).
Proof.
  intros G Dk.
  assert (Ik : In k (keys s)). { apply shas_true. unfold shas. rewrite G. reflexivity. }
  assert (RS : forall s a b rest, run_sprims s (a :: b :: rest) = run_sprims (run_sprim (run_sprim s a) b) rest) by reflexivity.
  assert (TR : forall cs fd, fold_left strack_fd (SMkdir (k_dag k) :: SCreate k now :: map (fun c => SAppend k c now) cs) fd = fd).
  { intros cs fd. cbn [fold_left]. assert (X : strack_fd (strack_fd fd (SMkdir (k_dag k))) (SCreate k now) = fd) by (destruct fd; reflexivity).
    rewrite X. apply strack_appends. }
  destruct (ftail f) eqn:T.
  - rewrite (sopen_clean s k f now G T).
    change ([SMkdir (k_dag k); SCreate k now] ++ map (fun c => SAppend k c now) (chunks_of p))
      with (SMkdir (k_dag k) :: SCreate k now :: map (fun c => SAppend k c now) (chunks_of p)).
    exists (appends (chunks_of p) now). split; [|split].
    + rewrite RS, (mkdir_noop _ _ Dk), (create_noop _ k now Ik), run_appends. reflexivity.
    + exists (items f). apply appends_status. exact T.
    + apply TR.
  - rewrite (sopen_torn s k f now G) by (rewrite T; discriminate).
    change ([SMkdir (k_dag k); SCreate k now; SAppend k CNl now] ++ map (fun c => SAppend k c now) (chunks_of p))
      with (SMkdir (k_dag k) :: SCreate k now :: map (fun c => SAppend k c now) (CNl :: chunks_of p)).
    exists (appends (CNl :: chunks_of p) now). split; [|split].
    + rewrite RS, (mkdir_noop _ _ Dk), (create_noop _ k now Ik), run_appends. reflexivity.
    + exists (items f ++ [Junk (tsize (ftail f) + 1)]). unfold appends. cbn [fold_left]. fold (appends (chunks_of p) now (append_chunk f CNl now)).
      rewrite appends_status; unfold append_chunk; rewrite T; reflexivity.
    + apply TR.
  - rewrite (sopen_torn s k f now G) by (rewrite T; discriminate).
    change ([SMkdir (k_dag k); SCreate k now; SAppend k CNl now] ++ map (fun c => SAppend k c now) (chunks_of p))
      with (SMkdir (k_dag k) :: SCreate k now :: map (fun c => SAppend k c now) (CNl :: chunks_of p)).
    exists (appends (CNl :: chunks_of p) now). split; [|split].
    + rewrite RS, (mkdir_noop _ _ Dk), (create_noop _ k now Ik), run_appends. reflexivity.
    + exists (items f ++ [Rec p0]). unfold appends. cbn [fold_left]. fold (appends (chunks_of p) now (append_chunk f CNl now)).
      rewrite appends_status; unfold append_chunk; rewrite T; reflexivity.
    + apply TR.
Qed.

Lemma sim_update_g st h H L d req tag size now :
  R2g st h H L -> hist_okb H = true ->
  exists L', R2g st (sapply kname kpath h (OUpdate d req tag size now)) (sp_apply H (OUpdate d req tag size now)) L'.
Proof.
  intros R O. pose proof (find_refines_pair _ h H L d req R O) as F.
  unfold sapply. cbn [sprims]. simpl sp_apply.
  destruct (sq_find kname kpath (sst h) d req) as [|k p] eqn:Q.
  - exists L. destruct F as [F|F].
    + subst req. simpl. exact R.
    + rewrite F. destruct (String.eqb req ""); exact R.
  - destruct F as [Nr [e [a [I [E1 [E2 [E3 E4]]]]]]]. apply String.eqb_neq in Nr. rewrite Nr, E4.
    set (p' := {| p_req := req; p_tag := tag; p_size := size |}).
    assert (Ie : In e (sfiles (sst h))) by (apply (L_in_file h H L R (e, a)); auto).
    assert (Dk : shas_dir (sst h) (k_dag k) = true). { rewrite <- E1. apply (r_dirs _ _ _ _ R); auto. }
    assert (G0 : sget (sst h) k = Some (snd e)). { rewrite <- E1. apply (L_sget h H L R e a I). }
    destruct (sopen_appends (sst h) k (snd e) p' now G0 Dk) as [g [RUN [[its GF] TRK]]].
    fold p'. rewrite RUN.
    exists (map (upd_pair k g (add_status p' now)) L).
    apply find_some in E4. destruct E4 as [Ia IR]. unfold is_run in IR.
    apply andb_prop in IR. destruct IR as [IR _]. apply andb_prop in IR. destruct IR as [_ IR]. apply String.eqb_eq in IR.
    eapply (R2_update st h H L k (a_id a)); eauto.
    + pose proof (L_frun h H L R (e, a) I) as FR. simpl in FR. destruct FR as [F1 [F2 [F3 [F4 [F5 [F6 F7]]]]]].
      rewrite GF. unfold frun. simpl. rewrite <- E1. repeat split; auto.
      * rewrite parse_rec_snoc, last_opt_snoc. reflexivity.
      * apply Forall_app. split; auto.
    + apply pres_add.
    + left. simpl. split; auto. destruct (swr h) as [w|]; [|reflexivity]. unfold strack_wr. rewrite TRK. destruct w; reflexivity.
Qed.
Lemma sim_update h H L seen d req tag size now :
  R2 h H L -> hist_okb H = true -> op_okb h seen (OUpdate d req tag size now) = true ->
  exists L', R2 (sapply kname kpath h (OUpdate d req tag size now)) (sp_apply H (OUpdate d req tag size now)) L'.
Proof. intros R O _. apply (sim_update_g true h H L); auto. Qed.

(* ---- retention ---------------------------------------------------------------------------------------------------------------------------- *)
Lemma sglob_member st h H L d e : R2g st h H L -> (In e (sglob kname (sst h) d PAll) <-> In e (sfiles (sst h)) /\ k_dag (fst e) = d).
Proof.
  intros R. pose proof (sglob_perm _ h H L d PAll R) as P. split.
  - intros I. eapply Permutation_in in I; [|exact P]. apply filter_In in I. destruct I as [I Q].
    apply andb_prop in Q. destruct Q as [Q _]. apply String.eqb_eq in Q. auto.
  - intros [I Q]. eapply Permutation_in; [apply Permutation_sym, P|]. apply filter_In. split; auto.
    rewrite Q, String.eqb_refl. unfold in_patk. rewrite (r_plain _ _ _ _ R e I). reflexivity.
Qed.

Definition dagold (d : string) (cutoff : Z) (e : sent) : bool := String.eqb (k_dag (fst e)) d && (mtime (snd e) <? cutoff)%Z.

Lemma wr_dag_off h H L d w : R2 h H L -> swr h = Some w -> wr_off h d = true ->
  exists id e0 a0, h_cur H = Some id /\ sw_fd w = Some (sw_key w) /\ In (e0, a0) L /\ fst e0 = sw_key w /\ a_id a0 = id
                   /\ sw_req w = a_req a0 /\ k_dag (sw_key w) <> d /\ k_c (sw_key w) = false.
Proof.
  intros R EW O. pose proof (r_wr _ _ _ _ R) as W. unfold wr_ok in W. rewrite EW in W. unfold wr_off in O. rewrite EW in O.
  destruct (h_cur H) as [id|]; [|contradiction]. destruct W as [W1 [W2 [e0 [a0 [I0 [E1 [E2 E3]]]]]]].
  exists id, e0, a0. repeat split; auto. apply negb_true_iff in O. apply String.eqb_neq in O. auto.
Qed.

Lemma sim_removeold h H L seen d cutoff :
  R2 h H L -> op_okb h seen (ORemoveOld d cutoff) = true ->
  exists L', R2 (sapply kname kpath h (ORemoveOld d cutoff)) (sp_apply H (ORemoveOld d cutoff)) L'.
Proof.
  intros R O. simpl in O. unfold sapply. simpl sprims. simpl sp_apply.
  set (G := sglob kname (sst h) d PAll).
  rewrite <- (map_map fst SUnlink), run_unlinks.
  set (ks := map fst (filter (fun e : sent => (mtime (snd e) <? cutoff)%Z) G)).
  assert (MEM : forall e, In e (sfiles (sst h)) -> existsb (fun k => skey_eqb k (fst e)) ks = dagold d cutoff e).
  { intros e Ie. unfold dagold. destruct (existsb (fun k => skey_eqb k (fst e)) ks) eqn:X.
    - apply existsb_exists in X. destruct X as [k [Ik Ek]]. apply skey_eqb_eq in Ek. subst k.
      unfold ks in Ik. apply in_map_iff in Ik. destruct Ik as [e' [Ee Ie']]. apply filter_In in Ie'. destruct Ie' as [Ig Old].
      apply (sglob_member _ h H L d e' R) in Ig. destruct Ig as [If Dg].
      assert (e' = e). { apply (NoDup_map_inj fst (sfiles (sst h))); auto. apply (r_keys _ _ _ _ R). }
      subst e'. rewrite Dg, String.eqb_refl, Old. reflexivity.
    - symmetry. apply not_true_is_false. intro Y. apply andb_prop in Y. destruct Y as [Y1 Y2]. apply String.eqb_eq in Y1.
      assert (In (fst e) ks).
      { unfold ks. apply in_map. apply filter_In. split; auto. apply (sglob_member _ h H L d e R). auto. }
      assert (existsb (fun k => skey_eqb k (fst e)) ks = true).
      { apply existsb_exists. exists (fst e). split; auto. apply skey_eqb_refl. } congruence. }
  rewrite (filter_ext_in' _ (fun e => negb (dagold d cutoff e))) by (intros e Ie; rewrite MEM; auto).
  set (P1 := fun x : sent * arun => negb (dagold d cutoff (fst x))).
  set (P2 := fun a : arun => negb (String.eqb (a_dag a) d && (a_mtime a <? cutoff)%Z)).
  assert (PP : forall x, In x L -> P1 x = P2 (snd x)).
  { intros x Ix. pose proof (L_frun h H L R x Ix) as [F1 [_ [_ [_ [_ [F6 _]]]]]]. unfold P1, P2, dagold. rewrite F1, (F6 eq_refl). reflexivity. }
  exists (filter P1 L).
  assert (WR : swr h <> None -> wr_ok (filter P1 L) (swr h) (h_cur H) /\ strack_wr (swr h) (map SUnlink ks) = swr h).
  { intros Nw. destruct (swr h) as [w|] eqn:EW; [|congruence].
    destruct (wr_dag_off h H L d w R EW O) as [id [e0 [a0 [EC [W1 [I0 [E1 [E2 [E3 [Nd W2]]]]]]]]]].
    split.
    - unfold wr_ok. rewrite EC. split; auto. split; auto. exists e0, a0. repeat split; auto.
      apply filter_In. split; auto. unfold P1, dagold. simpl. rewrite E1.
      apply String.eqb_neq in Nd. rewrite Nd. reflexivity.
    - apply strack_wr_keep. intros k0 Ek. rewrite W1 in Ek. inversion Ek; subst k0.
      apply Forall_forall. intros x Hx. apply in_map_iff in Hx. destruct Hx as [k [Ex Ik]]. subst x. simpl.
      unfold ks in Ik. apply in_map_iff in Ik. destruct Ik as [e' [Ee Ie']]. apply filter_In in Ie'. destruct Ie' as [Ig _].
      apply (sglob_member _ h H L d e' R) in Ig. destruct Ig as [_ Dg]. intro X. apply Nd. rewrite <- X, <- Ee. exact Dg. }
  constructor; cbn [sst swr scch h_runs h_cur h_next sfiles sdirs].
  - rewrite <- (r_fst _ _ _ _ R). unfold P1. rewrite filter_map_comm. reflexivity.
  - rewrite (filter_ext_in' P1 (fun x => P2 (snd x))) by exact PP. rewrite <- filter_map_comm.
    apply Permutation_filter. apply (r_snd _ _ _ _ R).
  - apply Forall_forall. intros x Ix. apply filter_In in Ix. destruct Ix as [Ix _]. apply (L_frun h H L R); auto.
  - destruct (swr h) as [w|] eqn:EW.
    + destruct WR as [W1 W2]; [congruence|].
      change (wr_ok (filter P1 L) (strack_wr (Some w) (map SUnlink ks)) (h_cur H)). rewrite W2. exact W1.
    + pose proof (r_wr _ _ _ _ R) as W. rewrite EW in W. exact W.
  - unfold keys. cbn [sfiles]. apply NoDup_map_filter. apply (r_keys _ _ _ _ R).
  - apply NoDup_map_filter. apply (r_ids _ _ _ _ R).
  - intros a Ia. apply filter_In in Ia. destruct Ia as [Ia _]. apply (r_idlt _ _ _ _ R); auto.
  - intros e Ie. apply filter_In in Ie. destruct Ie as [Ie _]. apply (r_dirs _ _ _ _ R) in Ie. exact Ie.
  - intros e Ie. apply filter_In in Ie. destruct Ie as [Ie _]. apply (r_plain _ _ _ _ R); auto.
Qed.


(* ---- Rename ------------------------------------------------------------------------------------------------------------------------------- *)
Lemma existsb_filter_ne l d d0 :
  existsb (String.eqb d0) (filter (fun x => negb (String.eqb x d)) l) = (existsb (String.eqb d0) l && negb (String.eqb d0 d))%bool.
Proof.
  induction l as [|x l IH]; simpl; auto.
  destruct (String.eqb x d) eqn:E; simpl.
  - rewrite IH. apply String.eqb_eq in E. subst x. destruct (String.eqb d0 d) eqn:E2; simpl.
    + rewrite !andb_false_r. reflexivity.
    + reflexivity.
  - rewrite IH. destruct (String.eqb d0 x) eqn:E2; simpl; auto.
    apply String.eqb_eq in E2. subst x. rewrite E. reflexivity.
Qed.

Definition redag (d d' : string) (x : sent * arun) : sent * arun :=
  if String.eqb (k_dag (fst (fst x))) d then ((rekey d' (fst (fst x)), snd (fst x)), set_dag d' (snd x)) else x.

Lemma sim_rename h H L seen d d' :
  R2 h H L -> incl (keys (sst h)) seen -> op_okb h seen (ORename d d') = true ->
  exists L', R2 (sapply kname kpath h (ORename d d')) (sp_apply H (ORename d d')) L'.
Proof.
  intros R IS O. simpl in O. apply andb_prop in O. destruct O as [O O3]. apply andb_prop in O. destruct O as [O1 O2].
  apply negb_true_iff in O1. apply String.eqb_neq in O1.
  unfold sapply. simpl sprims. simpl sp_apply.
  assert (SPEC : forall x, In x L -> (if String.eqb (a_dag (snd x)) d then set_dag d' (snd x) else snd x) = snd (redag d d' x)).
  { intros x Ix. pose proof (L_frun h H L R x Ix) as [F1 _]. unfold redag. rewrite F1. destruct (String.eqb (a_dag (snd x)) d); reflexivity. }
  destruct (shas_dir (sst h) d) eqn:Dd.
  2:{ (* no directory: no file and no run of d *)
    exists L.
    assert (NR : forall a, In a (h_runs H) -> String.eqb (a_dag a) d = false).
    { intros a Ia. destruct (run_in_L h H L R a Ia) as [e Le]. pose proof (L_frun h H L R (e, a) Le) as [F1 _]. simpl in F1.
      apply String.eqb_neq. intro X. pose proof (r_dirs _ _ _ _ R e (L_in_file h H L R (e, a) Le)) as Y. simpl in Y. congruence. }
    eapply R2_same; eauto; cbn [sst swr h_runs h_cur h_next].
    - destruct (swr h) as [w|]; [|reflexivity]. apply strack_wr_keep. intros; constructor.
    - rewrite <- (map_id (h_runs H)) at 2. apply map_ext_in. intros a Ia. rewrite NR; auto. }
  set (G := sglob kname (sst h) d PAll).
  set (ks := map fst G).
  assert (RS : forall s a rest, run_sprims s (a :: rest) = run_sprims (run_sprim s a) rest) by reflexivity.
  change ([SMkdir d'] ++ map (fun e : sent => SRename (fst e) (rekey d' (fst e))) G ++ [SRmdir d])
    with (SMkdir d' :: (map (fun e : sent => SRename (fst e) (rekey d' (fst e))) G ++ [SRmdir d])).
  rewrite RS, run_sprims_app.
  assert (EQ : map (fun e : skey * file => SRename (fst e) (rekey d' (fst e))) G = map (fun k => SRename k (rekey d' k)) ks)
    by (unfold ks; rewrite map_map; reflexivity).
  rewrite !EQ.
  set (s1 := run_sprim (sst h) (SMkdir d')).
  assert (F1 : sfiles s1 = sfiles (sst h)) by apply mkdir_files.
  assert (K1 : keys s1 = keys (sst h)) by (apply keys_files; auto).
  assert (GM : forall e, In e G <-> In e (sfiles (sst h)) /\ k_dag (fst e) = d) by (intros e; apply (sglob_member _ h H L d e R)).
  assert (KSM : forall e, In e (sfiles (sst h)) -> existsb (fun k => skey_eqb k (fst e)) ks = String.eqb (k_dag (fst e)) d).
  { intros e Ie. destruct (existsb (fun k => skey_eqb k (fst e)) ks) eqn:X.
    - apply existsb_exists in X. destruct X as [k [Ik Ek]]. apply skey_eqb_eq in Ek. subst k.
      unfold ks in Ik. apply in_map_iff in Ik. destruct Ik as [e' [Ee Ie']]. apply GM in Ie'. destruct Ie' as [If Dg].
      assert (e' = e). { apply (NoDup_map_inj fst (sfiles (sst h))); auto. apply (r_keys _ _ _ _ R). }
      subst e'. rewrite Dg, String.eqb_refl. reflexivity.
    - symmetry. apply not_true_is_false. intro Y. apply String.eqb_eq in Y.
      assert (In (fst e) ks). { unfold ks. apply in_map. apply GM. auto. }
      assert (existsb (fun k => skey_eqb k (fst e)) ks = true).
      { apply existsb_exists. exists (fst e). split; auto. apply skey_eqb_refl. } congruence. }
  assert (FRESH : forall e, In e (sfiles (sst h)) -> k_dag (fst e) = d -> ~ In (rekey d' (fst e)) (keys (sst h))).
  { intros e Ie De X. rewrite forallb_forall in O3. specialize (O3 e Ie). rewrite De, String.eqb_refl in O3.
    apply negb_true_iff in O3. apply memk_false in O3. apply O3, IS, X. }
  assert (NDG : NoDup ks).
  { unfold ks. apply (Permutation_NoDup (l := map fst (filter (fun e : sent => String.eqb (k_dag (fst e)) d && in_patk PAll (fst e)) (sfiles (sst h))))).
    - apply Permutation_map, Permutation_sym, (sglob_perm _ h H L d PAll R).
    - apply NoDup_map_filter. apply (r_keys _ _ _ _ R). }
  rewrite (run_renames d d' O1 ks s1); auto.
  2:{ rewrite K1. apply (r_keys _ _ _ _ R). }
  2:{ intros k Ik. unfold ks in Ik. apply in_map_iff in Ik. destruct Ik as [e [Ee Ie]]. apply GM in Ie. destruct Ie as [If Dg].
      subst k. split; auto. rewrite K1. unfold keys. apply in_map. auto. }
  2:{ intros k Ik. unfold ks in Ik. apply in_map_iff in Ik. destruct Ik as [e [Ee Ie]]. apply GM in Ie. destruct Ie as [If Dg].
      subst k. rewrite K1. apply FRESH; auto. }
  unfold rekey_in. rewrite F1.
  rewrite (map_ext_in _ (fun e : sent => if String.eqb (k_dag (fst e)) d then (rekey d' (fst e), snd e) else e))
    by (intros e Ie; rewrite KSM; auto).
  set (fl2 := map (fun e : sent => if String.eqb (k_dag (fst e)) d then (rekey d' (fst e), snd e) else e) (sfiles (sst h))).
  assert (EMP : sdir_empty {| sdirs := sdirs s1; sfiles := fl2 |} d = true).
  { unfold sdir_empty. simpl. apply negb_true_iff. apply not_true_is_false. intro X. apply existsb_exists in X.
    destruct X as [e2 [I2 E2]]. unfold fl2 in I2. apply in_map_iff in I2. destruct I2 as [e [Ee Ie]].
    destruct (String.eqb (k_dag (fst e)) d) eqn:Ed; subst e2; simpl in E2.
    - apply String.eqb_eq in E2. congruence.
    - congruence. }
  unfold run_sprims. cbn [fold_left]. unfold run_sprim at 1. rewrite EMP. cbn [sdirs sfiles].
  exists (map (redag d d') L).
  assert (FL2 : map fst (map (redag d d') L) = fl2).
  { unfold fl2. rewrite <- (r_fst _ _ _ _ R). rewrite !map_map. apply map_ext. intros x. unfold redag.
    destruct (String.eqb (k_dag (fst (fst x))) d); reflexivity. }
  assert (WR : swr h <> None -> forall ps, (forall p, In p ps -> (exists d0, p = SMkdir d0 \/ p = SRmdir d0) \/
                  (exists e, In e (sfiles (sst h)) /\ k_dag (fst e) = d /\ p = SRename (fst e) (rekey d' (fst e)))) ->
               wr_ok (map (redag d d') L) (swr h) (h_cur H) /\ strack_wr (swr h) ps = swr h).
  { intros Nw ps PS. destruct (swr h) as [w|] eqn:EW; [|congruence].
    destruct (wr_dag_off h H L d w R EW O2) as [id [e0 [a0 [EC [W1 [I0 [E1 [E2 [E3 [Nd W2]]]]]]]]]].
    split.
    - unfold wr_ok. rewrite EC. split; auto. split; auto. exists e0, a0. repeat split; auto.
      apply in_map_iff. exists (e0, a0). split; auto. unfold redag. simpl. rewrite E1.
      apply String.eqb_neq in Nd. rewrite Nd. reflexivity.
    - apply strack_wr_keep. intros k0 Ek. rewrite W1 in Ek. inversion Ek; subst k0.
      apply Forall_forall. intros p Ip. destruct (PS p Ip) as [[d0 [X|X]]|[e [Ie [De X]]]]; subst p; simpl; auto.
      split.
      + intro X. apply Nd. rewrite <- X. exact De.
      + intro X. apply (FRESH e Ie De). rewrite X. rewrite <- E1. unfold keys. apply in_map.
        apply (L_in_file h H L R (e0, a0)); auto. }
  constructor; cbn [sst swr scch h_runs h_cur h_next sfiles sdirs].
  - exact FL2.
  - rewrite map_map. eapply Permutation_trans; [|apply Permutation_map, (r_snd _ _ _ _ R)]. rewrite map_map.
    apply Permutation_refl'. apply map_ext_in. intros x Ix. symmetry. apply SPEC; auto.
  - apply Forall_forall. intros y Iy. apply in_map_iff in Iy. destruct Iy as [x [Ex Ix]]. subst y.
    pose proof (L_frun h H L R x Ix) as FR. unfold redag. destruct (String.eqb (k_dag (fst (fst x))) d); auto.
    destruct FR as [G1 [G2 [G3 [G4 [G5 [G6 G7]]]]]]. unfold frun. simpl. repeat split; auto.
  - destruct (swr h) as [w|] eqn:EW.
    + destruct (WR ltac:(congruence) (SMkdir d' :: (map (fun k => SRename k (rekey d' k)) ks ++ [SRmdir d]))) as [W1 W2].
      * intros p Ip. destruct Ip as [Ip|Ip]. { left. exists d'. auto. }
        apply in_app_or in Ip. destruct Ip as [Ip|[Ip|[]]]. 2:{ left. exists d. auto. }
        right. apply in_map_iff in Ip. destruct Ip as [k [Ep Ik]]. unfold ks in Ik. apply in_map_iff in Ik.
        destruct Ik as [e [Ee Ie]]. apply GM in Ie. destruct Ie as [If Dg]. exists e. subst. auto.
      * rewrite W2. exact W1.
    + pose proof (r_wr _ _ _ _ R) as W. rewrite EW in W. exact W.
  - unfold keys. cbn [sfiles]. unfold fl2. rewrite map_map.
    replace (map (fun x : sent => fst (if String.eqb (k_dag (fst x)) d then (rekey d' (fst x), snd x) else x)) (sfiles (sst h)))
      with (map (fun k => if String.eqb (k_dag k) d then rekey d' k else k) (keys (sst h))).
    2:{ unfold keys. rewrite map_map. apply map_ext. intros x. destruct (String.eqb (k_dag (fst x)) d); reflexivity. }
    apply NoDup_map_of_inj. { apply (r_keys _ _ _ _ R). }
    intros k1 k2 I1 I2 E. unfold keys in I1, I2. apply in_map_iff in I1, I2.
    destruct I1 as [e1 [E1 J1]], I2 as [e2 [E2 J2]]. subst k1 k2.
    destruct (String.eqb (k_dag (fst e1)) d) eqn:D1, (String.eqb (k_dag (fst e2)) d) eqn:D2; auto.
    + apply String.eqb_eq in D1, D2. apply (rekey_inj d'); congruence.
    + apply String.eqb_eq in D1. exfalso. apply (FRESH e1 J1 D1). rewrite E. unfold keys. apply in_map. auto.
    + apply String.eqb_eq in D2. exfalso. apply (FRESH e2 J2 D2). rewrite <- E. unfold keys. apply in_map. auto.
  - rewrite map_map. rewrite (map_ext _ a_id). { apply (r_ids _ _ _ _ R). }
    intros a. destruct (String.eqb (a_dag a) d); reflexivity.
  - intros a Ia. apply in_map_iff in Ia. destruct Ia as [b [E Ib]]. apply (r_idlt _ _ _ _ R) in Ib.
    destruct (String.eqb (a_dag b) d); subst a; simpl; auto.
  - intros e2 I2. unfold shas_dir. cbn [sdirs]. rewrite existsb_filter_ne. fold (shas_dir s1 (k_dag (fst e2))).
    unfold fl2 in I2. apply in_map_iff in I2. destruct I2 as [e [Ee Ie]].
    destruct (String.eqb (k_dag (fst e)) d) eqn:Ed; subst e2; simpl.
    + unfold s1. rewrite mkdir_dir_self. simpl. apply negb_true_iff. apply String.eqb_neq. auto.
    + unfold s1. rewrite mkdir_dir_mono by (apply (r_dirs _ _ _ _ R); auto). rewrite Ed. reflexivity.
  - intros e2 I2. unfold fl2 in I2. apply in_map_iff in I2. destruct I2 as [e [Ee Ie]].
    pose proof (r_plain _ _ _ _ R e Ie) as Tp. destruct (String.eqb (k_dag (fst e)) d); subst e2; simpl; auto.
Qed.


(* ---- Touch (os.Chtimes by the environment) ------------------------------------------------------------------------------------------------ *)
Definition set_mt (t : Z) (f : file) : file := {| items := items f; ftail := ftail f; mtime := t |}.
Definition touched (d stamp r8 : string) (a : arun) : bool :=
  String.eqb (a_dag a) d && String.eqb (a_stamp a) stamp && String.eqb (trunc8 (a_req a)) r8.

Lemma sim_touch h H L seen d stamp r8 c t :
  R2 h H L -> hist_okb H = true -> op_okb h seen (OTouch d stamp r8 c t) = true ->
  exists L', R2 (sapply kname kpath h (OTouch d stamp r8 c t)) (sp_apply H (OTouch d stamp r8 c t)) L'.
Proof.
  intros R O P. simpl in P. set (k := mkkey d stamp r8 c) in *.
  assert (ST : sst (sapply kname kpath h (OTouch d stamp r8 c t)) = {| sdirs := sdirs (sst h); sfiles := upd_key k (set_mt t) (sfiles (sst h)) |}) by reflexivity.
  assert (SW : swr (sapply kname kpath h (OTouch d stamp r8 c t)) = swr h).
  { unfold sapply. cbn [swr]. destruct (swr h) as [w|]; [|reflexivity]. apply strack_wr_keep. intros k0 _. repeat constructor. }
  assert (TP : forall e a, In (e, a) L -> same_run_key d stamp r8 (fst e) = touched d stamp r8 a).
  { intros e a I. pose proof (L_frun h H L R (e, a) I) as [F1 [F2 [F3 _]]]. simpl in *. unfold same_run_key, touched.
    rewrite F1, F2, F3. reflexivity. }
  destruct (shas (sst h) k) eqn:HK.
  - apply shas_true in HK. unfold keys in HK. apply in_map_iff in HK. destruct HK as [e0 [E0 I0]].
    destruct (file_in_L h H L R e0 I0) as [a0 L0].
    assert (T0 : touched d stamp r8 a0 = true).
    { rewrite <- (TP e0 a0 L0). rewrite E0. unfold same_run_key, k. simpl. rewrite !String.eqb_refl. reflexivity. }
    exists (map (upd_pair k (set_mt t) (set_mtime t)) L).
    apply (R2_update true h H L k (a_id a0) (set_mt t) (set_mtime t) _ _ e0 a0); auto.
    + pose proof (L_frun h H L R (e0, a0) L0) as [G1 [G2 [G3 [G4 [G5 [G6 G7]]]]]]. cbn [fst snd] in *.
      rewrite E0 in G1, G2, G3. unfold frun. cbn [fst snd]. repeat split; auto.
    + apply pres_mtime.
    + simpl. unfold upd_run. apply map_ext_in. intros a Ia. fold (touched d stamp r8 a).
      destruct (touched d stamp r8 a) eqn:Ta.
      * assert (a = a0).
        { apply (hist_ok_prop H); auto. apply (r_ids _ _ _ _ R). apply (L_in_run h H L R (e0, a0)); auto.
          - unfold touched in Ta, T0. apply andb_prop in Ta, T0. destruct Ta as [Ta _], T0 as [T0 _].
            apply andb_prop in Ta, T0. destruct Ta as [Ta _], T0 as [T0 _]. apply String.eqb_eq in Ta, T0. congruence.
          - right. unfold touched in Ta, T0. apply andb_prop in Ta, T0. destruct Ta as [Ta _], T0 as [T0 _].
            apply andb_prop in Ta, T0. destruct Ta as [_ Ta], T0 as [_ T0]. apply String.eqb_eq in Ta, T0. congruence. }
        subst a. rewrite Nat.eqb_refl. reflexivity.
      * destruct (Nat.eqb (a_id a) (a_id a0)) eqn:Ei; auto. apply Nat.eqb_eq in Ei.
        assert (a = a0) by (apply (run_unique h H L R); auto; apply (L_in_run h H L R (e0, a0)); auto). subst a. congruence.
  - simpl in P. apply negb_true_iff in P.
    exists L. apply (R2_same true h H L); auto.
    + rewrite ST. rewrite upd_key_absent. { destruct (sst h); reflexivity. } apply shas_false. exact HK.
    + simpl. rewrite <- (map_id (h_runs H)) at 2. apply map_ext_in. intros a Ia. fold (touched d stamp r8 a).
      destruct (touched d stamp r8 a) eqn:Ta; auto. exfalso.
      destruct (run_in_L h H L R a Ia) as [e Le]. rewrite <- (TP e a Le) in Ta.
      assert (existsb (fun e => same_run_key d stamp r8 (fst e)) (sfiles (sst h)) = true).
      { apply existsb_exists. exists e. split; auto. apply (L_in_file h H L R (e, a)); auto. } congruence.
Qed.

(* ---- every operation, every sequence ----------------------------------------------------------------------------------------------------------- *)
Theorem step_sim h H L seen o :
  R2 h H L -> hist_okb H = true -> incl (keys (sst h)) seen -> op_okb h seen o = true ->
  exists L', R2 (sapply kname kpath h o) (sp_apply H o) L'.
Proof.
  intros R O IS P. destruct o.
  - eapply sim_open; eauto.
  - eapply sim_write; eauto.
  - eapply sim_close; eauto.
  - eapply sim_update; eauto.
  - eapply sim_rename; eauto.
  - eapply sim_removeold; eauto.
  - eapply sim_touch; eauto.
Qed.

Definition seen_ok (g : gstate) : Prop := incl (keys (sst (g_h g))) (g_seen g).
Lemma seen_ok_step g o : seen_ok (gapply g o).
Proof. unfold seen_ok, gapply. simpl. apply incl_appr, incl_refl. Qed.

Theorem run_sim os : forall g H L,
  R2 (g_h g) H L -> hist_okb H = true -> seen_ok g -> ops_okb g H os = true ->
  exists L', R2 (g_h (grun g os)) (sp_run H os) L' /\ hist_okb (sp_run H os) = true /\ seen_ok (grun g os).
Proof.
  induction os as [|o os IH]; intros g H L R O S P; simpl in *.
  - exists L. auto.
  - apply andb_prop in P. destruct P as [P P3]. apply andb_prop in P. destruct P as [P1 P2].
    destruct (step_sim (g_h g) H L (g_seen g) o R O S P1) as [L' R'].
    apply (IH (gapply g o) (sp_apply H o) L'); auto. apply seen_ok_step.
Qed.

Lemma g_h_grun os : forall g, g_h (grun g os) = srun_ops kname kpath (g_h g) os.
Proof. induction os as [|o os IH]; intros g; simpl; auto. rewrite IH. reflexivity. Qed.

Corollary reachable_sim os : ops_okb g_init hist_init os = true ->
  exists L, R2 (srun_ops kname kpath s_init os) (sp_run hist_init os) L /\ hist_okb (sp_run hist_init os) = true.
Proof.
  intros P. destruct (run_sim os g_init hist_init [] R2_init eq_refl) as [L [R [O _]]]; auto.
  { intros x []. }
  exists L. rewrite g_h_grun in R. auto.
Qed.


(* retention at the level of files: exactly the files of d older than the cutoff disappear *)
Lemma removeold_files h H L d cutoff : R2 h H L ->
  sst (sapply kname kpath h (ORemoveOld d cutoff))
  = {| sdirs := sdirs (sst h); sfiles := filter (fun e => negb (dagold d cutoff e)) (sfiles (sst h)) |}.
Proof.
  intros R. unfold sapply. simpl sprims. cbn [sst].
  set (G := sglob kname (sst h) d PAll).
  rewrite <- (map_map fst SUnlink), run_unlinks. f_equal.
  set (ks := map fst (filter (fun e : sent => (mtime (snd e) <? cutoff)%Z) G)).
  apply filter_ext_in'. intros e Ie. f_equal.
  assert (MEM : existsb (fun k => skey_eqb k (fst e)) ks = dagold d cutoff e).
  { unfold dagold. destruct (existsb (fun k => skey_eqb k (fst e)) ks) eqn:X.
    - apply existsb_exists in X. destruct X as [k [Ik Ek]]. apply skey_eqb_eq in Ek. subst k.
      unfold ks in Ik. apply in_map_iff in Ik. destruct Ik as [e' [Ee Ie']]. apply filter_In in Ie'. destruct Ie' as [Ig Old].
      apply (sglob_member _ h H L d e' R) in Ig. destruct Ig as [If Dg].
      assert (e' = e). { apply (NoDup_map_inj fst (sfiles (sst h))); auto. apply (r_keys _ _ _ _ R). }
      subst e'. rewrite Dg, String.eqb_refl, Old. reflexivity.
    - symmetry. apply not_true_is_false. intro Y. apply andb_prop in Y. destruct Y as [Y1 Y2]. apply String.eqb_eq in Y1.
      assert (In (fst e) ks).
      { unfold ks. apply in_map. apply filter_In. split; auto. apply (sglob_member _ h H L d e R). auto. }
      assert (existsb (fun k => skey_eqb k (fst e)) ks = true).
      { apply existsb_exists. exists (fst e). split; auto. apply skey_eqb_refl. } congruence. }
  exact MEM.
Qed.

End F.
Notation R2 := (R2g true).
Arguments L_keys {st}. Arguments L_in_file {st}. Arguments L_in_run {st}. Arguments L_frun {st}. Arguments L_ids_nodup {st}.
Arguments L_key_unique {st}. Arguments L_id_unique {st}. Arguments run_in_L {st}. Arguments file_in_L {st}. Arguments L_sget {st}.
Arguments run_unique {st}.
