(* Hist/ProofsC06.v - the statements of property C06 in their final form (re-exported by Props/C06.v):
   consequences of ProofsTop.trace_refines for the states reachable by any trace, isolation / rename / retention /
   cache coherence transferred to the string-level model, the `_refuted` witnesses for the unconditional
   statements (F6a same-second runs, F6b glob metacharacters, F6c stamp-like names; evaluated by vm_compute on the
   faithful model - replayed on the real jsondb they are the findings) and Examples that the premises of the
   `_partial` theorems are satisfiable by a non-trivial trace. *)
From Coq Require Import List String Ascii Bool Arith ZArith Lia Permutation.
Import ListNotations.
From BD.Hist Require Import GoMatch Model SModel Spec ProofsLib ProofsStore ProofsString ProofsRefine ProofsCache ProofsSpec ProofsTop.
Open Scope string_scope.
Open Scope list_scope.

(* the canonical key universe of a history: every DAG x every (stamp, request id cut at 8) x {plain, compacted, temporary copy of the compacted} *)
Definition univ (D : list string) (runs : list (string * string)) : list skey :=
  flat_map (fun d => flat_map (fun sr => [mkkey d (fst sr) (snd sr) false; mkkey d (fst sr) (snd sr) true;
                                          tmpk (mkkey d (fst sr) (snd sr) true)]) runs) D.

Section C.
Variable loc : string.
Variable dirhash : string -> string.
Variable D : list string.
Variable days : list string.
Variable K : list skey.
Hypothesis OK : names_okb loc dirhash D days K = true.
Hypothesis KC : closedb D K = true.

Definition sp_state (es : list ev) : hist := fold_left (fun H e => fst (sp_step H e)) es hist_init.
Definition premises (es : list ev) : Prop := Forall (ev_in D days K) es /\ evs_okb loc dirhash ysys_init hist_init es = true.

(* every answer along every trace is the specification's answer *)
Theorem refinement es : premises es -> ytrace loc dirhash sys_init es = sp_trace hist_init es.
Proof.
  intros [F P]. apply (trace_refines loc dirhash D days K OK KC es sys_init ysys_init hist_init); auto.
  apply INV_init.
Qed.

Lemma reach_inv es : premises es ->
  INV dirhash D K (yrun loc dirhash sys_init es) (fold_left (ysstep loc dirhash) es ysys_init) (sp_state es).
Proof.
  intros [F P]. apply (trace_refines loc dirhash D days K OK KC es sys_init ysys_init hist_init); auto.
  apply INV_init.
Qed.

(* the three queries in any reachable state, asked by anybody *)
Theorem find_exact es d req : premises es -> In d D ->
  fpayload (q_find loc dirhash (hfs (y_h (yrun loc dirhash sys_init es))) d req) = sp_find (sp_state es) d req.
Proof.
  intros P Id. pose proof (reach_inv es P) as I.
  destruct (step_inv loc dirhash D days K OK KC _ _ _ (EFind d req) I Id eq_refl) as [_ A]. simpl in A. inversion A. reflexivity.
Qed.
Theorem latest_exact es who d day : premises es -> In d D -> (match day with Some x => In x days | None => True end) ->
  snd (ystep loc dirhash (yrun loc dirhash sys_init es) (ELatest who d day)) = ALatest (sp_latest (sp_state es) d day).
Proof.
  intros P Id Idy. pose proof (reach_inv es P) as I.
  destruct (step_inv loc dirhash D days K OK KC _ _ _ (ELatest who d day) I (conj Id Idy) eq_refl) as [_ A]. exact A.
Qed.
Theorem recent_exact es who d n : premises es -> In d D ->
  snd (ystep loc dirhash (yrun loc dirhash sys_init es) (ERecent who d n)) = ARecent (sp_recent (sp_state es) d n).
Proof.
  intros P Id. pose proof (reach_inv es P) as I.
  destruct (step_inv loc dirhash D days K OK KC _ _ _ (ERecent who d n) I Id eq_refl) as [_ A]. exact A.
Qed.

(* cache coherence: in every reachable state every cache (of every reader and of the operating process) makes
   LoadLatest answer exactly what ParseFile answers *)
Theorem cache_coherent es k : premises es -> In k K ->
  let y := yrun loc dirhash sys_init es in
  let pure := match get_file (hfs (y_h y)) (rdir dirhash (k_dag k)) (rname k) with Some f => parse f | None => None end in
  (forall i, snd (load_latest (y_c y i) (hfs (y_h y)) (rdir dirhash (k_dag k)) (rname k)) = pure)
  /\ snd (load_latest (hcache (y_h y)) (hfs (y_h y)) (rdir dirhash (k_dag k)) (rname k)) = pure.
Proof.
  intros P Ik y pure. pose proof (reach_inv es P) as I. fold y in I.
  destruct I as [Ih Ic Iin Icin _ _ _ Icok Iwok]. destruct Iin as [KI [ND [CI WI]]].
  set (ys := fold_left (ysstep loc dirhash) es ysys_init) in *.
  assert (PE : pure = load_pure (sst (ys_h ys)) k).
  { unfold pure, load_pure. rewrite Ih. simpl. rewrite (get_render loc dirhash D days K OK); auto. }
  split.
  - intros i. rewrite Ih, (Ic i). simpl.
    destruct (load_latest_render loc dirhash D days K OK (ys_c ys i) (sst (ys_h ys)) k KI (Icin i) Ik) as [E _]. rewrite E. simpl.
    rewrite PE. apply sload_latest_sound. eapply cache_ok_sound; eauto.
  - rewrite Ih. simpl.
    destruct (load_latest_render loc dirhash D days K OK (scch (ys_h ys)) (sst (ys_h ys)) k KI CI Ik) as [E _]. rewrite E. simpl.
    rewrite PE. apply sload_latest_sound. eapply cache_ok_sound; eauto.
Qed.

(* isolation: an operation on other DAGs does not change any answer about d' *)
Lemma sp_state_snoc es e : sp_state (es ++ [e]) = fst (sp_step (sp_state es) e).
Proof. unfold sp_state. rewrite fold_left_app. reflexivity. Qed.
Lemma yrun_snoc es e : yrun loc dirhash sys_init (es ++ [e]) = fst (ystep loc dirhash (yrun loc dirhash sys_init es) e).
Proof.
  generalize sys_init. induction es as [|x es IH]; intros y; simpl; auto.
Qed.

Theorem isolation es o d' : premises es -> premises (es ++ [EOp o]) -> In d' D -> ~ In d' (op_dags (sp_state es) o) ->
  let y := yrun loc dirhash sys_init es in
  let y' := yrun loc dirhash sys_init (es ++ [EOp o]) in
  (forall req, fpayload (q_find loc dirhash (hfs (y_h y')) d' req) = fpayload (q_find loc dirhash (hfs (y_h y)) d' req))
  /\ (forall who day, (match day with Some x => In x days | None => True end) ->
        snd (ystep loc dirhash y' (ELatest who d' day)) = snd (ystep loc dirhash y (ELatest who d' day)))
  /\ (forall who n, snd (ystep loc dirhash y' (ERecent who d' n)) = snd (ystep loc dirhash y (ERecent who d' n))).
Proof.
  intros P P' Id N y y'.
  pose proof (reach_inv es P) as I. destruct I as [_ _ _ _ [L R] _ _ _ _].
  assert (V : dag_view (sp_state (es ++ [EOp o])) d' = dag_view (sp_state es) d').
  { rewrite sp_state_snoc. simpl. apply sp_isolation; auto. apply (r_ids _ _ _ _ R). }
  destruct (queries_depend_on_view _ _ d' V) as [Q1 [Q2 Q3]].
  split; [|split].
  - intros req. unfold y, y'. rewrite !find_exact; auto.
  - intros who day Idy. unfold y, y'. rewrite !latest_exact; auto. rewrite Q2. reflexivity.
  - intros who n. unfold y, y'. rewrite !recent_exact; auto. rewrite Q3. reflexivity.
Qed.

(* rename carries every run: what was answered for d is answered for d' *)
Theorem rename_carries es d d' : premises es -> premises (es ++ [EOp (ORename d d')]) -> In d D -> In d' D -> d <> d' ->
  dag_view (sp_state es) d' = [] ->
  let y := yrun loc dirhash sys_init es in
  let y' := yrun loc dirhash sys_init (es ++ [EOp (ORename d d')]) in
  (forall req, fpayload (q_find loc dirhash (hfs (y_h y')) d' req) = fpayload (q_find loc dirhash (hfs (y_h y)) d req))
  /\ (forall who day, (match day with Some x => In x days | None => True end) ->
        snd (ystep loc dirhash y' (ELatest who d' day)) = snd (ystep loc dirhash y (ELatest who d day)))
  /\ (forall who n, snd (ystep loc dirhash y' (ERecent who d' n)) = snd (ystep loc dirhash y (ERecent who d n))).
Proof.
  intros P P' Id Id' Nd E y y'.
  destruct (sp_rename_carries (sp_state es) d d' Nd E) as [Q1 [Q2 Q3]].
  assert (S : sp_state (es ++ [EOp (ORename d d')]) = sp_apply (sp_state es) (ORename d d')) by (rewrite sp_state_snoc; reflexivity).
  split; [|split].
  - intros req. unfold y, y'. rewrite !find_exact; auto. rewrite S. apply Q1.
  - intros who day Idy. unfold y, y'. rewrite !latest_exact; auto. rewrite S, Q2. reflexivity.
  - intros who n. unfold y, y'. rewrite !recent_exact; auto. rewrite S, Q3. reflexivity.
Qed.


(* retention removes exactly the history files of d whose mtime is older than the cutoff - nothing of another DAG *)
Theorem retention_exact es d cutoff : premises es -> In d D ->
  let y := yrun loc dirhash sys_init es in
  files (hfs (apply loc dirhash (y_h y) (ORemoveOld d cutoff)))
  = filter (fun e => negb (String.eqb (e_dir e) (rdir dirhash d) && (mtime (e_file e) <? cutoff)%Z)) (files (hfs (y_h y))).
Proof.
  intros P Id y. pose proof (reach_inv es P) as I. fold y in I.
  destruct I as [Ih _ Iin _ [L R] _ _ _ _].
  set (ys := fold_left (ysstep loc dirhash) es ysys_init) in *.
  destruct (apply_render loc dirhash D days K OK KC (ORemoveOld d cutoff) (ys_h ys) Iin Id) as [E _].
  rewrite Ih, E. unfold render_state. cbn [hfs]. rewrite (removeold_files rname (rpath loc dirhash) (ys_h ys) _ L d cutoff R).
  unfold render_fs. cbn [files sfiles].
  rewrite filter_map_comm. f_equal. apply filter_ext_in'. intros e Ie. unfold dagold, e_dir, e_file. simpl.
  destruct Iin as [[KI DI] _]. rewrite (nk_dir_eqb loc dirhash D days K OK); auto.
  apply (nk_dag loc dirhash D days K OK). auto.
Qed.


(* boolean form of the universe premise, so that all premises of a trace can be evaluated (Examples, the check) *)
Definition memd (d : string) : bool := existsb (String.eqb d) D.
Definition memK (k : skey) : bool := existsb (skey_eqb k) K.
Definition op_inb (o : op) : bool :=
  match o with
  | OOpen d stamp req _ => memd d && memK (mkkey d stamp (trunc8 req) false)
  | OWrite _ _ _ | OClose _ => true
  | OUpdate d _ _ _ _ => memd d
  | ORename d d' => memd d && memd d'
  | ORemoveOld d _ => memd d
  | OTouch d stamp r8 c _ => memK (mkkey d stamp r8 c)
  end.
Definition ev_inb (e : ev) : bool :=
  match e with
  | EOp o => op_inb o
  | ELatest _ d day => memd d && match day with Some x => existsb (String.eqb x) days | None => true end
  | ERecent _ d _ => memd d
  | EFind d _ => memd d
  end.
Definition premisesb (es : list ev) : bool := forallb ev_inb es && evs_okb loc dirhash ysys_init hist_init es.

Lemma memd_in d : memd d = true -> In d D.
Proof. unfold memd. intros H. apply existsb_exists in H. destruct H as [x [I E]]. apply String.eqb_eq in E. subst. auto. Qed.
Lemma memK_in k : memK k = true -> In k K.
Proof. unfold memK. intros H. apply existsb_exists in H. destruct H as [x [I E]]. apply skey_eqb_eq in E. subst. auto. Qed.
Lemma ev_inb_sound e : ev_inb e = true -> ev_in D days K e.
Proof.
  destruct e as [o|who d day|who d n|d req]; simpl; intros H.
  - destruct o; simpl in *; auto;
      repeat match goal with X : (_ && _)%bool = true |- _ => apply andb_prop in X; destruct X end;
      repeat split; auto using memd_in, memK_in.
  - apply andb_prop in H. destruct H as [H1 H2]. split. { apply memd_in; auto. }
    destruct day; auto. apply existsb_exists in H2. destruct H2 as [x [I E]]. apply String.eqb_eq in E. subst. auto.
  - apply memd_in; auto.
  - apply memd_in; auto.
Qed.
Lemma premisesb_sound es : premisesb es = true -> premises es.
Proof.
  unfold premisesb, premises. intros H. apply andb_prop in H. destruct H as [H1 H2]. split; auto.
  apply Forall_forall. intros e Ie. rewrite forallb_forall in H1. apply ev_inb_sound; auto.
Qed.

End C.

(* all premises of a trace over the universe (D, days, K), as one boolean *)
Definition all_premisesb (loc : string) (dirhash : string -> string) (D days : list string) (K : list skey) (es : list ev) : bool :=
  names_okb loc dirhash D days K && closedb D K && premisesb loc dirhash D days K es.
