(* Hist/ProofsLib.v - generic facts used by the Hist proofs: the two insertion sorts of Model.v
   (permutation, sortedness, independence of the input order when the keys are distinct, commutation with
   map), filters under permutation, byte order of strings (String.ltb as a strict total order), prefixes. *)
From Coq Require Import List String Ascii Bool Arith ZArith Lia Permutation Sorting.Sorted.
From Coq Require Import Structures.OrderedTypeEx.
Import ListNotations.
From BD.Hist Require Import Model SModel.
Open Scope string_scope.

(* ---------- String.ltb ------------------------------------------------------------------------ *)
Lemma sltb_lt a b : String.ltb a b = true <-> String_as_OT.lt a b.
Proof.
  unfold String.ltb. rewrite <- String_as_OT.cmp_lt. unfold String_as_OT.cmp.
  destruct (String.compare a b); split; congruence.
Qed.
Lemma sltb_irrefl a : String.ltb a a = false.
Proof.
  destruct (String.ltb a a) eqn:E; auto. apply sltb_lt in E.
  exfalso. eapply String_as_OT.lt_not_eq; eauto. reflexivity.
Qed.
Lemma sltb_trans a b c : String.ltb a b = true -> String.ltb b c = true -> String.ltb a c = true.
Proof. rewrite !sltb_lt. apply String_as_OT.lt_trans. Qed.
Lemma sltb_asym a b : String.ltb a b = true -> String.ltb b a = false.
Proof.
  intros H. destruct (String.ltb b a) eqn:E; auto.
  pose proof (sltb_trans _ _ _ H E) as T. rewrite sltb_irrefl in T. discriminate.
Qed.
Lemma sltb_total a b : a <> b -> String.ltb a b = true \/ String.ltb b a = true.
Proof.
  intros N. unfold String.ltb. rewrite (String.compare_antisym b a).
  destruct (String.compare a b) eqn:E; simpl; auto.
  apply String.compare_eq_iff in E. contradiction.
Qed.

(* comparison of two strings whose n-prefixes differ is decided by the prefixes *)
Lemma compare_take n : forall a b, take n a <> take n b -> String.compare (take n a) (take n b) = String.compare a b.
Proof.
  induction n; intros a b N.
  { exfalso. apply N. destruct a, b; reflexivity. }
  destruct a as [|x a], b as [|y b]; simpl in *; try congruence.
  destruct (Ascii.compare x y) eqn:E; auto.
  apply IHn. intro H. apply N. f_equal; auto.
  apply OrderedTypeEx.Ascii_as_OT.cmp_eq in E. exact E.
Qed.
Lemma ltb_take n a b : take n a <> take n b -> String.ltb (take n a) (take n b) = String.ltb a b.
Proof. intros N. unfold String.ltb. rewrite compare_take; auto. Qed.

(* ---------- prefixes, append ------------------------------------------------------------------ *)
Lemma prefixb_app p r : prefixb p (p ++ r) = true.
Proof. induction p; simpl; auto. rewrite Ascii.eqb_refl. auto. Qed.
Lemma drop_app p r : drop (String.length p) (p ++ r) = r.
Proof. induction p; simpl; auto. Qed.
Lemma replace1_prefix p q r : replace1 (p ++ r) p q = q ++ r.
Proof.
  destruct (p ++ r) eqn:E.
  - simpl. destruct p; simpl in *; try discriminate. subst. reflexivity.
  - cbn [replace1]. rewrite <- E, prefixb_app, drop_app. reflexivity.
Qed.
Lemma sapp_assoc (a b c : string) : (a ++ b) ++ c = a ++ (b ++ c).
Proof. induction a; simpl; congruence. Qed.
Lemma sapp_inv_head (a b c : string) : a ++ b = a ++ c -> b = c.
Proof. induction a; simpl; intros H; auto. inversion H; auto. Qed.

(* ---------- filters --------------------------------------------------------------------------- *)
Lemma filter_true {A} (l : list A) : filter (fun _ => true) l = l.
Proof. induction l; simpl; congruence. Qed.
Lemma filter_ext_in' {A} (f g : A -> bool) l : (forall x, In x l -> f x = g x) -> filter f l = filter g l.
Proof. apply filter_ext_in. Qed.
Lemma filter_map_comm {A B} (f : A -> B) (p : B -> bool) l : filter p (map f l) = map f (filter (fun x => p (f x)) l).
Proof. induction l; simpl; auto. destruct (p (f a)); simpl; congruence. Qed.
Lemma filter_filter {A} (p q : A -> bool) l : filter p (filter q l) = filter (fun x => q x && p x) l.
Proof. induction l; simpl; auto. destruct (q a); simpl; [destruct (p a)|]; simpl; congruence. Qed.
Lemma Permutation_filter {A} (p : A -> bool) l l' : Permutation l l' -> Permutation (filter p l) (filter p l').
Proof.
  induction 1; simpl; auto.
  - destruct (p x); auto.
  - destruct (p x), (p y); auto. apply perm_swap.
  - eapply Permutation_trans; eauto.
Qed.
Lemma filter_unique_perm {A} (p : A -> bool) l l' :
  Permutation l l' -> (forall x y, In x l -> In y l -> p x = true -> p y = true -> x = y) -> NoDup l ->
  filter p l = filter p l'.
Proof.
  intros P U N.
  assert (L : (List.length (filter p l) <= 1)%nat).
  { destruct (filter p l) as [|a [|b r]] eqn:E; simpl; try lia.
    assert (Ha : In a (filter p l)) by (rewrite E; simpl; auto).
    assert (Hb : In b (filter p l)) by (rewrite E; simpl; auto).
    apply filter_In in Ha, Hb. destruct Ha, Hb.
    assert (a = b) by (apply U; auto). subst b.
    assert (ND : NoDup (filter p l)) by (apply NoDup_filter; auto).
    rewrite E in ND. inversion ND; subst. simpl in *. tauto. }
  pose proof (Permutation_filter p _ _ P) as PF.
  destruct (filter p l) as [|a [|b r]] eqn:E; simpl in L; try lia.
  - apply Permutation_nil in PF. auto.
  - apply Permutation_length_1_inv in PF. auto.
Qed.

(* ---------- ins_by / isort (ascending, used for directory listings) ---------------------------- *)
Lemma ins_by_perm {A} (lt : A -> A -> bool) x l : Permutation (ins_by lt x l) (x :: l).
Proof.
  induction l; simpl; auto. destruct (lt x a); auto.
  eapply Permutation_trans; [apply perm_skip, IHl | apply perm_swap].
Qed.
Lemma isort_gen_perm {A} (lt : A -> A -> bool) l : forall acc, Permutation (fold_left (fun acc x => ins_by lt x acc) l acc) (l ++ acc).
Proof.
  induction l; intros acc; simpl; auto.
  eapply Permutation_trans; [apply IHl|].
  eapply Permutation_trans; [apply Permutation_app_head, ins_by_perm|].
  apply Permutation_sym, Permutation_middle.
Qed.
Lemma isort_perm {A} (lt : A -> A -> bool) l : Permutation (isort lt l) l.
Proof. unfold isort. eapply Permutation_trans; [apply isort_gen_perm|]. rewrite app_nil_r. auto. Qed.

Lemma ins_by_map {A B} (f : A -> B) (ltA : A -> A -> bool) (ltB : B -> B -> bool) x l :
  (forall a b, ltB (f a) (f b) = ltA a b) -> ins_by ltB (f x) (map f l) = map f (ins_by ltA x l).
Proof. intros H. induction l; simpl; auto. rewrite H. destruct (ltA x a); simpl; congruence. Qed.
Lemma isort_map {A B} (f : A -> B) (ltA : A -> A -> bool) (ltB : B -> B -> bool) l :
  (forall a b, ltB (f a) (f b) = ltA a b) -> isort ltB (map f l) = map f (isort ltA l).
Proof.
  intros H. unfold isort.
  assert (G : forall acc, fold_left (fun acc x => ins_by ltB x acc) (map f l) (map f acc)
                        = map f (fold_left (fun acc x => ins_by ltA x acc) l acc)).
  { induction l; intros acc; simpl; auto. rewrite (ins_by_map f ltA ltB); auto. }
  apply (G []).
Qed.

(* ---------- ins_desc / sort_desc (descending by key, stable: filterLatest) ---------------------- *)
Lemma ins_desc_perm {A} (key : A -> string) x l : Permutation (ins_desc key x l) (x :: l).
Proof.
  induction l; simpl; auto. destruct (String.ltb (key a) (key x)); auto.
  eapply Permutation_trans; [apply perm_skip, IHl | apply perm_swap].
Qed.
Lemma sort_desc_gen_perm {A} (key : A -> string) l : forall acc,
  Permutation (fold_left (fun acc x => ins_desc key x acc) l acc) (l ++ acc).
Proof.
  induction l; intros acc; simpl; auto.
  eapply Permutation_trans; [apply IHl|].
  eapply Permutation_trans; [apply Permutation_app_head, ins_desc_perm|].
  apply Permutation_sym, Permutation_middle.
Qed.
Lemma sort_desc_perm {A} (key : A -> string) l : Permutation (sort_desc key l) l.
Proof. unfold sort_desc. eapply Permutation_trans; [apply sort_desc_gen_perm|]. rewrite app_nil_r. auto. Qed.

Lemma ins_desc_map {A B} (f : A -> B) (key : B -> string) x l :
  ins_desc key (f x) (map f l) = map f (ins_desc (fun a => key (f a)) x l).
Proof. induction l; simpl; auto. destruct (String.ltb (key (f a)) (key (f x))); simpl; congruence. Qed.
Lemma sort_desc_map {A B} (f : A -> B) (key : B -> string) l :
  sort_desc key (map f l) = map f (sort_desc (fun a => key (f a)) l).
Proof.
  unfold sort_desc.
  assert (G : forall acc, fold_left (fun acc x => ins_desc key x acc) (map f l) (map f acc)
                        = map f (fold_left (fun acc x => ins_desc (fun a => key (f a)) x acc) l acc)).
  { induction l; intros acc; simpl; auto. rewrite ins_desc_map. auto. }
  apply (G []).
Qed.

(* descending: every later element has a key that is not greater *)
Definition desc {A} (key : A -> string) : A -> A -> Prop := fun a b => String.ltb (key a) (key b) = false.
Lemma ins_desc_sorted {A} (key : A -> string) x l :
  StronglySorted (desc key) l -> StronglySorted (desc key) (ins_desc key x l).
Proof.
  induction 1 as [|a l S IH F]; simpl.
  - constructor; constructor.
  - destruct (String.ltb (key a) (key x)) eqn:E.
    + constructor. { constructor; auto. }
      constructor. { unfold desc. apply sltb_asym; auto. }
      eapply Forall_impl; [|exact F]. unfold desc. intros b Hb.
      destruct (String.ltb (key x) (key b)) eqn:E2; auto.
      rewrite (sltb_trans _ _ _ E E2) in Hb. discriminate.
    + constructor; auto.
      assert (P : Permutation (ins_desc key x l) (x :: l)) by apply ins_desc_perm.
      eapply Permutation_Forall; [apply Permutation_sym, P|]. constructor; auto.
  Qed.
Lemma sort_desc_sorted {A} (key : A -> string) l : StronglySorted (desc key) (sort_desc key l).
Proof.
  unfold sort_desc.
  assert (G : forall acc, StronglySorted (desc key) acc ->
                          StronglySorted (desc key) (fold_left (fun acc x => ins_desc key x acc) l acc)).
  { induction l; intros acc S; simpl; auto. apply IHl, ins_desc_sorted; auto. }
  apply G. constructor.
Qed.

(* a strictly descending arrangement of a set of elements with pairwise distinct keys is unique *)
Lemma sorted_unique {A} (key : A -> string) : forall l1 l2,
  Permutation l1 l2 -> NoDup (map key l1) ->
  StronglySorted (desc key) l1 -> StronglySorted (desc key) l2 -> l1 = l2.
Proof.
  induction l1 as [|a l1 IH]; intros l2 P ND S1 S2.
  - apply Permutation_nil in P. auto.
  - destruct l2 as [|b l2]. { apply Permutation_sym, Permutation_nil in P. discriminate. }
    inversion S1 as [|? ? S1' F1]; subst. inversion S2 as [|? ? S2' F2]; subst.
    assert (a = b).
    { assert (Ia : In a (b :: l2)) by (eapply Permutation_in; [exact P|simpl; auto]).
      assert (Ib : In b (a :: l1)) by (eapply Permutation_in; [apply Permutation_sym, P|simpl; auto]).
      destruct Ia as [|Ia]; auto. destruct Ib as [|Ib]; auto.
      rewrite Forall_forall in F1, F2. specialize (F1 _ Ib). specialize (F2 _ Ia). unfold desc in *.
      assert (key a <> key b).
      { simpl in ND. inversion ND; subst. intro K. apply H1. rewrite K. apply in_map. auto. }
      destruct (sltb_total _ _ H); congruence. }
    subst b. f_equal. apply IH; auto.
    + eapply Permutation_cons_inv; eauto.
    + simpl in ND. inversion ND; auto.
Qed.

Lemma sort_desc_perm_inv {A} (key : A -> string) l1 l2 :
  Permutation l1 l2 -> NoDup (map key l1) -> sort_desc key l1 = sort_desc key l2.
Proof.
  intros P ND. apply (sorted_unique key).
  - eapply Permutation_trans; [apply sort_desc_perm|]. eapply Permutation_trans; [exact P|]. apply Permutation_sym, sort_desc_perm.
  - eapply Permutation_NoDup; [|exact ND]. apply Permutation_map, Permutation_sym, sort_desc_perm.
  - apply sort_desc_sorted.
  - apply sort_desc_sorted.
Qed.

(* the stable sort commutes with every filter (no distinctness needed) *)
Lemma desc_le_lt {A} (key : A -> string) x y z : String.ltb (key y) (key z) = false -> String.ltb (key y) (key x) = true ->
  String.ltb (key z) (key x) = true.
Proof.
  intros H1 H2. destruct (String.ltb (key z) (key x)) eqn:E; auto.
  destruct (string_dec (key z) (key x)) as [Q|Q]. { rewrite Q in H1. congruence. }
  destruct (sltb_total _ _ Q) as [T|T]; [congruence|]. rewrite (sltb_trans _ _ _ H2 T) in H1. discriminate.
Qed.
Lemma ins_desc_front {A} (key : A -> string) x y l :
  StronglySorted (desc key) (y :: l) -> String.ltb (key y) (key x) = true -> forall P, ins_desc key x (filter P (y :: l)) = x :: filter P (y :: l).
Proof.
  intros S H P. inversion S as [|? ? S' F]; subst. simpl. destruct (P y); simpl. { rewrite H. reflexivity. }
  clear S. induction l as [|z l IH]; simpl; auto. inversion F; subst. inversion S'; subst.
  destruct (P z); simpl.
  - unfold desc in H2. rewrite (desc_le_lt key x y z H2 H). reflexivity.
  - apply IH; auto.
Qed.
Lemma ins_desc_filter {A} (key : A -> string) (P : A -> bool) x l : StronglySorted (desc key) l ->
  filter P (ins_desc key x l) = if P x then ins_desc key x (filter P l) else filter P l.
Proof.
  induction 1 as [|y l S IH F].
  - simpl. destruct (P x); reflexivity.
  - cbn [ins_desc]. destruct (String.ltb (key y) (key x)) eqn:E.
    + cbn [filter]. destruct (P x) eqn:Px; auto.
      change (if P y then y :: filter P l else filter P l) with (filter P (y :: l)).
      rewrite (ins_desc_front key x y l); auto. constructor; auto.
    + cbn [filter]. rewrite IH. destruct (P x), (P y); simpl; try rewrite E; reflexivity.
Qed.
Lemma sort_desc_filter {A} (key : A -> string) (P : A -> bool) l : filter P (sort_desc key l) = sort_desc key (filter P l).
Proof.
  unfold sort_desc.
  assert (G : forall l acc, StronglySorted (desc key) acc ->
              filter P (fold_left (fun acc x => ins_desc key x acc) l acc) = fold_left (fun acc x => ins_desc key x acc) (filter P l) (filter P acc)).
  { clear l. induction l as [|x l IH]; intros acc S; simpl; auto.
    rewrite IH by (apply ins_desc_sorted; auto). rewrite ins_desc_filter by auto. destruct (P x); reflexivity. }
  apply (G l []). constructor.
Qed.

(* the same for the ascending insertion sort by a string key (directory listings) *)
Definition asc {A} (key : A -> string) : A -> A -> Prop := fun a b => String.ltb (key b) (key a) = false.
Definition klt {A} (key : A -> string) : A -> A -> bool := fun x y => String.ltb (key x) (key y).
Lemma ins_by_sorted {A} (key : A -> string) x l : StronglySorted (asc key) l -> StronglySorted (asc key) (ins_by (klt key) x l).
Proof.
  induction 1 as [|a l S IH F]; simpl.
  - constructor; constructor.
  - unfold klt at 1. destruct (String.ltb (key x) (key a)) eqn:E.
    + constructor. { constructor; auto. }
      constructor. { unfold asc. apply sltb_asym; auto. }
      eapply Forall_impl; [|exact F]. unfold asc. intros b Hb.
      destruct (String.ltb (key b) (key x)) eqn:E2; auto.
      rewrite (sltb_trans _ _ _ E2 E) in Hb. discriminate.
    + constructor; auto.
      assert (P : Permutation (ins_by (klt key) x l) (x :: l)) by apply ins_by_perm.
      eapply Permutation_Forall; [apply Permutation_sym, P|]. constructor; auto.
Qed.
Lemma asc_le_lt {A} (key : A -> string) x y z : String.ltb (key z) (key y) = false -> String.ltb (key x) (key y) = true ->
  String.ltb (key x) (key z) = true.
Proof.
  intros H1 H2. destruct (String.ltb (key x) (key z)) eqn:E; auto.
  destruct (string_dec (key x) (key z)) as [Q|Q]. { rewrite <- Q in H1. congruence. }
  destruct (sltb_total _ _ Q) as [T|T]; [congruence|]. rewrite (sltb_trans _ _ _ T H2) in H1. discriminate.
Qed.
Lemma ins_by_front {A} (key : A -> string) x y l :
  StronglySorted (asc key) (y :: l) -> String.ltb (key x) (key y) = true -> forall P, ins_by (klt key) x (filter P (y :: l)) = x :: filter P (y :: l).
Proof.
  intros S H P. inversion S as [|? ? S' F]; subst. simpl. destruct (P y); simpl. { unfold klt. rewrite H. reflexivity. }
  clear S. induction l as [|z l IH]; simpl; auto. inversion F; subst. inversion S'; subst.
  destruct (P z); simpl.
  - unfold klt, asc in *. rewrite (asc_le_lt key x y z H2 H). reflexivity.
  - apply IH; auto.
Qed.
Lemma ins_by_filter {A} (key : A -> string) (P : A -> bool) x l : StronglySorted (asc key) l ->
  filter P (ins_by (klt key) x l) = if P x then ins_by (klt key) x (filter P l) else filter P l.
Proof.
  induction 1 as [|y l S IH F].
  - simpl. destruct (P x); reflexivity.
  - cbn [ins_by]. unfold klt at 1. destruct (String.ltb (key x) (key y)) eqn:E.
    + cbn [filter]. destruct (P x) eqn:Px; auto.
      change (if P y then y :: filter P l else filter P l) with (filter P (y :: l)).
      rewrite (ins_by_front key x y l); auto. constructor; auto.
    + cbn [filter]. rewrite IH. destruct (P x), (P y); simpl; unfold klt; try rewrite E; reflexivity.
Qed.
Lemma isort_filter {A} (key : A -> string) (P : A -> bool) l : filter P (isort (klt key) l) = isort (klt key) (filter P l).
Proof.
  unfold isort.
  assert (G : forall l acc, StronglySorted (asc key) acc ->
              filter P (fold_left (fun acc x => ins_by (klt key) x acc) l acc) = fold_left (fun acc x => ins_by (klt key) x acc) (filter P l) (filter P acc)).
  { clear l. induction l as [|x l IH]; intros acc S; simpl; auto.
    rewrite IH by (apply ins_by_sorted; auto). rewrite ins_by_filter by auto. destruct (P x); reflexivity. }
  apply (G l []). constructor.
Qed.

(* two key functions that compare alike on the elements of l sort l alike *)
Lemma ins_desc_ext {A} (k1 k2 : A -> string) x l :
  (forall y, In y l -> String.ltb (k1 y) (k1 x) = String.ltb (k2 y) (k2 x)) -> ins_desc k1 x l = ins_desc k2 x l.
Proof.
  induction l; simpl; intros H; auto. rewrite H by auto.
  destruct (String.ltb (k2 a) (k2 x)); auto. f_equal. apply IHl. auto.
Qed.
Lemma sort_desc_ext {A} (k1 k2 : A -> string) l :
  (forall x y, In x l -> In y l -> String.ltb (k1 x) (k1 y) = String.ltb (k2 x) (k2 y)) -> sort_desc k1 l = sort_desc k2 l.
Proof.
  intros H. unfold sort_desc.
  assert (G : forall l' acc, incl l' l -> incl acc l ->
              fold_left (fun acc x => ins_desc k1 x acc) l' acc = fold_left (fun acc x => ins_desc k2 x acc) l' acc).
  { induction l'; intros acc I1 I2; simpl; auto.
    rewrite (ins_desc_ext k1 k2).
    - apply IHl'. { intros z Hz. apply I1. simpl; auto. }
      intros z Hz. eapply Permutation_in in Hz; [|apply ins_desc_perm]. destruct Hz; [subst; apply I1; simpl; auto| apply I2; auto].
    - intros y Hy. apply H; [apply I2; auto | apply I1; simpl; auto]. }
  apply G. { apply incl_refl. } intros z [].
Qed.

Lemma firstn_incl {A} n : forall (l : list A) x, In x (firstn n l) -> In x l.
Proof. induction n; intros l x H; simpl in *; [tauto|]. destruct l; simpl in *; [tauto|]. destruct H; auto. Qed.

(* ---------- misc ------------------------------------------------------------------------------ *)
Lemma Forall2_map_eq {A B C} (R : A -> B -> Prop) (f : A -> C) (g : B -> C) l l' :
  Forall2 R l l' -> (forall a b, R a b -> f a = g b) -> map f l = map g l'.
Proof. induction 1; simpl; intros H'; auto. f_equal; auto. Qed.
Lemma last_opt_app {A} (l : list A) x : last (map Some (l ++ [x])%list) None = Some x.
Proof. induction l; simpl; auto. destruct (l ++ [x])%list eqn:E; [destruct l; discriminate|]. simpl in *. auto. Qed.
Lemma last_rec_app l x acc : last_rec (l ++ [x])%list acc = match x with Rec p => Some p | Junk _ => last_rec l acc end.
Proof. revert acc. induction l as [|i l IH]; intros acc; simpl; [destruct x; auto|]. destruct i; rewrite IH; auto. Qed.

(* ---------- file keys ---------------------------------------------------------------------------- *)
Lemma skey_eqb_eq a b : skey_eqb a b = true <-> a = b.
Proof.
  unfold skey_eqb. split.
  - intros H. repeat match goal with H : (_ && _)%bool = true |- _ => apply andb_prop in H; destruct H end.
    repeat match goal with X : String.eqb _ _ = true |- _ => apply String.eqb_eq in X | X : Bool.eqb _ _ = true |- _ => apply Bool.eqb_prop in X end.
    destruct a, b; simpl in *; subst; auto.
  - intros ->. rewrite !String.eqb_refl, !Bool.eqb_reflx. auto.
Qed.
Lemma skey_eqb_refl a : skey_eqb a a = true.
Proof. apply skey_eqb_eq; auto. Qed.
Lemma skey_eqb_sym a b : skey_eqb a b = skey_eqb b a.
Proof.
  destruct (skey_eqb a b) eqn:E.
  - apply skey_eqb_eq in E. subst. symmetry. apply skey_eqb_refl.
  - destruct (skey_eqb b a) eqn:E2; auto. apply skey_eqb_eq in E2. subst. rewrite skey_eqb_refl in E. discriminate.
Qed.

