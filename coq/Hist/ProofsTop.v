(* Hist/ProofsTop.v - the end-to-end refinement: the string-level model of jsondb + filecache (Hist/Model.v),
   driven by ANY interleaving of store operations and queries (by the process performing the operations and by any
   number of reader processes, each with its own status cache), answers every query exactly as the run map
   (Hist/Spec.v) does - under the decidable premises
       names_okb / closedb (ProofsString.v: per-path string premises over the DAG paths, days and file keys used),
       evs_okb             (ProofsRefine.v: distinct request ids and start seconds per DAG, no path re-created, ...).
   Composition of L0 ~ L1 (ProofsString) and L1 ~ spec (ProofsRefine, ProofsCache). *)
From Coq Require Import List String Ascii Bool Arith ZArith Lia Permutation.
Import ListNotations.
From BD.Hist Require Import GoMatch Model SModel Spec ProofsLib ProofsStore ProofsString ProofsRefine ProofsCache ProofsSpec.
Open Scope string_scope.
Open Scope list_scope.

(* ---- events and answers ------------------------------------------------------------------------------------------ *)
(* who asks: None = the process that performs the operations (its cache receives the Invalidate calls),
   Some j = reader process j *)
Inductive ev :=
| EOp (o : op)
| ELatest (who : option nat) (d : string) (day : option string)
| ERecent (who : option nat) (d : string) (n : nat)
| EFind (d req : string).
Inductive ans := ANone | ALatest (r : lres) | ARecent (l : list payload) | AFind (r : option payload).

Definition set_at {A} (cs : nat -> A) (i : nat) (c : A) : nat -> A := fun j => if Nat.eqb j i then c else cs j.

(* the specification's trace *)
Definition sp_step (H : hist) (e : ev) : hist * ans :=
  match e with
  | EOp o => (sp_apply H o, ANone)
  | ELatest _ d day => (H, ALatest (sp_latest H d day))
  | ERecent _ d n => (H, ARecent (sp_recent H d n))
  | EFind d req => (H, AFind (sp_find H d req))
  end.
Fixpoint sp_trace (H : hist) (es : list ev) : list ans :=
  match es with [] => [] | e :: r => let (H', a) := sp_step H e in a :: sp_trace H' r end.

Section T.
Variable loc : string.
Variable dirhash : string -> string.
Notation rn := rname.
Notation rp := (rpath loc dirhash).

(* ---- the concrete system (L0) ---------------------------------------------------------------------------------------- *)
Record sys := { y_h : hstate; y_c : nat -> cache }.
Definition sys_init : sys := {| y_h := h_init; y_c := fun _ => [] |}.
Definition fpayload (r : fres) : option payload := match r with FFound _ _ p => Some p | _ => None end.
Definition ystep (y : sys) (e : ev) : sys * ans :=
  match e with
  | EOp o => ({| y_h := apply loc dirhash (y_h y) o; y_c := y_c y |}, ANone)
  | ELatest None d day =>
      let (c', r) := q_latest loc dirhash (hcache (y_h y)) (hfs (y_h y)) d day in
      ({| y_h := {| hfs := hfs (y_h y); hwr := hwr (y_h y); hcache := c' |}; y_c := y_c y |}, ALatest r)
  | ELatest (Some i) d day =>
      let (c', r) := q_latest loc dirhash (y_c y i) (hfs (y_h y)) d day in
      ({| y_h := y_h y; y_c := set_at (y_c y) i c' |}, ALatest r)
  | ERecent None d n =>
      let (c', r) := q_recent loc dirhash (hcache (y_h y)) (hfs (y_h y)) d n in
      ({| y_h := {| hfs := hfs (y_h y); hwr := hwr (y_h y); hcache := c' |}; y_c := y_c y |}, ARecent r)
  | ERecent (Some i) d n =>
      let (c', r) := q_recent loc dirhash (y_c y i) (hfs (y_h y)) d n in
      ({| y_h := y_h y; y_c := set_at (y_c y) i c' |}, ARecent r)
  | EFind d req => (y, AFind (fpayload (q_find loc dirhash (hfs (y_h y)) d req)))
  end.
Fixpoint ytrace (y : sys) (es : list ev) : list ans :=
  match es with [] => [] | e :: r => let (y', a) := ystep y e in a :: ytrace y' r end.
Fixpoint yrun (y : sys) (es : list ev) : sys :=
  match es with [] => y | e :: r => yrun (fst (ystep y e)) r end.

(* ---- the structured system (L1) with the ghost set of paths that have existed ------------------------------------------ *)
Record ysys := { ys_h : sstate; ys_c : nat -> scache; ys_seen : list skey }.
Definition ysys_init : ysys := {| ys_h := s_init; ys_c := fun _ => []; ys_seen := [] |}.
Definition with_cch (h : sstate) (c : scache) : sstate := {| sst := sst h; swr := swr h; scch := c |}.
Definition ysstep (y : ysys) (e : ev) : ysys :=
  match e with
  | EOp o => let h' := sapply rn rp (ys_h y) o in {| ys_h := h'; ys_c := ys_c y; ys_seen := ys_seen y ++ keys (sst h') |}
  | ELatest None d day => {| ys_h := with_cch (ys_h y) (fst (sq_latest rn (scch (ys_h y)) (sst (ys_h y)) d day)); ys_c := ys_c y; ys_seen := ys_seen y |}
  | ELatest (Some i) d day => {| ys_h := ys_h y; ys_c := set_at (ys_c y) i (fst (sq_latest rn (ys_c y i) (sst (ys_h y)) d day)); ys_seen := ys_seen y |}
  | ERecent None d n => {| ys_h := with_cch (ys_h y) (fst (sq_recent rn (scch (ys_h y)) (sst (ys_h y)) d n)); ys_c := ys_c y; ys_seen := ys_seen y |}
  | ERecent (Some i) d n => {| ys_h := ys_h y; ys_c := set_at (ys_c y) i (fst (sq_recent rn (ys_c y i) (sst (ys_h y)) d n)); ys_seen := ys_seen y |}
  | EFind _ _ => y
  end.

(* the decidable premises of a trace (besides the string premises) *)
Fixpoint evs_okb (y : ysys) (H : hist) (es : list ev) : bool :=
  match es with
  | [] => true
  | e :: r =>
      match e with
      | EOp o => op_okb (ys_h y) (ys_seen y) o && hist_okb (sp_apply H o)
      | _ => true
      end && evs_okb (ysstep y e) (fst (sp_step H e)) r
  end.

Section U.
Variable D : list string.
Variable days : list string.
Variable K : list skey.
Hypothesis OK : names_okb loc dirhash D days K = true.
Hypothesis KC : closedb D K = true.

Definition ev_in (e : ev) : Prop :=
  match e with
  | EOp o => op_in D K o
  | ELatest _ d day => In d D /\ match day with Some x => In x days | None => True end
  | ERecent _ d _ => In d D
  | EFind d _ => In d D
  end.

Record INV (y : sys) (ys : ysys) (H : hist) : Prop := {
  i_h : y_h y = render_state dirhash (ys_h ys);
  i_c : forall i, y_c y i = render_cache dirhash (ys_c ys i);
  i_in : state_in D K (ys_h ys);
  i_cin : forall i, cache_in K (ys_c ys i);
  i_r2 : exists L, R2 (ys_h ys) H L;
  i_ok : hist_okb H = true;
  i_seen : incl (keys (sst (ys_h ys))) (ys_seen ys);
  i_cok : forall i, cache_ok (ys_c ys i) (sst (ys_h ys)) (ys_seen ys);
  i_wok : cache_ok (scch (ys_h ys)) (sst (ys_h ys)) (ys_seen ys)
}.

Lemma INV_init : INV sys_init ysys_init hist_init.
Proof.
  constructor; simpl; auto.
  - apply state_in_init.
  - intros i e [].
  - exists []. apply R2_init.
  - intros x [].
  - intros i. apply cache_ok_nil.
  - apply cache_ok_nil.
Qed.

Lemma R2_cch h H L c : R2 h H L -> R2 (with_cch h c) H L.
Proof. intros R. apply (R2_same true h H L); auto. Qed.
Lemma state_in_cch h c : state_in D K h -> cache_in K c -> state_in D K (with_cch h c).
Proof. intros [A [B [C E]]] CI. exact (conj A (conj B (conj CI E))). Qed.

Lemma scch_apply h o : scch (sapply rn rp h o) = scch h \/ exists k, scch (sapply rn rp h o) = scache_del (scch h) k.
Proof.
  unfold sapply. destruct o; simpl; auto.
  - destruct (swr h); simpl; auto. destruct (sget (sst h) (sw_key s)); simpl; eauto.
  - destruct (sq_find rn rp (sst h) d req); simpl; eauto.
Qed.

Lemma step_inv y ys H e : INV y ys H -> ev_in e ->
  (match e with EOp o => op_okb (ys_h ys) (ys_seen ys) o && hist_okb (sp_apply H o) | _ => true end = true) ->
  INV (fst (ystep y e)) (ysstep ys e) (fst (sp_step H e)) /\ snd (ystep y e) = snd (sp_step H e).
Proof.
  intros [Ih Ic Iin Icin [L R] Iok Iseen Icok Iwok] EI P.
  destruct y as [yh yc]. simpl in Ih, Ic. subst yh.
  destruct Iin as [KI [ND [CI WI]]].
  assert (SI : state_in D K (ys_h ys)) by exact (conj KI (conj ND (conj CI WI))).
  destruct e as [o | who d day | who d n | d req]; simpl in EI.
  - (* an operation *)
    apply andb_prop in P. destruct P as [P1 P2].
    destruct (apply_render loc dirhash D days K OK KC o (ys_h ys) SI EI) as [E SI'].
    destruct (step_sim rn rp (ys_h ys) H L (ys_seen ys) o R Iok Iseen P1) as [L' R'].
    split; [|reflexivity]. simpl. constructor; simpl.
    + exact E.
    + exact Ic.
    + exact SI'.
    + exact Icin.
    + exists L'. exact R'.
    + exact P2.
    + apply incl_appr, incl_refl.
    + intros i. apply cache_ok_apply; auto.
    + pose proof (cache_ok_apply rn rp (ys_h ys) (ys_seen ys) o (scch (ys_h ys)) Iwok Iseen P1) as C.
      destruct (scch_apply (ys_h ys) o) as [X|[k X]]; rewrite X; auto. apply cache_ok_del; auto.
  - (* latest *)
    destruct EI as [Ed Eday]. destruct who as [i|]; simpl.
    + destruct (q_latest_render loc dirhash D days K OK (ys_c ys i) (sst (ys_h ys)) d day KI ND (Icin i) Ed Eday) as [E CI'].
      destruct (latest_refines rn true (ys_h ys) H L (ys_c ys i) d day R Iok (cache_ok_sound _ _ _ (Icok i))) as [A _].
      rewrite (Ic i), E. simpl. split; [|congruence].
      constructor; simpl.
      * reflexivity.
      * intros j. unfold set_at. destruct (Nat.eqb j i); auto.
      * exact SI.
      * intros j. unfold set_at. destruct (Nat.eqb j i); auto.
      * exists L. exact R.
      * exact Iok.
      * exact Iseen.
      * intros j. unfold set_at. destruct (Nat.eqb j i); auto. apply cache_ok_latest; auto.
      * exact Iwok.
    + destruct (q_latest_render loc dirhash D days K OK (scch (ys_h ys)) (sst (ys_h ys)) d day KI ND CI Ed Eday) as [E CI'].
      destruct (latest_refines rn true (ys_h ys) H L (scch (ys_h ys)) d day R Iok (cache_ok_sound _ _ _ Iwok)) as [A _].
      rewrite E. simpl. split; [|congruence].
      constructor; simpl.
      * reflexivity.
      * exact Ic.
      * apply state_in_cch; auto.
      * exact Icin.
      * exists L. apply R2_cch; auto.
      * exact Iok.
      * exact Iseen.
      * exact Icok.
      * apply cache_ok_latest; auto.
  - (* recent *)
    destruct who as [i|]; simpl.
    + destruct (q_recent_render loc dirhash D days K OK (ys_c ys i) (sst (ys_h ys)) d n KI ND (Icin i) EI) as [E CI'].
      destruct (recent_refines rn true (ys_h ys) H L (ys_c ys i) d n R Iok (cache_ok_sound _ _ _ (Icok i))) as [A _].
      rewrite (Ic i), E. simpl. split; [|congruence].
      constructor; simpl.
      * reflexivity.
      * intros j. unfold set_at. destruct (Nat.eqb j i); auto.
      * exact SI.
      * intros j. unfold set_at. destruct (Nat.eqb j i); auto.
      * exists L. exact R.
      * exact Iok.
      * exact Iseen.
      * intros j. unfold set_at. destruct (Nat.eqb j i); auto. apply cache_ok_recent; auto.
      * exact Iwok.
    + destruct (q_recent_render loc dirhash D days K OK (scch (ys_h ys)) (sst (ys_h ys)) d n KI ND CI EI) as [E CI'].
      destruct (recent_refines rn true (ys_h ys) H L (scch (ys_h ys)) d n R Iok (cache_ok_sound _ _ _ Iwok)) as [A _].
      rewrite E. simpl. split; [|congruence].
      constructor; simpl.
      * reflexivity.
      * exact Ic.
      * apply state_in_cch; auto.
      * exact Icin.
      * exists L. apply R2_cch; auto.
      * exact Iok.
      * exact Iseen.
      * exact Icok.
      * apply cache_ok_recent; auto.
  - (* find *)
    simpl. split.
    + constructor; simpl; auto. exists L. exact R.
    + rewrite (q_find_render loc dirhash D days K OK) by auto.
      rewrite <- (find_refines rn rp true (ys_h ys) H L d req R Iok).
      destruct (sq_find rn rp (sst (ys_h ys)) d req); reflexivity.
Qed.

(* THE refinement theorem: every answer of every trace is the specification's answer *)
Theorem trace_refines es : forall y ys H, INV y ys H -> Forall ev_in es -> evs_okb ys H es = true ->
  ytrace y es = sp_trace H es /\ INV (yrun y es) (fold_left ysstep es ys) (fold_left (fun H e => fst (sp_step H e)) es H).
Proof.
  induction es as [|e es IH]; intros y ys H I F P; simpl in *; auto.
  inversion F; subst. apply andb_prop in P. destruct P as [P1 P2].
  destruct (step_inv y ys H e I H2 P1) as [I' A].
  destruct (ystep y e) as [y' a] eqn:Ey. destruct (sp_step H e) as [H' a'] eqn:Es. simpl in *. subst a'.
  destruct (IH y' (ysstep ys e) H' I' H3 P2) as [T I2]. split; [f_equal; auto|auto].
Qed.

End U.
End T.
