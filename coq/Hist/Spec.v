(* Hist/Spec.v - the abstract specification of the history store: a map of runs, and what the three queries
   of the property C06 mean on it.  Executable Gallina only; the operations are the `op` of Hist/Model.v.

   A run = (identity, DAG it currently belongs to, start stamp, request id, the statuses recorded for it in
   order, the instant of its last recording).  Nothing here knows about files, names, globs or caches.

     find d r      = the last status recorded for the run of DAG d with request id r
     latest d day  = the last status of the most recently started run of d (of that day, when given)
     recent d n    = the last statuses of the n most recently started runs of d, newest first
   Start stamps are the strings yyyymmdd.hh:mm:ss.mmm; for this fixed-width format the byte order IS the
   chronological order (years 2000-2999).
   A run that has been opened but has no status yet is not listed (since 3aa388e the readers skip it; before that
   repair it counted as the most recently started run: latest answered an error, recent lost a slot). *)
From Coq Require Import List String Ascii Bool Arith ZArith.
Import ListNotations.
From BD.Hist Require Import GoMatch Model.
Open Scope string_scope.

Record arun := { a_id : nat; a_dag : string; a_stamp : string; a_req : string;
                 a_sts : list payload; a_mtime : Z }.
Record hist := { h_runs : list arun; h_cur : option nat; h_next : nat }.
Definition hist_init : hist := {| h_runs := []; h_cur := None; h_next := 0 |}.

Definition last_opt {A} (l : list A) : option A := last (map Some l) None.

Definition upd_run (id : nat) (f : arun -> arun) (l : list arun) : list arun :=
  map (fun a => if Nat.eqb (a_id a) id then f a else a) l.
Definition add_status (p : payload) (now : Z) (a : arun) : arun :=
  {| a_id := a_id a; a_dag := a_dag a; a_stamp := a_stamp a; a_req := a_req a; a_sts := a_sts a ++ [p]; a_mtime := now |}.
Definition set_mtime (t : Z) (a : arun) : arun :=
  {| a_id := a_id a; a_dag := a_dag a; a_stamp := a_stamp a; a_req := a_req a; a_sts := a_sts a; a_mtime := t |}.
Definition set_dag (d : string) (a : arun) : arun :=
  {| a_id := a_id a; a_dag := d; a_stamp := a_stamp a; a_req := a_req a; a_sts := a_sts a; a_mtime := a_mtime a |}.

Definition get_run (id : nat) (l : list arun) : option arun := find (fun a => Nat.eqb (a_id a) id) l.
(* the run a manual update addresses: DAG, request id, and it must have a status already *)
Definition is_run (d req : string) (a : arun) : bool :=
  String.eqb (a_dag a) d && String.eqb (a_req a) req && match a_sts a with [] => false | _ => true end.

Definition sp_apply (h : hist) (o : op) : hist :=
  match o with
  | OOpen d stamp req now =>
      {| h_runs := h_runs h ++ [{| a_id := h_next h; a_dag := d; a_stamp := stamp; a_req := req; a_sts := []; a_mtime := now |}];
         h_cur := Some (h_next h); h_next := S (h_next h) |}
  | OWrite tag size now =>
      match h_cur h with
      | Some id =>
          match get_run id (h_runs h) with
          | Some a => {| h_runs := upd_run id (add_status {| p_req := a_req a; p_tag := tag; p_size := size |} now) (h_runs h);
                         h_cur := h_cur h; h_next := h_next h |}
          | None => h
          end
      | None => h
      end
  | OClose now =>
      match h_cur h with
      | Some id => {| h_runs := upd_run id (fun a => match a_sts a with [] => a | _ => set_mtime now a end) (h_runs h);
                      h_cur := None; h_next := h_next h |}
      | None => h
      end
  | OUpdate d req tag size now =>
      if String.eqb req "" then h else
      match find (is_run d req) (h_runs h) with
      | Some a => {| h_runs := upd_run (a_id a) (add_status {| p_req := req; p_tag := tag; p_size := size |} now) (h_runs h);
                     h_cur := h_cur h; h_next := h_next h |}
      | None => h
      end
  | ORename d d' =>
      {| h_runs := map (fun a => if String.eqb (a_dag a) d then set_dag d' a else a) (h_runs h); h_cur := h_cur h; h_next := h_next h |}
  | ORemoveOld d cutoff =>
      {| h_runs := filter (fun a => negb (String.eqb (a_dag a) d && (a_mtime a <? cutoff)%Z)) (h_runs h);
         h_cur := h_cur h; h_next := h_next h |}
  | OTouch d stamp r8 c t =>
      {| h_runs := map (fun a => if String.eqb (a_dag a) d && String.eqb (a_stamp a) stamp && String.eqb (trunc8 (a_req a)) r8
                                 then set_mtime t a else a) (h_runs h);
         h_cur := h_cur h; h_next := h_next h |}
  end.
Definition sp_run (h : hist) (os : list op) : hist := fold_left sp_apply os h.

(* ---- queries -------------------------------------------------------------------------------- *)
Definition runs_of (h : hist) (d : string) (day : option string) : list arun :=
  filter (fun a => String.eqb (a_dag a) d &&
                   match day with Some dd => String.eqb (take 8 (a_stamp a)) dd | None => true end) (h_runs h).

(* most recently started first (Model.sort_desc: descending by the start stamp) *)
Definition newest_first (l : list arun) : list arun := sort_desc a_stamp l.

Definition sp_find (h : hist) (d req : string) : option payload :=
  if String.eqb req "" then None else
  match find (is_run d req) (h_runs h) with
  | Some a => last_opt (a_sts a)
  | None => None
  end.

Definition has_status (a : arun) : bool := match a_sts a with [] => false | _ :: _ => true end.

Definition sp_latest (h : hist) (d : string) (day : option string) : lres :=
  match newest_first (filter has_status (runs_of h d day)) with
  | [] => LNoData
  | a :: _ => match last_opt (a_sts a) with Some p => LOk p | None => LNoData end
  end.

Definition sp_recent (h : hist) (d : string) (n : nat) : list payload :=
  flat_map (fun a => match last_opt (a_sts a) with Some p => [p] | None => [] end)
           (firstn n (newest_first (filter has_status (runs_of h d None)))).
