(* Hist/ProofsC07Ex.v - concrete evaluations for C07 (vm_compute on the faithful string-level model):
   F7a (empty newest file) is repaired (3aa388e): the former witness is a positive Example; still FALSE of the model of the code:
   P4 inside the compaction window once the twin is complete (F7b) and "an acknowledged update is never hidden" after a torn write
   (F7c); and an Example that the premises of the theorems hold for a trace whose operations have several crash states each. *)
From Coq Require Import List String Ascii Bool Arith ZArith.
Import ListNotations.
From BD.Hist Require Import GoMatch Model SModel Spec ProofsString ProofsRefine ProofsTop ProofsC06 ProofsC06Ex ProofsC07.
Open Scope string_scope.
Open Scope list_scope.

Definition es0 : list ev := [xOpen a "20240101.10:00:00.100" "req-aaaa-1" 1; xWrite 1 10 2; xClose 3].
Definition es1 : list ev := es0 ++ [xOpen a "20240101.10:00:01.300" "req-bbbb-2" 4; xWrite 2 10 5].
Definition oOpen : op := OOpen a "20240101.10:00:01.300" "req-bbbb-2" 4%Z.
Definition q1 := pl "req-aaaa-1" 1 10.
Definition q2 := pl "req-bbbb-2" 2 10.

(* F7a (fixed by 3aa388e): killed between Open's create and the first write the newest file is empty.  Before the fix the model
   answered latest = error (io.EOF) and recent 1 = nothing in that crash state, although the previous run has acknowledged data;
   now every crash state of this Open answers with the previous run's status *)
Example fixed_empty_newest :
  sp_latest (sp_state es0) a None = LOk q1 /\ sp_recent (sp_state es0) a 1 = [q1]
  /\ List.length (crash_states loc dh (y_h (yrun loc dh sys_init es0)) oOpen) = 3
  /\ forallb (fun fs' => match snd (q_latest loc dh [] fs' a None), snd (q_recent loc dh [] fs' a 1) with
                         | LOk p, [p'] => String.eqb (p_req p) "req-aaaa-1" && String.eqb (p_req p') "req-aaaa-1" && Nat.eqb (p_tag p) 1
                         | _, _ => false end)
             (crash_states loc dh (y_h (yrun loc dh sys_init es0)) oOpen) = true.
Proof. repeat split; vm_compute; reflexivity. Qed.

(* F7b (still open): killed inside the compaction of Close after the twin's status line is complete and before the original is
   unlinked: recent 2 lists the run twice - the older run with acknowledged data is hidden.  (The second half of F7b - an empty twin
   taking a slot - is gone with 3aa388e: in those crash states recent 2 now answers [q2; q1].) *)
Lemma refuted_compaction_twin :
  exists es now fs2, In fs2 (crash_states loc dh (y_h (yrun loc dh sys_init es)) (OClose now))
    /\ sp_recent (sp_state es) a 2 = [q2; q1] /\ sp_recent (sp_state (es ++ [EOp (OClose now)])) a 2 = [q2; q1]
    /\ snd (q_recent loc dh [] fs2 a 2) = [q2; q2].
Proof.
  exists es1, 6%Z, (nth 5 (crash_states loc dh (y_h (yrun loc dh sys_init es1)) (OClose 6%Z)) fs_empty).
  split; [vm_compute; auto 10|]. vm_compute. auto.
Qed.
Example empty_twin_invisible :
  snd (q_recent loc dh [] (nth 2 (crash_states loc dh (y_h (yrun loc dh sys_init es1)) (OClose 6%Z)) fs_empty) a 2) = [q2; q1]
  /\ snd (q_recent loc dh [] (nth 3 (crash_states loc dh (y_h (yrun loc dh sys_init es1)) (OClose 6%Z)) fs_empty) a 2) = [q2; q1].
Proof. split; vm_compute; reflexivity. Qed.

(* F7c: a write torn by the kill leaves an unterminated tail; a status update ACCEPTED afterwards is glued to it: the
   update (and, for a complete-but-unterminated tail, the torn status too) is lost *)
Lemma refuted_glued_update :
  exists es o fs' upd, In fs' (crash_states loc dh (y_h (yrun loc dh sys_init es)) o)
    /\ prims loc dh upd {| hfs := fs'; hwr := None; hcache := [] |} <> []
    /\ fpayload (q_find loc dh (hfs (apply loc dh {| hfs := fs'; hwr := None; hcache := [] |} upd)) a "req-bbbb-2") = Some q2.
Proof.
  exists es1, (OWrite 3 10 7%Z), (nth 1 (crash_states loc dh (y_h (yrun loc dh sys_init es1)) (OWrite 3 10 7%Z)) fs_empty),
         (OUpdate a "req-bbbb-2" 9 10 8%Z).
  split; [vm_compute; auto|]. split; [vm_compute; discriminate|]. vm_compute. reflexivity.
Qed.

(* the premises of the crash theorems are satisfiable: es1 followed by a write, a close, an update, a retention *)
Definition DE7 := [a; ab].
Definition runsE7 := [("20240101.10:00:00.100", "req-aaaa"); ("20240101.10:00:01.300", "req-bbbb")].
Definition KE7 := univ DE7 runsE7.
Example crash_premises_satisfiable :
  names_okb loc dh DE7 [] KE7 = true /\ closedb DE7 KE7 = true
  /\ premisesb loc dh DE7 [] KE7 (es1 ++ [EOp (OWrite 3 10 7%Z)]) = true
  /\ premisesb loc dh DE7 [] KE7 (es1 ++ [EOp (OClose 6%Z)]) = true
  /\ premisesb loc dh DE7 [] KE7 (es0 ++ [EOp (OUpdate a "req-aaaa-1" 5 11 9%Z)]) = true
  /\ premisesb loc dh DE7 [] KE7 (es0 ++ [EOp (ORemoveOld a 100%Z)]) = true
  /\ List.length (crash_states loc dh (y_h (yrun loc dh sys_init es1)) (OWrite 3 10 7%Z)) = 4
  /\ List.length (crash_states loc dh (y_h (yrun loc dh sys_init es1)) (OClose 6%Z)) = 7
  /\ List.length (crash_states loc dh (y_h (yrun loc dh sys_init es0)) (OUpdate a "req-aaaa-1" 5 11 9%Z)) = 6.
Proof. repeat split; vm_compute; reflexivity. Qed.
