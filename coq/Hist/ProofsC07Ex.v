(* Hist/ProofsC07Ex.v - concrete evaluations for C07 (vm_compute on the faithful string-level model):
   F7a (empty newest file, 3aa388e), F7b (compaction twin, eb925d1) and F7c (update glued to a torn tail, 32b069b) are repaired: the
   former refutation witnesses are positive Examples now (each says what the model answered before the fix); and an Example that the
   premises of the theorems hold for a trace whose operations have several crash states each. *)
From Coq Require Import List String Ascii Bool Arith ZArith.
Import ListNotations.
From BD.Hist Require Import GoMatch Model SModel Spec ProofsString ProofsRefine ProofsTop ProofsC06 ProofsC06Ex ProofsC07.
Open Scope string_scope.
Open Scope list_scope.

Definition es0 : list ev := [xOpen a "20240101.10:00:00.100" "req-aaaa-1" 1; xWrite 1 10 2; xClose 3].
Definition es1 : list ev := es0 ++ [xOpen a "20240101.10:00:01.300" "req-bbbb-2" 4; xWrite 2 10 5].
Definition oOpen : op := OOpen a "20240101.10:00:01.300" "req-bbbb-2" 4%Z.
Definition q1 := pl "req-aaaa-1" 1 10.
Definition q2 := pl "req-bbbb-2" 2 10.

(* F7a (fixed by 3aa388e): killed between Open's create and the first write the newest file is empty.  Before the fix the model
   answered latest = error (io.EOF) and recent 1 = nothing in that crash state, although the previous run has acknowledged data;
   now every crash state of this Open answers with the previous run's status *)
Example fixed_empty_newest :
  sp_latest (sp_state es0) a None = LOk q1 /\ sp_recent (sp_state es0) a 1 = [q1]
  /\ List.length (crash_states loc dh (y_h (yrun loc dh sys_init es0)) oOpen) = 3
  /\ forallb (fun fs' => match snd (q_latest loc dh [] fs' a None), snd (q_recent loc dh [] fs' a 1) with
                         | LOk p, [p'] => String.eqb (p_req p) "req-aaaa-1" && String.eqb (p_req p') "req-aaaa-1" && Nat.eqb (p_tag p) 1
                         | _, _ => false end)
             (crash_states loc dh (y_h (yrun loc dh sys_init es0)) oOpen) = true.
Proof. repeat split; vm_compute; reflexivity. Qed.

(* F7b (fixed by eb925d1): killed inside the compaction of Close.  The copy is written as <file>_c.dat.tmp (matched by no pattern),
   published with a rename, and from then on the readers drop the original (dropCompacted).  Before the fix the model answered
   recent 2 = [q2; q2] in the crash state in which the compacted copy was complete and the original not yet unlinked - the older run
   with acknowledged data was hidden; now ALL nine crash states of this Close answer [q2; q1], the one with both files included *)
Definition closeStates := crash_states loc dh (y_h (yrun loc dh sys_init es1)) (OClose 6%Z).
Example fixed_compaction_twin :
  sp_recent (sp_state es1) a 2 = [q2; q1] /\ sp_recent (sp_state (es1 ++ [EOp (OClose 6%Z)])) a 2 = [q2; q1]
  /\ List.length closeStates = 9
  /\ forallb (fun fs' => match snd (q_recent loc dh [] fs' a 2), snd (q_latest loc dh [] fs' a None) with
                         | [p; p'], LOk p'' => String.eqb (p_req p) "req-bbbb-2" && String.eqb (p_req p') "req-aaaa-1" && Nat.eqb (p_tag p'') 2
                         | _, _ => false end) closeStates = true
  /\ map (fun fs' => List.length (files fs')) closeStates = [2; 2; 2; 3; 3; 3; 3; 3; 2]%nat
  /\ map e_name (files (nth 7 closeStates fs_empty))
     = ["a.20240101.10:00:00.100.req-aaaa_c.dat"; "a.20240101.10:00:01.300.req-bbbb.dat"; "a.20240101.10:00:01.300.req-bbbb_c.dat"].
Proof. repeat split; vm_compute; reflexivity. Qed.
(* the temporary copy - empty, torn, complete - is invisible *)
Example tmp_copy_invisible :
  map e_name (files (nth 4 closeStates fs_empty))
  = ["a.20240101.10:00:00.100.req-aaaa_c.dat"; "a.20240101.10:00:01.300.req-bbbb.dat"; "a.20240101.10:00:01.300.req-bbbb_c.dat.tmp"]
  /\ forallb (fun i => match q_find loc dh (nth i closeStates fs_empty) a "req-bbbb-2" with
                       | FFound _ fn p => String.eqb fn "a.20240101.10:00:01.300.req-bbbb.dat" && Nat.eqb (p_tag p) 2
                       | _ => false end) [3; 4; 5; 6]%nat = true.
Proof. split; vm_compute; reflexivity. Qed.

(* F7c (fixed by 32b069b): a write torn by the kill leaves an unterminated tail; a status update recorded afterwards by a new process.
   Before the fix the model glued the update to the torn tail: the line did not parse and find kept answering the OLD status q2 (the
   acknowledged update was lost).  Now writer.open terminates the torn line first and the update (tag 9) is what find answers - for a
   torn JSON prefix (crash state 1) and for a complete-but-unterminated status (crash state 2) *)
Definition upd9 : op := OUpdate a "req-bbbb-2" 9 10 8%Z.
Definition tornStates := crash_states loc dh (y_h (yrun loc dh sys_init es1)) (OWrite 3 10 7%Z).
Example fixed_glued_update :
  List.length tornStates = 4
  /\ forallb (fun fs' => match fpayload (q_find loc dh (hfs (apply loc dh (fresh_state fs') upd9)) a "req-bbbb-2"),
                               snd (q_latest loc dh [] (hfs (apply loc dh (fresh_state fs') upd9)) a None) with
                         | Some p, LOk p' => Nat.eqb (p_tag p) 9 && Nat.eqb (p_tag p') 9
                         | _, _ => false end) tornStates = true
  /\ map (fun fs' => List.length (prims loc dh upd9 (fresh_state fs'))) tornStates = [3; 4; 4; 3]%nat.
Proof. repeat split; vm_compute; reflexivity. Qed.

(* ... and in ALL nine crash states of the Close (temporary copy absent / empty / torn / complete, compacted copy published next to the
   original, original removed) an update recorded afterwards by a new process is shown by all three queries: FindByRequestID scans
   the matches in REVERSE name order, so next to its original the compacted copy is the file found, updated - and read by the listings *)
Example update_after_close_crash :
  forallb (fun fs' => let fs2 := hfs (apply loc dh (fresh_state fs') upd9) in
                      match fpayload (q_find loc dh fs2 a "req-bbbb-2"), snd (q_latest loc dh [] fs2 a None), snd (q_recent loc dh [] fs2 a 2) with
                      | Some p, LOk p', [r1; r2] => Nat.eqb (p_tag p) 9 && Nat.eqb (p_tag p') 9 && Nat.eqb (p_tag r1) 9
                                                   && String.eqb (p_req r1) "req-bbbb-2" && String.eqb (p_req r2) "req-aaaa-1"
                      | _, _, _ => false end) closeStates = true.
Proof. vm_compute. reflexivity. Qed.

(* the premises of the crash theorems are satisfiable: es1 followed by a write, a close, an update, a retention *)
Definition DE7 := [a; ab].
Definition runsE7 := [("20240101.10:00:00.100", "req-aaaa"); ("20240101.10:00:01.300", "req-bbbb")].
Definition KE7 := univ DE7 runsE7.
Example crash_premises_satisfiable :
  names_okb loc dh DE7 [] KE7 = true /\ closedb DE7 KE7 = true
  /\ premisesb loc dh DE7 [] KE7 (es1 ++ [EOp (OWrite 3 10 7%Z)]) = true
  /\ premisesb loc dh DE7 [] KE7 (es1 ++ [EOp (OClose 6%Z)]) = true
  /\ premisesb loc dh DE7 [] KE7 (es0 ++ [EOp (OUpdate a "req-aaaa-1" 5 11 9%Z)]) = true
  /\ premisesb loc dh DE7 [] KE7 (es0 ++ [EOp (ORemoveOld a 100%Z)]) = true
  /\ List.length (crash_states loc dh (y_h (yrun loc dh sys_init es1)) (OWrite 3 10 7%Z)) = 4
  /\ List.length (crash_states loc dh (y_h (yrun loc dh sys_init es1)) (OClose 6%Z)) = 9
  /\ List.length (crash_states loc dh (y_h (yrun loc dh sys_init es0)) (OUpdate a "req-aaaa-1" 5 11 9%Z)) = 6.
Proof. repeat split; vm_compute; reflexivity. Qed.

(* ---- retention and rename are NOT atomic under a kill (one unlink / rename per history file): the intermediate states are visible.
   The theorems ProofsC07.crash_removeold_full0 / crash_rename_full0 say exactly what they answer. ------------------------------------ *)
Definition es2 : list ev := es1 ++ [xClose 6].
Definition rmStates := crash_states loc dh (y_h (yrun loc dh sys_init es2)) (ORemoveOld a 100%Z).
Lemma retention_not_atomic :
  exists fs', In fs' rmStates
    /\ sp_recent (sp_state es2) a 5 = [q2; q1] /\ sp_recent (sp_state (es2 ++ [EOp (ORemoveOld a 100%Z)])) a 5 = []
    /\ snd (q_recent loc dh [] fs' a 5) = [q2].
Proof. exists (nth 1 rmStates fs_empty). split; [vm_compute; auto|]. vm_compute. auto. Qed.
Definition mvStates := crash_states loc dh (y_h (yrun loc dh sys_init es2)) (ORename a ab).
Lemma rename_not_atomic :
  exists fs', In fs' mvStates
    /\ sp_recent (sp_state es2) a 5 = [q2; q1] /\ sp_recent (sp_state es2) ab 5 = []
    /\ sp_recent (sp_state (es2 ++ [EOp (ORename a ab)])) a 5 = [] /\ sp_recent (sp_state (es2 ++ [EOp (ORename a ab)])) ab 5 = [q2; q1]
    /\ snd (q_recent loc dh [] fs' a 5) = [q2] /\ snd (q_recent loc dh [] fs' ab 5) = [q1]
    /\ fpayload (q_find loc dh fs' a "req-aaaa-1") = None /\ fpayload (q_find loc dh fs' ab "req-aaaa-1") = Some q1.
Proof. exists (nth 2 mvStates fs_empty). split; [vm_compute; auto 10|]. vm_compute. auto 10. Qed.
Example partial_ops_premises :
  premisesb loc dh DE7 [] KE7 (es2 ++ [EOp (ORemoveOld a 100%Z)]) = true /\ premisesb loc dh DE7 [] KE7 (es2 ++ [EOp (ORename a ab)]) = true
  /\ List.length rmStates = 3 /\ List.length mvStates = 5.
Proof. repeat split; vm_compute; reflexivity. Qed.

