(* Hist/ProofsCache.v - coherence of the status cache (filecache.LoadLatest) with the store, at level L1.
   Invariant `cache_ok c s seen`: every cached entry belongs to a path that has existed (`seen`), its recorded
   size is at most the present size of the file and, when the sizes agree, the cached status IS what the file
   parses to.  It is preserved by every query of the caching process and by every operation of any process,
   because files only grow or disappear and a path is never re-created (`prims_ok`: created / renamed-to keys
   are new, appended chunks are non-empty).  Consequence (`cache_ok_sound` + ProofsRefine.sload_latest_sound):
   LoadLatest answers exactly ParseFile in every reachable state - the mtime test is never needed. *)
From Coq Require Import List String Ascii Bool Arith ZArith Lia Permutation.
Import ListNotations.
From BD.Hist Require Import Model SModel Spec ProofsLib ProofsStore ProofsRefine.
Open Scope string_scope.
Open Scope list_scope.

Definition cache_ok (c : scache) (s : sfs) (seen : list skey) : Prop :=
  forall k e, scache_get c k = Some e ->
    In k seen /\ forall f, sget s k = Some f -> (c_size e <= fsize f)%Z /\ (c_size e = fsize f -> parse f = Some (c_data e)).

Lemma cache_ok_sound c s seen : cache_ok c s seen -> cache_sound c s.
Proof. intros C k e f G S E. destruct (C k e G) as [_ C2]. destruct (C2 f S) as [_ C3]. auto. Qed.
Lemma cache_ok_nil s seen : cache_ok [] s seen.
Proof. intros k e G. discriminate. Qed.

(* ---- lookup after the list transformations of the primitive steps ------------------------------------------- *)
Definition lget (l : list sent) (k : skey) : option file :=
  match filter (fun e => skey_eqb k (fst e)) l with e :: _ => Some (snd e) | [] => None end.
Lemma sget_lget s k : sget s k = lget (sfiles s) k.  Proof. reflexivity. Qed.

Lemma lget_upd_key k g l k0 : lget (upd_key k g l) k0 = if skey_eqb k0 k then option_map g (lget l k) else lget l k0.
Proof.
  unfold lget, upd_key. induction l as [|e l IH]; simpl.
  - destruct (skey_eqb k0 k); reflexivity.
  - destruct (skey_eqb k (fst e)) eqn:E1; simpl.
    + apply skey_eqb_eq in E1. subst k. destruct (skey_eqb k0 (fst e)) eqn:E2; simpl; auto.
    + destruct (skey_eqb k0 (fst e)) eqn:E2; simpl.
      * destruct (skey_eqb k0 k) eqn:E3; auto. apply skey_eqb_eq in E2, E3. subst. rewrite skey_eqb_refl in E1. discriminate.
      * apply IH.
Qed.
Lemma lget_filter_ne k l k0 : lget (filter (fun e => negb (skey_eqb k (fst e))) l) k0 = if skey_eqb k0 k then None else lget l k0.
Proof.
  unfold lget. induction l as [|e l IH]; simpl.
  - destruct (skey_eqb k0 k); reflexivity.
  - destruct (skey_eqb k (fst e)) eqn:E1; simpl.
    + apply skey_eqb_eq in E1. subst k. destruct (skey_eqb k0 (fst e)) eqn:E2; simpl; auto.
    + destruct (skey_eqb k0 (fst e)) eqn:E2; simpl; auto.
      destruct (skey_eqb k0 k) eqn:E3; auto. apply skey_eqb_eq in E2, E3. subst. rewrite skey_eqb_refl in E1. discriminate.
Qed.
Lemma lget_app l1 l2 k0 : lget (l1 ++ l2) k0 = match lget l1 k0 with Some f => Some f | None => lget l2 k0 end.
Proof. unfold lget. induction l1 as [|e l IH]; simpl; auto. destruct (skey_eqb k0 (fst e)); simpl; auto. Qed.
Lemma lget_rename k k' l k0 : k0 <> k' -> k <> k' ->
  lget (map (fun e : sent => if skey_eqb k (fst e) then (k', snd e) else e) l) k0 = if skey_eqb k0 k then None else lget l k0.
Proof.
  intros N1 N2. unfold lget. induction l as [|e l IH]; simpl.
  - destruct (skey_eqb k0 k); reflexivity.
  - destruct (skey_eqb k (fst e)) eqn:E1; simpl.
    + apply skey_eqb_neq in N1. rewrite N1. apply skey_eqb_eq in E1. subst k. rewrite IH.
      destruct (skey_eqb k0 (fst e)); reflexivity.
    + destruct (skey_eqb k0 (fst e)) eqn:E2; simpl; auto.
      destruct (skey_eqb k0 k) eqn:E3; auto. apply skey_eqb_eq in E2, E3. subst. rewrite skey_eqb_refl in E1. discriminate.
Qed.

(* ---- files only grow ------------------------------------------------------------------------------------------ *)
Definition fle (f f' : file) : Prop := (fsize f < fsize f')%Z \/ (fsize f = fsize f' /\ parse f = parse f').
Definition grows (s s' : sfs) (seen : list skey) : Prop :=
  forall k, In k seen -> forall f', sget s' k = Some f' -> exists f, sget s k = Some f /\ fle f f'.
Lemma fle_refl f : fle f f.  Proof. right. auto. Qed.
Lemma fle_trans a b c : fle a b -> fle b c -> fle a c.
Proof. unfold fle. intros [H1|[H1 P1]] [H2|[H2 P2]]; [left|left|left|right]; try lia. split; congruence. Qed.
Lemma grows_refl s seen : grows s s seen.
Proof. intros k _ f G. exists f. split; auto. apply fle_refl. Qed.
Lemma grows_trans s1 s2 s3 seen : grows s1 s2 seen -> grows s2 s3 seen -> grows s1 s3 seen.
Proof.
  intros G1 G2 k I f3 S3. destruct (G2 k I f3 S3) as [f2 [S2 L2]]. destruct (G1 k I f2 S2) as [f1 [S1 L1]].
  exists f1. split; auto. eapply fle_trans; eauto.
Qed.

Lemma cache_ok_grows c s s' seen seen' : cache_ok c s seen -> grows s s' seen -> incl seen seen' -> cache_ok c s' seen'.
Proof.
  intros C G I k e Ge. destruct (C k e Ge) as [Ik C2]. split; auto. intros f' S'.
  destruct (G k Ik f' S') as [f [S Lf]]. destruct (C2 f S) as [C3 C4]. destruct Lf as [Lf|[Lf Pf]]; split; try lia.
  intros E. rewrite <- Pf. apply C4. lia.
Qed.

Definition prim_ok (seen : list skey) (s : sfs) (p : sprim) : Prop :=
  match p with
  | SCreate k _ => In k (keys s) \/ ~ In k seen
  | SAppend k c _ => (0 < csize c)%Z \/ ~ In k seen
  | SRename k k' => ~ In k' seen /\ k <> k'
  | _ => True
  end.
Fixpoint prims_ok (seen : list skey) (s : sfs) (ps : list sprim) : Prop :=
  match ps with [] => True | p :: r => prim_ok seen s p /\ prims_ok seen (run_sprim s p) r end.

Lemma grows_prim seen s p : prim_ok seen s p -> grows s (run_sprim s p) seen.
Proof.
  intros P k0 I0 f' S'. destruct p; simpl in *.
  - destruct (shas_dir s d); exists f'; split; auto using fle_refl.
  - destruct (shas s k) eqn:HS. { exists f'. split; auto using fle_refl. }
    rewrite sget_lget in S'. simpl in S'. rewrite lget_app in S'. rewrite <- sget_lget in S'.
    destruct (sget s k0) as [f|] eqn:S0. { inversion S'; subst. exists f'. split; auto using fle_refl. }
    exfalso. unfold lget in S'. simpl in S'. destruct (skey_eqb k0 k) eqn:E; [|discriminate]. apply skey_eqb_eq in E. subst k0.
    destruct P as [P|P]; [|contradiction]. apply shas_true in P. congruence.
  - rewrite sget_lget in S'. simpl in S'. fold (upd_key k (fun f => append_chunk f c now) (sfiles s)) in S'. rewrite lget_upd_key in S'.
    rewrite <- sget_lget in S'. destruct (skey_eqb k0 k) eqn:E.
    + apply skey_eqb_eq in E. subst k0. destruct (sget s k) as [f|]; [|discriminate]. simpl in S'. inversion S'; subst.
      exists f. split; auto. left. rewrite fsize_append. destruct P as [P|P]; [lia|contradiction].
    + exists f'. split; auto using fle_refl.
  - rewrite sget_lget in S'. simpl in S'. rewrite lget_filter_ne in S'. rewrite <- sget_lget in S'.
    destruct (skey_eqb k0 k); [discriminate|]. exists f'. split; auto using fle_refl.
  - destruct (shas s k). 2:{ exists f'. split; auto using fle_refl. }
    destruct (skey_eqb k k'). { exists f'. split; auto using fle_refl. }
    destruct P as [P1 P2]. rewrite sget_lget in S'. simpl in S'.
    rewrite lget_rename in S' by (auto; intro X; subst; contradiction).
    destruct (skey_eqb k0 k); [discriminate|]. rewrite lget_filter_ne in S'.
    destruct (skey_eqb k0 k'); [discriminate|]. rewrite <- sget_lget in S'. exists f'. split; auto using fle_refl.
  - destruct (sdir_empty s d); exists f'; split; auto using fle_refl.
  - rewrite sget_lget in S'. simpl in S'.
    fold (upd_key k (fun f => {| items := items f; ftail := ftail f; mtime := t |}) (sfiles s)) in S'. rewrite lget_upd_key in S'.
    rewrite <- sget_lget in S'. destruct (skey_eqb k0 k) eqn:E.
    + apply skey_eqb_eq in E. subst k0. destruct (sget s k) as [f|]; [|discriminate]. simpl in S'. inversion S'; subst.
      exists f. split; auto. right. split; reflexivity.
    + exists f'. split; auto using fle_refl.
Qed.
Lemma grows_prims seen ps : forall s, prims_ok seen s ps -> grows s (run_sprims s ps) seen.
Proof.
  induction ps as [|p ps IH]; intros s P; simpl in *. { apply grows_refl. }
  destruct P as [P1 P2]. eapply grows_trans; [apply grows_prim; eauto | apply IH; auto].
Qed.

(* ---- the queries of the caching process keep the invariant ------------------------------------------------------- *)
Lemma cache_ok_load c s seen k : cache_ok c s seen -> incl (keys s) seen -> cache_ok (fst (sload_latest c s k)) s seen.
Proof.
  intros C IS. unfold sload_latest. destruct (sget s k) as [f|] eqn:G; simpl; auto.
  assert (PUT : forall p, parse f = Some p -> cache_ok (scache_put c k {| c_data := p; c_size := fsize f; c_mt := mtsec f |}) s seen).
  { intros p Pp k' e Ge. destruct (skey_eqb k k') eqn:E.
    - apply skey_eqb_eq in E. subst k'. rewrite scache_get_put_same in Ge. inversion Ge; subst. simpl. split.
      + apply IS. apply sget_in in G. unfold keys. apply in_map_iff. exists (k, f). auto.
      + intros f' G'. rewrite G in G'. inversion G'; subst. split; [lia|auto].
    - apply skey_eqb_neq in E. rewrite scache_get_put_other in Ge by auto. apply C; auto. }
  destruct (scache_get c k) as [e|].
  - destruct ((c_mt e <? mtsec f)%Z || negb (c_size e =? fsize f)%Z)%bool; simpl; auto. destruct (parse f) eqn:Pf; simpl; auto.
  - destruct (parse f) eqn:Pf; simpl; auto.
Qed.
Lemma cache_ok_load_first s seen l : incl (keys s) seen -> forall c, cache_ok c s seen -> cache_ok (fst (sload_first c s l)) s seen.
Proof.
  intros IS. induction l as [|e l IH]; intros c C; simpl; auto.
  pose proof (cache_ok_load c s seen (fst e) C IS) as C'.
  destruct (sload_latest c s (fst e)) as [c' [p|]]; simpl in *; auto.
Qed.
Lemma cache_ok_load_upto s seen l : incl (keys s) seen -> forall n c, cache_ok c s seen -> cache_ok (fst (sload_upto c s l n)) s seen.
Proof.
  intros IS. induction l as [|e l IH]; intros n c C; simpl; auto.
  destruct n as [|n']; simpl; auto.
  pose proof (cache_ok_load c s seen (fst e) C IS) as C'.
  destruct (sload_latest c s (fst e)) as [c' [p|]]; simpl in *.
  - specialize (IH n' c' C'). destruct (sload_upto c' s l n') as [c'' ps]; simpl in *. auto.
  - apply IH; auto.
Qed.
Lemma cache_ok_del c s seen k : cache_ok c s seen -> cache_ok (scache_del c k) s seen.
Proof.
  intros C k' e Ge. destruct (skey_eqb k k') eqn:E.
  - apply skey_eqb_eq in E. subst. rewrite scache_get_del_same in Ge. discriminate.
  - apply skey_eqb_neq in E. rewrite scache_get_del_other in Ge by auto. apply C; auto.
Qed.

Section Q.
Variables kname kpath : skey -> string.
Lemma cache_ok_latest c s seen d day : cache_ok c s seen -> incl (keys s) seen -> cache_ok (fst (sq_latest kname c s d day)) s seen.
Proof.
  intros C IS. unfold sq_latest, slatest_of. destruct (sglob kname s d (PLatest day)); simpl; auto. apply cache_ok_load_first; auto.
Qed.
Lemma cache_ok_recent c s seen d n : cache_ok c s seen -> incl (keys s) seen -> cache_ok (fst (sq_recent kname c s d n)) s seen.
Proof.
  intros C IS. unfold sq_recent, srecent_of. destruct (sglob kname s d PAll); simpl; auto. apply cache_ok_load_upto; auto.
Qed.

(* ---- every operation keeps the invariant of every cache (its own and those of other processes) ---------------------- *)
Lemma chunks_pos p : (0 < p_size p)%Z -> Forall (fun c => (0 < csize c)%Z) (chunks_of p).
Proof. intros P. unfold chunks_of. destruct (p_size p <? 4096)%Z; repeat constructor; simpl; lia. Qed.
Lemma prims_ok_appends seen k now cs : Forall (fun c => (0 < csize c)%Z \/ ~ In k seen) cs -> forall s,
  prims_ok seen s (map (fun c => SAppend k c now) cs).
Proof. induction 1; intros s; simpl; auto. Qed.
Lemma prims_ok_app seen a : forall s b, prims_ok seen s a -> prims_ok seen (run_sprims s a) b -> prims_ok seen s (a ++ b).
Proof. induction a as [|p a IH]; intros s b Pa Pb; simpl in *; auto. destruct Pa. split; auto. Qed.

Lemma sfind_key l req k p : sfind_in kpath l req = SFFound k p -> In k (map fst l).
Proof.
  unfold sfind_in. destruct (String.eqb req ""); [discriminate|].
  destruct (filter _ _) as [|e r] eqn:F; [discriminate|]. destruct (parse (snd e)); [|discriminate]. intros X. inversion X; subst.
  assert (I : In e (e :: r)) by (simpl; auto). rewrite <- F in I. apply filter_In in I. destruct I as [I _].
  apply in_rev in I. eapply Permutation_in in I; [|apply isort_perm]. apply in_map. auto.
Qed.
Lemma sglob_sub s d pk e : In e (sglob kname s d pk) -> In e (sfiles s) /\ k_dag (fst e) = d.
Proof.
  unfold sglob. destruct (shas_dir s d); [|intros []]. intros I. apply filter_In in I. destruct I as [I _].
  eapply Permutation_in in I; [|apply isort_perm]. apply filter_In in I. destruct I as [I E]. apply String.eqb_eq in E. auto.
Qed.

Lemma prims_ok_sopen seen s k now rest : (In k (keys s) \/ ~ In k seen) -> (forall s', prims_ok seen s' rest) ->
  prims_ok seen s (sopen s k now ++ rest).
Proof.
  intros Hk Hr. unfold sopen. cbn [app prims_ok]. split; [exact Logic.I|]. split.
  { cbn [prim_ok]. destruct Hk as [Hk|Hk]; auto. left. cbn [run_sprim]. destruct (shas_dir s (k_dag k)); auto. }
  destruct (sget s k) as [f|]; [|apply Hr]. destruct (ftail f); cbn [app prims_ok]; try apply Hr; (split; [|apply Hr]); left; reflexivity.
Qed.

Lemma op_prims_ok h seen o : incl (keys (sst h)) seen -> op_okb h seen o = true ->
  prims_ok seen (sst h) (sprims kname kpath o h).
Proof.
  intros IS O. destruct o; simpl in *.
  - apply andb_prop in O. destruct O as [O1 _]. apply negb_true_iff in O1. apply memk_false in O1.
    pose proof (prims_ok_sopen seen (sst h) (mkkey d stamp (trunc8 req) false) now [] (or_intror O1) (fun _ => Logic.I)) as X.
    rewrite app_nil_r in X. exact X.
  - destruct (swr h) as [w|]; simpl; auto. destruct (sw_fd w) as [k|]; simpl; auto.
    apply prims_ok_appends. apply Z.ltb_lt in O. eapply Forall_impl; [|apply chunks_pos; simpl; exact O]. intros c Hc. auto.
  - destruct (swr h) as [w|]; simpl; auto. destruct (sget (sst h) (sw_key w)); simpl; auto. destruct (parse f); simpl; auto.
    apply andb_prop in O. destruct O as [O O2].
    apply negb_true_iff in O, O2. apply memk_false in O, O2. split; auto. split; auto. split; auto.
    apply prims_ok_app. { apply prims_ok_appends. apply Forall_forall. intros c _. auto. }
    simpl. split; auto. split; auto. apply tmpk_neq. reflexivity.
  - destruct (sq_find kname kpath (sst h) d req) as [|k p] eqn:Q; [simpl; auto|].
    assert (Ik : In k (keys (sst h))).
    { unfold sq_find in Q. apply sfind_key in Q. apply in_map_iff in Q. destruct Q as [e [E I]]. apply sglob_sub in I. destruct I as [I _].
      subst k. unfold keys. apply in_map. auto. }
    apply (prims_ok_sopen seen (sst h) k now); auto. intros s'.
    apply prims_ok_appends. apply Z.ltb_lt in O. eapply Forall_impl; [|apply chunks_pos; simpl; exact O]. intros c Hc. auto.
  - apply andb_prop in O. destruct O as [O O3]. apply andb_prop in O. destruct O as [O1 O2].
    apply negb_true_iff in O1. apply String.eqb_neq in O1.
    destruct (shas_dir (sst h) d); simpl; auto. split; auto.
    apply prims_ok_app; [|simpl; auto].
    assert (G : forall l s, (forall e, In e l -> In e (sfiles (sst h)) /\ k_dag (fst e) = d) ->
                prims_ok seen s (map (fun e : sent => SRename (fst e) (rekey d' (fst e))) l)).
    { induction l as [|e l IHl]; intros s Hl; simpl; auto. split; [|apply IHl; intros; apply Hl; simpl; auto].
      destruct (Hl e) as [Ie De]; simpl; auto. split.
      - rewrite forallb_forall in O3. specialize (O3 e Ie). rewrite De, String.eqb_refl in O3.
        apply negb_true_iff in O3. apply memk_false in O3. auto.
      - intro X. apply O1. rewrite <- De. rewrite X. reflexivity. }
    apply G. intros e Ie. apply sglob_sub in Ie. auto.
  - assert (G : forall l s, prims_ok seen s (map (fun e : sent => SUnlink (fst e)) l)).
    { induction l; intros s; simpl; auto. }
    apply G.
  - auto.
Qed.

Theorem cache_ok_apply h seen o c : cache_ok c (sst h) seen -> incl (keys (sst h)) seen -> op_okb h seen o = true ->
  cache_ok c (sst (sapply kname kpath h o)) (seen ++ keys (sst (sapply kname kpath h o))).
Proof.
  intros C IS O.
  assert (E : sst (sapply kname kpath h o) = run_sprims (sst h) (sprims kname kpath o h) \/ sst (sapply kname kpath h o) = sst h).
  { unfold sapply. destruct o; simpl; auto.
    - destruct (swr h); auto.
    - destruct (sq_find kname kpath (sst h) d req); auto. }
  destruct E as [E|E]; rewrite E.
  - eapply cache_ok_grows; eauto. { apply grows_prims. apply op_prims_ok; auto. } apply incl_appl, incl_refl.
  - eapply cache_ok_grows; eauto. { apply grows_refl. } apply incl_appl, incl_refl.
Qed.
End Q.
