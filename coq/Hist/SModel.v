(* Hist/SModel.v - level L1 of the history-store model: the SAME algorithms as Hist/Model.v (level L0, real
   path strings), with structured file keys (dag, start stamp, request id cut at 8, compacted?) in place of
   directory/file-name strings.  Executable Gallina only.

   L0 ~ L1 (Hist/ProofsString.v): under decidable per-path premises (the glob pattern of a DAG matches exactly
   its own files, the time-stamp scan of a path finds the start stamp, rendering is injective) every L0
   operation / query on the rendered store equals the rendering of the L1 operation / query.
   L1 ~ spec (Hist/ProofsRefine.v): the logical part (compaction keeps the last status, ordering, per-DAG
   separation, retention, cache) is proved here, free of strings.

   The only string-level residue: the byte order of rendered names decides the order in which a glob lists
   files; it enters as the Section variables kname / kpath (instantiated by the rendering in ProofsString.v). *)
From Coq Require Import List String Ascii Bool Arith ZArith.
Import ListNotations.
From BD.Hist Require Import GoMatch Model.
Open Scope string_scope.

(* k_tmp: the temporary copy <name>.tmp that Close writes before it publishes the compacted file with a rename (eb925d1) *)
Record skey := { k_dag : string; k_stamp : string; k_r8 : string; k_c : bool; k_tmp : bool }.
Definition skey_eqb (a b : skey) : bool :=
  String.eqb (k_dag a) (k_dag b) && String.eqb (k_stamp a) (k_stamp b) && String.eqb (k_r8 a) (k_r8 b) && Bool.eqb (k_c a) (k_c b)
  && Bool.eqb (k_tmp a) (k_tmp b).
Definition sent := (skey * file)%type.
Record sfs := { sdirs : list string; sfiles : list sent }.
Definition sfs_empty : sfs := {| sdirs := []; sfiles := [] |}.

Definition sget (st : sfs) (k : skey) : option file :=
  match filter (fun e => skey_eqb k (fst e)) (sfiles st) with e :: _ => Some (snd e) | [] => None end.
Definition shas (st : sfs) (k : skey) : bool := match sget st k with Some _ => true | None => false end.
Definition shas_dir (st : sfs) (d : string) : bool := existsb (String.eqb d) (sdirs st).
Definition sdir_empty (st : sfs) (d : string) : bool := negb (existsb (fun e => String.eqb (k_dag (fst e)) d) (sfiles st)).

Inductive sprim :=
| SMkdir (d : string)
| SCreate (k : skey) (now : Z)
| SAppend (k : skey) (c : chunk) (now : Z)
| SUnlink (k : skey)
| SRename (k k' : skey)
| SRmdir (d : string)
| STouch (k : skey) (t : Z).

Definition run_sprim (st : sfs) (p : sprim) : sfs :=
  match p with
  | SMkdir d => if shas_dir st d then st else {| sdirs := sdirs st ++ [d]; sfiles := sfiles st |}
  | SCreate k now => if shas st k then st else {| sdirs := sdirs st; sfiles := sfiles st ++ [(k, empty_file now)] |}
  | SAppend k c now =>
      {| sdirs := sdirs st;
         sfiles := map (fun e => if skey_eqb k (fst e) then (k, append_chunk (snd e) c now) else e) (sfiles st) |}
  | SUnlink k => {| sdirs := sdirs st; sfiles := filter (fun e => negb (skey_eqb k (fst e))) (sfiles st) |}
  | SRename k k' =>
      if shas st k then
        if skey_eqb k k' then st else
        {| sdirs := sdirs st;
           sfiles := map (fun e => if skey_eqb k (fst e) then (k', snd e) else e)
                         (filter (fun e => negb (skey_eqb k' (fst e))) (sfiles st)) |}
      else st
  | SRmdir d => if sdir_empty st d then {| sdirs := filter (fun x => negb (String.eqb x d)) (sdirs st); sfiles := sfiles st |} else st
  | STouch k t =>
      {| sdirs := sdirs st;
         sfiles := map (fun e => if skey_eqb k (fst e)
                                 then (k, {| items := items (snd e); ftail := ftail (snd e); mtime := t |}) else e) (sfiles st) |}
  end.
Definition run_sprims (st : sfs) (ps : list sprim) : sfs := fold_left run_sprim ps st.

(* ---- cache of one process, keyed by file key ------------------------------------------------ *)
Definition scache := list (skey * centry).
Definition scache_get (c : scache) (k : skey) : option centry :=
  match filter (fun e => skey_eqb k (fst e)) c with e :: _ => Some (snd e) | [] => None end.
Definition scache_del (c : scache) (k : skey) : scache := filter (fun e => negb (skey_eqb k (fst e))) c.
Definition scache_put (c : scache) (k : skey) (e : centry) : scache := (k, e) :: scache_del c k.

Definition sload_latest (c : scache) (st : sfs) (k : skey) : scache * option payload :=
  match sget st k with
  | None => (c, None)
  | Some f =>
      let stale := match scache_get c k with
                   | None => true
                   | Some e => (c_mt e <? mtsec f)%Z || negb (c_size e =? fsize f)%Z
                   end in
      if stale then
        match parse f with
        | Some p => (scache_put c k {| c_data := p; c_size := fsize f; c_mt := mtsec f |}, Some p)
        | None => (c, None)
        end
      else match scache_get c k with Some e => (c, Some (c_data e)) | None => (c, None) end
  end.

Section S.
Variable kname : skey -> string.       (* the rendered file name: decides the order of a directory listing *)
Variable kpath : skey -> string.       (* the rendered full path: decides the scan order of FindByRequestID *)

Inductive patk := PAll | PLatest (day : option string).
(* every pattern ends in .dat: a temporary copy (.dat.tmp) is matched by none *)
Definition in_patk (pk : patk) (k : skey) : bool :=
  negb (k_tmp k) && match pk with PLatest (Some day) => String.eqb (take 8 (k_stamp k)) day | _ => true end.
(* the glob of one DAG's files: nothing when the directory is missing; the directory is listed in byte order
   of the names, then the pattern selects (same structure as filepath.Glob / Model.glob) *)
Definition sglob (st : sfs) (d : string) (pk : patk) : list sent :=
  if shas_dir st d then
    filter (fun e => in_patk pk (fst e))
           (isort (fun x y => String.ltb (kname (fst x)) (kname (fst y)))
                  (filter (fun e => String.eqb (k_dag (fst e)) d) (sfiles st)))
  else [].

Definition sts_of (e : sent) : string := k_stamp (fst e).     (* what the anchored regexp sees: the start stamp with milliseconds *)
Definition mkkey (d stamp r8 : string) (c : bool) : skey := {| k_dag := d; k_stamp := stamp; k_r8 := r8; k_c := c; k_tmp := false |}.
Definition twin (k : skey) : skey := mkkey (k_dag k) (k_stamp k) (k_r8 k) true.
Definition tmpk (k : skey) : skey := {| k_dag := k_dag k; k_stamp := k_stamp k; k_r8 := k_r8 k; k_c := k_c k; k_tmp := true |}.
Definition rekey (d' : string) (k : skey) : skey :=
  {| k_dag := d'; k_stamp := k_stamp k; k_r8 := k_r8 k; k_c := k_c k; k_tmp := k_tmp k |}.
(* dropCompacted (eb925d1): an uncompacted file whose compacted twin is among the matches is dropped *)
Definition sdropped (l : list sent) (e : sent) : bool :=
  negb (k_c (fst e)) && existsb (fun m => skey_eqb (twin (fst e)) (fst m)) l.
Definition sdrop_compacted (l : list sent) : list sent := filter (fun e => negb (sdropped l e)) l.
Definition sfilter_latest (l : list sent) (n : nat) : list sent :=
  firstn n (map snd (sort_desc fst (map (fun e => (sts_of e, e)) (sdrop_compacted l)))).

Inductive sfres := SFNone | SFFound (k : skey) (p : payload).
Definition sfind_in (l : list sent) (req : string) : sfres :=
  if String.eqb req "" then SFNone else
  let l' := rev (isort (fun x y => String.ltb (kpath (fst x)) (kpath (fst y))) l) in
  match filter (fun e => match parse (snd e) with Some pl => String.eqb (p_req pl) req | None => false end) l' with
  | e :: _ => match parse (snd e) with Some pl => SFFound (fst e) pl | None => SFNone end
  | [] => SFNone
  end.
Definition sq_find (st : sfs) (d req : string) : sfres := sfind_in (sglob st d PAll) req.

Fixpoint sload_first (c : scache) (st : sfs) (l : list sent) : scache * lres :=
  match l with
  | [] => (c, LNoData)
  | e :: r => match sload_latest c st (fst e) with
              | (c', Some p) => (c', LOk p)
              | (c', None) => sload_first c' st r
              end
  end.
Definition slatest_of (c : scache) (st : sfs) (l : list sent) : scache * lres :=
  match l with
  | [] => (c, LNoData)
  | _ => sload_first c st (sfilter_latest l (List.length l))
  end.
Definition sq_latest (c : scache) (st : sfs) (d : string) (day : option string) : scache * lres :=
  slatest_of c st (sglob st d (PLatest day)).

Fixpoint sload_upto (c : scache) (st : sfs) (l : list sent) (n : nat) {struct l} : scache * list payload :=
  match l with
  | [] => (c, [])
  | e :: r =>
      match n with
      | O => (c, [])
      | S n' => match sload_latest c st (fst e) with
                | (c', Some p) => let (c'', ps) := sload_upto c' st r n' in (c'', p :: ps)
                | (c', None) => sload_upto c' st r n
                end
      end
  end.
Definition srecent_of (c : scache) (st : sfs) (l : list sent) (n : nat) : scache * list payload :=
  match l with
  | [] => (c, [])
  | _ => sload_upto c st (sfilter_latest l (List.length l)) n
  end.
Definition sq_recent (c : scache) (st : sfs) (d : string) (n : nat) : scache * list payload :=
  srecent_of c st (sglob st d PAll) n.

(* ---- the recording process ---------------------------------------------------------------- *)
Record swriter := { sw_key : skey; sw_fd : option skey; sw_req : string }.
Record sstate := { sst : sfs; swr : option swriter; scch : scache }.
Definition s_init : sstate := {| sst := sfs_empty; swr := None; scch := [] |}.

(* writer.open (32b069b): a torn last line is terminated before anything is appended *)
Definition sopen (st : sfs) (k : skey) (now : Z) : list sprim :=
  [SMkdir (k_dag k); SCreate k now]
  ++ match sget st k with
     | Some f => match ftail f with TNone => [] | _ => [SAppend k CNl now] end
     | None => []
     end.

Definition sprims (o : op) (h : sstate) : list sprim :=
  let st := sst h in
  match o with
  | OOpen d stamp req now => sopen st (mkkey d stamp (trunc8 req) false) now
  | OWrite tag size now =>
      match swr h with
      | Some w => match sw_fd w with
                  | Some k => map (fun c => SAppend k c now) (chunks_of {| p_req := sw_req w; p_tag := tag; p_size := size |})
                  | None => []
                  end
      | None => []
      end
  | OClose now =>
      match swr h with
      | Some w =>
          match sget st (sw_key w) with
          | None => []
          | Some f =>
              match parse f with
              | None => []
              | Some pl =>
                  let kc := twin (sw_key w) in
                  let kt := tmpk kc in
                  [SUnlink kt; SMkdir (k_dag kc); SCreate kt now] ++ map (fun c => SAppend kt c now) (chunks_of pl)
                  ++ [SRename kt kc; SUnlink (sw_key w)]
              end
          end
      | None => []
      end
  | OUpdate d req tag size now =>
      match sq_find st d req with
      | SFFound k _ => sopen st k now
                       ++ map (fun c => SAppend k c now) (chunks_of {| p_req := req; p_tag := tag; p_size := size |})
      | SFNone => []
      end
  | ORename d d' =>
      if shas_dir st d then
        [SMkdir d'] ++ map (fun e => SRename (fst e) (rekey d' (fst e))) (sglob st d PAll) ++ [SRmdir d]
      else []
  | ORemoveOld d cutoff =>
      map (fun e => SUnlink (fst e)) (filter (fun e => (mtime (snd e) <? cutoff)%Z) (sglob st d PAll))
  | OTouch d stamp r8 c t => [STouch (mkkey d stamp r8 c) t]
  end.

Definition strack_fd (fd : option skey) (p : sprim) : option skey :=
  match fd, p with
  | Some k, SUnlink k1 => if skey_eqb k1 k then None else fd
  | Some k, SRename k1 k2 => if skey_eqb k1 k then Some k2 else if skey_eqb k2 k then None else fd
  | _, _ => fd
  end.
Definition strack_wr (w : option swriter) (ps : list sprim) : option swriter :=
  match w with
  | Some w => Some {| sw_key := sw_key w; sw_fd := fold_left strack_fd ps (sw_fd w); sw_req := sw_req w |}
  | None => None
  end.

Definition sapply (h : sstate) (o : op) : sstate :=
  let ps := sprims o h in
  let st' := run_sprims (sst h) ps in
  match o with
  | OOpen d stamp req now =>
      let k := mkkey d stamp (trunc8 req) false in
      {| sst := st'; swr := Some {| sw_key := k; sw_fd := Some k; sw_req := req |}; scch := scch h |}
  | OClose _ =>
      match swr h with
      | Some w => {| sst := st'; swr := None;
                     scch := match sget (sst h) (sw_key w) with
                             | Some _ => scache_del (scch h) (sw_key w)
                             | None => scch h end |}
      | None => h
      end
  | OUpdate d req _ _ _ =>
      match sq_find (sst h) d req with
      | SFFound k _ => {| sst := st'; swr := strack_wr (swr h) ps; scch := scache_del (scch h) k |}
      | SFNone => h
      end
  | _ => {| sst := st'; swr := strack_wr (swr h) ps; scch := scch h |}
  end.
Definition srun_ops (h : sstate) (os : list op) : sstate := fold_left sapply os h.

(* ---- crash states --------------------------------------------------------------------------- *)
Definition storn (p : sprim) : list sprim :=
  match p with
  | SAppend k (CLine pl) now => [SAppend k (CPart 1) now; SAppend k (CJson pl) now]
  | SAppend k (CJson pl) now => [SAppend k (CPart 1) now]
  | _ => []
  end.
Fixpoint scrash_from (st : sfs) (ps : list sprim) : list sfs :=
  match ps with
  | [] => [st]
  | p :: r => st :: map (run_sprim st) (storn p) ++ scrash_from (run_sprim st p) r
  end.
Definition scrash_states (h : sstate) (o : op) : list sfs := scrash_from (sst h) (sprims o h).

End S.
