(* Sched: the inductive invariant of the step scheduler model and its safety corollaries
   (C15_bound, C01_start_after_deps, C03_attempt_bounds).  DESIGN.md Appendix A.2, conjuncts I1-I4.

   Standing hypothesis of the section (explicit premise of every exported theorem):
     Hnorep : no step has a repeatPolicy (the properties C01 C02 C03 C15 quantify over retryPolicy, continueOn,
                                      preconditions, maxActiveRuns; repeating steps belong to C05) *)
From Coq Require Import List Arith Bool Lia PeanoNat.
Import ListNotations.
From BD.Sched Require Import Model.

Definition norepeat (c : cfg) : Prop := forall i, repeat (steps c i) = false.

(* ---------------------------------------------------------------------------------------------- *)
(* small facts                                                                                      *)
(* ---------------------------------------------------------------------------------------------- *)
Lemma nstatus_eqb_eq a b : nstatus_eqb a b = true <-> a = b.
Proof. destruct a, b; simpl; split; intros; try discriminate; auto. Qed.

Lemma is_committed_eq p i : is_committed p i = true -> p = LCommitted i.
Proof. destruct p; simpl; try discriminate. intros H. apply Nat.eqb_eq in H. now subst. Qed.
Lemma is_head_eq p : is_head p = true -> p = LHead.
Proof. destruct p; simpl; congruence. Qed.

Definition b2n (b : bool) : nat := if b then 1 else 0.
Lemma count_ext (P Q : nat -> bool) l : (forall j, In j l -> P j = Q j) ->
  length (filter P l) = length (filter Q l).
Proof. intros H. f_equal. now apply filter_ext_in. Qed.

Lemma count_upd_in (P Q : nat -> bool) i l : NoDup l -> In i l -> (forall j, j <> i -> P j = Q j) ->
  length (filter Q l) + b2n (P i) = length (filter P l) + b2n (Q i).
Proof.
  intros Hnd Hin Hne. induction l as [|a l IH]; [inversion Hin|].
  inversion Hnd as [|? ? Ha Hnd']; subst. simpl.
  destruct (Nat.eq_dec a i) as [->|Hai].
  - assert (length (filter P l) = length (filter Q l)) as Heq.
    { apply count_ext. intros j Hj. apply Hne. intros ->. contradiction. }
    destruct (P i), (Q i); simpl; unfold b2n; lia.
  - destruct Hin as [?|Hin]; [congruence|]. specialize (IH Hnd' Hin).
    rewrite (Hne a Hai). destruct (Q a); simpl; lia.
Qed.

Lemma filter_le (P Q : nat -> bool) l : (forall j, P j = true -> Q j = true) ->
  length (filter P l) <= length (filter Q l).
Proof.
  intros H. induction l as [|a l IH]; simpl; auto.
  destruct (P a) eqn:Hp.
  - rewrite (H a Hp). simpl. lia.
  - destruct (Q a); simpl; lia.
Qed.

(* ---------------------------------------------------------------------------------------------- *)
(* the invariant                                                                                    *)
(* ---------------------------------------------------------------------------------------------- *)
Lemma st_count_done x : st (count_done x) = st x.
Proof. unfold count_done. destruct (st x) eqn:E; cbn; congruence. Qed.
Lemma ph_count_done x : ph (count_done x) = ph x.
Proof. unfold count_done. destruct (st x) eqn:E; cbn; congruence. Qed.
Lemma rc_count_done x : rc (count_done x) = rc x.
Proof. unfold count_done. destruct (st x) eqn:E; cbn; congruence. Qed.
Lemma att_count_done x : att (count_done x) = att x.
Proof. unfold count_done. destruct (st x) eqn:E; cbn; congruence. Qed.
Lemma stale_count_done x : stale (count_done x) = stale x.
Proof. unfold count_done. destruct (st x) eqn:E; cbn; congruence. Qed.
Lemma outs_count_done x : outs (count_done x) = outs x.
Proof. unfold count_done. destruct (st x) eqn:E; cbn; congruence. Qed.

Ltac nsimpl :=
  cbn [st ph rc att dc stale outs with_st with_ph inc_dc] in *;
  rewrite ?st_count_done, ?ph_count_done, ?rc_count_done, ?att_count_done, ?stale_count_done, ?outs_count_done in *;
  cbn [st ph rc att dc stale outs with_st with_ph inc_dc] in *.

Ltac inv_guard H :=
  repeat match type of H with
  | (if ?b then _ else _) = Some _ => let E := fresh "G" in destruct b eqn:E; [|discriminate H]
  | match ?x with _ => _ end = Some _ => let E := fresh "M" in destruct x eqn:E; try discriminate H
  end.

Ltac split_guard :=
  repeat match goal with
  | H : _ && _ = true |- _ => apply andb_true_iff in H; destruct H
  | H : (_ <? _) = true |- _ => apply Nat.ltb_lt in H
  | H : nstatus_eqb _ _ = true |- _ => apply nstatus_eqb_eq in H
  | H : negb _ = true |- _ => apply negb_true_iff in H
  | H : (_ =? _) = true |- _ => apply Nat.eqb_eq in H
  end.

Section Inv.
Variable c : cfg.
Notation n := (nsteps c).

(* I1: worker phase versus node status *)
Definition coherent (x : node) : Prop :=
  match ph x with
  | PIdle => st x = NNone \/ st x = NCancel \/ st x = NSkipped
  | PSetup | PStarting | PExec | PEnded _ | PRetryWait => st x = NRunning \/ st x = NCancel
  | PRepeatWait => False
  | PPost => st x = NRunning \/ st x = NCancel \/ st x = NError
  | PGone => st x = NSuccess \/ st x = NCancel \/ st x = NError \/ st x = NRunning
  end.

(* I3: attempts versus retry count *)
Definition counts (s : state) (i : nat) : Prop :=
  let x := nd s i in
  rc x <= rlimit (steps c i) /\
  match ph x with
  | PIdle | PSetup | PStarting | PRetryWait => att x = rc x
  | PExec => att x = S (rc x)
  | PEnded ok => att x = S (rc x) \/ (att x = rc x /\ (if ok then dry c = true else timedout s = true))
  | PPost | PGone => rc x <= att x <= S (rc x)
  | PRepeatWait => True
  end.

(* a dependency that lets its dependents proceed *)
Definition okterm (s : state) (d : nat) : Prop :=
  st (nd s d) = NSuccess \/ (st (nd s d) = NError /\ cof (steps c d) = true)
  \/ (st (nd s d) = NSkipped /\ cos (steps c d) = true).

Definition launched (s : state) (i : nat) : Prop :=
  ph (nd s i) <> PIdle \/ att (nd s i) > 0 \/ pc s = LCommitted i.

Definition active_count (s : state) : nat :=
  length (filter (fun j => active (ph (nd s j))) (seq 0 n)).
Definition committed_n (s : state) : nat := match pc s with LCommitted _ => 1 | _ => 0 end.

Record Inv (s : state) : Prop := {
  iA : forall i, coherent (nd s i);
  iB : forall i, pc s = LCommitted i -> i < n /\ st (nd s i) = NNone;
  iC : forall i, launched s i -> forall d, In d (deps (steps c i)) -> okterm s d;   (* I2 *)
  iD : forall i, counts s i;
  iF : sigq s <> [] -> canceled s = true;
  iG : canceled s = false -> forall i, active (ph (nd s i)) = true -> st (nd s i) = NRunning;
  iS : forall i, stale (nd s i) = 0;
  iE : maxActive c > 0 -> active_count s + committed_n s <= maxActive c             (* I4 *)
}.

Lemma dep_ok_okterm s d : dep_ok c s d = true <-> okterm s d.
Proof.
  unfold dep_ok, okterm. destruct (st (nd s d)); split; intros H;
  try discriminate; try tauto;
  try (destruct H as [H|[[H ?]|[H ?]]]; try discriminate; auto).
Qed.

Lemma dep_mark_values s d m : dep_mark c s d = Some m -> m = NCancel \/ m = NSkipped.
Proof.
  unfold dep_mark. destruct (st (nd s d)); try discriminate;
  try destruct (cof (steps c d)); try destruct (cos (steps c d)); intros H; try discriminate; injection H as <-; auto.
Qed.

Lemma coherent_none_idle x : coherent x -> st x = NNone -> ph x = PIdle.
Proof. unfold coherent. destruct (ph x); intuition congruence. Qed.

End Inv.

(* ---------------------------------------------------------------------------------------------- *)
(* preservation                                                                                     *)
(* ---------------------------------------------------------------------------------------------- *)
Section Pres.
Variable c : cfg.
Hypothesis Hnorep : norepeat c.
Notation n := (nsteps c).
Notation step := (step c).
Notation Inv := (Inv c).
Notation okterm := (okterm c).

(* where the worker goes after a failed command: with a done channel it reports and returns (scheduler.go:206-208),
   without one it falls through to the final status check *)
Definition fphase : wphase := if donech c then PGone else PPost.
Lemma fphase_cases : fphase = PGone \/ fphase = PPost.
Proof. unfold fphase. destruct (donech c); auto. Qed.

(* the outcome of the error switch, case by case (repeat excluded) *)
Inductive after_case (s : state) (i : nat) : bool -> bool -> state -> Prop :=
| AC_ok early : after_case s i true early (set_nd s i (with_ph (count_done (nd s i)) PPost))
| AC_seen early : (early = false /\ (st (nd s i) = NSuccess \/ st (nd s i) = NCancel)) ->
    after_case s i false early (set_nd s i (with_ph (count_done (nd s i)) fphase))
| AC_timeout early : (early = true \/ (st (nd s i) <> NSuccess /\ st (nd s i) <> NCancel)) -> timedout s = true ->
    after_case s i false early (set_nd (set_err s) i (with_ph (count_done (with_st (nd s i) NCancel)) fphase))
| AC_cancel early : (early = true \/ (st (nd s i) <> NSuccess /\ st (nd s i) <> NCancel)) -> timedout s = false ->
    canceled s = true ->
    after_case s i false early (set_nd (set_err s) i (with_ph (count_done (with_st (nd s i) NCancel)) fphase))
| AC_retry early : (early = true \/ (st (nd s i) <> NSuccess /\ st (nd s i) <> NCancel)) -> timedout s = false ->
    canceled s = false -> rc (nd s i) < rlimit (steps c i) ->
    after_case s i false early
      (set_nd s i {| st := st (nd s i); rc := S (rc (nd s i)); dc := dc (nd s i); att := att (nd s i);
                     ph := PRetryWait; stale := stale (nd s i); outs := outs (nd s i) |})
| AC_error early : (early = true \/ (st (nd s i) <> NSuccess /\ st (nd s i) <> NCancel)) -> timedout s = false ->
    canceled s = false -> rlimit (steps c i) <= rc (nd s i) ->
    after_case s i false early (set_nd (set_err s) i (with_ph (count_done (with_st (nd s i) NError)) fphase)).

Lemma match_seen {A} (v : nstatus) (a b : A) :
  (match v with NSuccess | NCancel => a | _ => b end) =
  if nstatus_eqb v NSuccess || nstatus_eqb v NCancel then a else b.
Proof. destruct v; reflexivity. Qed.

Lemma after_cases s i ok early : after_case s i ok early (after c s i ok early).
Proof.
  unfold after, tail. rewrite (Hnorep i). cbn [andb]. fold fphase.
  destruct ok; [constructor|].
  assert (Hgen : forall side : early = true \/ (st (nd s i) <> NSuccess /\ st (nd s i) <> NCancel),
    after_case s i false early
      (if timedout s then set_nd (set_err s) i (with_ph (count_done (with_st (nd s i) NCancel)) fphase)
       else if canceled s then set_nd (set_err s) i (with_ph (count_done (with_st (nd s i) NCancel)) fphase)
       else if rc (nd s i) <? rlimit (steps c i)
            then set_nd s i {| st := st (nd s i); rc := S (rc (nd s i)); dc := dc (nd s i); att := att (nd s i);
                               ph := PRetryWait; stale := stale (nd s i); outs := outs (nd s i) |}
            else set_nd (set_err s) i (with_ph (count_done (with_st (nd s i) NError)) fphase))).
  { intros side.
    destruct (timedout s) eqn:Ht; [apply AC_timeout; auto|].
    destruct (canceled s) eqn:Hc; [apply AC_cancel; auto|].
    destruct (rc (nd s i) <? rlimit (steps c i)) eqn:Hr.
    + apply Nat.ltb_lt in Hr. apply AC_retry; auto.
    + apply Nat.ltb_ge in Hr. apply AC_error; auto. }
  destruct early.
  - apply Hgen. auto.
  - rewrite match_seen.
    destruct (nstatus_eqb (st (nd s i)) NSuccess || nstatus_eqb (st (nd s i)) NCancel) eqn:Hs.
    + apply AC_seen. split; auto. apply orb_true_iff in Hs. destruct Hs as [Hs|Hs]; apply nstatus_eqb_eq in Hs; auto.
    + apply Hgen. right. apply orb_false_iff in Hs. destruct Hs as [H1 H2].
      split; intros E; rewrite E in *; discriminate.
Qed.

Ltac use_after :=
  try match goal with
  | |- context [after c ?s ?i ?ok ?e] =>
      let H := fresh "HAC" in let sa := fresh "sa" in let E := fresh "Esa" in
      pose proof (after_cases s i ok e) as H; remember (after c s i ok e) as sa eqn:E; clear E; destruct H;
      try (let F := fresh "Hfp" in destruct fphase_cases as [F|F]; rewrite F in * )
  end.

Ltac start_step HI Hs :=
  pose proof (iA _ _ HI) as HA; pose proof (iB _ _ HI) as HB;
  pose proof (iD _ _ HI) as HD; pose proof (iG _ _ HI) as HG; pose proof (iF _ _ HI) as HF;
  pose proof (iS _ _ HI) as HS;
  match type of Hs with Model.step _ _ ?l = Some _ =>
    destruct l; cbn [Model.step] in Hs; inv_guard Hs; injection Hs as <-; split_guard end;
  use_after;
  unfold set_nd, set_pc, set_err, set_hst, upd; cbn [nd pc canceled lasterr timedout sigq sigleft hst].

Lemma step_okterm_stable s l s' : Inv s -> step s l = Some s' -> forall d, okterm s d -> okterm s' d.
Proof.
  intros HI Hs d Hd. unfold Proofs.okterm in *. start_step HI Hs.
  all: try assumption.
  all: try (destruct (Nat.eqb_spec d i) as [->|Hne]; [|assumption]).
  all: nsimpl.
  all: try assumption.
  all: try (exfalso; specialize (HA i); unfold coherent in HA; rewrite ?M, ?M0 in HA; intuition congruence).
  - apply is_committed_eq in H. apply HB in H. destruct H as [_ H]. intuition congruence.
  - apply is_committed_eq in H. apply HB in H. destruct H as [_ H]. intuition congruence.
  - destruct (st (nd s i)); intuition congruence.
  - match goal with |- context [d =? ?k] => destruct (Nat.eqb_spec d k) as [->|Hne]; [|assumption] end.
    nsimpl. intuition congruence.
Qed.

Lemma step_coherent s l s' : Inv s -> step s l = Some s' -> forall j, coherent (nd s' j).
Proof.
  intros HI Hs j. start_step HI Hs.
  all: try apply HA.
  all: try (destruct (Nat.eqb_spec j i) as [->|Hne]; [|apply HA]).
  all: try (specialize (HA i); unfold coherent in *; nsimpl; rewrite ?M, ?M0 in *; nsimpl; intuition congruence).
  (* WSkipExec, WFinish: the new status depends on the old one *)
  all: try (specialize (HA i); unfold coherent in *; rewrite M in HA; nsimpl; destruct (st (nd s i)); intuition congruence).
  - (* LMark *) apply dep_mark_values in M. specialize (HA i). unfold coherent in *. nsimpl.
    destruct (ph (nd s i)); destruct M; subst; intuition congruence.
  - (* LSkipPre *) apply is_committed_eq in H. apply HB in H. destruct H as [_ H].
    specialize (HA i). unfold coherent in *. nsimpl. destruct (ph (nd s i)); intuition congruence.
  - (* SigNode *)
    match goal with |- context [j =? ?k] => destruct (Nat.eqb_spec j k) as [->|Hne]; [|apply HA] end.
    match goal with |- coherent (with_st (nd s ?k) _) => specialize (HA k); unfold coherent in *; nsimpl;
      destruct (ph (nd s k)); intuition congruence end.
Qed.

Lemma step_committed s l s' : Inv s -> step s l = Some s' ->
  forall k, pc s' = LCommitted k -> k < n /\ st (nd s' k) = NNone.
Proof.
  intros HI Hs k. start_step HI Hs; intros Hk; try discriminate Hk.
  all: try (match goal with H : is_head (pc _) = true |- _ => apply is_head_eq in H; congruence end).
  all: try (injection Hk as <-; auto; fail).
  all: try (apply HB; assumption).
  all: try (destruct (Nat.eqb_spec k i) as [->|Hne]; [|apply HB; assumption];
            exfalso; destruct (HB _ Hk) as [_ Hst]; specialize (HA i); unfold coherent in HA;
            rewrite ?M, ?M0 in HA; intuition congruence).
  destruct (HB _ Hk) as [Hkn Hst]. split; auto.
  match goal with |- context [k =? ?j] => destruct (Nat.eqb_spec k j) as [->|Hne]; [congruence|assumption] end.
Qed.

Lemma step_counts s l s' : Inv s -> step s l = Some s' -> forall j, counts c s' j.
Proof.
  intros HI Hs j. start_step HI Hs.
  all: unfold counts in *; cbn [nd timedout].
  all: try apply HD.
  all: try (destruct (Nat.eqb_spec j i) as [->|Hne]; [|apply HD]).
  all: try (specialize (HD i); nsimpl; rewrite ?M, ?M0 in *; nsimpl; intuition (try lia; try congruence); fail).
  all: nsimpl.
  - (* LLaunch *) apply is_committed_eq in H. apply HB in H. destruct H as [_ Hst].
    specialize (HD i). rewrite (coherent_none_idle _ (HA i) Hst) in HD. exact HD.
  - (* WRepeatWake *) exfalso. specialize (HA i). unfold coherent in HA. rewrite M in HA. exact HA.
  - (* SigNode *)
    match goal with |- context [j =? ?k] => destruct (Nat.eqb_spec j k) as [->|Hne]; [|apply HD] end.
    nsimpl. apply HD.
  - (* Timeout *) specialize (HD j). destruct HD as [H1 H2]. split; auto.
    destruct (ph (nd s j)); auto. destruct ok; intuition.
Qed.

Lemma step_sigq s l s' : Inv s -> step s l = Some s' -> sigq s' <> [] -> canceled s' = true.
Proof.
  intros HI Hs. start_step HI Hs; intros Hq.
  all: try reflexivity.
  all: try (apply HF; first [exact Hq | congruence]).
  all: try assumption.
  all: try (specialize (HF Hq); congruence).
Qed.

Lemma step_stale s l s' : Inv s -> step s l = Some s' -> forall j, stale (nd s' j) = 0.
Proof.
  intros HI Hs j. start_step HI Hs.
  all: try apply HS.
  all: try (destruct (Nat.eqb_spec j i) as [->|Hne]; [|apply HS]).
  all: nsimpl; try apply HS.
  all: try (rewrite HS in *; discriminate).
  match goal with |- context [j =? ?k] => destruct (Nat.eqb_spec j k) as [->|Hne]; [|apply HS] end.
  nsimpl. apply HS.
Qed.

Lemma step_active_running s l s' : Inv s -> step s l = Some s' ->
  canceled s' = false -> forall j, active (ph (nd s' j)) = true -> st (nd s' j) = NRunning.
Proof.
  intros HI Hs. start_step HI Hs; intros Hc j Hact.
  all: try discriminate Hc.
  all: try (apply HG; assumption).
  all: try (destruct (Nat.eqb_spec j i) as [Heq|Hne]; [subst j|apply HG; assumption]).
  all: nsimpl; cbn [active] in *.
  all: try discriminate Hact.
  all: try reflexivity.
  all: try (apply HG; [assumption|rewrite ?M; reflexivity]).
  all: try congruence.
  - rewrite (coherent_none_idle _ (HA i) H1) in Hact. discriminate.
  - apply is_committed_eq in H. apply HB in H. destruct H as [_ H].
    rewrite (coherent_none_idle _ (HA i) H) in Hact. discriminate.
  - exfalso. assert (canceled s = true) by (apply HF; congruence). congruence.
Qed.

Lemma step_launched s l s' : Inv s -> step s l = Some s' -> forall j, launched s' j ->
  launched s j \/ (forall d, In d (deps (steps c j)) -> okterm s d).
Proof.
  intros HI Hs j. unfold launched. start_step HI Hs; intros Hl.
  all: try (left; exact Hl).
  all: try (destruct (Nat.eqb_spec j i) as [Heq|Hne]; [subst j|]).
  all: nsimpl.
  all: try (left; rewrite ?M; intuition (try discriminate; try congruence); fail).
  - right. intros d Hd. apply (proj1 (dep_ok_okterm c s d)). unfold ready in H2.
    rewrite forallb_forall in H2. exact (H2 d Hd).
  - left. right. right. now apply is_committed_eq.
  - left.
    match goal with H : context [j =? ?k] |- _ => destruct (Nat.eqb_spec j k) as [Heq|Hne]; [subst j|exact H] end.
    nsimpl. exact Hl.
Qed.

Lemma step_deps s l s' : Inv s -> step s l = Some s' ->
  forall j, launched s' j -> forall d, In d (deps (steps c j)) -> okterm s' d.
Proof.
  intros HI Hs j Hl d Hd. eapply step_okterm_stable; eauto.
  destruct (step_launched s l s' HI Hs j Hl) as [Hold|Hnew]; [|auto].
  eapply (iC _ _ HI); eauto.
Qed.

(* capacity *)
Lemma active_count_upd (s : state) i y : i < n ->
  length (filter (fun j => active (ph (if j =? i then y else nd s j))) (seq 0 n)) + b2n (active (ph (nd s i)))
  = length (filter (fun j => active (ph (nd s j))) (seq 0 n)) + b2n (active (ph y)).
Proof.
  intros Hi.
  pose proof (count_upd_in (fun j => active (ph (nd s j)))
                (fun j => active (ph (if j =? i then y else nd s j))) i (seq 0 n)) as H.
  cbv beta in H. rewrite Nat.eqb_refl in H. apply H.
  - apply seq_NoDup.
  - apply in_seq. lia.
  - intros j Hne. apply Nat.eqb_neq in Hne. now rewrite Hne.
Qed.

Lemma active_count_same (s : state) i y : ph y = ph (nd s i) ->
  length (filter (fun j => active (ph (if j =? i then y else nd s j))) (seq 0 n))
  = length (filter (fun j => active (ph (nd s j))) (seq 0 n)).
Proof.
  intros Hp. apply count_ext. intros j _. destruct (Nat.eqb_spec j i) as [->|]; [now rewrite Hp|reflexivity].
Qed.

Lemma step_capacity s l s' : Inv s -> step s l = Some s' ->
  maxActive c > 0 -> active_count c s' + committed_n s' <= maxActive c.
Proof.
  intros HI Hs Hk. pose proof (iE _ _ HI Hk) as HE. unfold active_count, committed_n in *.
  start_step HI Hs.
  all: try (rewrite active_count_same by (nsimpl; reflexivity)).
  all: try (match goal with H : is_head (pc _) = true |- _ => apply is_head_eq in H; rewrite H in * end).
  all: try lia.
  all: try (match goal with |- context [filter (fun j => active (ph (if j =? ?i then ?y else _))) _] =>
              let Hu := fresh "Hu" in
              assert (Hu := active_count_upd s i y ltac:(assumption));
              nsimpl; rewrite ?M in Hu; cbn [active b2n] in Hu; lia end).
  - (* LCommit *)
    apply orb_true_iff in H0. destruct H0 as [H0|H0]; [apply Nat.eqb_eq in H0; lia|].
    apply Nat.ltb_lt in H0. unfold running_count in H0.
    assert (length (filter (fun j => active (ph (nd s j))) (seq 0 n))
            <= length (filter (fun j => is_running (nd s j)) (seq 0 n))); [|lia].
    apply filter_le. intros j Hj. unfold is_running. apply nstatus_eqb_eq. apply HG; auto.
  - (* LLaunch *)
    apply is_committed_eq in H. destruct (HB _ H) as [Hin Hst]. rewrite H in HE.
    pose proof (active_count_upd s i (with_ph (with_st (nd s i) NRunning) PSetup) Hin) as Hu.
    rewrite (coherent_none_idle _ (HA i) Hst) in Hu. cbn [ph with_ph active b2n] in Hu. lia.
Qed.

Theorem inv_step s l s' : Inv s -> step s l = Some s' -> Inv s'.
Proof.
  intros HI Hs. constructor.
  - eapply step_coherent; eauto.
  - eapply step_committed; eauto.
  - eapply step_deps; eauto.
  - eapply step_counts; eauto.
  - eapply step_sigq; eauto.
  - eapply step_active_running; eauto.
  - eapply step_stale; eauto.
  - eapply step_capacity; eauto.
Qed.

Lemma inv_init : Inv (init c).
Proof.
  constructor; cbn [init nd pc canceled sigq lasterr].
  - intros i. unfold coherent. cbn. auto.
  - intros i H. discriminate H.
  - intros i Hl. exfalso. unfold launched in Hl. cbn [init nd pc ph att init_node] in Hl.
    destruct Hl as [Hl|Hl]; [congruence|]. destruct Hl as [Hl|Hl]; [lia|discriminate].
  - intros i. unfold counts. cbn. lia.
  - intros H. congruence.
  - intros _ i H. cbn in H. discriminate.
  - reflexivity.
  - intros _. unfold active_count, committed_n. cbn [init nd pc ph init_node active].
    assert (length (filter (fun _ : nat => false) (seq 0 n)) = 0) as ->; [|lia].
    induction (seq 0 n); simpl; auto.
Qed.

Lemma run_inv s ls s' : Inv s -> run c s ls = Some s' -> Inv s'.
Proof.
  revert s. induction ls as [|l ls IH]; simpl; intros s HI Hr.
  - injection Hr as <-. exact HI.
  - destruct (step s l) eqn:Hs; [|discriminate]. eapply IH; [|exact Hr]. eapply inv_step; eauto.
Qed.

Theorem reach_inv s : Reach c s -> Inv s.
Proof. intros [ls Hr]. eapply run_inv; [apply inv_init|exact Hr]. Qed.

(* ---- property-level corollaries ---- *)

(* C15: never more than maxActive workers between launch and the end of the retry interval *)
Corollary C15_bound_active s : Reach c s -> maxActive c > 0 -> active_count c s <= maxActive c.
Proof. intros Hr Hk. pose proof (iE _ _ (reach_inv s Hr) Hk). lia. Qed.

(* C01: a command only starts when every dependency is terminal, permits it, and has no worker *)
Corollary C01_at_start s i s' :
  Reach c s -> step s (WExecStart i) = Some s' ->
  forall d, In d (deps (steps c i)) ->
    okterm s d /\ ph (nd s d) <> PExec /\ active (ph (nd s d)) = false.
Proof.
  intros Hr Hs d Hd. pose proof (reach_inv s Hr) as HI.
  assert (Hok : okterm s d).
  { eapply (iC _ _ HI i); eauto. left. cbn [Model.step] in Hs.
    destruct (ph (nd s i)); try discriminate. }
  split; auto. pose proof (iA _ _ HI d) as Hc. unfold coherent in Hc.
  destruct Hok as [H|[[H _]|[H _]]]; destruct (ph (nd s d)); simpl; split; try discriminate; auto;
    intuition congruence.
Qed.

(* C03: attempts are bounded by the retry limit *)
Corollary C03_bounds s i : Reach c s ->
  att (nd s i) <= S (rc (nd s i)) /\ rc (nd s i) <= rlimit (steps c i).
Proof.
  intros Hr. pose proof (iD _ _ (reach_inv s Hr) i) as [H1 H2]. split; auto.
  pose proof (iA _ _ (reach_inv s Hr) i) as Hc. unfold coherent in Hc. unfold counts in *.
  destruct (ph (nd s i)) eqn:E; try lia; try contradiction.
Qed.


(* a dependency that permits its dependents has finished its last attempt: it can never start again *)
Lemma okterm_no_start s d : Inv s -> okterm s d -> step s (WExecStart d) = None.
Proof.
  intros HI Hok. pose proof (iA _ _ HI d) as Hc. unfold coherent in Hc. cbn [Model.step].
  destruct (ph (nd s d)); try reflexivity.
  destruct Hok as [H|[[H _]|[H _]]]; intuition congruence.
Qed.

Lemma okterm_never_again s ls s' d : Inv s -> okterm s d -> run c s ls = Some s' -> ~ In (WExecStart d) ls.
Proof.
  revert s. induction ls as [|l ls IH]; simpl; intros s HI Hok Hr; [tauto|].
  destruct (step s l) eqn:Hs; [|discriminate].
  intros [->|Hin].
  - rewrite (okterm_no_start s d HI Hok) in Hs. discriminate.
  - eapply IH; [eapply inv_step; eauto|eapply step_okterm_stable; eauto|exact Hr|exact Hin].
Qed.

(* C01, full form: for every execution ls1 ++ WExecStart i :: ls2 *)
Theorem C01_execution ls1 i ls2 s1 s2 s3 :
  run c (init c) ls1 = Some s1 -> step s1 (WExecStart i) = Some s2 -> run c s2 ls2 = Some s3 ->
  forall d, In d (deps (steps c i)) ->
    okterm s1 d /\ active (ph (nd s1 d)) = false /\ ph (nd s1 d) <> PExec /\ ~ In (WExecStart d) ls2.
Proof.
  intros H1 H2 H3 d Hd.
  assert (Hr : Reach c s1) by (exists ls1; exact H1).
  destruct (C01_at_start s1 i s2 Hr H2 d Hd) as (Hok & Hne & Hact).
  repeat split; auto.
  pose proof (reach_inv s1 Hr) as HI.
  eapply (okterm_never_again s2 ls2 s3 d); eauto.
  - eapply inv_step; eauto.
  - eapply step_okterm_stable; eauto.
Qed.

(* I4 for the quantity the code counts: nodes in state running *)
Lemma running_count_upd (s : state) i y : i < n ->
  length (filter (fun j => is_running (if j =? i then y else nd s j)) (seq 0 n)) + b2n (is_running (nd s i))
  = length (filter (fun j => is_running (nd s j)) (seq 0 n)) + b2n (is_running y).
Proof.
  intros Hi.
  pose proof (count_upd_in (fun j => is_running (nd s j))
                (fun j => is_running (if j =? i then y else nd s j)) i (seq 0 n)) as H.
  cbv beta in H. rewrite Nat.eqb_refl in H. apply H.
  - apply seq_NoDup.
  - apply in_seq. lia.
  - intros j Hne. apply Nat.eqb_neq in Hne. now rewrite Hne.
Qed.

Lemma running_count_same (s : state) i y : st y = st (nd s i) ->
  length (filter (fun j => is_running (if j =? i then y else nd s j)) (seq 0 n))
  = length (filter (fun j => is_running (nd s j)) (seq 0 n)).
Proof.
  intros Hp. apply count_ext. intros j _. unfold is_running.
  destruct (Nat.eqb_spec j i) as [->|]; [now rewrite Hp|reflexivity].
Qed.

Lemma running_count_le (s : state) i y : i < n ->
  (is_running y = true -> is_running (nd s i) = true) ->
  length (filter (fun j => is_running (if j =? i then y else nd s j)) (seq 0 n))
  <= length (filter (fun j => is_running (nd s j)) (seq 0 n)).
Proof.
  intros Hi Himp. pose proof (running_count_upd s i y Hi) as Hu.
  destruct (is_running y); [rewrite Himp in Hu by reflexivity|]; cbn [b2n] in Hu;
    try destruct (is_running (nd s i)); cbn [b2n] in Hu; lia.
Qed.

Lemma running_count_le' (s : state) i y :
  (is_running y = true -> is_running (nd s i) = true) ->
  length (filter (fun j => is_running (if j =? i then y else nd s j)) (seq 0 n))
  <= length (filter (fun j => is_running (nd s j)) (seq 0 n)).
Proof.
  intros Himp. destruct (Nat.lt_ge_cases i n) as [Hi|Hi]; [now apply running_count_le|].
  apply Nat.eq_le_incl. apply count_ext. intros j Hj. apply in_seq in Hj.
  destruct (Nat.eqb_spec j i); [lia|reflexivity].
Qed.

Definition RunCap (s : state) : Prop := maxActive c > 0 -> running_count c s + committed_n s <= maxActive c.

Lemma step_runcap s l s' : Inv s -> RunCap s -> step s l = Some s' -> RunCap s'.
Proof.
  intros HI HR Hs Hk. specialize (HR Hk). unfold running_count, committed_n in *.
  start_step HI Hs.
  all: try (match goal with H : is_head (pc _) = true |- _ => apply is_head_eq in H; rewrite H in * end).
  all: try lia.
  all: try (match goal with |- context [filter (fun j => is_running (if j =? ?i then ?y else _)) _] =>
              let Hu := fresh "Hu" in
              assert (Hu : length (filter (fun j => is_running (if j =? i then y else nd s j)) (seq 0 (nsteps c)))
                           <= length (filter (fun j => is_running (nd s j)) (seq 0 (nsteps c))));
              [apply running_count_le; [assumption|];
               unfold is_running; nsimpl; destruct (st (nd s i)); cbn [nstatus_eqb]; congruence
              |lia] end).
  - (* LMark *)
    apply dep_mark_values in M.
    match goal with |- context [filter (fun j => is_running (if j =? ?i then ?y else _)) _] =>
      assert (Hu : length (filter (fun j => is_running (if j =? i then y else nd s j)) (seq 0 (nsteps c)))
                   <= length (filter (fun j => is_running (nd s j)) (seq 0 (nsteps c))));
      [apply running_count_le; [assumption|]; unfold is_running; nsimpl; destruct M; subst; cbn; congruence|lia] end.
  - (* LCommit *)
    apply orb_true_iff in H0. destruct H0 as [H0|H0]; [apply Nat.eqb_eq in H0; lia|].
    apply Nat.ltb_lt in H0. unfold running_count in H0. lia.
  - (* LLaunch *)
    apply is_committed_eq in H. destruct (HB _ H) as [Hin Hst]. rewrite H in HR.
    pose proof (running_count_upd s i (with_ph (with_st (nd s i) NRunning) PSetup) Hin) as Hu.
    assert (Hr0 : is_running (nd s i) = false) by (unfold is_running; rewrite Hst; reflexivity).
    rewrite Hr0 in Hu. replace (is_running (with_ph (with_st (nd s i) NRunning) PSetup)) with true in Hu by reflexivity.
    cbn [b2n] in Hu. lia.
  - (* LSkipPre *)
    apply is_committed_eq in H. destruct (HB _ H) as [Hin Hst]. rewrite H in HR.
    assert (Hu : length (filter (fun j => is_running (if j =? i then with_st (nd s i) NSkipped else nd s j)) (seq 0 (nsteps c)))
                 <= length (filter (fun j => is_running (nd s j)) (seq 0 (nsteps c)))).
    { apply running_count_le; [assumption|]. unfold is_running. cbn. congruence. }
    lia.
  - (* SigNode *)
    match goal with |- context [filter (fun j => is_running (if j =? ?i then ?y else _)) _] =>
      assert (Hu : length (filter (fun j => is_running (if j =? i then y else nd s j)) (seq 0 (nsteps c)))
                   <= length (filter (fun j => is_running (nd s j)) (seq 0 (nsteps c))));
      [apply running_count_le'; unfold is_running; cbn; congruence|lia] end.
Qed.

Lemma runcap_init : RunCap (init c).
Proof.
  intros _. unfold running_count, committed_n. cbn [init nd pc].
  assert (length (filter (fun _ : nat => is_running init_node) (seq 0 n)) = 0) as ->; [|lia].
  induction (seq 0 n); simpl; auto.
Qed.

Lemma run_inv_runcap s ls s' : Inv s -> RunCap s -> run c s ls = Some s' -> Inv s' /\ RunCap s'.
Proof.
  revert s. induction ls as [|l ls IH]; simpl; intros s HI HR Hr.
  - injection Hr as <-. auto.
  - destruct (step s l) eqn:Hs; [|discriminate]. eapply IH; [| |exact Hr].
    + eapply inv_step; eauto.
    + eapply step_runcap; eauto.
Qed.

(* C15: the number of nodes in state running (what the code counts), the number of live workers between launch
   and the end of the retry interval, and the number of commands executing never exceed maxActiveRuns *)
Definition exec_count (s : state) : nat :=
  length (filter (fun j => match ph (nd s j) with PExec => true | _ => false end) (seq 0 n)).
Definition retrywait_count (s : state) : nat :=
  length (filter (fun j => match ph (nd s j) with PExec | PRetryWait => true | _ => false end) (seq 0 n)).

Theorem C15_bound_all s : Reach c s -> maxActive c > 0 ->
  running_count c s <= maxActive c /\ active_count c s <= maxActive c /\
  retrywait_count s <= maxActive c /\ exec_count s <= maxActive c.
Proof.
  intros [ls Hr] Hk.
  destruct (run_inv_runcap _ _ _ inv_init runcap_init Hr) as [HI HR].
  specialize (HR Hk). pose proof (iE _ _ HI Hk) as HE.
  assert (H1 : retrywait_count s <= active_count c s).
  { apply filter_le. intros j. destruct (ph (nd s j)); simpl; congruence. }
  assert (H2 : exec_count s <= retrywait_count s).
  { apply filter_le. intros j. destruct (ph (nd s j)); simpl; congruence. }
  lia.
Qed.

(* a node waiting out its retry interval keeps status running (it occupies a slot) unless the run was stopped *)
Lemma retrywait_is_running s i : Reach c s -> canceled s = false -> ph (nd s i) = PRetryWait -> st (nd s i) = NRunning.
Proof. intros Hr Hc Hp. apply (iG _ _ (reach_inv s Hr) Hc). rewrite Hp. reflexivity. Qed.

(* with maxActiveRuns = 0 the capacity test never blocks a launch *)
Lemma C15_unbounded_commit s i : maxActive c = 0 ->
  i < n -> pc s = LHead -> st (nd s i) = NNone -> ready c s i = true -> canceled s = false ->
  step s (LCommit i) = Some (set_pc s (LCommitted i)).
Proof.
  intros Hk Hi Hp Hst Hr Hc. cbn [Model.step]. rewrite Hp, Hst, Hr, Hc, Hk.
  apply Nat.ltb_lt in Hi. rewrite Hi. reflexivity.
Qed.

End Pres.

(* ---------------------------------------------------------------------------------------------- *)
(* History: before fix f9e55a3 a Schedule call with done == nil (the package's own tests) let the worker that had   *)
(* reset a retried node fall through to scheduler.go:213 and flip the relaunched, running next attempt to finished   *)
(* (label WStaleFinish of the then model; reproduced on the real code: findings/C01-done-nil-stale-flip.json).  The *)
(* repaired model has no such transition: in the same scenario the dependent cannot be committed while the second    *)
(* attempt executes, whether a done channel is given or not.                                                         *)
(* ---------------------------------------------------------------------------------------------- *)
Definition flip_cfg : cfg :=
  mkcfg [ {| deps := []; cof := false; cos := false; rlimit := 1; pre := true; sfail := false; repeat := false; cfails := 0 |};
          {| deps := [0]; cof := false; cos := false; rlimit := 0; pre := true; sfail := false; repeat := false; cfails := 0 |} ]
        1 false false.
Definition flip_exec : list label :=
  [LCommit 0; LLaunch 0; WTest 0; WExecStart 0; WExecEnd 0 false; WAfter 0 false; WRetryWake 0;
   LCommit 0; LLaunch 0; WTest 0; WExecStart 0].

Lemma stale_flip_repaired :
  exists s, run flip_cfg (init flip_cfg) flip_exec = Some s /\
            norepeat flip_cfg /\ donech flip_cfg = false /\ maxActive flip_cfg = 1 /\
            In 0 (deps (steps flip_cfg 1)) /\ ph (nd s 0) = PExec /\ st (nd s 0) = NRunning /\
            step flip_cfg s (LCommit 1) = None.
Proof.
  eexists. split; [vm_compute; reflexivity|].
  split; [intros i; unfold flip_cfg, mkcfg; cbn [steps]; destruct i as [|[|i]]; try reflexivity; destruct i; reflexivity|].
  split; [reflexivity|]. split; [reflexivity|]. split; [left; reflexivity|].
  split; [vm_compute; reflexivity|]. split; vm_compute; reflexivity.
Qed.
