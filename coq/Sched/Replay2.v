(* Power-set trace acceptor for runs WITH stop requests, timeouts and lifecycle handlers (C04, C05).
   From the set of model states compatible with the events consumed so far: close under the hidden labels (everything
   the harness cannot see; wake-ups, the deadline and the Signal flag are gated by the recorded time stamps / by the
   Signal call being open), apply the next visible label, drop duplicates.  The trace is accepted iff some state of the
   final set is Done and shows the observed final node table, handler states, Schedule error and Status.
   Every state of every set is obtained from the initial state through Model.step only (dedupe only removes states),
   so an accepted trace is the visible projection of an execution of the model. *)
From Coq Require Import List Arith Bool ZArith PeanoNat.
Import ListNotations.
From BD.Sched Require Import Model Replay.

Inductive event2 :=
| E2Start (i : nat) (t : Z) | E2End (i : nat) (ok : bool) (t : Z) | E2Refused (i : nat) (t : Z)
| E2Kill (i : nat) (t : Z) | E2SigCall (t : Z) | E2SigRet (t : Z)
| E2HStart (h : handler) (t : Z) | E2HEnd (h : handler) (ok : bool) (t : Z).

Definition ev2_time (e : event2) : Z :=
  match e with
  | E2Start _ t | E2End _ _ t | E2Refused _ t | E2Kill _ t | E2SigCall t | E2SigRet t
  | E2HStart _ t | E2HEnd _ _ t => t end.

Definition all_handlers : list handler := [HExit; HSuccess; HFailure; HCancel].

Definition phase_eqb (a b : wphase) : bool :=
  match a, b with
  | PIdle, PIdle | PSetup, PSetup | PStarting, PStarting | PExec, PExec | PRetryWait, PRetryWait
  | PRepeatWait, PRepeatWait | PPost, PPost | PGone, PGone => true
  | PEnded x, PEnded y => Bool.eqb x y
  | _, _ => false end.
Fixpoint bools_eqb (a b : list bool) : bool :=
  match a, b with
  | [], [] => true
  | x :: a', y :: b' => Bool.eqb x y && bools_eqb a' b'
  | _, _ => false end.
Fixpoint nats_eqb (a b : list nat) : bool :=
  match a, b with
  | [], [] => true
  | x :: a', y :: b' => (x =? y) && nats_eqb a' b'
  | _, _ => false end.
Fixpoint handlers_eqb (a b : list handler) : bool :=
  match a, b with
  | [], [] => true
  | x :: a', y :: b' => handler_eqb x y && handlers_eqb a' b'
  | _, _ => false end.
Definition node_eqb (x y : node) : bool :=
  nstatus_eqb (st x) (st y) && (rc x =? rc y) && (dc x =? dc y) && (att x =? att y) && phase_eqb (ph x) (ph y)
  && (stale x =? stale y) && bools_eqb (outs x) (outs y).
Definition pc_eqb (a b : lpc) : bool :=
  match a, b with
  | LHead, LHead | LExited, LExited | LDone, LDone => true
  | LCommitted i, LCommitted j => i =? j
  | LHandlers t1 c1, LHandlers t2 c2 => handlers_eqb t1 t2 && Bool.eqb c1 c2
  | _, _ => false end.
Definition hnode_eqb (x y : hnode) : bool := nstatus_eqb (hs x) (hs y) && (hatt x =? hatt y).

Section R2.
Variable c : cfg.
Variable ivl : nat -> Z.      (* retry interval per step (us) *)
Variable rivl : nat -> Z.     (* repeat interval per step (us) *)
Variable eps : Z.
Variable tmo_at : Z.          (* the instant of the DAG deadline (us since start); huge when there is none *)
Notation n := (nsteps c).

Definition state_eqb (a b : state) : bool :=
  forallb (fun i => node_eqb (nd a i) (nd b i)) (seq 0 n)
  && Bool.eqb (canceled a) (canceled b) && Bool.eqb (lasterr a) (lasterr b) && Bool.eqb (timedout a) (timedout b)
  && pc_eqb (pc a) (pc b) && nats_eqb (sigq a) (sigq b) && (sigleft a =? sigleft b)
  && forallb (fun h => hnode_eqb (hst a h) (hst b h)) all_handlers
  && match decided a, decided b with
     | None, None => true
     | Some x, Some y => ocode x =? ocode y
     | _, _ => false end.

(* acceptor state: the set of model states, the exit stamp of the latest attempt of each node, Signal calls seen *)
Record pstate := { pss : list state; pendt : nat -> Z; pcalls : nat }.

Definition hidden_labels (calls : nat) (endt : nat -> Z) (now : Z) (s : state) : list label :=
  flat_map (fun i =>
      [LCommit i; LLaunch i; LSkipPre i; WSetupFail i; WTest i; WSkipExec i; WDryExec i;
       WAfter i false; WAfter i true; WFinish i]
      ++ map (LMark i) (deps (steps c i))
      ++ (if (endt i + ivl i - eps <=? now)%Z then [WRetryWake i] else [])
      ++ (if (endt i + rivl i - eps <=? now)%Z then [WRepeatWake i] else []))
    (seq 0 n)
  ++ [LExit; SigNode false; HBegin; HFinish] ++ map HSkip all_handlers ++ map HSetupFail all_handlers
  ++ (if (sigs c - sigleft s <? calls) then [SigFlag] else [])
  ++ (if (tmo_at - eps <=? now)%Z then [Timeout] else []).

Definition succs (calls : nat) (endt : nat -> Z) (now : Z) (s : state) : list state :=
  flat_map (fun l => match step c s l with Some s' => [s'] | None => [] end) (hidden_labels calls endt now s).

Definition mem (s : state) (l : list state) : bool := existsb (state_eqb s) l.
Fixpoint add_new (new seen : list state) : list state * list state :=   (* (really new, seen') *)
  match new with
  | [] => ([], seen)
  | s :: r => if mem s seen then add_new r seen
              else let '(a, b) := add_new r (s :: seen) in (s :: a, b)
  end.

(* breadth-first closure; None = fuel exhausted (state explosion) *)
Fixpoint closure (fuel : nat) (calls : nat) (endt : nat -> Z) (now : Z) (front seen : list state) : option (list state) :=
  match front with
  | [] => Some seen
  | _ =>
    match fuel with
    | 0 => None
    | S f =>
        let next := flat_map (succs calls endt now) front in
        let '(fresh, seen') := add_new next seen in
        closure f calls endt now fresh seen'
    end
  end.

Definition close (p : pstate) (now : Z) : option (list state) :=
  let '(fresh, seen) := add_new (pss p) [] in closure 60 (pcalls p) (pendt p) now fresh seen.

Definition apply_all (l : label) (ss : list state) : list state :=
  flat_map (fun s => match step c s l with Some s' => [s'] | None => [] end) ss.

Definition feed2 (p : pstate) (e : event2) : option pstate :=
  match close p (ev2_time e) with
  | None => None
  | Some ss =>
    let mk ss' := match ss' with [] => None | _ => Some {| pss := ss'; pendt := pendt p; pcalls := pcalls p |} end in
    match e with
    | E2Start i _ => mk (apply_all (WExecStart i) ss)
    | E2End i ok t =>
        match apply_all (WExecEnd i ok) ss with
        | [] => None
        | ss' => Some {| pss := ss'; pendt := fun j => if j =? i then t else pendt p j; pcalls := pcalls p |}
        end
    | E2Refused i t =>      (* the attempt ended without a command: expired context, or the command could not be created *)
        match apply_all (WExecRefused i) ss ++ apply_all (WCreateFail i) ss with
        | [] => None
        | ss' => Some {| pss := ss'; pendt := fun j => if j =? i then t else pendt p j; pcalls := pcalls p |}
        end
    | E2Kill i _ =>
        mk (apply_all (SigNode true) (filter (fun s => match sigq s with j :: _ => j =? i | [] => false end) ss))
    | E2SigCall _ => Some {| pss := ss; pendt := pendt p; pcalls := S (pcalls p) |}
    | E2SigRet _ =>
        mk (filter (fun s => (sigs c - sigleft s =? pcalls p) && match sigq s with [] => true | _ => false end) ss)
    | E2HStart h _ => mk (apply_all (HStart h) ss)
    | E2HEnd h ok _ => mk (apply_all (HEnd h ok) ss)
    end
  end.

Fixpoint feed2_all (p : pstate) (es : list event2) (idx : nat) : pstate * option nat :=
  match es with
  | [] => (p, None)
  | e :: es' => match feed2 p e with Some p' => feed2_all p' es' (S idx) | None => (p, Some idx) end
  end.

(* observed at the end: per node (status, retryCount), per handler its status code (or 6 = not configured),
   Schedule's error, Status(g) *)
Variable fin : nat -> nat * nat.
Variable hfin : handler -> nat.

Definition final2_ok (s : state) (err : bool) (status : nat) : bool :=
  (match pc s with LDone => true | _ => false end)
  && forallb (fun i => (code (st (nd s i)) =? fst (fin i)) && (rc (nd s i) =? snd (fin i))) (seq 0 n)
  && forallb (fun h => if hon c h then code (hs (hst s h)) =? hfin h else true) all_handlers
  && Bool.eqb (lasterr s) err && (ocode (overall c s) =? status).

Definition p_init : pstate := {| pss := [init c]; pendt := fun _ => 0%Z; pcalls := 0 |}.

(* (stage, index, number of states at the end): stage 0 accepted; 1 = event idx has no matching model state (or the
   closure ran out of fuel); 2 = no model state is Done with the observed final tables *)
Definition replay2 (tr : list event2) (err : bool) (status : nat) : nat * nat * nat :=
  match feed2_all p_init tr 0 with
  | (p, Some idx) => (1, idx, length (pss p))
  | (p, None) =>
      match close p big with
      | None => (1, length tr, 0)
      | Some ss =>
          if existsb (fun s => final2_ok s err status) ss then (0, 0, length ss) else (2, 0, length ss)
      end
  end.

End R2.
