(* Sched started from a RECORDED node table (retry of a run, C10): the statements of the step scheduler lifted from the
   initial state to any start state.  A retry starts from the table left by Graph.Retry.setup_retry: nodes that are
   kept carry their recorded status (finished / skipped) and have no worker; reset nodes are not-started. *)
From Coq Require Import List Arith Bool Lia PeanoNat.
Import ListNotations.
From BD.Sched Require Import Model Proofs ProofsFinal ProofsTerm ProofsStop.

Section Retry.
Variable c : cfg.
Hypothesis Hnorep : norepeat c.
Notation n := (nsteps c).

(* the start state of a retry: kept nodes have status finished (worker gone) or skipped (never launched), reset nodes are
   as in the initial state *)
Definition kept_node (v : nstatus) : node :=
  {| st := v; rc := 0; dc := 0; att := 0; ph := (match v with NSuccess => PGone | _ => PIdle end); stale := 0; outs := [] |}.
Definition init_from (tbl : nat -> nstatus) : state :=
  {| nd := fun i => match tbl i with NSuccess => kept_node NSuccess | NSkipped => kept_node NSkipped | _ => init_node end;
     canceled := false; lasterr := false; timedout := false; pc := LHead; sigq := []; sigleft := sigs c;
     hst := fun _ => {| hs := NNone; hatt := 0 |}; decided := None |}.

(* a kept node is never touched: it keeps its status and is never executed *)
Definition kept (s : state) (i : nat) : Prop :=
  att (nd s i) = 0 /\ ((st (nd s i) = NSuccess /\ ph (nd s i) = PGone) \/ (st (nd s i) = NSkipped /\ ph (nd s i) = PIdle)).

Lemma kept_step s l s' j : Inv c s -> kept s j -> step c s l = Some s' -> kept s' j.
Proof.
  intros HI [Ha Hk] Hs. unfold kept. pose proof (iB _ _ HI) as HB.
  destruct l; cbn [step] in Hs; inv_guard Hs; injection Hs as <-; split_guard;
    unfold set_nd, set_pc, set_err, set_hst, upd; cbn [nd]; try (split; assumption).
  all: try (match goal with |- context [?x =? ?k] => destruct (Nat.eqb_spec x k) as [->|Hne]; [|split; assumption] end).
  all: try (exfalso; destruct Hk as [[A B]|[A B]]; congruence).
  all: try (exfalso; match goal with H : is_committed (pc _) _ = true |- _ =>
              apply is_committed_eq in H; destruct (HB _ H) as [_ X]; destruct Hk as [[A B]|[A B]]; congruence end).
  (* WAfter *)
  destruct (after_shape c s i ok early) as (Ho & _).
  destruct (Nat.eq_dec j i) as [->|Hne].
  - exfalso. destruct Hk as [[A B]|[A B]]; congruence.
  - rewrite (Ho j Hne). split; assumption.
Qed.

Lemma kept_run ls : forall s s' j, Inv c s -> kept s j -> run c s ls = Some s' -> kept s' j.
Proof.
  induction ls as [|l ls IH]; simpl; intros s s' j HI Hk Hr; [injection Hr as <-; exact Hk|].
  destruct (step c s l) eqn:Hs; [|discriminate].
  eapply IH; [eapply inv_step; eauto|eapply kept_step; eauto|exact Hr].
Qed.

(* C10: from any start state satisfying the scheduler invariant - in particular the table of a retry - a kept node
   (recorded finished / skipped) keeps its status, gets no attempt, and its command never starts; only reset
   (not-started) nodes can be executed *)
Theorem executes_only_reset s0 ls s j : Inv c s0 -> kept s0 j -> run c s0 ls = Some s ->
  kept s j /\ ~ In (WExecStart j) ls.
Proof.
  intros HI Hk Hr. split; [eapply kept_run; eauto|].
  revert s0 HI Hk Hr. induction ls as [|l ls IH]; intros s0 HI Hk Hr; [tauto|].
  simpl in Hr. destruct (step c s0 l) eqn:Hs; [|discriminate].
  intros [->|Hin].
  - cbn [step] in Hs. destruct Hk as [_ [[_ B]|[_ B]]]; rewrite B in Hs; discriminate.
  - eapply (IH s1); eauto. eapply inv_step; eauto. eapply kept_step; eauto.
Qed.

(* every execution from such a start state is finite, with an explicit bound *)
Theorem finite_from s0 ls s : Inv c s0 -> run c s0 ls = Some s -> length ls <= measure c s0.
Proof. intros HI Hr. pose proof (run_measure c Hnorep s0 ls s HI Hr). lia. Qed.

(* the start state of a retry satisfies the invariant, provided the recorded table is consistent: every dependency of
   a kept finished node lets it proceed (what a recorded run guarantees: C01) *)
Definition tbl_consistent (tbl : nat -> nstatus) : Prop :=
  forall i, tbl i = NSuccess -> forall d, In d (deps (steps c i)) ->
    tbl d = NSuccess \/ (tbl d = NSkipped /\ cos (steps c d) = true).

Lemma inv_init_from tbl : tbl_consistent tbl -> Inv c (init_from tbl).
Proof.
  intros Hc. constructor; unfold init_from; cbn [nd pc canceled sigq].
  - intros i. unfold coherent. destruct (tbl i); cbn; auto.
  - intros i H. discriminate.
  - intros i Hl d Hd. unfold launched in Hl. cbn [nd pc] in Hl.
    assert (Hi : tbl i = NSuccess).
    { destruct (tbl i) eqn:E; auto; cbn in Hl; exfalso; destruct Hl as [X|[X|X]]; try congruence; try lia; try discriminate. }
    destruct (Hc i Hi d Hd) as [Hd1|[Hd1 Hd2]]; unfold okterm; cbn [nd]; rewrite Hd1; cbn; auto.
  - intros i. unfold counts. cbn [nd]. destruct (tbl i); cbn; lia.
  - intros H. congruence.
  - intros _ i H. destruct (tbl i); cbn in H; discriminate.
  - intros i. destruct (tbl i); reflexivity.
  - intros _. unfold active_count, committed_n. cbn [nd pc].
    assert (length (filter (fun j => active (ph (match tbl j with NSuccess => kept_node NSuccess | NSkipped => kept_node NSkipped | _ => init_node end))) (seq 0 n)) = 0) as ->; [|lia].
    induction (seq 0 n) as [|a l IH]; simpl; auto. destruct (tbl a); cbn; auto.
Qed.

Lemma kept_init_from tbl j : tbl j = NSuccess \/ tbl j = NSkipped -> kept (init_from tbl) j.
Proof. intros [H|H]; unfold kept, init_from; cbn [nd]; rewrite H; cbn; auto. Qed.

End Retry.
