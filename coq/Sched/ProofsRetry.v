(* Sched started from a RECORDED node table (retry of a run, C10): the statements of the step scheduler lifted from the
   initial state to any start state.  A retry starts from the table left by Graph.Retry.setup_retry: nodes that are
   kept carry their recorded status (finished / skipped) and have no worker; reset nodes are not-started. *)
From Coq Require Import List Arith Bool Lia PeanoNat.
Import ListNotations.
From BD.Sched Require Import Model Proofs ProofsFinal ProofsTerm ProofsStop.

Section Retry.
Variable c : cfg.
Hypothesis Hnorep : norepeat c.
Notation n := (nsteps c).

(* the start state of a retry: kept nodes have status finished (worker gone) or skipped (never launched), reset nodes are
   as in the initial state *)
Definition kept_node (v : nstatus) : node :=
  {| st := v; rc := 0; dc := 0; att := 0; ph := (match v with NSuccess => PGone | _ => PIdle end); stale := 0; outs := [] |}.
Definition init_from (tbl : nat -> nstatus) : state :=
  {| nd := fun i => match tbl i with NSuccess => kept_node NSuccess | NSkipped => kept_node NSkipped | _ => init_node end;
     canceled := false; lasterr := false; timedout := false; pc := LHead; sigq := []; sigleft := sigs c;
     hst := fun _ => {| hs := NNone; hatt := 0 |}; decided := None |}.

(* a kept node is never touched: it keeps its status and is never executed *)
Definition kept (s : state) (i : nat) : Prop :=
  att (nd s i) = 0 /\ ((st (nd s i) = NSuccess /\ ph (nd s i) = PGone) \/ (st (nd s i) = NSkipped /\ ph (nd s i) = PIdle)).

Lemma kept_step s l s' j : Inv c s -> kept s j -> step c s l = Some s' -> kept s' j.
Proof.
  intros HI [Ha Hk] Hs. unfold kept. pose proof (iB _ _ HI) as HB.
  destruct l; cbn [step] in Hs; inv_guard Hs; injection Hs as <-; split_guard;
    unfold set_nd, set_pc, set_err, set_hst, upd; cbn [nd]; try (split; assumption).
  all: try (match goal with |- context [?x =? ?k] => destruct (Nat.eqb_spec x k) as [->|Hne]; [|split; assumption] end).
  all: try (exfalso; destruct Hk as [[A B]|[A B]]; congruence).
  all: try (exfalso; match goal with H : is_committed (pc _) _ = true |- _ =>
              apply is_committed_eq in H; destruct (HB _ H) as [_ X]; destruct Hk as [[A B]|[A B]]; congruence end).
  (* WAfter *)
  destruct (after_shape c s i ok early) as (Ho & _).
  destruct (Nat.eq_dec j i) as [->|Hne].
  - exfalso. destruct Hk as [[A B]|[A B]]; congruence.
  - rewrite (Ho j Hne). split; assumption.
Qed.

Lemma kept_run ls : forall s s' j, Inv c s -> kept s j -> run c s ls = Some s' -> kept s' j.
Proof.
  induction ls as [|l ls IH]; simpl; intros s s' j HI Hk Hr; [injection Hr as <-; exact Hk|].
  destruct (step c s l) eqn:Hs; [|discriminate].
  eapply IH; [eapply inv_step; eauto|eapply kept_step; eauto|exact Hr].
Qed.

(* C10: from any start state satisfying the scheduler invariant - in particular the table of a retry - a kept node
   (recorded finished / skipped) keeps its status, gets no attempt, and its command never starts; only reset
   (not-started) nodes can be executed *)
Theorem executes_only_reset s0 ls s j : Inv c s0 -> kept s0 j -> run c s0 ls = Some s ->
  kept s j /\ ~ In (WExecStart j) ls.
Proof.
  intros HI Hk Hr. split; [eapply kept_run; eauto|].
  revert s0 HI Hk Hr. induction ls as [|l ls IH]; intros s0 HI Hk Hr; [tauto|].
  simpl in Hr. destruct (step c s0 l) eqn:Hs; [|discriminate].
  intros [->|Hin].
  - cbn [step] in Hs. destruct Hk as [_ [[_ B]|[_ B]]]; rewrite B in Hs; discriminate.
  - eapply (IH s1); eauto. eapply inv_step; eauto. eapply kept_step; eauto.
Qed.

(* every execution from such a start state is finite, with an explicit bound *)
Theorem finite_from s0 ls s : Inv c s0 -> run c s0 ls = Some s -> length ls <= measure c s0.
Proof. intros HI Hr. pose proof (run_measure c Hnorep s0 ls s HI Hr). lia. Qed.

(* the start state of a retry satisfies the invariant, provided the recorded table is consistent: every dependency of
   a kept finished node lets it proceed (what a recorded run guarantees: C01) *)
Definition tbl_consistent (tbl : nat -> nstatus) : Prop :=
  forall i, tbl i = NSuccess -> forall d, In d (deps (steps c i)) ->
    tbl d = NSuccess \/ (tbl d = NSkipped /\ cos (steps c d) = true).

Lemma inv_init_from tbl : tbl_consistent tbl -> Inv c (init_from tbl).
Proof.
  intros Hc. constructor; unfold init_from; cbn [nd pc canceled sigq].
  - intros i. unfold coherent. destruct (tbl i); cbn; auto.
  - intros i H. discriminate.
  - intros i Hl d Hd. unfold launched in Hl. cbn [nd pc] in Hl.
    assert (Hi : tbl i = NSuccess).
    { destruct (tbl i) eqn:E; auto; cbn in Hl; exfalso; destruct Hl as [X|[X|X]]; try congruence; try lia; try discriminate. }
    destruct (Hc i Hi d Hd) as [Hd1|[Hd1 Hd2]]; unfold okterm; cbn [nd]; rewrite Hd1; cbn; auto.
  - intros i. unfold counts. cbn [nd]. destruct (tbl i); cbn; lia.
  - intros H. congruence.
  - intros _ i H. destruct (tbl i); cbn in H; discriminate.
  - intros i. destruct (tbl i); reflexivity.
  - intros _. unfold active_count, committed_n. cbn [nd pc].
    assert (length (filter (fun j => active (ph (match tbl j with NSuccess => kept_node NSuccess | NSkipped => kept_node NSkipped | _ => init_node end))) (seq 0 n)) = 0) as ->; [|lia].
    induction (seq 0 n) as [|a l IH]; simpl; auto. destruct (tbl a); cbn; auto.
Qed.

Lemma kept_init_from tbl j : tbl j = NSuccess \/ tbl j = NSkipped -> kept (init_from tbl) j.
Proof. intros [H|H]; unfold kept, init_from; cbn [nd]; rewrite H; cbn; auto. Qed.


(* ---------------------------------------------------------------------------------------------- *)
(* (a) "in dependency order": C01 for executions from ANY start state satisfying the invariant       *)
(* ---------------------------------------------------------------------------------------------- *)
Theorem start_after_deps_from s0 ls1 i ls2 s1 s2 s3 : Inv c s0 ->
  run c s0 ls1 = Some s1 -> step c s1 (WExecStart i) = Some s2 -> run c s2 ls2 = Some s3 ->
  forall d, In d (deps (steps c i)) ->
    okterm c s1 d /\ active (ph (nd s1 d)) = false /\ ph (nd s1 d) <> PExec /\ ~ In (WExecStart d) ls2.
Proof.
  intros HI0 H1 H2 H3 d Hd.
  pose proof (run_inv c Hnorep s0 ls1 s1 HI0 H1) as HI.
  assert (Hok : okterm c s1 d).
  { eapply (iC _ _ HI i); eauto. left. cbn [step] in H2. destruct (ph (nd s1 i)); try discriminate. }
  pose proof (iA _ _ HI d) as Hc. unfold coherent in Hc.
  split; [exact Hok|]. split.
  { destruct Hok as [H|[[H _]|[H _]]]; destruct (ph (nd s1 d)); simpl; auto; intuition congruence. }
  split.
  { destruct Hok as [H|[[H _]|[H _]]]; destruct (ph (nd s1 d)); try discriminate; intuition congruence. }
  eapply (okterm_never_again c Hnorep s2 ls2 s3 d).
  - eapply inv_step; eauto.
  - eapply step_okterm_stable; eauto.
  - exact H3.
Qed.

(* ... for a retry: from the recorded table; a kept dependency shows its recorded status at that instant *)
(* a kept node is literally untouched *)
Lemma kept_unchanged_step s l s' j : Inv c s -> kept s j -> step c s l = Some s' -> nd s' j = nd s j.
Proof.
  intros HI [Ha Hk] Hs. pose proof (iB _ _ HI) as HB.
  destruct l; cbn [step] in Hs; inv_guard Hs; injection Hs as <-; split_guard;
    unfold set_nd, set_pc, set_err, set_hst, upd; cbn [nd]; try reflexivity.
  all: try (match goal with |- context [?x =? ?k] => destruct (Nat.eqb_spec x k) as [->|Hne]; [|reflexivity] end).
  all: try (exfalso; destruct Hk as [[A B]|[A B]]; congruence).
  all: try (exfalso; match goal with H : is_committed (pc _) _ = true |- _ =>
              apply is_committed_eq in H; destruct (HB _ H) as [_ X]; destruct Hk as [[A B]|[A B]]; congruence end).
  (* WAfter *)
  destruct (after_shape c s i ok early) as (Ho & _).
  destruct (Nat.eq_dec j i) as [->|Hne].
  - exfalso. destruct Hk as [[A B]|[A B]]; congruence.
  - apply (Ho j Hne).
Qed.

Lemma kept_unchanged_run ls : forall s s' j, Inv c s -> kept s j -> run c s ls = Some s' -> nd s' j = nd s j.
Proof.
  induction ls as [|l ls IH]; simpl; intros s s' j HI Hk Hr; [injection Hr as <-; reflexivity|].
  destruct (step c s l) eqn:Hs; [|discriminate].
  rewrite (IH s0 s' j (inv_step c Hnorep _ _ _ HI Hs) (kept_step _ _ _ _ HI Hk Hs) Hr).
  eapply kept_unchanged_step; eauto.
Qed.

Lemma kept_status tbl ls s j : tbl_consistent tbl -> run c (init_from tbl) ls = Some s ->
  tbl j = NSuccess \/ tbl j = NSkipped -> st (nd s j) = tbl j /\ att (nd s j) = 0.
Proof.
  intros Hc Hr Hj.
  rewrite (kept_unchanged_run ls _ _ j (inv_init_from tbl Hc) (kept_init_from tbl j Hj) Hr).
  unfold init_from. cbn [nd]. destruct Hj as [H|H]; rewrite H; cbn; auto.
Qed.

(* (a) for a retry: from the recorded table; a kept dependency shows its recorded status at that instant *)
Theorem retry_start_after_deps tbl ls1 i ls2 s1 s2 s3 : tbl_consistent tbl ->
  run c (init_from tbl) ls1 = Some s1 -> step c s1 (WExecStart i) = Some s2 -> run c s2 ls2 = Some s3 ->
  forall d, In d (deps (steps c i)) ->
    okterm c s1 d /\ active (ph (nd s1 d)) = false /\ ph (nd s1 d) <> PExec /\ ~ In (WExecStart d) ls2 /\
    ((tbl d = NSuccess \/ tbl d = NSkipped) -> st (nd s1 d) = tbl d /\ att (nd s1 d) = 0).
Proof.
  intros Hc H1 H2 H3 d Hd.
  destruct (start_after_deps_from (init_from tbl) ls1 i ls2 s1 s2 s3 (inv_init_from tbl Hc) H1 H2 H3 d Hd) as (A & B & C0 & D).
  repeat split; auto; apply (kept_status tbl ls1 s1 d Hc H1 H).
Qed.

(* ---------------------------------------------------------------------------------------------- *)
(* (b) "every member of the unfinished part is subject to scheduling": C02 for runs from a recorded table *)
(* ---------------------------------------------------------------------------------------------- *)
Lemma qnode_run ls : forall s s' j, Inv c s -> run c s ls = Some s' -> quiet s' -> qnode c s j -> qnode c s' j.
Proof.
  induction ls as [|l ls IH]; simpl; intros s s' j HI Hr Hq HQ; [injection Hr as <-; exact HQ|].
  destruct (step c s l) as [s1|] eqn:Hs; [|discriminate].
  assert (Hq1 : quiet s1).
  { clear - Hr Hq Hnorep. revert s1 Hr. induction ls as [|l2 ls IH2]; simpl; intros s1 Hr; [injection Hr as <-; exact Hq|].
    destruct (step c s1 l2) as [s2|] eqn:Hs2; [|discriminate]. eapply quiet_back; eauto. }
  eapply IH; [eapply inv_step; eauto|exact Hr|exact Hq|]. eapply qnode_step; eauto.
Qed.

Lemma xinv_run ls : forall s s', Inv c s -> XInv c s -> run c s ls = Some s' -> XInv c s'.
Proof.
  induction ls as [|l ls IH]; simpl; intros s s' HI HX Hr; [injection Hr as <-; exact HX|].
  destruct (step c s l) eqn:Hs; [|discriminate].
  eapply IH; [eapply inv_step; eauto|eapply xinv_step; eauto|exact Hr].
Qed.

(* C02 from any start state: a node whose quiet-run facts hold at the start (e.g. a not-started node) ends, at Done
   without stop request or timeout, in the state C02 dictates - the blockers / permitters are read on the final table,
   whatever nodes were already finished or skipped at the start *)
Theorem final_states_from s0 ls s i : Inv c s0 -> XInv c s0 -> qnode c s0 i ->
  run c s0 ls = Some s -> quiet s -> pc s = LDone -> i < n -> final_clauses c s i.
Proof.
  intros HI HX HQ Hr Hq Hpc Hi.
  apply final_states_node; auto.
  - eapply run_inv; eauto.
  - eapply xinv_run; eauto.
  - eapply qnode_run; eauto.
Qed.

(* for a retry: every reset (not kept) node is subject to scheduling and ends as C02 dictates; kept nodes count with
   their recorded status (kept_status) *)
Theorem retry_final_states tbl ls s i : tbl_consistent tbl ->
  run c (init_from tbl) ls = Some s -> quiet s -> pc s = LDone -> i < n ->
  tbl i <> NSuccess -> tbl i <> NSkipped -> final_clauses c s i.
Proof.
  intros Hc Hr Hq Hpc Hi H1 H2.
  apply (final_states_from (init_from tbl) ls s i); auto.
  - apply inv_init_from; exact Hc.
  - intros _. unfold init_from. cbn [pc]. split; intros X; discriminate X.
  - unfold qnode, qnode_gen, init_from. cbn [nd].
    destruct (tbl i); try congruence; cbn [init_node ph st att outs rc];
      (split; [auto|]; split; [intros [X|X]; [congruence|lia]|]; split; [apply allf_nil|reflexivity]).
Qed.

End Retry.
