(* Sched: the C15 monitor (high-water mark of open Run calls) holds on the visible projection of EVERY execution:
   the link between the state invariant C15_bound and what the harness can observe. *)
From Coq Require Import List Arith Bool Lia PeanoNat Permutation.
Import ListNotations.
From BD.Sched Require Import Model Proofs Replay ReplayProofs.

(* the untimed part of Check.mon15_go: never more than k Run calls open *)
Fixpoint mon_open (k : nat) (opn : list nat) (tr : list vevent) : bool :=
  match tr with
  | [] => true
  | VStart i :: t => (length opn + 1 <=? k) && mon_open k (i :: opn) t
  | VEnd i _ :: t => mon_open k (remove Nat.eq_dec i opn) t
  end.

Section Trace.
Variable c : cfg.
Hypothesis Hnorep : norepeat c.
Notation n := (nsteps c).

Definition is_exec (x : node) : bool := match ph x with PExec => true | _ => false end.

(* opn lists exactly the nodes whose command is executing *)
Definition Opn (s : state) (opn : list nat) : Prop :=
  NoDup opn /\ forall i, In i opn <-> (i < n /\ is_exec (nd s i) = true).

Lemma opn_length s opn : Opn s opn -> length opn = exec_count c s.
Proof.
  intros [Hnd Hin]. unfold exec_count.
  apply Permutation_length. apply NoDup_Permutation; [exact Hnd|apply NoDup_filter, seq_NoDup|].
  intros i. rewrite Hin, filter_In, in_seq. unfold is_exec. split.
  - intros [H1 H2]. split; [lia|]. destruct (ph (nd s i)); try discriminate; reflexivity.
  - intros [H1 H2]. split; [lia|]. destruct (ph (nd s i)); try discriminate; reflexivity.
Qed.

(* hidden labels neither start nor end an execution *)
Lemma hidden_keeps_exec s l s' : Inv c s -> step c s l = Some s' -> vis_of l = None ->
  forall j, is_exec (nd s' j) = is_exec (nd s j).
Proof.
  intros HI Hs Hv j. unfold is_exec. pose proof (iA _ _ HI) as HA. pose proof (iB _ _ HI) as HB.
  destruct l; try discriminate Hv; cbn [step] in Hs; inv_guard Hs; injection Hs as <-; split_guard.
  all: try match goal with
  | |- context [after c ?s ?i ?ok ?e] =>
      let H := fresh "HAC" in let sa := fresh "sa" in let E := fresh "Esa" in
      pose proof (after_cases c Hnorep s i ok e) as H; remember (after c s i ok e) as sa eqn:E; clear E; destruct H;
      try (let F := fresh "Hfp" in destruct (fphase_cases c) as [F|F]; rewrite F in * )
  end.
  all: unfold set_nd, set_pc, set_err, set_hst, upd; cbn [nd].
  all: try reflexivity.
  all: try (destruct (Nat.eqb_spec j i) as [->|Hne]; [|reflexivity]; nsimpl; rewrite ?M; try reflexivity).
  - (* LLaunch: the node was idle *)
    apply is_committed_eq in H. destruct (HB _ H) as [_ Hst]. rewrite (coherent_none_idle _ (HA i) Hst). reflexivity.
  - match goal with |- context [j =? ?k] => destruct (Nat.eqb_spec j k) as [->|Hne]; [|reflexivity] end. nsimpl. reflexivity.
Qed.

Lemma start_exec s i s' : step c s (WExecStart i) = Some s' ->
  i < n /\ is_exec (nd s i) = false /\ forall j, is_exec (nd s' j) = if j =? i then true else is_exec (nd s j).
Proof.
  cbn [step]. destruct (ph (nd s i)) eqn:E; try discriminate.
  destruct ((i <? n) && negb (dry c) && negb (timedout s) && negb (create_fails c s i)) eqn:G; [|discriminate]. intros H. injection H as <-.
  apply andb_true_iff in G. destruct G as [G _]. apply andb_true_iff in G. destruct G as [G _]. apply andb_true_iff in G. destruct G as [G _]. apply Nat.ltb_lt in G.
  split; [exact G|]. split; [unfold is_exec; rewrite E; reflexivity|].
  intros j. unfold set_nd, upd, is_exec. cbn [nd]. destruct (j =? i); reflexivity.
Qed.

Lemma end_exec s i ok s' : step c s (WExecEnd i ok) = Some s' ->
  forall j, is_exec (nd s' j) = if j =? i then false else is_exec (nd s j).
Proof.
  cbn [step]. destruct (ph (nd s i)) eqn:E; try discriminate.
  destruct (i <? n) eqn:G; [|discriminate]. intros H. injection H as <-.
  intros j. unfold set_nd, upd, is_exec. cbn [nd]. destruct (j =? i); reflexivity.
Qed.

Lemma in_remove_iff (i j : nat) l : In j (remove Nat.eq_dec i l) <-> In j l /\ j <> i.
Proof.
  split.
  - intros H. apply in_remove in H. exact H.
  - intros [H1 H2]. apply in_in_remove; auto.
Qed.

Lemma NoDup_remove' (i : nat) l : NoDup l -> NoDup (remove Nat.eq_dec i l).
Proof.
  induction l as [|a l IH]; simpl; intros H; [constructor|].
  inversion H; subst. destruct (Nat.eq_dec i a); [auto|].
  constructor; [|auto]. intros Hin. apply in_remove in Hin. tauto.
Qed.

Theorem mon_open_holds_from s opn ls s' : Reach c s -> maxActive c > 0 -> Opn s opn ->
  run c s ls = Some s' -> mon_open (maxActive c) opn (vis ls) = true.
Proof.
  intros Hr Hk. revert s opn Hr. induction ls as [|l ls IH]; intros s opn Hr Ho Hrun; [reflexivity|].
  simpl in Hrun. destruct (step c s l) as [s1|] eqn:Hs; [|discriminate].
  assert (Hr1 : Reach c s1).
  { destruct Hr as [ls0 H0]. exists (ls0 ++ [l]). eapply run_app; [exact H0|]. simpl. rewrite Hs. reflexivity. }
  cbn [vis]. destruct (vis_of l) as [v|] eqn:Hv.
  - destruct l; try discriminate Hv; injection Hv as <-; cbn [mon_open].
    + (* a command starts *)
      destruct (start_exec _ _ _ Hs) as (Hi & Hne & Hnew). destruct Ho as [Hnd Hin].
      assert (Ho1 : Opn s1 (i :: opn)).
      { split.
        - constructor; [|exact Hnd]. intros Hc0. apply Hin in Hc0. destruct Hc0 as [_ Hc0]. congruence.
        - intros j. rewrite Hnew. simpl. rewrite Hin. destruct (Nat.eqb_spec j i) as [->|Hne'].
          + split; [intros _; auto|intros _; left; reflexivity].
          + split; [intros [X|X]; [congruence|exact X]|intros X; right; exact X]. }
      pose proof (opn_length _ _ Ho1) as Hlen. simpl in Hlen.
      destruct (C15_bound_all c Hnorep s1 Hr1 Hk) as (_ & _ & _ & Hex).
      apply andb_true_iff. split; [apply Nat.leb_le; lia|]. eapply IH; eauto.
    + (* a command ends *)
      pose proof (end_exec _ _ _ _ Hs) as Hnew. destruct Ho as [Hnd Hin].
      eapply IH; eauto. split; [apply NoDup_remove'; exact Hnd|].
      intros j. rewrite in_remove_iff, Hnew, Hin. destruct (Nat.eqb_spec j i) as [->|Hne'].
      * split; [intros [_ X]; congruence|intros [_ X]; discriminate].
      * split; [intros [X _]; exact X|intros X; split; [exact X|exact Hne']].
  - (* hidden label *)
    eapply IH; eauto. destruct Ho as [Hnd Hin]. split; [exact Hnd|].
    intros j. rewrite (hidden_keeps_exec _ _ _ (reach_inv c Hnorep s Hr) Hs Hv j). apply Hin.
Qed.

(* C15 on the visible trace of every execution *)
Theorem mon_open_holds ls s : maxActive c > 0 -> run c (init c) ls = Some s ->
  mon_open (maxActive c) [] (vis ls) = true.
Proof.
  intros Hk Hrun. eapply (mon_open_holds_from (init c) [] ls s); eauto.
  - exists []. reflexivity.
  - split; [constructor|]. intros i. split; [intros []|]. intros [_ H]. cbn in H. discriminate.
Qed.

(* the set of open Run calls after a visible trace *)
Fixpoint opn_after (opn : list nat) (tr : list vevent) : list nat :=
  match tr with
  | [] => opn
  | VStart i :: t => opn_after (i :: opn) t
  | VEnd i _ :: t => opn_after (remove Nat.eq_dec i opn) t
  end.

Lemma opn_after_run s opn ls s' : Reach c s -> Opn s opn -> run c s ls = Some s' -> Opn s' (opn_after opn (vis ls)).
Proof.
  revert s opn. induction ls as [|l ls IH]; intros s opn Hr Ho Hrun.
  - simpl in Hrun. injection Hrun as <-. exact Ho.
  - simpl in Hrun. destruct (step c s l) as [s1|] eqn:Hs; [|discriminate].
    assert (Hr1 : Reach c s1).
    { destruct Hr as [ls0 H0]. exists (ls0 ++ [l]). eapply run_app; [exact H0|]. simpl. rewrite Hs. reflexivity. }
    cbn [vis]. destruct (vis_of l) as [v|] eqn:Hv.
    + destruct l; try discriminate Hv; injection Hv as <-; cbn [opn_after]; eapply IH; eauto.
      * destruct (start_exec _ _ _ Hs) as (Hi & Hne & Hnew). destruct Ho as [Hnd Hin]. split.
        -- constructor; [|exact Hnd]. intros Hc0. apply Hin in Hc0. destruct Hc0 as [_ Hc0]. congruence.
        -- intros j. rewrite Hnew. simpl. rewrite Hin. destruct (Nat.eqb_spec j i) as [->|Hne'].
           ++ split; [intros _; auto|intros _; left; reflexivity].
           ++ split; [intros [X|X]; [congruence|exact X]|intros X; right; exact X].
      * pose proof (end_exec _ _ _ _ Hs) as Hnew. destruct Ho as [Hnd Hin]. split; [apply NoDup_remove'; exact Hnd|].
        intros j. rewrite in_remove_iff, Hnew, Hin. destruct (Nat.eqb_spec j i) as [->|Hne'].
        -- split; [intros [_ X]; congruence|intros [_ X]; discriminate].
        -- split; [intros [X _]; exact X|intros X; split; [exact X|exact Hne']].
    + eapply IH; eauto. destruct Ho as [Hnd Hin]. split; [exact Hnd|].
      intros j. rewrite (hidden_keeps_exec _ _ _ (reach_inv c Hnorep s Hr) Hs Hv j). apply Hin.
Qed.

Lemma opn_init : Opn (init c) [].
Proof. split; [constructor|]. intros i. split; [intros []|]. intros [_ H]. cbn in H. discriminate. Qed.

Lemma vis_start_in d ls : In (VStart d) (vis ls) -> In (WExecStart d) ls.
Proof.
  induction ls as [|l ls IH]; simpl; [tauto|].
  destruct (vis_of l) eqn:Hv.
  - intros [H|H]; [|right; auto]. left. destruct l; try discriminate Hv; injection Hv as Hv; subst v; try discriminate H.
    injection H as H. subst. reflexivity.
  - intros H. right. auto.
Qed.

(* C01 on the visible trace of every execution: when step i's Run is entered, no dependency has an open Run, and
   none is entered again later *)
Theorem C01_trace ls1 i ls2 s : run c (init c) (ls1 ++ WExecStart i :: ls2) = Some s ->
  forall d, In d (deps (steps c i)) ->
    ~ In d (opn_after [] (vis ls1)) /\ ~ In (VStart d) (vis ls2).
Proof.
  intros Hrun d Hd.
  assert (Hsplit : exists s1 s2, run c (init c) ls1 = Some s1 /\ step c s1 (WExecStart i) = Some s2 /\ run c s2 ls2 = Some s).
  { clear Hd. revert Hrun. generalize (init c). induction ls1 as [|l ls1 IH]; intros s0 H.
    - change (run c s0 (WExecStart i :: ls2) = Some s) in H. cbn [run] in H.
      destruct (step c s0 (WExecStart i)) as [s2|] eqn:E.
      + exists s0, s2. auto.
      + discriminate H.
    - change (run c s0 (l :: (ls1 ++ WExecStart i :: ls2)) = Some s) in H. cbn [run] in H |- *.
      destruct (step c s0 l) as [sx|] eqn:E.
      + destruct (IH _ H) as (s1 & s2 & A & B & C0). exists s1, s2. auto.
      + discriminate H. }
  destruct Hsplit as (s1 & s2 & H1 & H2 & H3).
  destruct (C01_execution c Hnorep ls1 i ls2 s1 s2 s H1 H2 H3 d Hd) as (_ & _ & Hne & Hnever).
  split.
  - intros Hin. pose proof (opn_after_run (init c) [] ls1 s1 ltac:(exists []; reflexivity) opn_init H1) as [_ Ho].
    apply Ho in Hin. destruct Hin as [_ Hin]. unfold is_exec in Hin. destruct (ph (nd s1 d)); try discriminate. congruence.
  - intros Hin. apply Hnever. apply vis_start_in. exact Hin.
Qed.

End Trace.
