(* Entry points for the runs with handlers, stop requests and timeouts (C04, C05): the power-set acceptor of Replay2.v
   and the monitors of C04 / C05 as boolean functions of what the implementation did (they do not use the model). *)
From Coq Require Import List Arith Bool ZArith PeanoNat.
Import ListNotations.
From BD.Sched Require Import Model Replay Replay2.

Record case2 := {
  d_steps : list stepdef;
  d_k : nat;
  d_dry : bool;
  d_done : bool;
  d_sigs : nat;                 (* Signal calls made by the driver *)
  d_tmo : option Z;             (* the DAG timeout, us *)
  d_hon : list bool;            (* exit, success, failure, cancel configured *)
  d_hsf : list bool;            (* ... and the set-up of that handler's node fails (stdout into a missing directory) *)
  d_ivl : list Z;
  d_rivl : list Z;
  d_trace : list event2;
  d_final : list (nat * nat);   (* status code, retryCount *)
  d_hfinal : list nat;          (* exit, success, failure, cancel *)
  d_err : bool;
  d_status : nat;               (* Status(g) at the very end *)
  d_status_h : nat;             (* Status(g) seen by the first handler that started (7 = none started) *)
  d_status_ret : nat }.         (* Status(g) when Schedule returned *)

Definition eps2 : Z := 200%Z.

Definition hidx (h : handler) : nat := match h with HExit => 0 | HSuccess => 1 | HFailure => 2 | HCancel => 3 end.
Definition case2_cfg (x : case2) : cfg :=
  mkcfgy (d_steps x) (d_k x) (d_dry x) (d_done x) (d_sigs x)
         (match d_tmo x with Some _ => true | None => false end)
         (fun h => nth (hidx h) (d_hon x) false) (fun h => nth (hidx h) (d_hsf x) false).

Definition replay2_case (x : case2) : nat * nat * nat :=
  replay2 (case2_cfg x) (fun i => nth i (d_ivl x) 0%Z) (fun i => nth i (d_rivl x) 0%Z) eps2
          (match d_tmo x with Some t => t | None => big end)
          (fun i => nth i (d_final x) (0, 0)) (fun h => nth (hidx h) (d_hfinal x) 6)
          (d_trace x) (d_err x) (d_status x).

(* ------------------------------------------------------------------------------------------ *)
(* monitors                                                                                    *)
(* ------------------------------------------------------------------------------------------ *)
Section Mon2.
Variable x : case2.
Definition sp2 (i : nat) : stepdef := nth i (d_steps x) dflt_step.
Definition nn2 : nat := length (d_steps x).
Definition fst2 (i : nat) : nat := fst (nth i (d_final x) (0, 0)).
Definition honb (h : handler) : bool := nth (hidx h) (d_hon x) false.
(* configured and its set-up works: the handlers that can be started *)
Definition hrunb (h : handler) : bool := honb h && negb (nth (hidx h) (d_hsf x) false).

Definition is_step_event (e : event2) : bool :=
  match e with E2Start _ _ | E2End _ _ _ | E2Refused _ _ => true | _ => false end.
Definition is_handler_event (e : event2) : bool :=
  match e with E2HStart _ _ | E2HEnd _ _ _ => true | _ => false end.
Fixpoint hstarted (tr : list event2) : list handler :=
  match tr with
  | [] => []
  | E2HStart h _ :: t => h :: hstarted t
  | _ :: t => hstarted t
  end.
Fixpoint no_step_after_handler (seen : bool) (tr : list event2) : bool :=
  match tr with
  | [] => true
  | e :: t => (if seen && is_step_event e then false else true)
              && no_step_after_handler (seen || is_handler_event e) t
  end.
Definition all_ok_final : bool := forallb (fun i => (fst2 i =? 4) || (fst2 i =? 5)) (seq 0 nn2).
Definition some_failed_final : bool := existsb (fun i => fst2 i =? 2) (seq 0 nn2).
Definition stop_requested : bool := existsb (fun e => match e with E2SigCall _ => true | _ => false end) (d_trace x).
Definition timed_out_run : bool :=
  match d_tmo x with
  | Some t => existsb (fun e => (t <=? ev2_time e)%Z) (d_trace x)
  | None => false end.

Definition handler_for_status (s : nat) : list handler :=
  match s with 4 => [HSuccess] | 2 => [HFailure] | 3 => [HCancel] | _ => [] end.

(* C04: the handlers that ran are the configured ones among [handler of the outcome; onExit], in this order, each once,
   after the last step event; the outcome agrees with the final node table *)
(* a stop request that completed before some later step event: it certainly preceded the choice of the handlers (a
   stop after the last step event may have come before or after the choice - that instant is not visible) *)
Fixpoint stop_before_handlers (tr : list event2) : bool :=
  match tr with
  | [] => false
  | E2SigRet _ :: t => existsb is_step_event t || stop_before_handlers t
  | _ :: t => stop_before_handlers t
  end.
Definition consistent_outcome (s : nat) : bool :=
  if timed_out_run then true else
  match s with
  | 4 => all_ok_final
  | 2 => some_failed_final && negb (stop_before_handlers (d_trace x) && negb all_ok_final)
  | 3 => stop_requested && negb all_ok_final
  | _ => false
  end.
(* the outcome the handlers were chosen for is not directly visible: some outcome must explain both the handlers that
   ran and the final node table *)
(* Schedule's error follows the steps, never the lifecycle handlers (runs without stop request / timeout) *)
Definition run_error_ok : bool :=
  if stop_requested || timed_out_run then true else Bool.eqb (d_err x) some_failed_final.
(* "finished" means completed: a step reported finished ran, and its last attempt succeeded *)
Fixpoint last_end (i : nat) (tr : list event2) (acc : option bool) : option bool :=
  match tr with
  | [] => acc
  | E2End j ok _ :: t => last_end i t (if j =? i then Some ok else acc)
  | E2Refused j _ :: t => last_end i t (if j =? i then Some false else acc)
  | _ :: t => last_end i t acc
  end.
Definition finished_ran_ok : bool :=
  d_dry x || forallb (fun i => negb (fst2 i =? 4) ||
                               match last_end i (d_trace x) None with Some true => true | _ => false end) (seq 0 nn2).
Definition mon2_C04 : bool :=
  no_step_after_handler false (d_trace x) && run_error_ok && finished_ran_ok
  && existsb (fun s => handlers_eqb (hstarted (d_trace x)) (filter hrunb (handler_for_status s ++ [HExit]))
                       && consistent_outcome s) [4; 2; 3].

(* C05 (event order): inside every Signal call, every non-repeating step whose Run is open when the call is made and
   still open when it returns received a Kill; a repeating step never receives one *)
Fixpoint open_runs (opn : list nat) (tr : list event2) : list nat :=
  match tr with
  | [] => opn
  | E2Start i _ :: t => open_runs (i :: opn) t
  | E2End i _ _ :: t => open_runs (remove Nat.eq_dec i opn) t
  | _ :: t => open_runs opn t
  end.
Fixpoint split_at_ret (tr : list event2) (acc : list event2) : list event2 * list event2 :=
  match tr with
  | [] => (rev acc, [])
  | E2SigRet _ :: t => (rev acc, t)
  | e :: t => split_at_ret t (e :: acc)
  end.
Definition killed_in (w : list event2) (i : nat) : bool :=
  existsb (fun e => match e with E2Kill j _ => j =? i | _ => false end) w.
Fixpoint mon05_go (fuel : nat) (past : list event2) (tr : list event2) : bool :=
  match fuel with
  | 0 => true
  | S f =>
    match tr with
    | [] => true
    | E2SigCall _ :: t =>
        let '(w, rest) := split_at_ret t [] in
        let before := open_runs [] (rev past) in
        let after := open_runs before w in
        forallb (fun i => if repeat (sp2 i) then negb (killed_in w i)
                          else if existsb (Nat.eqb i) after then killed_in w i else true) before
        && mon05_go f (rev w ++ past) rest
    | e :: t => mon05_go f (e :: past) t
    end
  end.
Definition no_kill_to_repeat : bool :=
  forallb (fun e => match e with E2Kill j _ => negb (repeat (sp2 j)) | _ => true end) (d_trace x).
Definition mon2_C05 : bool := mon05_go (S (length (d_trace x))) [] (d_trace x) && no_kill_to_repeat.

End Mon2.

Definition b2n2 (b : bool) : nat := if b then 1 else 0.

(* per case: [stage; index; states; C04; C05] *)
Definition verdict2 (x : case2) : list nat :=
  let '(stg, idx, k) := replay2_case x in [stg; idx; k; b2n2 (mon2_C04 x); b2n2 (mon2_C05 x)].
Definition is_bad2 (v : list nat) : bool := match v with [0; _; _; 1; 1] => false | _ => true end.
Definition mismatches2 (cs : list case2) : list (nat * list nat) :=
  filter (fun p => is_bad2 (snd p)) (combine (seq 0 (length cs)) (map verdict2 cs)).
