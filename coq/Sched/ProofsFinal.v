(* Sched: what holds at the end of a run that was neither stopped nor timed out (C02_final_states, C03_exact).
   Invariant conjuncts I6 (blocked / skipped nodes) and I7 (attempt outcomes versus status) of DESIGN.md A.2. *)
From Coq Require Import List Arith Bool Lia PeanoNat.
Import ListNotations.
From BD.Sched Require Import Model Proofs.

Definition allf (l : list bool) : Prop := forallb negb l = true.
Lemma allf_nil : allf []. Proof. reflexivity. Qed.
Lemma allf_cons_false l : allf l -> allf (false :: l). Proof. unfold allf. simpl. auto. Qed.
Lemma allf_cons_inv b l : allf (b :: l) -> b = false /\ allf l.
Proof. unfold allf. simpl. intros H. apply andb_true_iff in H. destruct H as [H1 H2]. destruct b; [discriminate|auto]. Qed.

Section Final.
Variable c : cfg.
Hypothesis Hdone : donech c = true.
Hypothesis Hnorep : norepeat c.
Notation n := (nsteps c).
Notation step := (step c).
Notation Inv := (Inv c).
Notation okterm := (okterm c).

Definition quiet (s : state) : Prop := canceled s = false /\ timedout s = false.

Ltac use_after :=
  try match goal with
  | |- context [after c ?s ?i ?ok ?e] =>
      let H := fresh "HAC" in let sa := fresh "sa" in let E := fresh "Esa" in
      pose proof (after_cases c Hdone Hnorep s i ok e) as H; remember (after c s i ok e) as sa eqn:E; clear E; destruct H
  | H0 : context [after c ?s ?i ?ok ?e] |- _ =>
      let H := fresh "HAC" in let sa := fresh "sa" in let E := fresh "Esa" in
      pose proof (after_cases c Hdone Hnorep s i ok e) as H; remember (after c s i ok e) as sa eqn:E; clear E; destruct H
  end.

Ltac start_step HI Hs :=
  pose proof (iA _ _ HI) as HA; pose proof (iB _ _ HI) as HB;
  pose proof (iD _ _ HI) as HD; pose proof (iG _ _ HI) as HG; pose proof (iF _ _ HI) as HF;
  pose proof (iS _ _ HI) as HS;
  match type of Hs with Model.step _ _ ?l = Some _ =>
    destruct l; cbn [Model.step] in Hs; inv_guard Hs; injection Hs as <-; split_guard end;
  use_after;
  unfold set_nd, set_pc, set_err, set_hst, upd in *; cbn [nd pc canceled lasterr timedout sigq sigleft hst] in *.

(* the flags are monotone: a quiet state has a quiet past *)
Lemma quiet_back s l s' : step s l = Some s' -> quiet s' -> quiet s.
Proof.
  intros Hs [Hc Ht]. unfold quiet.
  destruct l; cbn [Model.step] in Hs; inv_guard Hs; injection Hs as <-; use_after;
    unfold set_nd, set_pc, set_err, set_hst in *; cbn [canceled timedout] in *; try discriminate; auto.
Qed.

(* the mark a blocking dependency gives does not change while the run is quiet *)
Lemma step_mark_stable s l s' : Inv s -> step s l = Some s' -> quiet s' ->
  forall d m, dep_mark c s d = Some m -> dep_mark c s' d = Some m.
Proof.
  intros HI Hs Hq d m Hd. pose proof (quiet_back _ _ _ Hs Hq) as [Hc0 Ht0].
  unfold dep_mark in *. start_step HI Hs.
  all: try assumption.
  all: try (destruct (Nat.eqb_spec d i) as [->|Hne]; [|assumption]).
  all: nsimpl.
  all: try assumption.
  all: try (exfalso; specialize (HA i); unfold coherent in HA; rewrite ?M, ?M0 in HA;
            destruct (st (nd s i)); try discriminate; intuition congruence).
  all: try congruence.
  all: clear Hq.
  all: try (exfalso; assert (Hrun : st (nd s i) = NRunning) by (apply (HG Hc0); rewrite ?M; reflexivity);
            rewrite Hrun in Hd; discriminate).
  - apply is_committed_eq in H. apply HB in H. destruct H as [_ H]. rewrite H in Hd. discriminate.
  - apply is_committed_eq in H. apply HB in H. destruct H as [_ H]. rewrite H in Hd. discriminate.
  - destruct (st (nd s i)); try discriminate; assumption.
  - exfalso. assert (canceled s = true) by (apply HF; congruence). congruence.
Qed.


(* okterm and a blocking mark exclude each other *)
Lemma okterm_mark_none s d : okterm s d -> dep_mark c s d = None.
Proof.
  unfold Proofs.okterm, dep_mark. intros [H|[[H H']|[H H']]]; rewrite H; try rewrite H'; reflexivity.
Qed.

(* I6 + I7, one node *)
Definition blocker (s : state) (i : nat) (m : nstatus) : Prop :=
  exists d, In d (deps (steps c i)) /\ dep_mark c s d = Some m.

Definition ran_ok (x : node) : Prop :=        (* the latest attempt succeeded, all earlier ones failed *)
  if dry c then att x = 0 /\ outs x = []
  else exists fs, outs x = true :: fs /\ allf fs /\ length (outs x) = att x /\ att x = S (rc x).

Definition qnode_gen (i : nat) (x : node) (B : nstatus -> Prop) (O : nat -> Prop) : Prop :=
  ((setup_fails c i = true \/ dry c = true) -> att x = 0 /\ outs x = []) /\
  ((ph x <> PIdle \/ att x > 0) -> pre (steps c i) = true) /\
  match ph x with
  | PIdle =>
      match st x with
      | NNone => allf (outs x) /\ length (outs x) = att x
      | NCancel => att x = 0 /\ rc x = 0 /\ outs x = [] /\ B NCancel
      | NSkipped => att x = 0 /\ rc x = 0 /\ outs x = [] /\
                    (B NSkipped \/ (pre (steps c i) = false /\ forall d, In d (deps (steps c i)) -> O d))
      | _ => True
      end
  | PSetup => allf (outs x) /\ length (outs x) = att x
  | PStarting | PRetryWait => allf (outs x) /\ length (outs x) = att x /\ setup_fails c i = false
  | PExec => allf (outs x) /\ S (length (outs x)) = att x /\ setup_fails c i = false /\ dry c = false
  | PEnded ok =>
      setup_fails c i = false /\
      if dry c then ok = true /\ att x = 0 /\ outs x = []
      else exists fs, outs x = ok :: fs /\ allf fs /\ length (outs x) = att x
  | PPost =>
      match st x with
      | NRunning => ran_ok x /\ setup_fails c i = false
      | NError => setup_fails c i = true
      | _ => True
      end
  | PGone =>
      match st x with
      | NSuccess => ran_ok x /\ setup_fails c i = false
      | NError => setup_fails c i = false ->
                  dry c = false /\ allf (outs x) /\ length (outs x) = att x /\
                  att x = S (rc x) /\ rc x = rlimit (steps c i)
      | _ => True
      end
  | PRepeatWait => True
  end.

Definition qnode (s : state) (i : nat) : Prop := qnode_gen i (nd s i) (blocker s i) (okterm s).
Definition QInv (s : state) : Prop := quiet s -> forall i, qnode s i.

Lemma qnode_gen_mono i x (B B' : nstatus -> Prop) (O O' : nat -> Prop) :
  (forall m, B m -> B' m) -> (forall d, O d -> O' d) -> qnode_gen i x B O -> qnode_gen i x B' O'.
Proof.
  unfold qnode_gen. intros Hb Ho (H1 & H2 & H3). split; [exact H1|]. split; [exact H2|].
  destruct (ph x); auto. destruct (st x); auto.
  - destruct H3 as (A1 & A2 & A3 & A4). auto.
  - destruct H3 as (A1 & A2 & A3 & [A4|[A4 A5]]); repeat split; auto.
Qed.

Lemma blocker_stable s l s' i m : Inv s -> step s l = Some s' -> quiet s' -> blocker s i m -> blocker s' i m.
Proof.
  intros HI Hs Hq (d & Hin & Hd). exists d. split; auto. eapply step_mark_stable; eauto.
Qed.

Lemma existsb_eqb_In d l : existsb (Nat.eqb d) l = true -> In d l.
Proof. intros H. apply existsb_exists in H. destruct H as (x & Hin & E). apply Nat.eqb_eq in E. now subst. Qed.

Lemma qinv_step s l s' : Inv s -> QInv s -> step s l = Some s' -> QInv s'.
Proof.
  intros HI HQ Hs Hq j. pose proof (quiet_back _ _ _ Hs Hq) as Hq0. specialize (HQ Hq0).
  destruct Hq0 as [Hc0 Ht0].
  pose proof (iC _ _ HI) as HC.
  unfold qnode.
  apply (qnode_gen_mono j _ (blocker s j) _ (okterm s));
    [intros; eapply blocker_stable; eauto|intros; eapply step_okterm_stable; eauto|].
  clear Hq. unfold qnode in HQ.
  start_step HI Hs.
  all: try apply HQ.
  all: try (destruct (Nat.eqb_spec j i) as [->|Hne]; [|apply HQ]).
  all: try (pose proof (HQ i) as HQi; unfold qnode_gen in HQi |- *; nsimpl; rewrite ?M, ?M0 in *; nsimpl).
  all: try (pose proof (HD i) as HDi; unfold counts in HDi; rewrite ?M in HDi; nsimpl).
  all: try (pose proof (HA i) as HAi; unfold coherent in HAi; rewrite ?M in HAi; nsimpl).
  all: unfold ran_ok in *; nsimpl.
  all: try (destruct HQi as (Q1 & Q2 & Q3)).
  all: try (solve [intuition (try lia; try congruence; try discriminate)]).
  - (* LMark *)
    rewrite (coherent_none_idle _ (HA i) H1) in *. rewrite H1 in Q3. destruct Q3 as [Q3 Q4].
    assert (Hatt : att (nd s i) = 0).
    { destruct (att (nd s i)) eqn:E; [reflexivity|]. exfalso.
      assert (Hl : launched s i) by (right; left; lia).
      pose proof (HC i Hl d (existsb_eqb_In _ _ H0)) as Hk. apply okterm_mark_none in Hk. congruence. }
    assert (Hout : outs (nd s i) = []) by (destruct (outs (nd s i)); [reflexivity|simpl in Q4; lia]).
    match type of M with _ = Some ?m =>
      assert (Hb : blocker s i m) by (exists d; split; [apply existsb_eqb_In; assumption|assumption]);
      split; [auto|]; split; [intros [X|X]; [congruence|lia]|];
      destruct (dep_mark_values c s d m M); subst m; repeat split; auto; lia end.
  - (* LLaunch *)
    apply is_committed_eq in H. destruct (HB _ H) as [_ Hst].
    rewrite (coherent_none_idle _ (HA i) Hst) in *. rewrite Hst in Q3. intuition.
  - (* LSkipPre *)
    apply is_committed_eq in H. destruct (HB _ H) as [_ Hst].
    rewrite (coherent_none_idle _ (HA i) Hst) in *. rewrite Hst in Q3. destruct Q3 as [Q3 Q4].
    assert (Hatt : att (nd s i) = 0).
    { destruct (att (nd s i)) eqn:E; [reflexivity|]. exfalso.
      assert (pre (steps c i) = true) by (apply Q2; right; lia). congruence. }
    assert (Hout : outs (nd s i) = []) by (destruct (outs (nd s i)); [reflexivity|simpl in Q4; lia]).
    split; [auto|]. split; [intros [X|X]; [congruence|lia]|].
    repeat split; auto; try lia. right. split; auto. intros d Hd. apply (HC i); auto. right. right. exact H.
  - (* WDryExec *)
    rewrite H0 in *. destruct (Q1 (or_intror eq_refl)) as [Qa Qb].
    split; [auto|]. split; [intros _; apply Q2; left; congruence|]. intuition.
  - (* WExecEnd *)
    destruct Q3 as (Q3 & Q4 & Q5 & Q6). rewrite Q6.
    split; [intros [X|X]; congruence|]. split; [intros _; apply Q2; left; congruence|].
    split; [assumption|]. exists (outs (nd s i)). repeat split; auto; simpl; lia.
  - (* WAfter, ok *)
    assert (Hrun : st (nd s i) = NRunning) by (apply (HG Hc0); rewrite M; reflexivity).
    rewrite Hrun. destruct Q3 as [Q3 Q4].
    split; [auto|]. split; [intros _; apply Q2; left; congruence|]. split; [|assumption].
    destruct (dry c) eqn:Edry; [intuition|].
    destruct Q4 as (fs & Q4 & Q5 & Q6). exists fs. repeat split; auto.
    destruct HDi as [_ [HDi|[_ HDi]]]; [assumption|congruence].
  - (* WAfter, status already terminal: impossible while quiet *)
    exfalso. assert (Hrun : st (nd s i) = NRunning) by (apply (HG Hc0); rewrite M; reflexivity).
    intuition congruence.
  - (* WAfter, retry *)
    destruct Q3 as [Q3 Q4]. destruct (dry c) eqn:Edry; [intuition discriminate|].
    destruct Q4 as (fs & Q4 & Q5 & Q6).
    split; [auto|]. split; [intros _; apply Q2; left; congruence|].
    rewrite Q4. split; [apply allf_cons_false; assumption|]. split; [rewrite <- Q4; assumption|assumption].
  - (* WAfter, retries exhausted *)
    destruct Q3 as [Q3 Q4]. destruct (dry c) eqn:Edry; [intuition discriminate|].
    destruct Q4 as (fs & Q4 & Q5 & Q6).
    split; [auto|]. split; [intros _; apply Q2; left; congruence|].
    intros _. split; [reflexivity|]. rewrite Q4. split; [apply allf_cons_false; assumption|].
    split; [rewrite <- Q4; assumption|].
    destruct HDi as [Hrc [HDi|[_ HDi]]]; [|congruence]. split; [assumption|lia].
  - (* WFinish *)
    split; [auto|]. split; [intros _; apply Q2; left; congruence|].
    destruct (st (nd s i)); auto; try exact Q3; try (exfalso; intuition discriminate). intros Hsf. congruence.
Qed.

Lemma qinv_init : QInv (init c).
Proof.
  intros _ i. unfold qnode, qnode_gen. cbn [init nd init_node ph st att outs rc].
  split; [auto|]. split; [intros [X|X]; [congruence|lia]|]. split; [apply allf_nil|reflexivity].
Qed.

Lemma run_qinv s ls s' : Inv s -> QInv s -> run c s ls = Some s' -> QInv s'.
Proof.
  revert s. induction ls as [|l ls IH]; simpl; intros s HI HQ Hr.
  - injection Hr as <-. exact HQ.
  - destruct (step s l) eqn:Hs; [|discriminate]. eapply IH; [| |exact Hr].
    + eapply inv_step; eauto.
    + eapply qinv_step; eauto.
Qed.


(* ---- after the loop has left: every node is terminal; after wg.Wait(): no worker is left ---- *)
Definition past_exit (p : lpc) : bool := match p with LExited | LHandlers _ _ | LDone => true | _ => false end.
Definition past_wait (p : lpc) : bool := match p with LHandlers _ _ | LDone => true | _ => false end.

Definition XInv (s : state) : Prop :=
  quiet s ->
  (past_exit (pc s) = true -> forall i, i < n -> terminal (st (nd s i)) = true) /\
  (past_wait (pc s) = true -> forall i, i < n -> ph (nd s i) = PIdle \/ ph (nd s i) = PGone).

Lemma forallb_seq_lt (P : nat -> bool) k : forallb P (seq 0 k) = true -> forall i, i < k -> P i = true.
Proof. intros H i Hi. rewrite forallb_forall in H. apply H. apply in_seq. lia. Qed.

Lemma xinv_step s l s' : Inv s -> XInv s -> step s l = Some s' -> XInv s'.
Proof.
  intros HI HX Hs Hq. pose proof (quiet_back _ _ _ Hs Hq) as Hq0. specialize (HX Hq0).
  destruct Hq0 as [Hc0 Ht0]. destruct HX as [HX1 HX2]. clear Hq.
  start_step HI Hs.
  all: try (match goal with H : is_head (pc _) = true |- _ => apply is_head_eq in H; rewrite H in * end).
  all: try (match goal with H : is_committed (pc _) _ = true |- _ => apply is_committed_eq in H; rewrite H in * end).
  all: cbn [past_exit past_wait] in *.
  all: try (split; [intros X; try discriminate X; intros j Hj|intros X; try discriminate X; intros j Hj]).
  all: try (apply HX1; auto; fail).
  all: try (apply HX2; auto; fail).
  all: try (rewrite M in *; cbn [past_exit past_wait] in * ).
  all: try (destruct (Nat.eqb_spec j i) as [->|Hne]; [|first [apply HX1; auto; fail|apply HX2; auto; fail]]).
  all: try (exfalso; specialize (HX1 eq_refl i ltac:(assumption));
            assert (Hrun : st (nd s i) = NRunning) by (apply (HG Hc0); rewrite ?M; reflexivity);
            rewrite Hrun in HX1; discriminate).
  all: try (exfalso; specialize (HX2 eq_refl i ltac:(assumption)); rewrite ?M in HX2; destruct HX2; discriminate).
  Show.
Abort.

End Final.
