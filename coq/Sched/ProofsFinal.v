(* Sched: what holds at the end of a run that was neither stopped nor timed out (C02_final_states, C03_exact).
   Invariant conjuncts I6 (blocked / skipped nodes) and I7 (attempt outcomes versus status) of DESIGN.md A.2. *)
From Coq Require Import List Arith Bool Lia PeanoNat.
Import ListNotations.
From BD.Sched Require Import Model Proofs.

Definition allf (l : list bool) : Prop := forallb negb l = true.
Lemma allf_nil : allf []. Proof. reflexivity. Qed.
Lemma allf_cons_false l : allf l -> allf (false :: l). Proof. unfold allf. simpl. auto. Qed.
Lemma allf_cons_inv b l : allf (b :: l) -> b = false /\ allf l.
Proof. unfold allf. simpl. intros H. apply andb_true_iff in H. destruct H as [H1 H2]. destruct b; [discriminate|auto]. Qed.

Section Final.
Variable c : cfg.
Hypothesis Hnorep : norepeat c.
Notation n := (nsteps c).
Notation step := (step c).
Notation Inv := (Inv c).
Notation okterm := (okterm c).

Definition quiet (s : state) : Prop := canceled s = false /\ timedout s = false.

Ltac use_after :=
  try match goal with
  | |- context [after c ?s ?i ?ok ?e] =>
      let H := fresh "HAC" in let sa := fresh "sa" in let E := fresh "Esa" in
      pose proof (after_cases c Hnorep s i ok e) as H; remember (after c s i ok e) as sa eqn:E; clear E; destruct H;
      try (let F := fresh "Hfp" in destruct (fphase_cases c) as [F|F]; rewrite F in * )
  | H0 : context [after c ?s ?i ?ok ?e] |- _ =>
      let H := fresh "HAC" in let sa := fresh "sa" in let E := fresh "Esa" in
      pose proof (after_cases c Hnorep s i ok e) as H; remember (after c s i ok e) as sa eqn:E; clear E; destruct H;
      try (let F := fresh "Hfp" in destruct (fphase_cases c) as [F|F]; rewrite F in * )
  end.

Ltac start_step HI Hs :=
  pose proof (iA _ _ HI) as HA; pose proof (iB _ _ HI) as HB;
  pose proof (iD _ _ HI) as HD; pose proof (iG _ _ HI) as HG; pose proof (iF _ _ HI) as HF;
  pose proof (iS _ _ HI) as HS;
  match type of Hs with Model.step _ _ ?l = Some _ =>
    destruct l; cbn [Model.step] in Hs; inv_guard Hs; injection Hs as <-; split_guard end;
  use_after;
  unfold set_nd, set_pc, set_err, set_hst, upd in *; cbn [nd pc canceled lasterr timedout sigq sigleft hst] in *.

(* the flags are monotone: a quiet state has a quiet past *)
Lemma quiet_back s l s' : step s l = Some s' -> quiet s' -> quiet s.
Proof.
  intros Hs [Hc Ht]. unfold quiet.
  destruct l; cbn [Model.step] in Hs; inv_guard Hs; injection Hs as <-; use_after;
    unfold set_nd, set_pc, set_err, set_hst in *; cbn [canceled timedout] in *; try discriminate; auto.
Qed.

(* the mark a blocking dependency gives does not change while the run is quiet *)
Lemma step_mark_stable s l s' : Inv s -> step s l = Some s' -> quiet s' ->
  forall d m, dep_mark c s d = Some m -> dep_mark c s' d = Some m.
Proof.
  intros HI Hs Hq d m Hd. pose proof (quiet_back _ _ _ Hs Hq) as [Hc0 Ht0].
  unfold dep_mark in *. start_step HI Hs.
  all: try assumption.
  all: try (destruct (Nat.eqb_spec d i) as [->|Hne]; [|assumption]).
  all: nsimpl.
  all: try assumption.
  all: try (exfalso; specialize (HA i); unfold coherent in HA; rewrite ?M, ?M0 in HA;
            destruct (st (nd s i)); try discriminate; intuition congruence).
  all: try congruence.
  all: clear Hq.
  all: try (exfalso; assert (Hrun : st (nd s i) = NRunning) by (apply (HG Hc0); rewrite ?M; reflexivity);
            rewrite Hrun in Hd; discriminate).
  - apply is_committed_eq in H. apply HB in H. destruct H as [_ H]. rewrite H in Hd. discriminate.
  - apply is_committed_eq in H. apply HB in H. destruct H as [_ H]. rewrite H in Hd. discriminate.
  - destruct (st (nd s i)); try discriminate; assumption.
  - exfalso. assert (canceled s = true) by (apply HF; congruence). congruence.
Qed.


(* okterm and a blocking mark exclude each other *)
Lemma okterm_mark_none s d : okterm s d -> dep_mark c s d = None.
Proof.
  unfold Proofs.okterm, dep_mark. intros [H|[[H H']|[H H']]]; rewrite H; try rewrite H'; reflexivity.
Qed.

(* I6 + I7, one node *)
Definition blocker (s : state) (i : nat) (m : nstatus) : Prop :=
  exists d, In d (deps (steps c i)) /\ dep_mark c s d = Some m.

Definition ran_ok (x : node) : Prop :=        (* the latest attempt succeeded, all earlier ones failed *)
  if dry c then att x = 0 /\ outs x = []
  else exists fs, outs x = true :: fs /\ allf fs /\ length (outs x) = att x /\ att x = S (rc x).

Definition qnode_gen (i : nat) (x : node) (B : nstatus -> Prop) (O : nat -> Prop) : Prop :=
  ((setup_fails c i = true \/ dry c = true) -> att x = 0 /\ outs x = []) /\
  ((ph x <> PIdle \/ att x > 0) -> pre (steps c i) = true) /\
  match ph x with
  | PIdle =>
      match st x with
      | NNone => allf (outs x) /\ length (outs x) = att x
      | NCancel => att x = 0 /\ rc x = 0 /\ outs x = [] /\ B NCancel
      | NSkipped => att x = 0 /\ rc x = 0 /\ outs x = [] /\
                    (B NSkipped \/ (pre (steps c i) = false /\ forall d, In d (deps (steps c i)) -> O d))
      | _ => True
      end
  | PSetup => allf (outs x) /\ length (outs x) = att x
  | PStarting | PRetryWait => allf (outs x) /\ length (outs x) = att x /\ setup_fails c i = false
  | PExec => allf (outs x) /\ S (length (outs x)) = att x /\ setup_fails c i = false /\ dry c = false
  | PEnded ok =>
      setup_fails c i = false /\
      if dry c then ok = true /\ att x = 0 /\ outs x = []
      else exists fs, outs x = ok :: fs /\ allf fs /\ length (outs x) = att x
  | PPost =>
      match st x with
      | NRunning => ran_ok x /\ setup_fails c i = false
      | NError => setup_fails c i = false ->
                  dry c = false /\ allf (outs x) /\ length (outs x) = att x /\
                  att x = S (rc x) /\ rc x = rlimit (steps c i)
      | NCancel => False
      | _ => True
      end
  | PGone =>
      match st x with
      | NSuccess => ran_ok x /\ setup_fails c i = false
      | NError => setup_fails c i = false ->
                  dry c = false /\ allf (outs x) /\ length (outs x) = att x /\
                  att x = S (rc x) /\ rc x = rlimit (steps c i)
      | NCancel | NRunning => False
      | _ => True
      end
  | PRepeatWait => True
  end.

Definition qnode (s : state) (i : nat) : Prop := qnode_gen i (nd s i) (blocker s i) (okterm s).
Definition QInv (s : state) : Prop := quiet s -> forall i, qnode s i.

Lemma qnode_gen_mono i x (B B' : nstatus -> Prop) (O O' : nat -> Prop) :
  (forall m, B m -> B' m) -> (forall d, O d -> O' d) -> qnode_gen i x B O -> qnode_gen i x B' O'.
Proof.
  unfold qnode_gen. intros Hb Ho (H1 & H2 & H3). split; [exact H1|]. split; [exact H2|].
  destruct (ph x); auto. destruct (st x); auto.
  - destruct H3 as (A1 & A2 & A3 & A4). auto.
  - destruct H3 as (A1 & A2 & A3 & [A4|[A4 A5]]); repeat split; auto.
Qed.

Lemma blocker_stable s l s' i m : Inv s -> step s l = Some s' -> quiet s' -> blocker s i m -> blocker s' i m.
Proof.
  intros HI Hs Hq (d & Hin & Hd). exists d. split; auto. eapply step_mark_stable; eauto.
Qed.

Lemma existsb_eqb_In d l : existsb (Nat.eqb d) l = true -> In d l.
Proof. intros H. apply existsb_exists in H. destruct H as (x & Hin & E). apply Nat.eqb_eq in E. now subst. Qed.

(* per node: the quiet-run facts of node j are preserved by every label (they depend on the other nodes only through
   blockers and permitting dependencies, which are stable) *)
Lemma qnode_step s l s' j : Inv s -> quiet s' -> step s l = Some s' -> qnode s j -> qnode s' j.
Proof.
  intros HI Hq Hs HQ. pose proof (quiet_back _ _ _ Hs Hq) as Hq0.
  destruct Hq0 as [Hc0 Ht0].
  pose proof (iC _ _ HI) as HC.
  unfold qnode.
  apply (qnode_gen_mono j _ (blocker s j) _ (okterm s));
    [intros; eapply blocker_stable; eauto|intros; eapply step_okterm_stable; eauto|].
  clear Hq. unfold qnode in HQ.
  start_step HI Hs.
  all: try apply HQ.
  all: try (destruct (Nat.eqb_spec j i) as [->|Hne]; [|apply HQ]).
  all: try (pose proof HQ as HQi; unfold qnode_gen in HQi |- *; nsimpl; rewrite ?M, ?M0 in *; nsimpl).
  all: try (pose proof (HD i) as HDi; unfold counts in HDi; rewrite ?M in HDi; nsimpl).
  all: try (pose proof (HA i) as HAi; unfold coherent in HAi; rewrite ?M in HAi; nsimpl).
  all: unfold ran_ok in *; nsimpl.
  all: try (destruct HQi as (Q1 & Q2 & Q3)).
  all: try (solve [intuition (try lia; try congruence; try discriminate)]).
  - (* LMark *)
    rewrite (coherent_none_idle _ (HA i) H1) in *. rewrite H1 in Q3. destruct Q3 as [Q3 Q4].
    assert (Hatt : att (nd s i) = 0).
    { destruct (att (nd s i)) eqn:E; [reflexivity|]. exfalso.
      assert (Hl : launched s i) by (right; left; lia).
      pose proof (HC i Hl d (existsb_eqb_In _ _ H0)) as Hk. apply okterm_mark_none in Hk. congruence. }
    assert (Hout : outs (nd s i) = []) by (destruct (outs (nd s i)); [reflexivity|simpl in Q4; lia]).
    match type of M with _ = Some ?m =>
      assert (Hb : blocker s i m) by (exists d; split; [apply existsb_eqb_In; assumption|assumption]);
      split; [auto|]; split; [intros [X|X]; [congruence|lia]|];
      destruct (dep_mark_values c s d m M); subst m; repeat split; auto; lia end.
  - (* LLaunch *)
    apply is_committed_eq in H. destruct (HB _ H) as [_ Hst].
    rewrite (coherent_none_idle _ (HA i) Hst) in *. rewrite Hst in Q3. intuition.
  - (* LSkipPre *)
    apply is_committed_eq in H. destruct (HB _ H) as [_ Hst].
    rewrite (coherent_none_idle _ (HA i) Hst) in *. rewrite Hst in Q3. destruct Q3 as [Q3 Q4].
    assert (Hatt : att (nd s i) = 0).
    { destruct (att (nd s i)) eqn:E; [reflexivity|]. exfalso.
      assert (pre (steps c i) = true) by (apply Q2; right; lia). congruence. }
    assert (Hout : outs (nd s i) = []) by (destruct (outs (nd s i)); [reflexivity|simpl in Q4; lia]).
    split; [auto|]. split; [intros [X|X]; [congruence|lia]|].
    repeat split; auto; try lia. right. split; auto. intros d Hd. apply (HC i); auto. right. right. exact H.
  - (* WDryExec *)
    rewrite H0 in *. destruct (Q1 (or_intror eq_refl)) as [Qa Qb].
    split; [auto|]. split; [intros _; apply Q2; left; congruence|]. intuition.
  - (* WCreateFail: an attempt that failed without a command *)
    destruct Q3 as (Q3 & Q4 & Q5). rewrite H1.
    split; [intros [X|X]; congruence|]. split; [intros _; apply Q2; left; congruence|].
    split; [assumption|]. exists (outs (nd s i)). repeat split; auto; simpl; lia.
  - (* WExecEnd *)
    destruct Q3 as (Q3 & Q4 & Q5 & Q6). rewrite Q6.
    split; [intros [X|X]; congruence|]. split; [intros _; apply Q2; left; congruence|].
    split; [assumption|]. exists (outs (nd s i)). repeat split; auto; simpl; lia.
  - (* WAfter, ok *)
    assert (Hrun : st (nd s i) = NRunning) by (apply (HG Hc0); rewrite M; reflexivity).
    rewrite Hrun. destruct Q3 as [Q3 Q4].
    split; [auto|]. split; [intros _; apply Q2; left; congruence|]. split; [|assumption].
    destruct (dry c) eqn:Edry; [intuition|].
    destruct Q4 as (fs & Q4 & Q5 & Q6). exists fs. repeat split; auto.
    destruct HDi as [_ [HDi|[_ HDi]]]; [assumption|congruence].
  - (* WAfter, status already terminal: impossible while quiet *)
    exfalso. assert (Hrun : st (nd s i) = NRunning) by (apply (HG Hc0); rewrite M; reflexivity).
    intuition congruence.
  - exfalso. assert (Hrun : st (nd s i) = NRunning) by (apply (HG Hc0); rewrite M; reflexivity).
    intuition congruence.
  - (* WAfter, retry *)
    destruct Q3 as [Q3 Q4]. destruct (dry c) eqn:Edry; [intuition discriminate|].
    destruct Q4 as (fs & Q4 & Q5 & Q6).
    split; [auto|]. split; [intros _; apply Q2; left; congruence|].
    rewrite Q4. split; [apply allf_cons_false; assumption|]. split; [rewrite <- Q4; assumption|assumption].
  - (* WAfter, retries exhausted (done channel) *)
    destruct Q3 as [Q3 Q4]. destruct (dry c) eqn:Edry; [intuition discriminate|].
    destruct Q4 as (fs & Q4 & Q5 & Q6).
    split; [auto|]. split; [intros _; apply Q2; left; congruence|].
    intros _. split; [reflexivity|]. rewrite Q4. split; [apply allf_cons_false; assumption|].
    split; [rewrite <- Q4; assumption|].
    destruct HDi as [Hrc [HDi|[_ HDi]]]; [|congruence]. split; [assumption|lia].
  - (* WAfter, retries exhausted (no done channel) *)
    destruct Q3 as [Q3 Q4]. destruct (dry c) eqn:Edry; [intuition discriminate|].
    destruct Q4 as (fs & Q4 & Q5 & Q6).
    split; [auto|]. split; [intros _; apply Q2; left; congruence|].
    intros _. split; [reflexivity|]. rewrite Q4. split; [apply allf_cons_false; assumption|].
    split; [rewrite <- Q4; assumption|].
    destruct HDi as [Hrc [HDi|[_ HDi]]]; [|congruence]. split; [assumption|lia].
  - (* WFinish *)
    split; [auto|]. split; [intros _; apply Q2; left; congruence|].
    destruct (st (nd s i)); auto; try exact Q3; try (exfalso; intuition discriminate).
Qed.

Lemma qinv_step s l s' : Inv s -> QInv s -> step s l = Some s' -> QInv s'.
Proof.
  intros HI HQ Hs Hq j. pose proof (quiet_back _ _ _ Hs Hq) as Hq0.
  eapply qnode_step; eauto.
Qed.

Lemma qinv_init : QInv (init c).
Proof.
  intros _ i. unfold qnode, qnode_gen. cbn [init nd init_node ph st att outs rc].
  split; [auto|]. split; [intros [X|X]; [congruence|lia]|]. split; [apply allf_nil|reflexivity].
Qed.

Lemma run_qinv s ls s' : Inv s -> QInv s -> run c s ls = Some s' -> QInv s'.
Proof.
  revert s. induction ls as [|l ls IH]; simpl; intros s HI HQ Hr.
  - injection Hr as <-. exact HQ.
  - destruct (step s l) eqn:Hs; [|discriminate]. eapply IH; [| |exact Hr].
    + eapply inv_step; eauto.
    + eapply qinv_step; eauto.
Qed.


(* ---- after the loop has left: every node is terminal; after wg.Wait(): no worker is left ---- *)
Definition past_exit (p : lpc) : bool := match p with LExited | LHandlers _ _ | LDone => true | _ => false end.
Definition past_wait (p : lpc) : bool := match p with LHandlers _ _ | LDone => true | _ => false end.

Definition XInv (s : state) : Prop :=
  quiet s ->
  (past_exit (pc s) = true -> forall i, i < n -> terminal (st (nd s i)) = true) /\
  (past_wait (pc s) = true -> forall i, i < n -> ph (nd s i) = PIdle \/ ph (nd s i) = PGone).

Lemma forallb_seq_lt (P : nat -> bool) k : forallb P (seq 0 k) = true -> forall i, i < k -> P i = true.
Proof. intros H i Hi. rewrite forallb_forall in H. apply H. apply in_seq. lia. Qed.

Lemma xinv_step s l s' : Inv s -> XInv s -> step s l = Some s' -> XInv s'.
Proof.
  intros HI HX Hs Hq. pose proof (quiet_back _ _ _ Hs Hq) as Hq0. specialize (HX Hq0).
  destruct Hq0 as [Hc0 Ht0]. destruct HX as [HX1 HX2]. clear Hq.
  start_step HI Hs.
  all: try (match goal with H : is_head (pc _) = true |- _ => apply is_head_eq in H; rewrite H in * end).
  all: try (match goal with H : is_committed (pc _) _ = true |- _ => apply is_committed_eq in H; rewrite H in * end).
  all: cbn [past_exit past_wait] in *.
  all: try (split; [intros X; try discriminate X; intros j Hj|intros X; try discriminate X; intros j Hj]).
  all: try (apply HX1; auto; fail).
  all: try (apply HX2; auto; fail).
  all: try (rewrite M in *; cbn [past_exit past_wait] in * ).
  all: try (destruct (Nat.eqb_spec j i) as [->|Hne]; [|first [apply HX1; auto; fail|apply HX2; auto; fail]]).
  all: try (exfalso; specialize (HX1 X i ltac:(assumption));
            assert (Hrun : st (nd s i) = NRunning) by (apply (HG Hc0); rewrite ?M; reflexivity);
            rewrite Hrun in HX1; discriminate).
  all: try (exfalso; specialize (HX2 X i ltac:(assumption)); rewrite ?M in HX2; destruct HX2; discriminate).
  all: try (exfalso; rewrite HS in *; discriminate).
  all: try (exfalso; assert (canceled s = true) by (apply HF; congruence); congruence).
  - (* LExit *) rewrite Hc0 in H0. cbn [orb] in H0. unfold all_terminal in H0.
    apply (forallb_seq_lt _ _ H0 j Hj).
  - (* WFinish *) specialize (HX1 X i ltac:(assumption)). nsimpl. destruct (st (nd s i)); auto; discriminate.
  - (* HBegin *) unfold all_gone in G. pose proof (forallb_seq_lt _ _ G j Hj) as Hg. unfold worker_gone in Hg.
    destruct (ph (nd s j)); auto; discriminate.
Qed.

Lemma xinv_init : XInv (init c).
Proof. intros _. cbn [init pc past_exit past_wait]. split; intros X; discriminate X. Qed.

Lemma run_all_inv s ls s' : Inv s -> QInv s -> XInv s -> run c s ls = Some s' -> Inv s' /\ QInv s' /\ XInv s'.
Proof.
  revert s. induction ls as [|l ls IH]; simpl; intros s HI HQ HX Hr.
  - injection Hr as <-. auto.
  - destruct (step s l) eqn:Hs; [|discriminate]. eapply IH; [| | |exact Hr].
    + eapply inv_step; eauto.
    + eapply qinv_step; eauto.
    + eapply xinv_step; eauto.
Qed.

Lemma reach_all_inv s : Reach c s -> Inv s /\ QInv s /\ XInv s.
Proof. intros [ls Hr]. eapply run_all_inv; [apply inv_init; auto|apply qinv_init|apply xinv_init|exact Hr]. Qed.

(* ---- the final node table of a run that was neither stopped nor timed out ---- *)
Definition blocking (s : state) (d : nat) : bool := match dep_mark c s d with Some _ => true | None => false end.
Definition blocked (s : state) (i : nat) : bool := existsb (blocking s) (deps (steps c i)).

Lemma blocked_false s i : blocked s i = false -> forall d, In d (deps (steps c i)) -> dep_mark c s d = None.
Proof.
  unfold blocked, blocking. intros H d Hd.
  destruct (dep_mark c s d) eqn:E; [|reflexivity].
  exfalso. assert (existsb (fun d => match dep_mark c s d with Some _ => true | None => false end) (deps (steps c i)) = true).
  { apply existsb_exists. exists d. rewrite E. auto. }
  congruence.
Qed.

Lemma blocked_true s i : blocked s i = true -> exists d m, In d (deps (steps c i)) /\ dep_mark c s d = Some m.
Proof.
  unfold blocked, blocking. intros H. apply existsb_exists in H. destruct H as (d & Hin & Hd).
  destruct (dep_mark c s d) eqn:E; [|discriminate]. eauto.
Qed.

(* what a runnable step's attempt history looks like at the end *)
Definition ran_to_end (s : state) (i : nat) : Prop :=
  let x := nd s i in
  exists last fs, outs x = last :: fs /\ allf fs /\ att x = length (outs x) /\ att x = S (rc x) /\
    (last = true -> st x = NSuccess) /\
    (last = false -> st x = NError /\ rc x = rlimit (steps c i)).

Definition final_clauses (s : state) (i : nat) : Prop :=
  (blocked s i = true ->
     att (nd s i) = 0 /\ ((st (nd s i) = NCancel /\ blocker s i NCancel) \/ (st (nd s i) = NSkipped /\ blocker s i NSkipped))) /\
  (blocked s i = false -> pre (steps c i) = false -> att (nd s i) = 0 /\ st (nd s i) = NSkipped) /\
  (blocked s i = false -> pre (steps c i) = true -> dry c = true -> att (nd s i) = 0 /\ st (nd s i) = NSuccess) /\
  (blocked s i = false -> pre (steps c i) = true -> dry c = false -> sfail (steps c i) = true ->
     att (nd s i) = 0 /\ st (nd s i) = NError) /\
  (blocked s i = false -> pre (steps c i) = true -> dry c = false -> sfail (steps c i) = false -> ran_to_end s i).

(* the final state of ONE node, from the invariants and the quiet-run facts of that node (any start state) *)
Lemma final_states_node s i : Inv s -> XInv s -> qnode s i -> quiet s -> pc s = LDone -> i < n -> final_clauses s i.
Proof.
  intros HI HX HQ Hq Hpc Hi. unfold final_clauses.
  destruct (HX Hq) as [HX1 HX2]. rewrite Hpc in *.
  specialize (HX1 eq_refl i Hi). specialize (HX2 eq_refl i Hi).
  pose proof (iA _ _ HI i) as HAi. pose proof (iC _ _ HI i) as HCi. pose proof (iD _ _ HI i) as HDi.
  unfold qnode, qnode_gen in HQ. destruct HQ as (Q1 & Q2 & Q3). unfold coherent in HAi. unfold counts in HDi.
  assert (Hsf : setup_fails c i = sfail (steps c i) && negb (dry c)) by reflexivity.
  (* a node that was launched has no blocking dependency *)
  assert (Hlb : ph (nd s i) = PGone -> blocked s i = false).
  { intros Hp. destruct (blocked s i) eqn:Eb; [|reflexivity]. exfalso.
    destruct (blocked_true s i Eb) as (d & m & Hin & Hm).
    assert (Hl : launched s i) by (left; congruence).
    pose proof (okterm_mark_none s d (HCi Hl d Hin)). congruence. }
  destruct HX2 as [Hp|Hp]; rewrite Hp in *.
  - (* never launched: canceled or skipped *)
    destruct (st (nd s i)) eqn:Est; try discriminate HX1; try (exfalso; intuition discriminate).
    + (* canceled *)
      destruct Q3 as (A1 & A2 & A3 & A4).
      assert (Hb : blocked s i = true).
      { destruct A4 as (d & Hin & Hd). unfold blocked. apply existsb_exists. exists d. unfold blocking. rewrite Hd. auto. }
      rewrite Hb. repeat split; try discriminate; auto.
    + (* skipped *)
      destruct Q3 as (A1 & A2 & A3 & A4). destruct A4 as [A4|[A4 A5]].
      * assert (Hb : blocked s i = true).
        { destruct A4 as (d & Hin & Hd). unfold blocked. apply existsb_exists. exists d. unfold blocking. rewrite Hd. auto. }
        rewrite Hb. repeat split; try discriminate; auto.
      * assert (Hb : blocked s i = false).
        { destruct (blocked s i) eqn:Eb; [|reflexivity]. exfalso.
          destruct (blocked_true s i Eb) as (d & m & Hin & Hm).
          pose proof (okterm_mark_none s d (A5 d Hin)). congruence. }
        rewrite Hb, A4. repeat split; try discriminate; auto.
  - (* launched and gone *)
    rewrite (Hlb eq_refl).
    assert (Hpre : pre (steps c i) = true) by (apply Q2; left; discriminate).
    rewrite Hpre.
    split; [discriminate|]. split; [discriminate|].
    destruct (st (nd s i)) eqn:Est; try discriminate HX1;
      try (exfalso; lazy iota beta in Q3; exact Q3); try (exfalso; intuition discriminate).
    + (* failed *)
      destruct (dry c) eqn:Edry.
      * exfalso. destruct (Q1 (or_intror eq_refl)) as [Qa Qb].
        rewrite Hsf in Q3. rewrite Bool.andb_false_r in Q3. destruct (Q3 eq_refl) as [X _]. discriminate.
      * split; [discriminate|]. rewrite Hsf in *. rewrite Bool.andb_true_r in *.
        destruct (sfail (steps c i)) eqn:Esf.
        -- split; [|discriminate]. intros _ _ _ _. split; [apply Q1; auto|reflexivity].
        -- split; [discriminate|]. intros _ _ _ _. destruct (Q3 eq_refl) as (_ & B2 & B3 & B4 & B5).
           unfold ran_to_end. rewrite Est.
           destruct (outs (nd s i)) as [|o fs] eqn:Eo; [simpl in B3; lia|].
           apply allf_cons_inv in B2. destruct B2 as [-> B2].
           exists false, fs. repeat split; auto; try discriminate.
    + (* finished *)
      lazy iota beta in Q3. destruct Q3 as [Q3 Q4]. unfold ran_ok in Q3.
      destruct (dry c) eqn:Edry.
      * split; [intros _ _ _; split; [apply Q3|reflexivity]|]. split; discriminate.
      * split; [discriminate|]. rewrite Hsf, Bool.andb_true_r in Q4. rewrite Q4.
        split; [discriminate|]. intros _ _ _ _. destruct Q3 as (fs & B1 & B2 & B3 & B4).
        unfold ran_to_end. rewrite Est. exists true, fs. repeat split; auto; try discriminate.
Qed.

Theorem final_states s : Reach c s -> quiet s -> pc s = LDone -> forall i, i < n -> final_clauses s i.
Proof.
  intros Hr Hq Hpc i Hi. destruct (reach_all_inv s Hr) as (HI & HQ & HX).
  apply final_states_node; auto.
Qed.



(* C02 corollary: a step none of whose dependencies blocks, with its precondition met, is executed at least once
   and ends finished or failed (never canceled, skipped or left over) *)
Corollary unaffected_run s : Reach c s -> quiet s -> pc s = LDone -> forall i, i < n ->
  dry c = false -> sfail (steps c i) = false -> pre (steps c i) = true ->
  (forall d, In d (deps (steps c i)) -> dep_mark c s d = None) ->
  att (nd s i) >= 1 /\ (st (nd s i) = NSuccess \/ st (nd s i) = NError).
Proof.
  intros Hr Hq Hpc i Hi Hdry Hsf Hpre Hnb.
  assert (Hb : blocked s i = false).
  { destruct (blocked s i) eqn:Eb; [|reflexivity]. exfalso.
    destruct (blocked_true s i Eb) as (d & m & Hin & Hm). rewrite (Hnb d Hin) in Hm. discriminate. }
  destruct (final_states s Hr Hq Hpc i Hi) as (_ & _ & _ & _ & H5).
  destruct (H5 Hb Hpre Hdry Hsf) as (last & fs & E1 & E2 & E3 & E4 & E5 & E6).
  split; [lia|]. destruct last; [left; auto|right; apply E6; auto].
Qed.

(* C03: runnable = no blocking dependency, precondition met, set-up possible *)
Definition runnable (s : state) (i : nat) : bool :=
  negb (blocked s i) && pre (steps c i) && negb (sfail (steps c i)).

Theorem exact_attempts s : Reach c s -> quiet s -> pc s = LDone -> dry c = false -> forall i, i < n ->
  (runnable s i = true ->
     exists last fs, outs (nd s i) = last :: fs /\ allf fs /\
       att (nd s i) = length (outs (nd s i)) /\ att (nd s i) = S (rc (nd s i)) /\
       att (nd s i) <= S (rlimit (steps c i)) /\
       (last = false -> att (nd s i) = S (rlimit (steps c i)))) /\
  (runnable s i = false -> att (nd s i) = 0).
Proof.
  intros Hr Hq Hpc Hdry i Hi. unfold runnable.
  destruct (final_states s Hr Hq Hpc i Hi) as (H1 & H2 & H3 & H4 & H5).
  destruct (C03_bounds c Hnorep s i Hr) as [Hb1 Hb2].
  destruct (blocked s i) eqn:Eb; cbn [negb andb].
  - split; [discriminate|]. intros _. apply (H1 eq_refl).
  - destruct (pre (steps c i)) eqn:Ep; cbn [andb].
    + destruct (sfail (steps c i)) eqn:Es; cbn [negb].
      * split; [discriminate|]. intros _. apply (H4 eq_refl eq_refl Hdry eq_refl).
      * split; [|discriminate]. intros _.
        destruct (H5 eq_refl eq_refl Hdry eq_refl) as (last & fs & E1 & E2 & E3 & E4 & E5 & E6).
        exists last, fs. repeat split; auto; try lia.
        intros ->. destruct (E6 eq_refl) as [_ E7]. lia.
    + split; [discriminate|]. intros _. apply (H2 eq_refl eq_refl).
Qed.

End Final.

(* C03, dry run: no command and no handler is ever started *)
Lemma dry_no_exec c s i : dry c = true -> step c s (WExecStart i) = None.
Proof.
  intros Hd. cbn [step]. destruct (ph (nd s i)); try reflexivity. rewrite Hd, Bool.andb_false_r. reflexivity.
Qed.
Lemma dry_no_handler c s h : dry c = true -> step c s (HStart h) = None.
Proof.
  intros Hd. cbn [step]. destruct (pc s); try reflexivity. destruct todo; try reflexivity.
  destruct cur; try reflexivity. rewrite Hd, Bool.andb_false_r. reflexivity.
Qed.

Theorem dry_runs_nothing c : dry c = true -> forall ls s s', run c s ls = Some s' ->
  forall l, In l ls -> (forall i, l <> WExecStart i) /\ (forall h, l <> HStart h).
Proof.
  intros Hd ls. induction ls as [|l0 ls IH]; simpl; intros s s' Hr l Hin; [tauto|].
  destruct (step c s l0) eqn:Hs; [|discriminate].
  destruct Hin as [->|Hin]; [|eapply IH; eauto].
  split.
  - intros i ->. rewrite dry_no_exec in Hs by assumption. discriminate.
  - intros h ->. rewrite dry_no_handler in Hs by assumption. discriminate.
Qed.


(* one worker slot per node: a command can only start from phase PStarting, so never while one is executing *)
Lemma start_needs_starting c s i s' : step c s (WExecStart i) = Some s' -> ph (nd s i) = PStarting /\ ph (nd s' i) = PExec.
Proof.
  cbn [step]. destruct (ph (nd s i)) eqn:E; try discriminate. intros H. split; [reflexivity|].
  destruct ((i <? nsteps c) && negb (dry c) && negb (timedout s) && negb (create_fails c s i)); [|discriminate]. injection H as <-.
  unfold set_nd, upd. cbn [nd]. rewrite Nat.eqb_refl. reflexivity.
Qed.
