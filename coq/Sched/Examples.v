(* Concrete configurations and executions used as non-vacuity witnesses by Props/C01 C02 C03 C15. *)
From Coq Require Import List Arith Bool Lia.
Import ListNotations.
From BD.Sched Require Import Model Proofs.

Definition sd (ds : list nat) (r : nat) : stepdef :=
  {| deps := ds; cof := false; cos := false; rlimit := r; pre := true; sfail := false; repeat := false; cfails := 0 |}.

Lemma norepeat_mkcfg l k d1 d2 : forallb (fun x => negb (repeat x)) l = true -> norepeat (mkcfg l k d1 d2).
Proof.
  intros H i. unfold mkcfg. cbn [steps].
  destruct (Nat.lt_ge_cases i (length l)) as [Hi|Hi].
  - rewrite forallb_forall in H. specialize (H (nth i l dflt_step) (nth_In _ _ Hi)).
    destruct (repeat (nth i l dflt_step)); [discriminate|reflexivity].
  - rewrite nth_overflow by exact Hi. reflexivity.
Qed.

(* a diamond a -> {b, c} -> d, b with one retry, maxActiveRuns = 2, done channel present *)
Definition diamond : cfg := mkcfg [sd [] 0; sd [0] 1; sd [0] 0; sd [1; 2] 0] 2 false true.
Lemma diamond_ok : donech diamond = true /\ norepeat diamond.
Proof. split; [reflexivity|]. apply norepeat_mkcfg. reflexivity. Qed.

Definition launch (i : nat) : list label := [LCommit i; LLaunch i; WTest i; WExecStart i].
(* a runs; b and c run at the same time (capacity 2 reached); b fails once and is retried; then d is launched *)
Definition diamond_prefix : list label :=
  launch 0 ++ [WExecEnd 0 true; WAfter 0 false; WFinish 0] ++
  launch 1 ++ launch 2 ++
  [WExecEnd 1 false; WAfter 1 false; WExecEnd 2 true; WAfter 2 false; WFinish 2; WRetryWake 1] ++
  launch 1 ++ [WExecEnd 1 true; WAfter 1 false; WFinish 1] ++
  [LCommit 3; LLaunch 3; WTest 3].
Definition diamond_rest : list label :=
  [WExecEnd 3 true; WAfter 3 false; WFinish 3; LExit; HBegin; HFinish].
Definition diamond_full : list label := diamond_prefix ++ WExecStart 3 :: diamond_rest.

Lemma diamond_reaches_start :
  exists s1 s2 s3, run diamond (init diamond) diamond_prefix = Some s1 /\
                step diamond s1 (WExecStart 3) = Some s2 /\ run diamond s2 diamond_rest = Some s3 /\
                pc s3 = LDone /\ deps (steps diamond 3) = [1; 2].
Proof.
  do 3 eexists. split; [vm_compute; reflexivity|]. split; [vm_compute; reflexivity|].
  split; [vm_compute; reflexivity|]. split; vm_compute; reflexivity.
Qed.

(* the state in which b and c execute together: the bound of C15 is attained *)
Definition diamond_two : list label := launch 0 ++ [WExecEnd 0 true; WAfter 0 false; WFinish 0] ++ launch 1 ++ launch 2.
Lemma diamond_two_running :
  exists s, run diamond (init diamond) diamond_two = Some s /\ maxActive diamond = 2 /\
            exec_count diamond s = 2 /\ running_count diamond s = 2 /\
            step diamond s (LCommit 3) = None.
Proof.
  eexists. split; [vm_compute; reflexivity|]. split; [reflexivity|]. split; [vm_compute; reflexivity|].
  split; vm_compute; reflexivity.
Qed.

(* ---- complete runs, for C02 / C03 / C15 ---- *)
From BD.Sched Require Import ProofsFinal ProofsTerm.

Lemma diamond_wf : wf_deps diamond.
Proof.
  exists (fun i => i). intros i d Hi Hd.
  destruct i as [|[|[|[|i]]]]; cbn in Hd; try (exfalso; cbn in Hi; lia); intuition (subst; cbn; lia).
Qed.

(* the diamond run to completion: b was retried once, everything finished *)
Lemma diamond_done :
  exists s, run diamond (init diamond) diamond_full = Some s /\ pc s = LDone /\ quiet s /\ dry diamond = false /\
    map (fun i => (st (nd s i), rc (nd s i), att (nd s i), outs (nd s i))) [0; 1; 2; 3] =
      [(NSuccess, 0, 1, [true]); (NSuccess, 1, 2, [true; false]); (NSuccess, 0, 1, [true]); (NSuccess, 0, 1, [true])] /\
    length diamond_full <= bound diamond.
Proof.
  eexists. split; [vm_compute; reflexivity|]. split; [vm_compute; reflexivity|].
  split; [split; vm_compute; reflexivity|]. split; [reflexivity|]. split; [vm_compute; reflexivity|].
  vm_compute. repeat constructor.
Qed.

(* a run with every kind of outcome: a fails twice (limit 1) and blocks b; c has an unmet precondition and, without
   continueOn.skipped, makes d skipped; e is independent and finishes *)
Definition mixed : cfg :=
  mkcfg [ sd [] 1;
          sd [0] 0;
          {| deps := []; cof := false; cos := false; rlimit := 0; pre := false; sfail := false; repeat := false; cfails := 0 |};
          sd [2] 0;
          sd [] 0 ] 0 false true.
Definition attempt (i : nat) (ok : bool) : list label := launch i ++ [WExecEnd i ok; WAfter i false].
Definition mixed_full : list label :=
  attempt 0 false ++ [WRetryWake 0] ++ attempt 0 false ++
  [LMark 1 0; LCommit 2; LSkipPre 2; LMark 3 2] ++
  attempt 4 true ++ [WFinish 4; LExit; HBegin; HFinish].
Lemma mixed_ok : donech mixed = true /\ norepeat mixed.
Proof. split; [reflexivity|]. apply norepeat_mkcfg. reflexivity. Qed.
Lemma mixed_done :
  exists s, run mixed (init mixed) mixed_full = Some s /\ pc s = LDone /\ quiet s /\ dry mixed = false /\
    map (fun i => (st (nd s i), rc (nd s i), att (nd s i))) [0; 1; 2; 3; 4] =
      [(NError, 1, 2); (NCancel, 0, 0); (NSkipped, 0, 0); (NSkipped, 0, 0); (NSuccess, 0, 1)] /\
    map (blocked mixed s) [0; 1; 2; 3; 4] = [false; true; false; true; false] /\
    map (runnable mixed s) [0; 1; 2; 3; 4] = [true; false; false; false; true] /\
    lasterr s = true.
Proof.
  eexists. split; [vm_compute; reflexivity|]. split; [vm_compute; reflexivity|].
  split; [split; vm_compute; reflexivity|]. split; [reflexivity|].
  split; [vm_compute; reflexivity|]. split; [vm_compute; reflexivity|]. split; vm_compute; reflexivity.
Qed.

(* a dry run of the diamond: no command, every node finished *)
Definition diamond_dry : cfg := mkcfg [sd [] 0; sd [0] 1; sd [0] 0; sd [1; 2] 0] 2 true true.
Definition dry_node (i : nat) : list label := [LCommit i; LLaunch i; WTest i; WDryExec i; WAfter i false; WFinish i].
Definition diamond_dry_full : list label :=
  dry_node 0 ++ dry_node 1 ++ dry_node 2 ++ dry_node 3 ++ [LExit; HBegin; HFinish].
Lemma diamond_dry_done :
  exists s, run diamond_dry (init diamond_dry) diamond_dry_full = Some s /\ pc s = LDone /\ dry diamond_dry = true /\
    map (fun i => (st (nd s i), att (nd s i))) [0; 1; 2; 3] = [(NSuccess, 0); (NSuccess, 0); (NSuccess, 0); (NSuccess, 0)].
Proof.
  eexists. split; [vm_compute; reflexivity|]. split; [vm_compute; reflexivity|]. split; [reflexivity|].
  vm_compute; reflexivity.
Qed.
