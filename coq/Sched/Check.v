(* Entry points evaluated on harness cases (tools/props/sched_lib.py): the trace acceptor of Replay.v and
   the per-property monitors = the properties C01 C02 C03 C15 themselves as boolean functions of what the
   implementation did (visible trace + final node table).  The monitors do not use the model. *)
From Coq Require Import List Arith Bool ZArith PeanoNat.
Import ListNotations.
From BD.Sched Require Import Model Replay.

Record case := {
  c_steps : list stepdef;
  c_k : nat;
  c_dry : bool;
  c_done : bool;
  c_ivl : list Z;
  c_trace : list event;
  c_final : list fin_entry;
  c_err : bool;
  c_status : nat }.

Definition eps : Z := 200%Z.

Definition case_cfg (x : case) : cfg := mkcfg (c_steps x) (c_k x) (c_dry x) (c_done x).
Definition case_ivl (x : case) (i : nat) : Z := nth i (c_ivl x) 0%Z.
Definition case_fin (x : case) (i : nat) : fin_entry := nth i (c_final x) (0, 0, 0).

Definition replay_case (x : case) : nat * nat :=
  snd (replay (case_cfg x) (case_ivl x) eps (case_fin x) (c_trace x) (c_err x) (c_status x)).
Definition accept_case (x : case) : bool :=
  accept (case_cfg x) (case_ivl x) eps (case_fin x) (c_trace x) (c_err x) (c_status x).

(* ------------------------------------------------------------------------------------------ *)
(* monitors                                                                                    *)
(* ------------------------------------------------------------------------------------------ *)
Section Mon.
Variable x : case.
Notation stepsl := (c_steps x).
Definition sp (i : nat) : stepdef := nth i stepsl dflt_step.
Definition nn : nat := length stepsl.
Definition fst3 (e : fin_entry) : nat := fst (fst e).
Definition fstat (i : nat) : nat := fst3 (case_fin x i).
Definition frc (i : nat) : nat := snd (fst (case_fin x i)).

Definition ev_step (e : event) : nat := match e with EStart i _ => i | EEnd i _ _ => i | ECreateFail i _ => i end.
Definition ev_time (e : event) : Z := match e with EStart _ t => t | EEnd _ _ t => t | ECreateFail _ t => t end.
Definition is_start_of (i : nat) (e : event) : bool := match e with EStart j _ => j =? i | _ => false end.
(* an attempt of step i begins: its Run is entered, or the creation of its command fails (a failed attempt without a command) *)
Definition is_attempt_of (i : nat) (e : event) : bool :=
  match e with EStart j _ | ECreateFail j _ => j =? i | _ => false end.

(* outcomes of the attempts of step i, in order; an attempt still open at the end counts as [None] *)
Fixpoint outcomes (i : nat) (tr : list event) : list bool :=
  match tr with
  | [] => []
  | EEnd j ok _ :: tr' => if j =? i then ok :: outcomes i tr' else outcomes i tr'
  | ECreateFail j _ :: tr' => if j =? i then false :: outcomes i tr' else outcomes i tr'
  | _ :: tr' => outcomes i tr'
  end.
Definition attempts (i : nat) (tr : list event) : nat := length (filter (is_attempt_of i) tr).

(* does the final status of dependency d let dependents proceed / block them *)
Definition permits (d : nat) : bool :=
  match fstat d with 4 => true | 2 => cof (sp d) | 5 => cos (sp d) | _ => false end.
Definition blocks (d : nat) : bool :=
  match fstat d with 2 => negb (cof (sp d)) | 3 => true | 5 => negb (cos (sp d)) | _ => false end.
Definition blocked (i : nat) : bool := existsb blocks (deps (sp i)).

(* ---- C01: at every Run entry of i, every dependency has no open Run, never runs again, and ended in a
        state that lets i proceed; its last attempt's outcome agrees with that state ---- *)
Fixpoint open_of (d : nat) (past : list event) (* reversed: latest first *) : bool :=
  match past with
  | [] => false
  | EStart j _ :: p => if j =? d then true else open_of d p
  | EEnd j _ _ :: p => if j =? d then false else open_of d p
  | ECreateFail j _ :: p => if j =? d then false else open_of d p
  end.
Fixpoint last_out (d : nat) (past : list event) : option bool :=
  match past with
  | [] => None
  | EEnd j ok _ :: p => if j =? d then Some ok else last_out d p
  | ECreateFail j _ :: p => if j =? d then Some false else last_out d p
  | _ :: p => last_out d p
  end.
Definition dep_fine (past future : list event) (d : nat) : bool :=
  negb (open_of d past) && negb (existsb (is_attempt_of d) future) && permits d &&
  match fstat d, last_out d past with
  | 4, Some ok => ok
  | 4, None => c_dry x
  | 2, Some ok => negb ok
  | 2, None => sfail (sp d)
  | 5, None => true
  | _, _ => false
  end.
Fixpoint mon01_go (past future : list event) : bool :=
  match future with
  | [] => true
  | e :: f =>
      (match e with
       | EStart i _ | ECreateFail i _ => forallb (dep_fine past f) (deps (sp i))
       | _ => true end) && mon01_go (e :: past) f
  end.
Definition mon_C01 : bool := mon01_go [] (c_trace x).

(* ---- C02: local consistency of the final table with blockers / preconditions / outcomes ---- *)
Definition all_false (l : list bool) : bool := forallb negb l.
Definition mon02_node (i : nat) : bool :=
  let a := attempts i (c_trace x) in
  let os := outcomes i (c_trace x) in
  if blocked i then (a =? 0) && ((fstat i =? 3) || (fstat i =? 5))
  else if negb (pre (sp i)) then (a =? 0) && (fstat i =? 5)
  else if c_dry x then (a =? 0) && (fstat i =? 4)
  else if sfail (sp i) then (a =? 0) && (fstat i =? 2)
  else (1 <=? a) && (length os =? a) &&
       match rev os with
       | true :: _ => fstat i =? 4
       | false :: _ => (fstat i =? 2) && (a =? S (rlimit (sp i)))
       | [] => false
       end.
(* a canceled/skipped-by-blocker label must be justified by a blocker of that kind *)
Definition mark_justified (i : nat) : bool :=
  if blocked i then
    existsb (fun d => match fstat d with
                      | 2 => negb (cof (sp d)) && (fstat i =? 3)
                      | 3 => fstat i =? 3
                      | 5 => negb (cos (sp d)) && (fstat i =? 5)
                      | _ => false end) (deps (sp i))
  else true.
Definition all_final_terminal : bool := forallb (fun i => negb ((fstat i =? 0) || (fstat i =? 1))) (seq 0 nn).
Definition mon_C02 : bool :=
  all_final_terminal && forallb (fun i => mon02_node i && mark_justified i) (seq 0 nn).

(* ---- C03: attempts until the first success or limit+1, never two at once, retryCount = extra attempts ---- *)
Fixpoint never_twice (i : nat) (isopen : bool) (tr : list event) : bool :=
  match tr with
  | [] => true
  | EStart j _ :: t => if j =? i then negb isopen && never_twice i true t else never_twice i isopen t
  | EEnd j _ _ :: t => if j =? i then isopen && never_twice i false t else never_twice i isopen t
  | ECreateFail j _ :: t => if j =? i then negb isopen && never_twice i false t else never_twice i isopen t
  end.
Definition mon03_node (i : nat) : bool :=
  let a := attempts i (c_trace x) in
  let os := outcomes i (c_trace x) in
  never_twice i false (c_trace x) && (length os =? a) &&
  (a <=? S (rlimit (sp i))) &&
  all_false (removelast os) &&
  (match rev os with false :: _ => a =? S (rlimit (sp i)) | _ => true end) &&
  (if a =? 0 then frc i =? 0 else frc i =? pred a) &&
  (* runnable <-> executed *)
  (if c_dry x then a =? 0
   else if blocked i || negb (pre (sp i)) || sfail (sp i) then a =? 0 else 1 <=? a).
Definition mon_C03 : bool := forallb mon03_node (seq 0 nn).

(* ---- C15: never more than k commands open, a step inside its retry interval counts ---- *)
(* open: steps with an open Run; waiting: (step, exit stamp) of failed attempts that are retried later *)
Definition will_retry (i : nat) (future : list event) : bool := existsb (is_attempt_of i) future.
Definition occupied (t : Z) (i : nat) (waiting : list (nat * Z)) : nat :=
  length (filter (fun p => negb (fst p =? i) && (t + eps <? snd p + case_ivl x (fst p))%Z) waiting).
Fixpoint mon15_go (k : nat) (opn : list nat) (waiting : list (nat * Z)) (tr : list event) : bool :=
  match tr with
  | [] => true
  | EStart i t :: f =>
      let waiting' := filter (fun p => negb (fst p =? i)) waiting in
      (length opn + occupied t i waiting + 1 <=? k) && mon15_go k (i :: opn) waiting' f
  | EEnd i ok t :: f =>
      let opn' := remove Nat.eq_dec i opn in
      let waiting' := if negb ok && will_retry i f then (i, t) :: waiting else waiting in
      mon15_go k opn' waiting' f
  | ECreateFail i t :: f =>      (* the attempt held a slot when it began; it may be retried like a failed one *)
      let waiting0 := filter (fun p => negb (fst p =? i)) waiting in
      let waiting' := if will_retry i f then (i, t) :: waiting0 else waiting0 in
      (length opn + occupied t i waiting + 1 <=? k) && mon15_go k opn waiting' f
  end.
Definition mon_C15 : bool := if c_k x =? 0 then true else mon15_go (c_k x) [] [] (c_trace x).

End Mon.

Definition b2n (b : bool) : nat := if b then 1 else 0.

(* per case: [stage; index; C01; C02; C03; C15]  (stage 0 = accepted; monitors 1 = holds) *)
Definition verdict (x : case) : list nat :=
  let '(stg, idx) := replay_case x in
  [stg; idx; b2n (mon_C01 x); b2n (mon_C02 x); b2n (mon_C03 x); b2n (mon_C15 x)].
Definition is_bad (v : list nat) : bool :=
  match v with
  | [0; _; 1; 1; 1; 1] => false
  | _ => true end.
Definition mismatches (cs : list case) : list (nat * list nat) :=
  filter (fun p => is_bad (snd p)) (combine (seq 0 (length cs)) (map verdict cs)).
