(* Trace acceptor for runs of the real scheduler without stop/timeout (the runs of C01 C02 C03 C15).
   `accept` decides whether an observed visible trace (entries and exits of the executor's Run with
   microsecond stamps) together with the observed final node table is the visible projection of an execution
   of Sched.Model.  Every state change goes through Model.step and the labels used are accumulated, so an
   accepted trace comes with its execution (Sched/ReplayProofs.v: accept_sound).

   Strategy (complete for quiet runs, DESIGN.md Appendix C.3): one model state; hidden worker steps are taken
   as early as the model allows (WAfter, WFinish; WRetryWake gated by the recorded time stamps: not before the
   failing attempt's exit stamp + interval - eps); hidden loop steps LCommit/LLaunch/WTest are taken on demand
   when the attempt's Run entry is observed; nodes that produce no visible event (unmet precondition, dry run,
   failing setup) are launched/skipped as soon as the model allows; marks (canceled/skipped by a blocker) are
   guided by the observed final table, because which of several blockers wins is timing dependent. *)
From Coq Require Import List Arith Bool ZArith PeanoNat.
Import ListNotations.
From BD.Sched Require Import Model.

(* ECreateFail: an attempt of step i ended at t because its command could not be created (no Run was entered) *)
Inductive event := EStart (i : nat) (t : Z) | EEnd (i : nat) (ok : bool) (t : Z) | ECreateFail (i : nat) (t : Z).

Definition code (x : nstatus) : nat :=
  match x with NNone => 0 | NRunning => 1 | NError => 2 | NCancel => 3 | NSuccess => 4 | NSkipped => 5 end.
Definition ocode (x : ostatus) : nat :=
  match x with ONone => 0 | ORunning => 1 | OError => 2 | OCancel => 3 | OSuccess => 4 end.

(* observed final entry of a node: status code, retryCount, doneCount *)
Definition fin_entry := (nat * nat * nat)%type.

Record rstate := { ms : state; lbl : list label (* reversed *); endt : nat -> Z }.

Section R.
Variable c : cfg.
Variable ivl : nat -> Z.          (* retry interval per step, microseconds *)
Variable eps : Z.
Variable fin : nat -> fin_entry.
Notation n := (nsteps c).

Definition app (r : rstate) (l : label) : option rstate :=
  match step c (ms r) l with
  | Some s' => Some {| ms := s'; lbl := l :: lbl r; endt := endt r |}
  | None => None end.
Definition try (r : rstate) (l : label) : rstate := match app r l with Some r' => r' | None => r end.
Definition try2 (r : rstate) (l1 l2 : label) : rstate :=
  match app r l1 with
  | Some r1 => match app r1 l2 with Some r2 => r2 | None => r end
  | None => r end.

Definition fin_st (i : nat) : nat := fst (fst (fin i)).

(* first dependency whose mark equals the observed final status of i *)
Definition guided_mark (s : state) (i : nat) : option nat :=
  find (fun d => match dep_mark c s d with Some m => code m =? fin_st i | None => false end) (deps (steps c i)).

(* the hidden steps tried at one visit of node i, each a function rstate -> rstate built from try/try2 *)
Definition st_after (i : nat) (r : rstate) : rstate :=
  match ph (nd (ms r) i) with PEnded _ => try r (WAfter i false) | _ => r end.
Definition st_finish (i : nat) (r : rstate) : rstate :=
  match ph (nd (ms r) i) with PPost => try r (WFinish i) | _ => r end.
Definition st_wake (now : Z) (i : nat) (r : rstate) : rstate :=
  match ph (nd (ms r) i) with
  | PRetryWait => if (endt r i + ivl i - eps <=? now)%Z then try r (WRetryWake i) else r
  | _ => r end.
Definition st_mark (i : nat) (r : rstate) : rstate :=
  match st (nd (ms r) i) with
  | NNone => match guided_mark (ms r) i with Some d => try r (LMark i d) | None => r end
  | _ => r end.
(* no visible event will come from this node: unmet precondition / dry run / failing setup *)
Definition st_hidden (i : nat) (r : rstate) : rstate :=
  match st (nd (ms r) i) with
  | NNone => if negb (pre (steps c i)) then try2 r (LCommit i) (LSkipPre i)
             else if dry c || setup_fails c i then try2 r (LCommit i) (LLaunch i)
             else r
  | _ => r end.
Definition st_setup (i : nat) (r : rstate) : rstate :=
  match ph (nd (ms r) i) with
  | PSetup => if dry c || setup_fails c i then try (try r (WSetupFail i)) (WTest i) else r
  | _ => r end.
Definition st_dry (i : nat) (r : rstate) : rstate :=
  match ph (nd (ms r) i) with
  | PStarting => if dry c then try r (WDryExec i) else r
  | _ => r end.

Definition pass_node (now : Z) (r : rstate) (i : nat) : rstate :=
  st_finish i (st_after i (st_dry i (st_setup i (st_hidden i (st_mark i (st_wake now i (st_finish i (st_after i r)))))))).

Definition pass (now : Z) (r : rstate) : rstate := fold_left (pass_node now) (seq 0 n) r.
(* passes until one adds no label (or the fuel is spent) *)
Fixpoint norm (fuel : nat) (now : Z) (r : rstate) : rstate :=
  match fuel with
  | 0 => r
  | S f => let r' := pass now r in
           if length (lbl r') =? length (lbl r) then r' else norm f now r'
  end.

Definition feed (r : rstate) (e : event) : option rstate :=
  match e with
  | EStart i t =>
      let r0 := norm (2 * n + 2) t r in
      match app r0 (LCommit i) with
      | Some r1 => match app r1 (LLaunch i) with
        | Some r2 => match app r2 (WTest i) with
          | Some r3 => app r3 (WExecStart i)
          | None => None end
        | None => None end
      | None => None end
  | ECreateFail i t =>
      let r0 := norm (2 * n + 2) t r in
      match app r0 (LCommit i) with
      | Some r1 => match app r1 (LLaunch i) with
        | Some r2 => match app r2 (WTest i) with
          | Some r3 => match app r3 (WCreateFail i) with
            | Some r4 => Some {| ms := ms r4; lbl := lbl r4; endt := fun j => if j =? i then t else endt r4 j |}
            | None => None end
          | None => None end
        | None => None end
      | None => None end
  | EEnd i ok t =>
      match app r (WExecEnd i ok) with
      | Some r1 => Some {| ms := ms r1; lbl := lbl r1; endt := fun j => if j =? i then t else endt r j |}
      | None => None end
  end.

Fixpoint feed_all (r : rstate) (es : list event) (idx : nat) : rstate * option nat :=
  match es with
  | [] => (r, None)
  | e :: es' => match feed r e with Some r' => feed_all r' es' (S idx) | None => (r, Some idx) end
  end.

Definition node_matches (s : state) (i : nat) : bool :=
  let '(fs, frc, fdc) := fin i in
  (code (st (nd s i)) =? fs) && (rc (nd s i) =? frc) && (dc (nd s i) =? fdc).
Definition final_ok (s : state) : bool := forallb (node_matches s) (seq 0 n).

Definition big : Z := 4000000000000%Z.

Definition r_init : rstate := {| ms := init c; lbl := []; endt := fun _ => 0%Z |}.

(* result: (accepted, (stage, index)); stage 1 = event idx not enabled in the model, 2 = the model cannot
   finish where the run finished, 3 = final table differs, 4 = Schedule's error / Status(g) differ *)
Definition replay (tr : list event) (err : bool) (status : nat) : option rstate * (nat * nat) :=
  match feed_all r_init tr 0 with
  | (_, Some idx) => (None, (1, idx))
  | (r, None) =>
      let r' := norm (2 * n + 3) big r in
      match app r' LExit with
      | None => (None, (2, 0))
      | Some r1 =>
        match app r1 HBegin with
        | None => (None, (2, 1))
        | Some r2 =>
          match app r2 HFinish with
          | None => (None, (2, 2))
          | Some r3 =>
              if negb (final_ok (ms r3)) then (None, (3, 0))
              else if negb (Bool.eqb (lasterr (ms r3)) err && (ocode (overall c (ms r3)) =? status)) then (None, (4, 0))
              else (Some r3, (0, 0))
          end
        end
      end
  end.

Definition accept (tr : list event) (err : bool) (status : nat) : bool :=
  match fst (replay tr err status) with Some _ => true | None => false end.

End R.
