(* Soundness of the power-set acceptor (state level): every model state it ever holds is reachable by an execution of
   the model, so an accepted run of the real scheduler comes with a reachable Done state of the model that shows the
   observed final node table, handler states, Schedule error and Status - the theorems about all reachable states
   (C04, C05) apply to it.  (Dedupe only removes states, so its equality test needs no correctness proof.) *)
From Coq Require Import List Arith Bool ZArith PeanoNat.
Import ListNotations.
From BD.Sched Require Import Model Replay Replay2.

Section S2.
Variable c : cfg.
Variable ivl rivl : nat -> Z.
Variable eps tmo_at : Z.

Lemma reach_step' s l s' : Reach c s -> step c s l = Some s' -> Reach c s'.
Proof.
  intros [ls Hr] Hs. exists (ls ++ [l]).
  assert (Hgen : forall s0, run c s0 ls = Some s -> run c s0 (ls ++ [l]) = Some s').
  { clear Hr. induction ls as [|a ls IH]; simpl; intros s0 H0.
    - injection H0 as ->. rewrite Hs. reflexivity.
    - destruct (step c s0 a); [auto|discriminate]. }
  auto.
Qed.

Definition AllReach (ss : list state) : Prop := Forall (Reach c) ss.

Lemma flat_step_reach (ls : list label) s : Reach c s ->
  AllReach (flat_map (fun l => match step c s l with Some s' => [s'] | None => [] end) ls).
Proof.
  intros Hr. induction ls as [|l ls IH]; simpl; [constructor|].
  apply Forall_app. split; [|exact IH].
  destruct (step c s l) eqn:Hs; [|constructor]. constructor; [eapply reach_step'; eauto|constructor].
Qed.

Lemma succs_reach calls endt now s : Reach c s -> AllReach (succs c ivl rivl eps tmo_at calls endt now s).
Proof. intros Hr. unfold succs. apply flat_step_reach. exact Hr. Qed.

Lemma flat_succs_reach calls endt now ss : AllReach ss ->
  AllReach (flat_map (succs c ivl rivl eps tmo_at calls endt now) ss).
Proof.
  intros H. induction H as [|s ss Hs Hss IH]; simpl; [constructor|].
  apply Forall_app. split; [apply succs_reach; exact Hs|exact IH].
Qed.

Lemma add_new_reach new : forall seen, AllReach new -> AllReach seen ->
  AllReach (fst (add_new c new seen)) /\ AllReach (snd (add_new c new seen)).
Proof.
  induction new as [|s r IH]; simpl; intros seen Hn Hs; [split; [constructor|exact Hs]|].
  inversion Hn; subst.
  destruct (mem c s seen); [apply IH; assumption|].
  destruct (add_new c r (s :: seen)) as [a b] eqn:E.
  destruct (IH (s :: seen) ltac:(assumption) ltac:(constructor; assumption)) as [Ha Hb].
  rewrite E in Ha, Hb. simpl in *. split; [constructor; assumption|exact Hb].
Qed.

Lemma closure_reach fuel : forall calls endt now front seen res, AllReach front -> AllReach seen ->
  closure c ivl rivl eps tmo_at fuel calls endt now front seen = Some res -> AllReach res.
Proof.
  induction fuel as [|f IH]; intros calls endt now front seen res Hf Hs H.
  - destruct front; simpl in H; [injection H as <-; exact Hs|discriminate].
  - destruct front as [|x front]; [simpl in H; injection H as <-; exact Hs|].
    cbn [closure] in H.
    destruct (add_new c (flat_map (succs c ivl rivl eps tmo_at calls endt now) (x :: front)) seen) as [fresh seen'] eqn:E.
    pose proof (add_new_reach (flat_map (succs c ivl rivl eps tmo_at calls endt now) (x :: front)) seen
                  (flat_succs_reach calls endt now (x :: front) Hf) Hs) as [Ha Hb].
    rewrite E in Ha, Hb. simpl in Ha, Hb. eapply IH; [exact Ha|exact Hb|exact H].
Qed.

Lemma close_reach p now res : AllReach (pss p) -> close c ivl rivl eps tmo_at p now = Some res -> AllReach res.
Proof.
  intros Hp H. unfold close in H. destruct (add_new c (pss p) []) as [fresh seen] eqn:E.
  pose proof (add_new_reach (pss p) [] Hp ltac:(constructor)) as [Ha Hb]. rewrite E in Ha, Hb. simpl in Ha, Hb.
  eapply closure_reach; [exact Ha|exact Hb|exact H].
Qed.

Lemma apply_all_reach l ss : AllReach ss -> AllReach (apply_all c l ss).
Proof.
  intros H. unfold apply_all. induction H as [|s ss Hs Hss IH]; simpl; [constructor|].
  apply Forall_app. split; [|exact IH].
  destruct (step c s l) eqn:E; [|constructor]. constructor; [eapply reach_step'; eauto|constructor].
Qed.

Lemma filter_reach (f : state -> bool) ss : AllReach ss -> AllReach (filter f ss).
Proof. intros H. induction H; simpl; [constructor|]. destruct (f x); [constructor; assumption|assumption]. Qed.

Lemma feed2_reach p e p' : AllReach (pss p) -> feed2 c ivl rivl eps tmo_at p e = Some p' -> AllReach (pss p').
Proof.
  intros Hp H. unfold feed2 in H.
  destruct (close c ivl rivl eps tmo_at p (ev2_time e)) as [ss|] eqn:Ec; [|discriminate].
  pose proof (close_reach p _ ss Hp Ec) as Hss.
  assert (Hmk : forall ss' q, AllReach ss' ->
            match ss' with [] => None | _ => Some {| pss := ss'; pendt := pendt p; pcalls := pcalls p |} end = Some q ->
            AllReach (pss q)).
  { intros ss' q Hr Hq. destruct ss'; [discriminate|]. injection Hq as <-. exact Hr. }
  destruct e; try (eapply Hmk; [|exact H]; first [apply apply_all_reach; try apply filter_reach; exact Hss|apply filter_reach; exact Hss]).
  - (* E2End *) destruct (apply_all c (WExecEnd i ok) ss) eqn:Ea; [discriminate|]. injection H as <-. cbn [pss].
    rewrite <- Ea. apply apply_all_reach. exact Hss.
  - (* E2Refused *)
    destruct (apply_all c (WExecRefused i) ss ++ apply_all c (WCreateFail i) ss) eqn:Ea; [discriminate|].
    injection H as <-. cbn [pss]. rewrite <- Ea. apply Forall_app. split; apply apply_all_reach; exact Hss.
  - (* E2SigCall *) injection H as <-. exact Hss.
Qed.

Lemma feed2_all_reach es : forall p idx p' o, AllReach (pss p) ->
  feed2_all c ivl rivl eps tmo_at p es idx = (p', o) -> AllReach (pss p').
Proof.
  induction es as [|e es IH]; simpl; intros p idx p' o Hp H; [injection H as <- _; exact Hp|].
  destruct (feed2 c ivl rivl eps tmo_at p e) as [p1|] eqn:Ef.
  - eapply IH; [eapply feed2_reach; eauto|exact H].
  - injection H as <- _. exact Hp.
Qed.

Variable fin : nat -> nat * nat.
Variable hfin : handler -> nat.

Theorem replay2_sound tr err status k :
  replay2 c ivl rivl eps tmo_at fin hfin tr err status = (0, 0, k) ->
  exists s, Reach c s /\ final2_ok c fin hfin s err status = true.
Proof.
  unfold replay2. intros H.
  destruct (feed2_all c ivl rivl eps tmo_at (p_init c) tr 0) as [p o] eqn:Ef.
  assert (Hp : AllReach (pss p)).
  { eapply feed2_all_reach; [|exact Ef]. constructor; [exists []; reflexivity|constructor]. }
  destruct o; [discriminate|].
  destruct (close c ivl rivl eps tmo_at p big) as [ss|] eqn:Ec; [|discriminate].
  pose proof (close_reach p _ ss Hp Ec) as Hss.
  destruct (existsb (fun s => final2_ok c fin hfin s err status) ss) eqn:Ee; [|discriminate].
  apply existsb_exists in Ee. destruct Ee as (s & Hin & Hok). exists s. split; [|exact Hok].
  unfold AllReach in Hss. rewrite Forall_forall in Hss. exact (Hss s Hin).
Qed.

End S2.
