(* Sched: run outcome and handlers (C04), stop and timeout (C05).
   Invariant conjunct I5 (errors) of DESIGN.md A.2, the handler phase, the Signal pass, and the witnesses of the
   defects F4a, F5a, F5c, F5d (DESIGN.md section 6). *)
From Coq Require Import List Arith Bool Lia PeanoNat.
Import ListNotations.
From BD.Sched Require Import Model Proofs ProofsFinal.

Section Stop.
Variable c : cfg.
Hypothesis Hnorep : norepeat c.
Notation n := (nsteps c).
Notation step := (step c).
Notation Inv := (Inv c).

Ltac use_after :=
  try match goal with
  | |- context [after c ?s ?i ?ok ?e] =>
      let H := fresh "HAC" in let sa := fresh "sa" in let E := fresh "Esa" in
      pose proof (after_cases c Hnorep s i ok e) as H; remember (after c s i ok e) as sa eqn:E; clear E; destruct H;
      try (let F := fresh "Hfp" in destruct (fphase_cases c) as [F|F]; rewrite F in * )
  | H0 : context [after c ?s ?i ?ok ?e] |- _ =>
      let H := fresh "HAC" in let sa := fresh "sa" in let E := fresh "Esa" in
      pose proof (after_cases c Hnorep s i ok e) as H; remember (after c s i ok e) as sa eqn:E; clear E; destruct H;
      try (let F := fresh "Hfp" in destruct (fphase_cases c) as [F|F]; rewrite F in * )
  end.

Ltac start_step HI Hs :=
  pose proof (iA _ _ HI) as HA; pose proof (iB _ _ HI) as HB;
  pose proof (iD _ _ HI) as HD; pose proof (iG _ _ HI) as HG; pose proof (iF _ _ HI) as HF;
  pose proof (iS _ _ HI) as HS;
  match type of Hs with Model.step _ _ ?l = Some _ =>
    destruct l; cbn [Model.step] in Hs; inv_guard Hs; injection Hs as <-; split_guard end;
  use_after;
  unfold set_nd, set_pc, set_err, set_hst, upd in *; cbn [nd pc canceled lasterr timedout sigq sigleft hst] in *.

(* ---------------------------------------------------------------------------------------------- *)
(* I5: errors                                                                                       *)
(* ---------------------------------------------------------------------------------------------- *)
(* a node that accounts for lastError: it failed, timed out, or its command ended after the stop *)
Definition err_witness (x : node) : Prop :=
  (ph x = PPost /\ (st x = NError \/ st x = NCancel)) \/
  (ph x = PGone /\ (st x = NError \/ st x = NCancel \/ st x = NRunning)).

Record EInv (s : state) : Prop := {
  e1 : forall i, st (nd s i) = NError -> lasterr s = true;
  e2 : canceled s = false -> timedout s = false -> forall i, st (nd s i) = NCancel -> lasterr s = true;
  e3 : lasterr s = true -> exists i, i < n /\ err_witness (nd s i)
}.

Lemma einv_init : EInv (init c).
Proof. constructor; cbn; intros; try discriminate. Qed.

Lemma err_witness_not_ok x : err_witness x -> st x <> NSuccess /\ st x <> NSkipped.
Proof. unfold err_witness. intuition congruence. Qed.

Lemma step_e1 s l s' : Inv s -> EInv s -> step s l = Some s' -> forall j, st (nd s' j) = NError -> lasterr s' = true.
Proof.
  intros HI HE Hs j. pose proof (e1 _ HE) as E1. start_step HI Hs.
  all: try (apply E1).
  all: try (intros; reflexivity).
  all: try (destruct (Nat.eqb_spec j i) as [->|Hne]; [|apply E1]).
  all: nsimpl; try (intros; discriminate); try (apply E1).
  all: try (intros X; apply (E1 i); destruct (st (nd s i)); congruence).   (* WSkipExec, WFinish *)
  - (* LMark *) intros X. match type of M with _ = Some ?m => destruct (dep_mark_values c s d m M); subst m; discriminate end.
  - (* SigNode *)
    match goal with |- context [j =? ?k] => destruct (Nat.eqb_spec j k) as [->|Hne]; [|apply E1] end. nsimpl. discriminate.
Qed.

Lemma step_e2 s l s' : Inv s -> EInv s -> step s l = Some s' ->
  canceled s' = false -> timedout s' = false -> forall j, st (nd s' j) = NCancel -> lasterr s' = true.
Proof.
  intros HI HE Hs Hc Ht j.
  assert (Hq : quiet s') by (split; assumption).
  pose proof (quiet_back c Hnorep _ _ _ Hs Hq) as [Hc0 Ht0].
  pose proof (e1 _ HE) as E1. pose proof (e2 _ HE Hc0 Ht0) as E2. clear Hq.
  start_step HI Hs.
  all: try (apply E2).
  all: try (intros; reflexivity).
  all: try discriminate.
  all: try (destruct (Nat.eqb_spec j i) as [->|Hne]; [|apply E2]).
  all: nsimpl; try (intros; discriminate); try (apply E2); try congruence.
  - (* LMark: the blocker is failed or canceled itself *)
    intros X. subst. unfold dep_mark in M. destruct (st (nd s d)) eqn:Ed; try discriminate.
    + apply (E1 d Ed).
    + apply (E2 d Ed).
    + destruct (cos (steps c d)); discriminate.
  - (* WFinish *) intros X. apply (E2 i). destruct (st (nd s i)); congruence.
  - (* SigNode: the run is canceled *) exfalso. assert (canceled s = true) by (apply HF; discriminate). congruence.
Qed.

Lemma err_witness_kept (x y : node) : ph y = ph x -> st y = st x -> err_witness x -> err_witness y.
Proof. unfold err_witness. intros -> ->. auto. Qed.

Lemma step_e3 s l s' : Inv s -> EInv s -> step s l = Some s' ->
  lasterr s' = true -> exists j, j < n /\ err_witness (nd s' j).
Proof.
  intros HI HE Hs. pose proof (e3 _ HE) as E3.
  (* a generic frame: the old witness survives every label *)
  assert (Hold : lasterr s = true -> exists j, j < n /\ err_witness (nd s' j)).
  { intros Hl. destruct (E3 Hl) as (w & Hw & Hwit). exists w. split; [exact Hw|].
    clear E3. start_step HI Hs.
    all: try exact Hwit.
    all: try (destruct (Nat.eqb_spec w i) as [->|Hne]; [|exact Hwit]).
    all: unfold err_witness in *; nsimpl; rewrite ?M, ?M0 in *;
         try (exfalso; intuition discriminate); try (intuition congruence).
    - (* LLaunch *) exfalso. apply is_committed_eq in H. destruct (HB _ H) as [_ Hst].
      rewrite (coherent_none_idle _ (HA i) Hst) in Hwit. intuition discriminate.
    - (* LSkipPre *) exfalso. apply is_committed_eq in H. destruct (HB _ H) as [_ Hst].
      rewrite (coherent_none_idle _ (HA i) Hst) in Hwit. intuition discriminate.
    - (* WFinish *) right. split; [reflexivity|]. destruct Hwit as [[_ Hw2]|[Hw1 _]]; [|discriminate]. destruct Hw2 as [Hw2|Hw2]; rewrite Hw2; auto.
    - (* SigNode *)
      match goal with |- context [w =? ?k] => destruct (Nat.eqb_spec w k) as [->|Hne]; [|exact Hwit] end.
      nsimpl. intuition congruence. }
  start_step HI Hs; cbn [lasterr]; try exact Hold.
  all: intros _.
  all: exists i; split; [assumption|]; unfold err_witness; rewrite Nat.eqb_refl; nsimpl; auto.
  all: try (right; split; [reflexivity|]; destruct (st (nd s i)); auto; fail).
Qed.

Lemma einv_step s l s' : Inv s -> EInv s -> step s l = Some s' -> EInv s'.
Proof.
  intros HI HE Hs. constructor.
  - eapply step_e1; eauto.
  - eapply step_e2; eauto.
  - eapply step_e3; eauto.
Qed.


Lemma reach_einv s : Reach c s -> Inv s /\ EInv s.
Proof.
  intros [ls Hr]. revert Hr. generalize (inv_init c) einv_init. generalize (init c).
  induction ls as [|l ls IH]; simpl; intros s0 HI HE Hr.
  - injection Hr as <-. auto.
  - destruct (step s0 l) eqn:Hs; [|discriminate]. eapply IH; [| |exact Hr].
    + eapply inv_step; eauto.
    + eapply einv_step; eauto.
Qed.

Definition in_hphase (p : lpc) : bool := match p with LHandlers _ _ | LDone => true | _ => false end.

Lemma hphase_mono s l s' : step s l = Some s' -> in_hphase (pc s) = true -> in_hphase (pc s') = true.
Proof.
  intros Hs Hp.
  destruct l; cbn [Model.step] in Hs; inv_guard Hs; injection Hs as <-; split_guard; use_after;
    unfold set_nd, set_pc, set_err, set_hst; cbn [pc]; try assumption; try reflexivity.
  all: try (match goal with H : is_head (pc _) = true |- _ => apply is_head_eq in H; rewrite H in Hp; discriminate end).
  all: try (match goal with H : is_committed (pc _) _ = true |- _ => apply is_committed_eq in H; rewrite H in Hp; discriminate end).
Qed.

(* before the handlers are chosen nothing is decided: Status is computed from the node table *)
Lemma undecided_step s l s' : (in_hphase (pc s) = false -> decided s = None) -> step s l = Some s' ->
  in_hphase (pc s') = false -> decided s' = None.
Proof.
  intros H0 Hs Hp.
  assert (Hp0 : in_hphase (pc s) = false).
  { destruct (in_hphase (pc s)) eqn:E; [|reflexivity]. rewrite (hphase_mono _ _ _ Hs E) in Hp. discriminate. }
  specialize (H0 Hp0).
  destruct l; cbn [Model.step] in Hs; inv_guard Hs; injection Hs as <-; use_after;
    unfold set_nd, set_pc, set_err, set_hst in *; cbn [decided pc] in *; try assumption; try discriminate.
Qed.

Lemma reach_undecided s : Reach c s -> in_hphase (pc s) = false -> decided s = None.
Proof.
  intros [ls Hr]. revert Hr.
  assert (H0 : in_hphase (pc (init c)) = false -> decided (init c) = None) by reflexivity.
  revert H0. generalize (init c).
  induction ls as [|l ls IH]; simpl; intros s0 H0 Hr.
  - injection Hr as <-. exact H0.
  - destruct (step s0 l) eqn:Hs; [|discriminate]. eapply IH; [|exact Hr]. eapply undecided_step; eauto.
Qed.

(* ---------------------------------------------------------------------------------------------- *)
(* C04: the outcome reported by Scheduler.Status at the moment the handlers are chosen              *)
(* ---------------------------------------------------------------------------------------------- *)
Definition node_ok (v : nstatus) : bool := match v with NSuccess | NSkipped => true | _ => false end.

Lemma is_succeed_spec s : is_succeed c s = true <-> forall i, i < n -> node_ok (st (nd s i)) = true.
Proof.
  unfold is_succeed. rewrite forallb_forall. split.
  - intros H i Hi. specialize (H i ltac:(apply in_seq; lia)). unfold node_ok. destruct (st (nd s i)); auto.
  - intros H i Hi. apply in_seq in Hi. specialize (H i ltac:(lia)). unfold node_ok in H. destruct (st (nd s i)); auto.
Qed.

Lemma graph_running_false s : (forall i, i < n -> st (nd s i) <> NRunning) -> graph_running c s = false.
Proof.
  intros H. unfold graph_running. destruct (existsb (fun j => is_running (nd s j)) (seq 0 n)) eqn:E; [|reflexivity].
  apply existsb_exists in E. destruct E as (i & Hin & Hr). apply in_seq in Hin. unfold is_running in Hr.
  apply nstatus_eqb_eq in Hr. exfalso. apply (H i); [lia|exact Hr].
Qed.

(* canceled: by definition "the stop flag is set and not every step is finished or skipped" *)
Theorem overall_canceled_iff s : decided s = None ->
  (overall c s = OCancel <-> (canceled s = true /\ is_succeed c s = false)).
Proof.
  intros Hdn. unfold overall. rewrite Hdn. unfold computed_overall. destruct (canceled s), (is_succeed c s); cbn [andb negb];
    destruct (graph_running c s), (lasterr s), (all_terminal c s); cbn [negb];
    split; intros H; try discriminate; try reflexivity; try (destruct H; discriminate); auto.
Qed.

(* finished: at the state where the handlers are chosen (loop left, every worker gone), without timeout *)
Theorem overall_finished_iff s : Reach c s -> pc s = LExited -> timedout s = false ->
  (overall c s = OSuccess <-> is_succeed c s = true).
Proof.
  intros Hr Hpc Ht. destruct (reach_einv s Hr) as [HI HE]. destruct (reach_all_inv c Hnorep s Hr) as (_ & _ & HX).
  assert (Hdn : decided s = None) by (apply reach_undecided; [exact Hr|rewrite Hpc; reflexivity]).
  unfold overall. rewrite Hdn. fold (computed_overall c s).
  split.
  - intros Ho. unfold computed_overall in Ho.
    destruct (canceled s) eqn:Ec; cbn [andb] in Ho.
    + destruct (is_succeed c s); [reflexivity|discriminate].
    + destruct (graph_running c s); [discriminate|]. destruct (lasterr s) eqn:El; [discriminate|].
      apply is_succeed_spec. intros i Hi.
      destruct (HX (conj Ec Ht)) as [HX1 _]. rewrite Hpc in HX1. specialize (HX1 eq_refl i Hi).
      destruct (st (nd s i)) eqn:Est; try discriminate HX1; try reflexivity.
      * rewrite (e1 _ HE i Est) in El. discriminate.
      * rewrite (e2 _ HE Ec Ht i Est) in El. discriminate.
  - intros Hsu. pose proof (proj1 (is_succeed_spec s) Hsu) as Hall.
    unfold computed_overall. rewrite Hsu. rewrite Bool.andb_false_r.
    assert (Hat : all_terminal c s = true).
    { unfold all_terminal. apply forallb_forall. intros i Hi. apply in_seq in Hi. specialize (Hall i ltac:(lia)).
      unfold node_ok in Hall. destruct (st (nd s i)); try discriminate; reflexivity. }
    rewrite Hat. cbn [negb].
    rewrite graph_running_false.
    + destruct (lasterr s) eqn:El; [|reflexivity]. exfalso.
      destruct (e3 _ HE El) as (i & Hi & Hw). apply err_witness_not_ok in Hw. specialize (Hall i Hi).
      unfold node_ok in Hall. destruct (st (nd s i)); try discriminate; intuition congruence.
    + intros i Hi Hrun. specialize (Hall i Hi). rewrite Hrun in Hall. discriminate.
Qed.

(* failed: some step failed (or could not be set up) and the run was not "stopped before completing" *)
Theorem overall_failed_iff s : Reach c s -> pc s = LExited -> timedout s = false ->
  (overall c s = OError <->
   (~ (canceled s = true /\ is_succeed c s = false) /\ exists i, i < n /\ st (nd s i) = NError)).
Proof.
  intros Hr Hpc Ht. destruct (reach_einv s Hr) as [HI HE].
  destruct (reach_all_inv c Hnorep s Hr) as (_ & HQ & HX).
  assert (Hdn : decided s = None) by (apply reach_undecided; [exact Hr|rewrite Hpc; reflexivity]).
  split.
  - intros Ho. assert (Hnc : ~ (canceled s = true /\ is_succeed c s = false)).
    { intros Hc. apply (overall_canceled_iff s Hdn) in Hc. congruence. }
    split; [exact Hnc|].
    unfold overall in Ho. rewrite Hdn in Ho. unfold computed_overall in Ho. destruct (canceled s) eqn:Ec; cbn [andb] in Ho.
    + destruct (is_succeed c s) eqn:Es; [|discriminate]. exfalso.
      pose proof (proj2 (overall_finished_iff s Hr Hpc Ht) Es) as Hf. unfold overall in Hf. rewrite Hdn in Hf.
      unfold computed_overall in Hf. rewrite Ec, Es in Hf.
      cbn [andb negb] in Hf, Ho. congruence.
    + destruct (graph_running c s); [discriminate|]. destruct (lasterr s) eqn:El; [|destruct (all_terminal c s); discriminate].
      destruct (e3 _ HE El) as (i & Hi & Hw). exists i. split; [exact Hi|].
      pose proof (HQ (conj Ec Ht) i) as Hqi. unfold qnode, qnode_gen in Hqi. destruct Hqi as (_ & _ & Q3).
      unfold err_witness in Hw. destruct Hw as [[Hp Hs]|[Hp Hs]].
      { rewrite Hp in Q3. destruct Hs as [Hs|Hs]; [exact Hs|rewrite Hs in Q3; contradiction]. }
      rewrite Hp in Q3. destruct Hs as [Hs|[Hs|Hs]]; [exact Hs| |]; rewrite Hs in Q3; contradiction.
  - intros [Hnc (i & Hi & Hei)].
    assert (Es : is_succeed c s = false).
    { destruct (is_succeed c s) eqn:Es; [|reflexivity]. pose proof (proj1 (is_succeed_spec s) Es i Hi) as X.
      rewrite Hei in X. discriminate. }
    assert (Ec : canceled s = false) by (destruct (canceled s); [exfalso; apply Hnc; auto|reflexivity]).
    unfold overall. rewrite Hdn. unfold computed_overall. rewrite Ec. cbn [andb].
    destruct (HX (conj Ec Ht)) as [HX1 _]. rewrite Hpc in HX1. specialize (HX1 eq_refl).
    rewrite graph_running_false.
    + rewrite (e1 _ HE i Hei). reflexivity.
    + intros j Hj Hrun. specialize (HX1 j Hj). rewrite Hrun in HX1. discriminate.
Qed.


(* ---------------------------------------------------------------------------------------------- *)
(* C04: the handler phase                                                                           *)
(* ---------------------------------------------------------------------------------------------- *)
(* a handler's turn: it is started, or the set-up of its node fails (it is marked failed and not run) *)
Definition hturn_of (l : label) : list handler := match l with HStart h | HSetupFail h => [h] | _ => [] end.
Definition hturns (ls : list label) : list handler := flat_map hturn_of ls.
(* the handlers whose command is started *)
Definition hstart_of (l : label) : list handler := match l with HStart h => [h] | _ => [] end.
Definition hstarts (ls : list label) : list handler := flat_map hstart_of ls.
(* labels of the scheduling loop and of the step workers *)
Definition is_node_label (l : label) : bool :=
  match l with
  | SigFlag | SigNode _ | Timeout | HBegin | HStart _ | HEnd _ _ | HSkip _ | HSetupFail _ | HFinish => false
  | _ => true end.
Definition expected (todo : list handler) (cur : bool) : list handler := if cur then tl todo else todo.
Definition gone (s : state) : Prop := forall i, i < n -> worker_gone (nd s i) = true.

Lemma timedout_back s l s' : step s l = Some s' -> timedout s' = false -> timedout s = false.
Proof.
  intros Hs Ht.
  destruct l; cbn [Model.step] in Hs; inv_guard Hs; injection Hs as <-; use_after;
    unfold set_nd, set_pc, set_err, set_hst in *; cbn [timedout] in *; try discriminate; auto.
Qed.
Lemma canceled_mono s l s' : step s l = Some s' -> canceled s = true -> canceled s' = true.
Proof.
  intros Hs Ht.
  destruct l; cbn [Model.step] in Hs; inv_guard Hs; injection Hs as <-; use_after;
    unfold set_nd, set_pc, set_err, set_hst in *; cbn [canceled] in *; auto.
Qed.
Lemma lasterr_mono s l s' : step s l = Some s' -> lasterr s = true -> lasterr s' = true.
Proof.
  intros Hs Ht.
  destruct l; cbn [Model.step] in Hs; inv_guard Hs; injection Hs as <-; use_after;
    unfold set_nd, set_pc, set_err, set_hst in *; cbn [lasterr] in *; auto.
Qed.

Definition exp_of (p : lpc) : list handler := match p with LHandlers todo cur => expected todo cur | _ => [] end.

(* one label in the handler phase (or after Done) *)
Lemma handler_phase_step s l s' : in_hphase (pc s) = true -> gone s -> step s l = Some s' ->
  is_node_label l = false /\ gone s' /\ in_hphase (pc s') = true /\
  (dry c = false -> hturn_of l ++ exp_of (pc s') = exp_of (pc s)).
Proof.
  intros Hph Hg Hs.
  destruct (pc s) as [| | |todo cur|] eqn:Hpc; try discriminate Hph.
  all: destruct l; cbn [Model.step] in Hs; rewrite ?Hpc in Hs; cbn [is_head is_committed andb] in Hs; try discriminate Hs.
  all: inv_guard Hs; split_guard.
  all: try (exfalso; match goal with H : false = true |- _ => discriminate H end).
  all: try (exfalso; match goal with M : ph (nd _ ?i) = _, H : ?i < _ |- _ =>
              specialize (Hg i H); unfold worker_gone in Hg; rewrite M in Hg; discriminate end).
  all: try (exfalso; match goal with M : stale (nd _ ?i) = S _, H : ?i < _ |- _ =>
              specialize (Hg i H); unfold worker_gone in Hg; rewrite M in Hg;
              destruct (ph (nd s i)); discriminate end).
  all: injection Hs as <-.
  all: split; [reflexivity|].
  all: unfold set_nd, set_pc, set_err, set_hst, upd; cbn [nd pc]; rewrite ?Hpc.
  all: try (split; [exact Hg|]; split; [reflexivity|]; intros Hd; cbn; try reflexivity; try congruence; fail).
  all: try (split; [intros j Hj; specialize (Hg j Hj); unfold worker_gone in *; cbn [nd];
                    match goal with |- context [j =? ?k] => destruct (Nat.eqb_spec j k) as [->|Hne]; [|exact Hg] end;
                    nsimpl; exact Hg|]; split; [reflexivity|]; intros; reflexivity).
  (* HStart, HSetupFail *)
  all: split; [exact Hg|]; split; [reflexivity|]; intros _; cbn; destruct h, h0; try discriminate; reflexivity.
Qed.

Lemma handler_phase_run ls : forall s s', in_hphase (pc s) = true -> gone s ->
  run c s ls = Some s' -> dry c = false ->
  hturns ls ++ exp_of (pc s') = exp_of (pc s) /\ forallb (fun l => negb (is_node_label l)) ls = true /\
  in_hphase (pc s') = true.
Proof.
  induction ls as [|l ls IH]; intros s s' Hph Hg Hr Hdry.
  - simpl in Hr. injection Hr as <-. auto.
  - simpl in Hr. destruct (step s l) as [s1|] eqn:Hs; [|discriminate].
    destruct (handler_phase_step s l s1 Hph Hg Hs) as (Hnl & Hg1 & Hph1 & He).
    destruct (IH s1 s' Hph1 Hg1 Hr Hdry) as (Hh & Hf & Hp').
    split; [|split; [cbn [forallb]; rewrite Hnl, Hf; reflexivity|exact Hp']].
    cbn [hturns flat_map]. fold (hturns ls). rewrite <- app_assoc, Hh. apply He; assumption.
Qed.

Lemma handlers_for_shape s : exists x, handlers_for c s = filter (hon c) (x ++ [HExit]) /\
  x = match overall c s with OSuccess => [HSuccess] | OError => [HFailure] | OCancel => [HCancel] | _ => [] end.
Proof. eexists. split; reflexivity. Qed.

(* C04_handlers: for every execution ls1 ++ HBegin :: ls2 that reaches Done (not a dry run, no timeout): after HBegin no
   label of the loop or of a step worker occurs (all steps have ended), and the handlers started are exactly, in this
   order, the configured ones among [the handler of the outcome at HBegin; onExit], each once. *)
Theorem handlers_trace ls1 ls2 s1 s2 s3 :
  run c (init c) ls1 = Some s1 -> step s1 HBegin = Some s2 -> run c s2 ls2 = Some s3 ->
  pc s3 = LDone -> dry c = false ->
  hturns ls1 = [] /\ hturns ls2 = handlers_for c s1 /\
  forallb (fun l => negb (is_node_label l)) ls2 = true /\ gone s1.
Proof.
  intros H1 H2 H3 Hd Hdry.
  assert (Hg1 : gone s1 /\ pc s1 = LExited /\ pc s2 = LHandlers (handlers_for c s1) false /\ gone s2).
  { cbn [Model.step] in H2. destruct (pc s1) eqn:Ep; try discriminate. destruct (all_gone c s1) eqn:Eg; [|discriminate].
    injection H2 as <-. cbn [pc nd].
    assert (Hg : gone s1) by (intros i Hi; unfold all_gone in Eg; exact (forallb_seq_lt _ _ Eg i Hi)).
    repeat split; auto. }
  destruct Hg1 as (Hg1 & Hp1 & Hp2 & Hg2).
  assert (Hph2 : in_hphase (pc s2) = true) by (rewrite Hp2; reflexivity).
  destruct (handler_phase_run ls2 s2 s3 Hph2 Hg2 H3 Hdry) as (Hh & Hf & _).
  rewrite Hp2 in Hh.
  rewrite Hd in Hh. cbn [exp_of expected] in Hh. rewrite app_nil_r in Hh.
  split; [|auto].
  (* no handler starts before HBegin: HStart needs pc = LHandlers, which only HBegin establishes *)
  clear - H1 Hp1 Hnorep.
  assert (Hgen : forall ls s, in_hphase (pc s) = false -> forall s', run c s ls = Some s' -> in_hphase (pc s') = false ->
             hturns ls = []).
  { induction ls as [|l ls IH]; intros s Hp s' Hr Hp'; [reflexivity|].
    simpl in Hr. destruct (step s l) as [sx|] eqn:Hs; [|discriminate].
    destruct (in_hphase (pc sx)) eqn:Epx.
    - exfalso. (* once in the handler phase, always *)
      assert (Hstay : forall ls s, in_hphase (pc s) = true -> forall s', run c s ls = Some s' -> in_hphase (pc s') = true).
      { clear - Hnorep. induction ls as [|l2 ls IH2]; intros s Hp s' Hr; [simpl in Hr; injection Hr as <-; exact Hp|].
        simpl in Hr. destruct (Model.step c s l2) as [sy|] eqn:Hs2; [|discriminate]. eapply IH2; [|exact Hr].
        eapply hphase_mono; eauto. }
      rewrite (Hstay ls sx Epx s' Hr) in Hp'. discriminate.
    - cbn [hturns flat_map]. fold (hturns ls). rewrite (IH sx Epx s' Hr Hp'), app_nil_r.
      destruct l; try reflexivity; exfalso; cbn [Model.step] in Hs;
      destruct (pc s); try discriminate Hs; discriminate Hp. }
  apply (Hgen ls1 (init c) eq_refl s1 H1). rewrite Hp1. reflexivity.
Qed.

(* ---------------------------------------------------------------------------------------------- *)
(* The outcome is decided once (fix 08917f8): what Status reports at Done is what the handlers ran for *)
(* (before the fix a stop request arriving while the handlers ran relabelled the run canceled: F4a).   *)
(* ---------------------------------------------------------------------------------------------- *)
Lemma decided_kept s l s' o : step s l = Some s' -> decided s = Some o -> decided s' = Some o.
Proof.
  intros Hs Hd.
  destruct l; cbn [Model.step] in Hs; inv_guard Hs; injection Hs as <-; use_after;
    unfold set_nd, set_pc, set_err, set_hst; cbn [decided]; try assumption.
  unfold overall. rewrite Hd. reflexivity.
Qed.

Lemma decided_kept_run ls : forall s s' o, run c s ls = Some s' -> decided s = Some o -> decided s' = Some o.
Proof.
  induction ls as [|l ls IH]; simpl; intros s s' o Hr Hd; [injection Hr as <-; exact Hd|].
  destruct (step s l) eqn:Hs; [|discriminate]. eapply IH; [exact Hr|]. eapply decided_kept; eauto.
Qed.

(* C04: the outcome reported once the run is Done (what the agent persists) is the outcome the handlers ran for *)
Theorem outcome_stable ls1 ls2 s1 s2 s3 :
  run c (init c) ls1 = Some s1 -> step s1 HBegin = Some s2 -> run c s2 ls2 = Some s3 ->
  overall c s3 = overall c s1.
Proof.
  intros H1 H2 H3.
  assert (Hd2 : decided s2 = Some (overall c s1)).
  { cbn [Model.step] in H2. destruct (pc s1); try discriminate. destruct (all_gone c s1); [|discriminate].
    injection H2 as <-. reflexivity. }
  unfold overall at 1. rewrite (decided_kept_run ls2 s2 s3 _ H3 Hd2). reflexivity.
Qed.

(* ---------------------------------------------------------------------------------------------- *)
(* "finished" means the command ran and its last attempt succeeded - also in a stopped run.         *)
(* (Before fix ac08004 this was false: a step the loop had committed when the stop arrived was       *)
(*  launched afterwards, skipped its command and was reported finished - F5c.)                       *)
(* ---------------------------------------------------------------------------------------------- *)
Definition hdtrue (x : node) : Prop := exists fs, outs x = true :: fs.

Record RInv (s : state) : Prop := {
  r3 : forall i, ph (nd s i) = PEnded true -> dry c = false -> hdtrue (nd s i);
  r4 : forall i, ph (nd s i) = PPost -> st (nd s i) = NRunning -> dry c = false -> hdtrue (nd s i);
  r5 : forall i, st (nd s i) = NSuccess -> dry c = false -> hdtrue (nd s i)
}.

Lemma rinv_init : RInv (init c).
Proof. constructor; cbn; intros; discriminate. Qed.

Lemma r_step3 s l s' : Inv s -> RInv s -> step s l = Some s' ->
  forall j, ph (nd s' j) = PEnded true -> dry c = false -> hdtrue (nd s' j).
Proof.
  intros HI HSC Hs j. pose proof (r3 _ HSC) as S3.
  start_step HI Hs; try (apply S3).
  all: try (destruct (Nat.eqb_spec j i) as [->|Hne]; [|apply S3]); nsimpl; try (intros; discriminate); try (rewrite ?M; intros; discriminate).
  all: try (apply S3).
  - intros _ Hd. congruence.
  - intros X _. injection X as ->. eexists; reflexivity.
  - match goal with |- context [j =? ?k] => destruct (Nat.eqb_spec j k) as [->|Hne]; [|apply S3] end. nsimpl. apply S3.
Qed.

Lemma r_step4 s l s' : Inv s -> RInv s -> step s l = Some s' ->
  forall j, ph (nd s' j) = PPost -> st (nd s' j) = NRunning -> dry c = false -> hdtrue (nd s' j).
Proof.
  intros HI HSC Hs j. pose proof (r3 _ HSC) as S3. pose proof (r4 _ HSC) as S4.
  start_step HI Hs; try (apply S4).
  all: try (destruct (Nat.eqb_spec j i) as [->|Hne]; [|apply S4]); nsimpl; try (intros; discriminate); try (rewrite ?M; intros; discriminate).
  all: try (apply S4).
  all: try (intros _ X; destruct (st (nd s i)); discriminate).     (* WSkipExec: running -> canceled *)
  all: try (intros _ X; subst; destruct (dep_mark_values c s d _ M); discriminate).       (* LMark *)
  all: try (intros _ _ Hd; unfold hdtrue; nsimpl; apply S3; assumption).                 (* WAfter ok *)
  all: try (intros _ X; exfalso; intuition congruence).                                  (* WAfter: status seen *)
  all: try (match goal with |- context [?a =? ?k] => destruct (Nat.eqb_spec a k) as [->|Hne]; [|apply S4] end; nsimpl; intros; discriminate).
Qed.

Lemma r_step5 s l s' : Inv s -> RInv s -> step s l = Some s' ->
  forall j, st (nd s' j) = NSuccess -> dry c = false -> hdtrue (nd s' j).
Proof.
  intros HI HSC Hs j. pose proof (r4 _ HSC) as S4. pose proof (r5 _ HSC) as S5.
  start_step HI Hs; try (apply S5).
  all: try (destruct (Nat.eqb_spec j i) as [->|Hne]; [|apply S5]); nsimpl; try (intros; discriminate); try (apply S5).
  all: try (specialize (HA i); unfold coherent in HA; rewrite ?M in HA; intros X; exfalso; intuition congruence).
  all: try (specialize (HA i); unfold coherent in HA; rewrite ?M in HA; intros X; exfalso;
            destruct (st (nd s i)); try discriminate; intuition congruence).          (* WSkipExec *)
  - (* LMark *) intros X. subst. destruct (dep_mark_values c s d _ M); discriminate.
  - (* WFinish *) unfold hdtrue. nsimpl. destruct (st (nd s i)) eqn:Est; try (intros; discriminate).
    + intros _ Hd. apply (S4 i M Est Hd).
    + intros _ Hd. apply (S5 i Est Hd).
  - match goal with |- context [j =? ?k] => destruct (Nat.eqb_spec j k) as [->|Hne]; [|apply S5] end. nsimpl. intros; discriminate.
Qed.

Lemma rinv_step s l s' : Inv s -> RInv s -> step s l = Some s' -> RInv s'.
Proof.
  intros HI HSC Hs. constructor.
  - eapply r_step3; eauto.
  - eapply r_step4; eauto.
  - eapply r_step5; eauto.
Qed.

Lemma reach_rinv s : Reach c s -> RInv s.
Proof.
  intros [ls Hr]. revert Hr. generalize (inv_init c) rinv_init. generalize (init c).
  induction ls as [|l ls IH]; simpl; intros s0 HI HE Hr.
  - injection Hr as <-. auto.
  - destruct (step s0 l) eqn:Hs; [|discriminate]. eapply IH; [| |exact Hr].
    + eapply inv_step; eauto.
    + eapply rinv_step; eauto.
Qed.

(* C04: in every reachable state - stopped or not - a step reported finished did run and its last attempt succeeded *)
Theorem finished_means_ran s : Reach c s -> dry c = false ->
  forall i, st (nd s i) = NSuccess -> exists fs, outs (nd s i) = true :: fs.
Proof. intros Hr Hd i Hs. exact (r5 _ (reach_rinv s Hr) i Hs Hd). Qed.

End Stop.

(* ---------------------------------------------------------------------------------------------- *)
(* C05: stop.  These hold for every configuration (repeating steps included, done channel or not). *)
(* ---------------------------------------------------------------------------------------------- *)
Section StopGeneral.
Variable c : cfg.
Notation n := (nsteps c).

Definition post_phase (p : wphase) : Prop := p = PRepeatWait \/ p = PPost \/ p = PGone \/ p = PRetryWait.

Lemma after_shape s i ok e :
  (forall j, j <> i -> nd (after c s i ok e) j = nd s j) /\
  post_phase (ph (nd (after c s i ok e) i)) /\
  canceled (after c s i ok e) = canceled s /\ sigq (after c s i ok e) = sigq s /\
  (st (nd (after c s i ok e) i) = NRunning -> st (nd s i) = NRunning).
Proof.
  unfold after, tail, post_phase.
  repeat match goal with
  | |- context [if ?b then _ else _] => destruct b eqn:?
  | |- context [match ?x with _ => _ end] => destruct x eqn:?
  end;
  unfold set_nd, set_err, upd; cbn [nd canceled sigq]; rewrite ?Nat.eqb_refl; nsimpl;
  (split; [intros j Hj; apply Nat.eqb_neq in Hj; rewrite Hj; reflexivity|]);
  (split; [auto 6|]); (split; [congruence|]); (split; [reflexivity|]); try (intros; congruence); auto.
Qed.

(* the worker's cancel test is the only way into PStarting, and it needs the flag not set *)
Lemma starting_back s l s' : canceled s = true -> step c s l = Some s' ->
  forall i, ph (nd s' i) = PStarting -> ph (nd s i) = PStarting.
Proof.
  intros Hc Hs j.
  destruct l; cbn [step] in Hs; inv_guard Hs; injection Hs as <-; split_guard;
    unfold set_nd, set_pc, set_err, set_hst, upd; cbn [nd]; try (intros X; exact X); try congruence.
  all: try (destruct (Nat.eqb_spec j i) as [->|Hne]; [|intros X; exact X]; nsimpl; intros X; try discriminate X; try congruence).
  - (* WAfter *)
    destruct (after_shape s i ok early) as (Ho & Hp & _).
    destruct (Nat.eq_dec j i) as [->|Hne]; [|rewrite (Ho j Hne); auto].
    intros X. rewrite X in Hp. unfold post_phase in Hp. intuition discriminate.
  - match goal with |- context [j =? ?k] => destruct (Nat.eqb_spec j k) as [->|Hne]; [|intros X; exact X] end. nsimpl. auto.
Qed.

Lemma canceled_mono_g s l s' : step c s l = Some s' -> canceled s = true -> canceled s' = true.
Proof.
  intros Hs Hc.
  destruct l; cbn [step] in Hs; inv_guard Hs; injection Hs as <-;
    unfold set_nd, set_pc, set_err, set_hst; cbn [canceled]; auto.
  destruct (after_shape s i ok early) as (_ & _ & E & _). congruence.
Qed.

(* C05_no_new_start: once the stop flag is set, a command only starts in a worker that had already passed its cancel
   test (phase PStarting) when the flag was set ... *)
Theorem no_new_start ls : forall s s', canceled s = true -> run c s ls = Some s' ->
  forall i, In (WExecStart i) ls -> ph (nd s i) = PStarting.
Proof.
  induction ls as [|l ls IH]; intros s s' Hc Hr i Hin; [destruct Hin|].
  simpl in Hr. destruct (step c s l) as [s1|] eqn:Hs; [|discriminate].
  destruct Hin as [->|Hin].
  - cbn [step] in Hs. destruct (ph (nd s i)); try discriminate. reflexivity.
  - eapply starting_back; [exact Hc|exact Hs|]. eapply IH; [eapply canceled_mono_g; eauto|exact Hr|exact Hin].
Qed.

(* ... and only once: a repeating step finishes its iteration and is not re-entered, a retry is not taken *)
Theorem started_at_most_once a b i s s' : canceled s = true -> run c s (a ++ WExecStart i :: b) = Some s' ->
  ~ In (WExecStart i) b.
Proof.
  revert s. induction a as [|l a IH]; intros s Hc Hr Hin.
  - change (run c s (WExecStart i :: b) = Some s') in Hr. cbn [run] in Hr.
    destruct (step c s (WExecStart i)) as [s1|] eqn:Hs; [|discriminate].
    pose proof (no_new_start b s1 s' (canceled_mono_g _ _ _ Hs Hc) Hr i Hin) as X.
    cbn [step] in Hs. destruct (ph (nd s i)); try discriminate.
    destruct ((i <? n) && negb (dry c) && negb (timedout s) && negb (create_fails c s i)); [|discriminate]. injection Hs as <-.
    unfold set_nd, upd in X. cbn [nd] in X. rewrite Nat.eqb_refl in X. discriminate.
  - change (run c s (l :: (a ++ WExecStart i :: b)) = Some s') in Hr. cbn [run] in Hr.
    destruct (step c s l) as [s1|] eqn:Hs; [|discriminate].
    exact (IH s1 (canceled_mono_g _ _ _ Hs Hc) Hr Hin).
Qed.

(* the handlers whose command is started are those whose turn came and whose set-up does not fail *)
Lemma starts_of_turns ls : forall s s', run c s ls = Some s' ->
  hstarts ls = filter (fun h => negb (hsfail c h)) (hturns ls).
Proof.
  induction ls as [|l ls IH]; intros s s' Hr; [reflexivity|].
  simpl in Hr. destruct (step c s l) as [s1|] eqn:Hs; [|discriminate].
  cbn [hstarts hturns flat_map]. fold (hstarts ls). fold (hturns ls).
  rewrite filter_app, <- (IH s1 s' Hr). f_equal.
  destruct l; try reflexivity; cbn [step] in Hs; inv_guard Hs; split_guard; cbn [hstart_of hturn_of filter].
  - match goal with H : hsfail c _ = false |- _ => rewrite H end. reflexivity.
  - match goal with H : hsfail c _ = true |- _ => rewrite H end. reflexivity.
Qed.

(* a repeating step is not signalled: the pass skips it *)
Lemma signode_skips_repeat s k i q s' : sigq s = i :: q -> repeat (steps c i) = true ->
  step c s (SigNode k) = Some s' -> k = false /\ nd s' = nd s.
Proof.
  intros Hq Hr Hs. cbn [step] in Hs. rewrite Hq, Hr in Hs. destruct k; [discriminate|]. injection Hs as <-. auto.
Qed.

(* C05_signal_reaches, first half: in a stopped run every non-repeating step whose worker is past its cancel test and
   whose node is still running is still in the queue of a Signal pass (nobody can take it out but the pass itself,
   which flips it to canceled) *)
Definition KInv (s : state) : Prop :=
  canceled s = true -> forall i, i < n -> (ph (nd s i) = PStarting \/ ph (nd s i) = PExec) ->
  st (nd s i) = NRunning -> repeat (steps c i) = false -> In i (sigq s).

Lemma kinv_step s l s' : KInv s -> step c s l = Some s' -> KInv s'.
Proof.
  intros HK Hs Hc j Hj Hp Hr Hrep. unfold KInv in HK.
  destruct l; cbn [step] in Hs; inv_guard Hs; injection Hs as <-; split_guard;
    unfold set_nd, set_pc, set_err, set_hst, upd in *; cbn [nd canceled sigq] in *;
    try (apply HK; assumption); try congruence.
  all: try (destruct (Nat.eqb_spec j i) as [->|Hne]; [|apply HK; assumption]); nsimpl;
       try (destruct Hp; discriminate); try (apply HK; auto; rewrite ?M; auto; fail).
  all: try (match goal with H : context [?x =? ?k] |- In _ _ => destruct (Nat.eqb_spec x k) as [->|Hne]; [nsimpl; discriminate|] end).
  all: try (match goal with M : sigq _ = ?a :: ?q |- In _ ?q =>
         let X := fresh "X" in
         assert (X : In j (a :: q)) by (first [apply HK; assumption|rewrite <- M; apply HK; assumption]);
         destruct X as [X|X]; [subst; congruence|exact X] end).
  - (* LMark *) exfalso. destruct (dep_mark c s d) as [m|] eqn:Em; [|discriminate]. injection M as <-.
    unfold dep_mark in Em. destruct (st (nd s d)); try discriminate; try destruct (cof (steps c d)); try destruct (cos (steps c d));
      try discriminate; injection Em as <-; discriminate.
  - (* WAfter *)
    destruct (after_shape s i ok early) as (Ho & Hpp & Ec & Eq & Hrun).
    rewrite Eq. rewrite Ec in Hc.
    destruct (Nat.eq_dec j i) as [->|Hne].
    + exfalso. unfold post_phase in Hpp. destruct Hp as [X|X]; rewrite X in Hpp; intuition discriminate.
    + rewrite (Ho j Hne) in *. apply HK; assumption.
  - (* SigFlag *) apply in_or_app. right. apply in_seq. lia.
Qed.
End StopGeneral.

Section StopMore.
Variable c : cfg.
Notation n := (nsteps c).

Lemma kinv_init : KInv c (init c).
Proof. intros H. cbn in H. discriminate. Qed.

Theorem signal_reaches s : Reach c s -> KInv c s.
Proof.
  intros [ls Hr]. revert Hr. generalize kinv_init. generalize (init c).
  induction ls as [|l ls IH]; simpl; intros s0 HK Hr.
  - injection Hr as <-. exact HK.
  - destruct (step c s0 l) eqn:Hs; [|discriminate]. eapply IH; [|exact Hr]. eapply kinv_step; eauto.
Qed.

(* when the pass reaches an executing, still running, non-repeating step it forwards the signal (Kill) and flips it *)
Lemma kill_when_popped s k i q s' : Inv c s -> sigq s = i :: q -> ph (nd s i) = PExec -> st (nd s i) = NRunning ->
  repeat (steps c i) = false -> step c s (SigNode k) = Some s' -> k = true /\ st (nd s' i) = NCancel.
Proof.
  intros HI Hq Hp Hst Hrep Hs. pose proof (iD _ _ HI i) as HD. unfold counts in HD. rewrite Hp in HD.
  destruct HD as [_ Hatt].
  cbn [step] in Hs. rewrite Hq, Hrep, Hst in Hs.
  assert (Ha : (0 <? att (nd s i)) = true) by (apply Nat.ltb_lt; lia). rewrite Ha in Hs.
  destruct k; cbn in Hs; [|discriminate]. injection Hs as <-. split; [reflexivity|].
  unfold set_nd, upd. cbn [nd]. rewrite Nat.eqb_refl. reflexivity.
Qed.

(* a run reported canceled gets the cancel handler, then the exit handler *)
Lemma cancel_handlers s : overall c s = OCancel -> handlers_for c s = filter (hon c) [HCancel; HExit].
Proof. intros H. unfold handlers_for. rewrite H. reflexivity. Qed.

(* after the deadline no step command starts (the executor refuses the expired context); the handlers are not bound by
   the steps' deadline (fix 246fa0b) *)
Lemma timeout_no_start s : timedout s = true -> forall i, step c s (WExecStart i) = None.
Proof.
  intros Ht i. cbn [step]. destruct (ph (nd s i)); try reflexivity. rewrite Ht, Bool.andb_false_r. reflexivity.
Qed.

(* ... a chosen handler's command does start after a timeout *)
Lemma handler_starts_after_timeout s h t0 : pc s = LHandlers (h :: t0) false -> dry c = false ->
  hsfail c h = false -> exists s', step c s (HStart h) = Some s'.
Proof.
  intros Hp Hd Hf. cbn [step]. rewrite Hp, Hd, Hf.
  assert (handler_eqb h h = true) as -> by (destruct h; reflexivity). eexists. reflexivity.
Qed.

(* the escalation reaches a live command: a non-repeating step whose command executes is forwarded the signal by EVERY
   pass that reaches it - also when an earlier pass has already flipped it to canceled (fix 767545b, F5a) *)
Lemma escalation_reaches s k i q s' : Inv c s -> sigq s = i :: q -> ph (nd s i) = PExec ->
  repeat (steps c i) = false -> step c s (SigNode k) = Some s' -> k = true /\ ph (nd s' i) = PExec.
Proof.
  intros HI Hq Hp Hrep Hs. pose proof (iD _ _ HI i) as HD. unfold counts in HD. rewrite Hp in HD.
  destruct HD as [_ Hatt]. pose proof (iA _ _ HI i) as HA. unfold coherent in HA. rewrite Hp in HA.
  cbn [step] in Hs. rewrite Hq, Hrep in Hs.
  assert (Ha : (0 <? att (nd s i)) = true) by (apply Nat.ltb_lt; lia).
  destruct HA as [Hst|Hst]; rewrite Hst in Hs.
  - rewrite Ha in Hs. destruct k; cbn in Hs; [|discriminate]. injection Hs as <-. split; [reflexivity|].
    unfold set_nd, upd. cbn [nd]. rewrite Nat.eqb_refl. exact Hp.
  - rewrite Hp in Hs. destruct k; cbn in Hs; [|discriminate]. injection Hs as <-. split; [reflexivity|exact Hp].
Qed.

(* a command that was executing when the deadline passed and then ends is labelled canceled, the run failed *)
Lemma timeout_cuts s i : norepeat c -> ph (nd s i) = PEnded false -> st (nd s i) = NRunning ->
  timedout s = true -> i < n ->
  exists s', step c s (WAfter i false) = Some s' /\ st (nd s' i) = NCancel /\
             (ph (nd s' i) = PGone \/ ph (nd s' i) = PPost) /\ lasterr s' = true.
Proof.
  intros Hn Hp Hst Ht Hi. cbn [step]. rewrite Hp. apply Nat.ltb_lt in Hi. rewrite Hi. cbn [negb orb andb].
  eexists. split; [reflexivity|].
  unfold after, tail. rewrite Hst, Ht, (Hn i). cbn [andb].
  unfold set_nd, set_err, upd. cbn [nd lasterr]. rewrite Nat.eqb_refl. nsimpl. destruct (donech c); auto.
Qed.
(* the deadline is tested before the retry policy: after the timeout no step is handed back for a retry, and its
   retry count does not grow any more *)
Lemma timeout_no_retry s i early s' : timedout s = true -> step c s (WAfter i early) = Some s' ->
  ph (nd s' i) <> PRetryWait /\ rc (nd s' i) = rc (nd s i).
Proof.
  intros Ht Hs. cbn [step] in Hs. destruct (ph (nd s i)) eqn:Hp; try discriminate.
  destruct ((i <? nsteps c) && (negb early || (negb ok && nstatus_eqb (st (nd s i)) NCancel))); [|discriminate].
  injection Hs as <-. unfold after, tail. rewrite Ht.
  destruct ok.
  - unfold set_nd, upd. cbn [nd]. rewrite Nat.eqb_refl.
    destruct (repeat (steps c i) && negb (canceled s)); unfold count_done; destruct (st (nd s i)); cbn; (split; [discriminate|reflexivity]).
  - destruct (if early then NRunning else st (nd s i)) eqn:E;
      unfold set_nd, set_err, upd; cbn [nd]; rewrite Nat.eqb_refl;
      unfold count_done; try (destruct (st (nd s i))); cbn;
      repeat (match goal with |- context [if ?b then _ else _] => destruct b end);
      (split; [discriminate|reflexivity]).
Qed.
End StopMore.
