(* Soundness of the trace acceptor: an accepted trace is the visible projection of an execution of the model
   that ends in Done with the observed final node table, Schedule error and Status.  Hence every theorem proved for
   all executions (Props/C01 C02 C03 C15) applies to every accepted run of the real scheduler.
   (Completeness is what the correspondence run measures: a real trace that is rejected is a break.) *)
From Coq Require Import List Arith Bool ZArith PeanoNat.
Import ListNotations.
From BD.Sched Require Import Model Replay.

Inductive vevent := VStart (i : nat) | VEnd (i : nat) (ok : bool).

Definition vis_of (l : label) : option vevent :=
  match l with
  | WExecStart i => Some (VStart i)
  | WExecEnd i ok => Some (VEnd i ok)
  | _ => None
  end.
Fixpoint vis (ls : list label) : list vevent :=
  match ls with
  | [] => []
  | l :: ls' => match vis_of l with Some v => v :: vis ls' | None => vis ls' end
  end.
(* the visible projection is about COMMANDS (entries and exits of Run): an attempt that ended because its command could
   not be created is an event of the harness (the Creator was called) but contributes nothing to it *)
Definition untime1 (e : event) : list vevent :=
  match e with EStart i _ => [VStart i] | EEnd i ok _ => [VEnd i ok] | ECreateFail _ _ => [] end.
Definition untime (tr : list event) : list vevent := flat_map untime1 tr.

Lemma vis_app a b : vis (a ++ b) = vis a ++ vis b.
Proof. induction a as [|l a IH]; simpl; [reflexivity|]. destruct (vis_of l); simpl; rewrite IH; reflexivity. Qed.

Lemma run_app c s a b s1 s2 : run c s a = Some s1 -> run c s1 b = Some s2 -> run c s (a ++ b) = Some s2.
Proof.
  revert s. induction a as [|l a IH]; simpl; intros s H1 H2.
  - injection H1 as ->. exact H2.
  - destruct (step c s l); [eauto|discriminate].
Qed.

Section S.
Variable c : cfg.
Variable ivl : nat -> Z.
Variable eps : Z.
Variable fin : nat -> fin_entry.

Definition good (r : rstate) : Prop := run c (init c) (rev (lbl r)) = Some (ms r).
Definition visl (r : rstate) : list vevent := vis (rev (lbl r)).

Lemma app_good r l r' : good r -> app c r l = Some r' -> good r' /\ visl r' = visl r ++ vis [l].
Proof.
  unfold good, app, visl. intros Hg H. destruct (step c (ms r) l) eqn:Hs; [|discriminate].
  injection H as <-. cbn [lbl ms]. split.
  - simpl. eapply run_app; [exact Hg|]. simpl. rewrite Hs. reflexivity.
  - simpl. apply vis_app.
Qed.

Lemma try_good r l : vis_of l = None -> good r -> good (try c r l) /\ visl (try c r l) = visl r.
Proof.
  intros Hh Hg. unfold try. destruct (app c r l) eqn:Ha; [|auto].
  destruct (app_good r l r0 Hg Ha) as [H1 H2]. split; auto. rewrite H2. simpl. rewrite Hh. apply app_nil_r.
Qed.

Lemma try2_good r l1 l2 : vis_of l1 = None -> vis_of l2 = None -> good r ->
  good (try2 c r l1 l2) /\ visl (try2 c r l1 l2) = visl r.
Proof.
  intros H1 H2 Hg. unfold try2. destruct (app c r l1) eqn:Ha; [|auto].
  destruct (app_good r l1 r0 Hg Ha) as [G1 V1].
  destruct (app c r0 l2) eqn:Hb; [|auto].
  destruct (app_good r0 l2 r1 G1 Hb) as [G2 V2]. split; auto.
  rewrite V2, V1. simpl. rewrite H1, H2. rewrite !app_nil_r. reflexivity.
Qed.

Definition keeps (f : rstate -> rstate) : Prop := forall r, good r -> good (f r) /\ visl (f r) = visl r.

Lemma keeps_id : keeps (fun r => r). Proof. intros r H. auto. Qed.
Lemma keeps_comp f g : keeps f -> keeps g -> keeps (fun r => g (f r)).
Proof. intros Hf Hg r H. destruct (Hf r H) as [A B]. destruct (Hg _ A) as [C D]. split; auto. congruence. Qed.

Ltac keeps_cases :=
  intros r Hg;
  repeat match goal with
  | |- context [match ?x with _ => _ end] => destruct x
  | |- context [if ?x then _ else _] => destruct x
  end;
  try (split; [assumption|reflexivity]);
  try (apply try_good; [reflexivity|assumption]);
  try (apply try2_good; [reflexivity|reflexivity|assumption]).

Lemma st_after_keeps i : keeps (st_after c i).
Proof. unfold st_after. keeps_cases. Qed.
Lemma st_finish_keeps i : keeps (st_finish c i).
Proof. unfold st_finish. keeps_cases. Qed.
Lemma st_wake_keeps now i : keeps (st_wake c ivl eps now i).
Proof. unfold st_wake. keeps_cases. Qed.
Lemma st_mark_keeps i : keeps (st_mark c fin i).
Proof. unfold st_mark. keeps_cases. Qed.
Lemma st_hidden_keeps i : keeps (st_hidden c i).
Proof. unfold st_hidden. keeps_cases. Qed.
Lemma st_dry_keeps i : keeps (st_dry c i).
Proof. unfold st_dry. keeps_cases. Qed.
Lemma st_setup_keeps i : keeps (st_setup c i).
Proof.
  unfold st_setup. intros r Hg. destruct (ph (nd (ms r) i)); try (split; [assumption|reflexivity]).
  destruct (dry c || setup_fails c i); [|split; [assumption|reflexivity]].
  destruct (try_good r (WSetupFail i) eq_refl Hg) as [G1 V1].
  destruct (try_good _ (WTest i) eq_refl G1) as [G2 V2]. split; auto. congruence.
Qed.

Lemma pass_node_keeps now i r : good r ->
  good (pass_node c ivl eps fin now r i) /\ visl (pass_node c ivl eps fin now r i) = visl r.
Proof.
  unfold pass_node. intros Hg.
  destruct (st_after_keeps i r Hg) as [G1 V1].
  destruct (st_finish_keeps i _ G1) as [G2 V2].
  destruct (st_wake_keeps now i _ G2) as [G3 V3].
  destruct (st_mark_keeps i _ G3) as [G4 V4].
  destruct (st_hidden_keeps i _ G4) as [G5 V5].
  destruct (st_setup_keeps i _ G5) as [G6 V6].
  destruct (st_dry_keeps i _ G6) as [G7 V7].
  destruct (st_after_keeps i _ G7) as [G8 V8].
  destruct (st_finish_keeps i _ G8) as [G9 V9].
  split; [exact G9|]. congruence.
Qed.

(* generic in the visited function, so that no conversion ever looks inside pass_node *)
Lemma fold_keeps (f : rstate -> nat -> rstate)
  (Hf : forall i r, good r -> good (f r i) /\ visl (f r i) = visl r) l :
  forall r, good r -> good (fold_left f l r) /\ visl (fold_left f l r) = visl r.
Proof.
  induction l as [|i l IH]; intros r Hg; cbn [fold_left]; [split; [assumption|reflexivity]|].
  destruct (Hf i r Hg) as [G V]. destruct (IH _ G) as [G' V']. split; [exact G'|]. rewrite V'. exact V.
Qed.

Lemma pass_keeps now r : good r -> good (pass c ivl eps fin now r) /\ visl (pass c ivl eps fin now r) = visl r.
Proof. intros Hg. unfold pass. apply fold_keeps; [intros i r0 H0; apply pass_node_keeps; exact H0|exact Hg]. Qed.

Lemma norm_keeps fuel now : forall r, good r ->
  good (norm c ivl eps fin fuel now r) /\ visl (norm c ivl eps fin fuel now r) = visl r.
Proof.
  induction fuel as [|f IH]; cbn [norm]; intros r Hg; [split; [assumption|reflexivity]|].
  destruct (pass_keeps now r Hg) as [G V].
  destruct (length (lbl (pass c ivl eps fin now r)) =? length (lbl r)); [split; [exact G|exact V]|].
  destruct (IH _ G) as [G' V']. split; [exact G'|]. rewrite V'. exact V.
Qed.

Lemma feed_good r e r' : good r -> feed c ivl eps fin r e = Some r' -> good r' /\ visl r' = visl r ++ untime1 e.
Proof.
  intros Hg Hf. destruct e as [i t|i ok t|i t]; cbn [feed] in Hf.
  - destruct (norm_keeps (2 * nsteps c + 2) t r Hg) as [G0 V0].
    destruct (app c _ (LCommit i)) as [r1|] eqn:H1; [|discriminate].
    destruct (app c r1 (LLaunch i)) as [r2|] eqn:H2; [|discriminate].
    destruct (app c r2 (WTest i)) as [r3|] eqn:H3; [|discriminate].
    destruct (app_good _ _ _ G0 H1) as [G1 V1]. destruct (app_good _ _ _ G1 H2) as [G2 V2].
    destruct (app_good _ _ _ G2 H3) as [G3 V3]. destruct (app_good _ _ _ G3 Hf) as [G4 V4].
    split; auto. rewrite V4, V3, V2, V1, V0. simpl. rewrite !app_nil_r. reflexivity.
  - destruct (app c r (WExecEnd i ok)) as [r1|] eqn:H1; [|discriminate].
    destruct (app_good _ _ _ Hg H1) as [G1 V1]. injection Hf as <-.
    unfold good, visl in *. cbn [lbl ms]. split; auto.
  - destruct (norm_keeps (2 * nsteps c + 2) t r Hg) as [G0 V0].
    destruct (app c _ (LCommit i)) as [r1|] eqn:H1; [|discriminate].
    destruct (app c r1 (LLaunch i)) as [r2|] eqn:H2; [|discriminate].
    destruct (app c r2 (WTest i)) as [r3|] eqn:H3; [|discriminate].
    destruct (app c r3 (WCreateFail i)) as [r4|] eqn:H4; [|discriminate].
    destruct (app_good _ _ _ G0 H1) as [G1 V1]. destruct (app_good _ _ _ G1 H2) as [G2 V2].
    destruct (app_good _ _ _ G2 H3) as [G3 V3]. destruct (app_good _ _ _ G3 H4) as [G4 V4].
    injection Hf as <-. unfold good, visl in *. cbn [lbl ms]. split; [exact G4|].
    rewrite V4, V3, V2, V1, V0. simpl. rewrite !app_nil_r. reflexivity.
Qed.

Lemma feed_all_good es : forall r idx r', good r -> feed_all c ivl eps fin r es idx = (r', None) ->
  good r' /\ visl r' = visl r ++ untime es.
Proof.
  induction es as [|e es IH]; simpl; intros r idx r' Hg H.
  - injection H as <-. split; auto. rewrite app_nil_r. reflexivity.
  - destruct (feed c ivl eps fin r e) as [r1|] eqn:Hf; [|discriminate].
    destruct (feed_good _ _ _ Hg Hf) as [G1 V1]. destruct (IH _ _ _ G1 H) as [G2 V2].
    split; auto. rewrite V2, V1, <- app_assoc. reflexivity.
Qed.

Lemma good_init : good (r_init c).
Proof. reflexivity. Qed.

(* accept = true -> there is an execution of the model with that visible projection, ending in Done, whose final node
   table, Schedule error and Status are the observed ones *)
Theorem accept_sound tr err status : accept c ivl eps fin tr err status = true ->
  exists ls s, run c (init c) ls = Some s /\ vis ls = untime tr /\ pc s = LDone /\
               final_ok c fin s = true /\ lasterr s = err /\ ocode (overall c s) = status.
Proof.
  unfold accept, replay. intros H.
  destruct (feed_all c ivl eps fin (r_init c) tr 0) as [r o] eqn:Hfa. destruct o; [discriminate|].
  destruct (feed_all_good tr _ _ _ good_init Hfa) as [G0 V0].
  destruct (norm_keeps (2 * nsteps c + 3) big r G0) as [G1 V1].
  destruct (app c _ LExit) as [r1|] eqn:H1; [|discriminate].
  destruct (app c r1 HBegin) as [r2|] eqn:H2; [|discriminate].
  destruct (app c r2 HFinish) as [r3|] eqn:H3; [|discriminate].
  destruct (app_good _ _ _ G1 H1) as [G2 V2]. destruct (app_good _ _ _ G2 H2) as [G3 V3].
  destruct (app_good _ _ _ G3 H3) as [G4 V4].
  destruct (negb (final_ok c fin (ms r3))) eqn:Hfo; [discriminate|].
  destruct (negb (Bool.eqb (lasterr (ms r3)) err && (ocode (overall c (ms r3)) =? status))) eqn:Hes; [discriminate|].
  apply negb_false_iff in Hfo. apply negb_false_iff in Hes. apply andb_true_iff in Hes. destruct Hes as [He Hst].
  exists (rev (lbl r3)), (ms r3). split; [exact G4|].
  split. { unfold visl in *. rewrite V4, V3, V2, V1, V0. simpl. rewrite !app_nil_r. reflexivity. }
  split.
  { unfold app in H3. destruct (step c (ms r2) HFinish) eqn:Hs; [|discriminate]. injection H3 as <-. cbn [ms].
    cbn [step] in Hs. destruct (pc (ms r2)); try discriminate. destruct todo; try discriminate.
    destruct cur; try discriminate. injection Hs as <-. reflexivity. }
  split; [exact Hfo|]. split; [apply Bool.eqb_prop; exact He|apply Nat.eqb_eq; exact Hst].
Qed.

End S.
