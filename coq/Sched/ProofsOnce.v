(* C03, first sentence read literally: without a retryPolicy (limit 0) a runnable step's command is executed exactly once
   in a run that ends without a stop, and a step that is not runnable never.  Corollary of ProofsFinal.exact_attempts. *)
From Coq Require Import List Bool Arith Lia.
Import ListNotations.
From BD.Sched Require Import Model Proofs ProofsFinal.

Theorem exactly_once (c : cfg) : norepeat c ->
  forall s, Reach c s -> quiet s -> pc s = LDone -> dry c = false -> forall i, i < nsteps c ->
  rlimit (steps c i) = 0 ->
  (runnable c s i = true -> att (nd s i) = 1 /\ rc (nd s i) = 0) /\ (runnable c s i = false -> att (nd s i) = 0).
Proof.
  intros Hn s R Q D Dr i Hi L.
  destruct (exact_attempts c Hn s R Q D Dr i Hi) as [A B]. split; [|exact B].
  intros Hr. destruct (A Hr) as [last [fs [_ [_ [_ [E [Le _]]]]]]]. rewrite L in Le. lia.
Qed.
