(* Sched: the step scheduler of internal/dag/scheduler/{scheduler.go,node.go} as an executable labelled
   transition system.  Executable definitions only (no proofs).  DESIGN.md section 5.0 / Appendix A.2.

   One label = one atomic section of the code (a section delimited by the node mutex / scheduler mutex,
   executed by the loop thread, by a worker goroutine, by Signal, or by the environment):

     loop thread (Schedule, scheduler.go:113-227)
       LMark i d      isReady marks the not-started node i canceled/skipped because of dependency d (:360-389)
       LCommit i      node i passed: status none, isReady, cancel check (:122), capacity check (:125)
       LLaunch i      its preconditions held (:129): status := running (:141), worker goroutine created
       LSkipPre i     its preconditions failed: status := skipped (:133)
       LExit          loop left: every node terminal, or cancel flag (:113-116)
     worker goroutine of node i (:142-223)
       WSetupFail i   node.setup failed: status := failed, lastError (:149-153)
       WTest i        loop test `setupSucceed && !canceled` passed (:159)
       WSkipExec i    ... failed because of the cancel flag: the command is never run and (fix ac08004, F5c) a node that
                      is still running is labelled canceled, not finished (:224-232)
       WExecStart i   the executor's Run is entered (visible RunStart; n.cmd exists from here on)
       WDryExec i     dry run: execNode returns nil at once (:281-286)
       WExecRefused i after the deadline the executor refuses to start (expired context); WExecStart needs the deadline not passed
       WCreateFail i  the command of this attempt cannot be created (node.setupExec fails: the step's first cfails
                      attempts): the attempt is over, failed, without a command having been started (Node.Execute returns
                      before cmd.Run) - it counts as an attempt (att, outs) but is no WExecStart
       WExecEnd i ok  Run returns (environment chooses ok)
       WAfter i early the error switch (:161-193), doneCount (:195), repeat test (:198), done channel (:206);
                      early = the status read at :162 preceded a Signal that has flipped the node since
                      (a command that fails while the cancel flag is set is labelled canceled: fix 614b59e)
       WRetryWake i   after the retry interval: status := none, unconditionally (:187)
       WRepeatWake i  after the repeat interval: back to the loop test
       WFinish i      running -> finished (:213), worker gone
       (the worker that handed a retried node back to the loop returns at once - since fix f9e55a3 also when Schedule
        was called with done == nil; before, it fell through to :213 and could flip the relaunched attempt to finished:
        findings/C01-done-nil-stale-flip.json.  The node field `stale` is a leftover of that transition, always 0.)
     Signal (:291-312, node.go:244-259)
       SigFlag        cancel flag set; the per-node pass is queued
       SigNode k      next node of the pass: repeat steps skipped, running -> canceled; k = Kill forwarded to the executor
                      (also to a node already canceled whose command still executes: fix 767545b)
     Timeout          the DAG deadline passes (isTimeout becomes true, contexts expire)
     after wg.Wait() (:228-258)
       HBegin         handlers chosen from Status(g)
       HStart h / HEnd h ok / HSkip h (dry) / HSetupFail h (node.setup of the handler fails: marked failed, not run, the
       next handler follows) / HFinish      (the handlers run with the context of the whole run, not
                      with the steps' deadline: fix 246fa0b, F5d)

   Idle polling iterations change nothing and carry no label. *)
From Coq Require Import List Arith Bool PeanoNat.
Import ListNotations.

Inductive nstatus := NNone | NRunning | NError | NCancel | NSuccess | NSkipped.
Inductive wphase :=
| PIdle | PSetup | PStarting | PExec | PEnded (ok : bool) | PRetryWait | PRepeatWait | PPost | PGone.

Record stepdef := { deps : list nat; cof : bool; cos : bool; rlimit : nat; pre : bool; sfail : bool; repeat : bool;
                    cfails : nat }.
(* pre: the outcome the step's preconditions will have; sfail: node.setup will fail (I/O); cfails: the creation of the
   step's command (node.setupExec: executor.NewExecutor) fails in its first cfails attempts - the attempt ends in error
   without a command having been started (Node.Execute returns before cmd.Run) *)

Inductive handler := HSuccess | HFailure | HCancel | HExit.
Inductive ostatus := ONone | ORunning | OError | OCancel | OSuccess.     (* Scheduler.Status *)

Record cfg := {
  nsteps : nat;
  steps : nat -> stepdef;
  maxActive : nat;
  dry : bool;
  donech : bool;       (* Schedule called with done != nil (the agent always does: agent.go:190,368) *)
  sigs : nat;          (* number of Signal calls the environment may make *)
  tmo : bool;          (* a DAG timeout is configured *)
  hon : handler -> bool;
  hsfail : handler -> bool }.   (* node.setup of the handler's node will fail (I/O): scheduler.go runHandlerNode *)

(* outs: ghost, outcomes of the attempts so far, latest first *)
Record node := { st : nstatus; rc : nat; dc : nat; att : nat; ph : wphase; stale : nat; outs : list bool }.
Record hnode := { hs : nstatus; hatt : nat }.

Inductive lpc := LHead | LCommitted (i : nat) | LExited | LHandlers (todo : list handler) (cur : bool) | LDone.

Record state := {
  nd : nat -> node;
  canceled : bool;
  lasterr : bool;
  timedout : bool;
  pc : lpc;
  sigq : list nat;
  sigleft : nat;
  hst : handler -> hnode;
  decided : option ostatus }. (* the outcome the handlers were chosen for; Status reports it from then on (fix 08917f8, F4a) *)

Inductive label :=
| LMark (i d : nat) | LCommit (i : nat) | LLaunch (i : nat) | LSkipPre (i : nat) | LExit
| WSetupFail (i : nat) | WTest (i : nat) | WSkipExec (i : nat) | WExecStart (i : nat) | WDryExec (i : nat)
| WExecRefused (i : nat) | WCreateFail (i : nat) | WExecEnd (i : nat) (ok : bool) | WAfter (i : nat) (early : bool)
| WRetryWake (i : nat) | WRepeatWake (i : nat) | WFinish (i : nat)
| SigFlag | SigNode (k : bool) | Timeout
| HBegin | HStart (h : handler) | HEnd (h : handler) (ok : bool) | HSkip (h : handler) | HSetupFail (h : handler)
| HFinish.

Definition nstatus_eqb (a b : nstatus) : bool :=
  match a, b with
  | NNone, NNone | NRunning, NRunning | NError, NError | NCancel, NCancel | NSuccess, NSuccess | NSkipped, NSkipped => true
  | _, _ => false end.
Definition handler_eqb (a b : handler) : bool :=
  match a, b with
  | HSuccess, HSuccess | HFailure, HFailure | HCancel, HCancel | HExit, HExit => true
  | _, _ => false end.

Definition upd (f : nat -> node) (i : nat) (x : node) : nat -> node := fun j => if j =? i then x else f j.
Definition hupd (f : handler -> hnode) (h : handler) (x : hnode) : handler -> hnode :=
  fun k => if handler_eqb k h then x else f k.

Definition set_nd (s : state) (i : nat) (x : node) : state :=
  {| nd := upd (nd s) i x; canceled := canceled s; lasterr := lasterr s; timedout := timedout s; pc := pc s;
     sigq := sigq s; sigleft := sigleft s; hst := hst s; decided := decided s |}.
Definition set_pc (s : state) (p : lpc) : state :=
  {| nd := nd s; canceled := canceled s; lasterr := lasterr s; timedout := timedout s; pc := p;
     sigq := sigq s; sigleft := sigleft s; hst := hst s; decided := decided s |}.
Definition set_err (s : state) : state :=
  {| nd := nd s; canceled := canceled s; lasterr := true; timedout := timedout s; pc := pc s;
     sigq := sigq s; sigleft := sigleft s; hst := hst s; decided := decided s |}.
Definition set_hst (s : state) (h : handler) (x : hnode) : state :=
  {| nd := nd s; canceled := canceled s; lasterr := lasterr s; timedout := timedout s; pc := pc s;
     sigq := sigq s; sigleft := sigleft s; hst := hupd (hst s) h x; decided := decided s |}.

Definition with_st (x : node) (v : nstatus) : node :=
  {| st := v; rc := rc x; dc := dc x; att := att x; ph := ph x; stale := stale x; outs := outs x |}.
Definition with_ph (x : node) (p : wphase) : node :=
  {| st := st x; rc := rc x; dc := dc x; att := att x; ph := p; stale := stale x; outs := outs x |}.
Definition inc_dc (x : node) : node :=
  {| st := st x; rc := rc x; dc := S (dc x); att := att x; ph := ph x; stale := stale x; outs := outs x |}.
(* doneCount is incremented unless the node is canceled (:195) *)
Definition count_done (x : node) : node := match st x with NCancel => x | _ => inc_dc x end.

Section WithCfg.
Variable c : cfg.
Notation n := (nsteps c).

(* ---- the readiness gate, one dependency (isReady, :360-389) ---- *)
Definition dep_ok (s : state) (d : nat) : bool :=
  match st (nd s d) with
  | NSuccess => true
  | NError => cof (steps c d)
  | NSkipped => cos (steps c d)
  | _ => false
  end.
Definition dep_mark (s : state) (d : nat) : option nstatus :=
  match st (nd s d) with
  | NError => if cof (steps c d) then None else Some NCancel
  | NSkipped => if cos (steps c d) then None else Some NSkipped
  | NCancel => Some NCancel
  | _ => None
  end.
Definition ready (s : state) (i : nat) : bool := forallb (dep_ok s) (deps (steps c i)).

Definition active (p : wphase) : bool :=
  match p with PIdle | PPost | PGone => false | _ => true end.
Definition is_running (x : node) : bool := nstatus_eqb (st x) NRunning.
Definition running_count (s : state) : nat :=
  length (filter (fun j => is_running (nd s j)) (seq 0 n)).
Definition terminal (v : nstatus) : bool := match v with NNone | NRunning => false | _ => true end.
Definition all_terminal (s : state) : bool := forallb (fun j => terminal (st (nd s j))) (seq 0 n).
Definition worker_gone (x : node) : bool :=
  match ph x with PIdle | PGone => stale x =? 0 | _ => false end.
Definition all_gone (s : state) : bool := forallb (fun j => worker_gone (nd s j)) (seq 0 n).

(* ---- Scheduler.Status (:323-337) ---- *)
Definition is_succeed (s : state) : bool :=
  forallb (fun j => match st (nd s j) with NSuccess | NSkipped => true | _ => false end) (seq 0 n).
Definition graph_running (s : state) : bool := existsb (fun j => is_running (nd s j)) (seq 0 n).
Definition computed_overall (s : state) : ostatus :=
  if canceled s && negb (is_succeed s) then OCancel
  else if graph_running s then ORunning
  else if lasterr s then OError
  else if negb (all_terminal s) then ORunning      (* fix b9e9fa2 (F8a): a node not started yet => still running *)
  else OSuccess.
(* once the steps have ended the outcome is decided and does not change any more (fix 08917f8) *)
Definition overall (s : state) : ostatus :=
  match decided s with Some o => o | None => computed_overall s end.
Definition handlers_for (s : state) : list handler :=
  filter (hon c)
    ((match overall s with OSuccess => [HSuccess] | OError => [HFailure] | OCancel => [HCancel] | _ => [] end) ++ [HExit]).

Definition is_head (p : lpc) := match p with LHead => true | _ => false end.
Definition is_committed (p : lpc) (i : nat) := match p with LCommitted j => j =? i | _ => false end.

(* ---- the worker after Run returned (:161-211) ---- *)
Definition tail (s : state) (i : nat) (x : node) : state :=
  let x1 := count_done x in
  let sp := steps c i in
  let p := if repeat sp && cof sp && negb (canceled s) then PRepeatWait
           else if donech c then PGone else PPost in
  set_nd s i (with_ph x1 p).

Definition after (s : state) (i : nat) (ok early : bool) : state :=
  let x := nd s i in
  let sp := steps c i in
  if ok then
    let x1 := count_done x in
    set_nd s i (with_ph x1 (if repeat sp && negb (canceled s) then PRepeatWait else PPost))
  else
    match (if early then NRunning else st x) with
    | NSuccess | NCancel => tail s i x
    | _ =>
      if timedout s then tail (set_err s) i (with_st x NCancel)
      else if canceled s then tail (set_err s) i (with_st x NCancel)      (* fix 614b59e: did not complete => canceled *)
      else if rc x <? rlimit sp then
        set_nd s i {| st := st x; rc := S (rc x); dc := dc x; att := att x; ph := PRetryWait;
                      stale := stale x; outs := outs x |}
      else tail (set_err s) i (with_st x NError)
    end.

Definition setup_fails (i : nat) : bool := sfail (steps c i) && negb (dry c).
(* the command of the node's current attempt cannot be created (attempt number = retry count + 1) *)
Definition create_fails (s : state) (i : nat) : bool := rc (nd s i) <? cfails (steps c i).

Definition step (s : state) (l : label) : option state :=
  match l with
  | LMark i d =>
      if (i <? n) && is_head (pc s) && nstatus_eqb (st (nd s i)) NNone
         && existsb (Nat.eqb d) (deps (steps c i))
      then match dep_mark s d with
           | Some m => Some (set_nd s i (with_st (nd s i) m))
           | None => None end
      else None
  | LCommit i =>
      if (i <? n) && is_head (pc s) && nstatus_eqb (st (nd s i)) NNone && ready s i && negb (canceled s)
         && ((maxActive c =? 0) || (running_count s <? maxActive c))
      then Some (set_pc s (LCommitted i)) else None
  | LLaunch i =>
      if is_committed (pc s) i && pre (steps c i)
      then Some (set_pc (set_nd s i (with_ph (with_st (nd s i) NRunning) PSetup)) LHead) else None
  | LSkipPre i =>
      if is_committed (pc s) i && negb (pre (steps c i))
      then Some (set_pc (set_nd s i (with_st (nd s i) NSkipped)) LHead) else None
  | LExit =>
      if is_head (pc s) && (canceled s || all_terminal s) then Some (set_pc s LExited) else None
  | WSetupFail i =>
      match ph (nd s i) with
      | PSetup => if (i <? n) && setup_fails i
                  then Some (set_err (set_nd s i (with_ph (with_st (nd s i) NError) PPost))) else None
      | _ => None end
  | WTest i =>
      match ph (nd s i) with
      | PSetup => if (i <? n) && negb (setup_fails i) && negb (canceled s)
                  then Some (set_nd s i (with_ph (nd s i) PStarting)) else None
      | _ => None end
  | WSkipExec i =>
      match ph (nd s i) with
      | PSetup => if (i <? n) && negb (setup_fails i) && canceled s
                  then Some (set_nd s i (with_ph (with_st (nd s i)
                                 (match st (nd s i) with NRunning => NCancel | v => v end)) PPost)) else None
      | _ => None end
  | WExecStart i =>
      match ph (nd s i) with
      | PStarting => if (i <? n) && negb (dry c) && negb (timedout s) && negb (create_fails s i)
                     then Some (set_nd s i {| st := st (nd s i); rc := rc (nd s i); dc := dc (nd s i);
                                              att := S (att (nd s i)); ph := PExec; stale := stale (nd s i);
                                              outs := outs (nd s i) |}) else None
      | _ => None end
  | WDryExec i =>
      match ph (nd s i) with
      | PStarting => if (i <? n) && dry c then Some (set_nd s i (with_ph (nd s i) (PEnded true))) else None
      | _ => None end
  | WExecRefused i =>
      match ph (nd s i) with
      | PStarting => if (i <? n) && negb (dry c) && timedout s
                     then Some (set_nd s i (with_ph (nd s i) (PEnded false))) else None
      | _ => None end
  | WCreateFail i =>
      match ph (nd s i) with
      | PStarting => if (i <? n) && negb (dry c) && create_fails s i
                     then Some (set_nd s i {| st := st (nd s i); rc := rc (nd s i); dc := dc (nd s i);
                                              att := S (att (nd s i)); ph := PEnded false; stale := stale (nd s i);
                                              outs := false :: outs (nd s i) |}) else None
      | _ => None end
  | WExecEnd i ok =>
      match ph (nd s i) with
      | PExec => if i <? n
                 then Some (set_nd s i {| st := st (nd s i); rc := rc (nd s i); dc := dc (nd s i);
                                          att := att (nd s i); ph := PEnded ok; stale := stale (nd s i);
                                          outs := ok :: outs (nd s i) |}) else None
      | _ => None end
  | WAfter i early =>
      match ph (nd s i) with
      | PEnded ok =>
          if (i <? n) && (negb early || (negb ok && nstatus_eqb (st (nd s i)) NCancel))
          then Some (after s i ok early) else None
      | _ => None end
  | WRetryWake i =>
      match ph (nd s i) with
      | PRetryWait =>
          if i <? n
          then Some (set_nd s i {| st := NNone; rc := rc (nd s i); dc := S (dc (nd s i)); att := att (nd s i);
                                   ph := PIdle; stale := stale (nd s i);
                                   outs := outs (nd s i) |}) else None
      | _ => None end
  | WRepeatWake i =>
      match ph (nd s i) with
      | PRepeatWait => if i <? n then Some (set_nd s i (with_ph (nd s i) PSetup)) else None
      | _ => None end
  | WFinish i =>
      match ph (nd s i) with
      | PPost => if i <? n
                 then Some (set_nd s i (with_ph (with_st (nd s i)
                                (match st (nd s i) with NRunning => NSuccess | v => v end)) PGone)) else None
      | _ => None end
  | SigFlag =>
      match sigleft s with
      | S k => Some {| nd := nd s; canceled := true; lasterr := lasterr s; timedout := timedout s; pc := pc s;
                       sigq := sigq s ++ seq 0 n; sigleft := k; hst := hst s; decided := decided s |}
      | O => None end
  | SigNode k =>
      (* k: the signal was forwarded to the node's executor (Kill called).  n.cmd exists once an attempt has run
         (it is never reset, so a later Signal reaches the executor of the latest attempt, finished or not); while
         the worker is between its cancel test and Run (PStarting) it may or may not exist yet.  A node that an
         earlier pass has flipped to canceled is still forwarded the signal while its command executes
         (fix 767545b, F5a: re-sends and the SIGKILL escalation reach a live process). *)
      match sigq s with
      | [] => None
      | i :: q =>
          let s' := {| nd := nd s; canceled := canceled s; lasterr := lasterr s; timedout := timedout s;
                       pc := pc s; sigq := q; sigleft := sigleft s; hst := hst s; decided := decided s |} in
          if repeat (steps c i) then (if k then None else Some s') else
          match st (nd s i) with
          | NRunning =>
              if (if k then (0 <? att (nd s i)) || (match ph (nd s i) with PStarting => true | _ => false end)
                  else negb (0 <? att (nd s i)))
              then Some (set_nd s' i (with_st (nd s i) NCancel)) else None
          | NCancel =>
              if Bool.eqb k (match ph (nd s i) with PExec => true | _ => false end) then Some s' else None
          | _ => if k then None else Some s'
          end
      end
  | Timeout =>
      if tmo c && negb (timedout s)
      then Some {| nd := nd s; canceled := canceled s; lasterr := lasterr s; timedout := true; pc := pc s;
                   sigq := sigq s; sigleft := sigleft s; hst := hst s; decided := decided s |} else None
  | HBegin =>
      match pc s with
      | LExited => if all_gone s
                   then Some {| nd := nd s; canceled := canceled s; lasterr := lasterr s; timedout := timedout s;
                                pc := LHandlers (handlers_for s) false; sigq := sigq s; sigleft := sigleft s;
                                hst := hst s; decided := Some (overall s) |}
                   else None
      | _ => None end
  | HStart h =>
      match pc s with
      | LHandlers (h' :: t) false =>
          if handler_eqb h h' && negb (dry c) && negb (hsfail c h)
          then Some (set_pc (set_hst s h {| hs := NRunning; hatt := S (hatt (hst s h)) |}) (LHandlers (h' :: t) true))
          else None
      | _ => None end
  | HEnd h ok =>
      match pc s with
      | LHandlers (h' :: t) true =>
          if handler_eqb h h'
          then Some (set_pc (set_hst s h {| hs := (if ok then NSuccess else NError); hatt := hatt (hst s h) |})
                            (LHandlers t false))
          else None
      | _ => None end
  | HSkip h =>
      match pc s with
      | LHandlers (h' :: t) false =>
          if handler_eqb h h' && dry c
          then Some (set_pc (set_hst s h {| hs := NSuccess; hatt := hatt (hst s h) |}) (LHandlers t false))
          else None
      | _ => None end
  | HSetupFail h =>
      match pc s with
      | LHandlers (h' :: t) false =>
          if handler_eqb h h' && negb (dry c) && hsfail c h
          then Some (set_pc (set_hst s h {| hs := NError; hatt := hatt (hst s h) |}) (LHandlers t false))
          else None
      | _ => None end
  | HFinish =>
      match pc s with
      | LHandlers [] false => Some (set_pc s LDone)
      | _ => None end
  end.

Definition init_node : node := {| st := NNone; rc := 0; dc := 0; att := 0; ph := PIdle; stale := 0; outs := [] |}.
Definition init : state :=
  {| nd := fun _ => init_node; canceled := false; lasterr := false; timedout := false; pc := LHead;
     sigq := []; sigleft := sigs c; hst := fun _ => {| hs := NNone; hatt := 0 |}; decided := None |}.

Fixpoint run (s : state) (ls : list label) : option state :=
  match ls with
  | [] => Some s
  | l :: ls' => match step s l with Some s' => run s' ls' | None => None end
  end.

(* An execution is a label list accepted from the initial state; Reach is the image. *)
Definition execution (ls : list label) : Prop := exists s, run init ls = Some s.
Definition Reach (s : state) : Prop := exists ls, run init ls = Some s.

End WithCfg.

(* cfg from a list of steps (harness cases) *)
Definition dflt_step : stepdef :=
  {| deps := []; cof := false; cos := false; rlimit := 0; pre := true; sfail := false; repeat := false; cfails := 0 |}.
Definition mkcfg (l : list stepdef) (k : nat) (isdry isdone : bool) : cfg :=
  {| nsteps := length l; steps := fun i => nth i l dflt_step; maxActive := k; dry := isdry; donech := isdone;
     sigs := 0; tmo := false; hon := fun _ => false; hsfail := fun _ => false |}.

(* full form: Signal budget, timeout, configured handlers *)
Definition mkcfgx (l : list stepdef) (k : nat) (isdry isdone : bool) (nsig : nat) (hastmo : bool)
  (h : handler -> bool) : cfg :=
  {| nsteps := length l; steps := fun i => nth i l dflt_step; maxActive := k; dry := isdry; donech := isdone;
     sigs := nsig; tmo := hastmo; hon := h; hsfail := fun _ => false |}.
(* ... and handlers whose set-up fails *)
Definition mkcfgy (l : list stepdef) (k : nat) (isdry isdone : bool) (nsig : nat) (hastmo : bool)
  (h hf : handler -> bool) : cfg :=
  {| nsteps := length l; steps := fun i => nth i l dflt_step; maxActive := k; dry := isdry; donech := isdone;
     sigs := nsig; tmo := hastmo; hon := h; hsfail := hf |}.
