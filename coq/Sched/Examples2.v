(* Witnesses for C04 / C05: executions of the model that exhibit the defects F4a, F5a, F5c, F5d of the pinned code
   (each was also observed on the real scheduler by the driver), and non-vacuity examples. *)
From Coq Require Import List Arith Bool Lia.
Import ListNotations.
From BD.Sched Require Import Model Proofs ProofsFinal ProofsStop Examples.

Definition allh : handler -> bool := fun _ => true.
Definition one_step (nsig : nat) (hastmo : bool) : cfg := mkcfgx [sd [] 0] 0 false true nsig hastmo allh.
Definition two_steps : cfg := mkcfgx [sd [] 0; sd [] 0] 0 false true 1 false allh.

Lemma norepeat_mkcfgx l k d1 d2 ns tm h : forallb (fun x => negb (repeat x)) l = true -> norepeat (mkcfgx l k d1 d2 ns tm h).
Proof.
  intros H i. unfold mkcfgx. cbn [steps].
  destruct (Nat.lt_ge_cases i (length l)) as [Hi|Hi].
  - rewrite forallb_forall in H. specialize (H (nth i l dflt_step) (nth_In _ _ Hi)).
    destruct (repeat (nth i l dflt_step)); [discriminate|reflexivity].
  - rewrite nth_overflow by exact Hi. reflexivity.
Qed.

(* F4a, repaired by 08917f8: the step fails, onFailure is chosen and runs; a stop request arrives while it runs; the run
   stays reported failed - the outcome the handlers ran for.  (Before the fix it was relabelled canceled:
   findings/C04-F4a-stop-during-handlers.json.) *)
Definition f4a_pre : list label := launch 0 ++ [WExecEnd 0 false; WAfter 0 false; LExit].
Definition f4a_post : list label :=
  [HStart HFailure; SigFlag; SigNode false; HEnd HFailure true; HStart HExit; HEnd HExit true; HFinish].
Lemma f4a_repaired :
  exists s1 s2 s3, run (one_step 1 false) (init (one_step 1 false)) f4a_pre = Some s1 /\
    step (one_step 1 false) s1 HBegin = Some s2 /\ run (one_step 1 false) s2 f4a_post = Some s3 /\
    pc s3 = LDone /\ canceled s3 = true /\ overall (one_step 1 false) s1 = OError /\ hstarts f4a_post = [HFailure; HExit] /\
    overall (one_step 1 false) s3 = OError.
Proof.
  do 3 eexists. split; [vm_compute; reflexivity|]. split; [vm_compute; reflexivity|].
  split; [vm_compute; reflexivity|]. split; [vm_compute; reflexivity|]. split; [vm_compute; reflexivity|].
  split; [vm_compute; reflexivity|]. split; [reflexivity|]. vm_compute; reflexivity.
Qed.

(* F5c, repaired by ac08004: the loop has committed the step (it is evaluating the step's precondition) when the stop
   arrives; the Signal pass finds the node not started; the step is then launched, its worker skips the command - and
   the node is labelled canceled, the run canceled, onCancel then onExit run.  (Before the fix node and run were
   reported finished and onSuccess ran: findings/C04-F5c-finished-without-running.json.) *)
Definition f5c_exec : list label :=
  [LCommit 0; SigFlag; SigNode false; LLaunch 0; WSkipExec 0; WFinish 0; LExit; HBegin; HStart HCancel;
   HEnd HCancel true; HStart HExit; HEnd HExit true; HFinish].
Lemma f5c_repaired :
  exists s, run (one_step 1 false) (init (one_step 1 false)) f5c_exec = Some s /\ pc s = LDone /\
    canceled s = true /\ st (nd s 0) = NCancel /\ att (nd s 0) = 0 /\ dry (one_step 1 false) = false /\
    overall (one_step 1 false) s = OCancel /\ hstarts f5c_exec = [HCancel; HExit].
Proof.
  eexists. split; [vm_compute; reflexivity|].
  repeat (split; [vm_compute; reflexivity|]). vm_compute; reflexivity.
Qed.

(* F5a, repaired by 767545b: the first Signal flips the executing node to canceled; the second Signal (the SIGKILL
   escalation) still forwards its signal, because the command is still executing.  (Before the fix node.signal only
   acted on status running: the escalation was a no-op, findings/C05-F5a-escalation-noop.json.) *)
Definition f5a_exec : list label := launch 0 ++ [SigFlag; SigNode true; SigFlag].
Lemma f5a_repaired :
  exists s, run (one_step 2 false) (init (one_step 2 false)) f5a_exec = Some s /\
    ph (nd s 0) = PExec /\ st (nd s 0) = NCancel /\ sigq s = [0] /\
    step (one_step 2 false) s (SigNode false) = None /\
    exists s', step (one_step 2 false) s (SigNode true) = Some s' /\ ph (nd s' 0) = PExec.
Proof.
  eexists. split; [vm_compute; reflexivity|].
  repeat (split; [vm_compute; reflexivity|]). eexists. split; vm_compute; reflexivity.
Qed.

(* F5d, repaired by 246fa0b: after the DAG timeout onFailure and onExit are chosen AND run (the handlers get the context
   of the whole run, not the steps' deadline).  (Before the fix their commands were refused and they were marked
   failed without running: findings/C05-F5d-timeout-handlers-refused.json.) *)
Definition f5d_pre : list label := launch 0 ++ [Timeout; WExecEnd 0 false; WAfter 0 false; LExit].
Definition f5d_post : list label := [HStart HFailure; HEnd HFailure true; HStart HExit; HEnd HExit true; HFinish].
Lemma f5d_repaired :
  exists s1 s2 s3, run (one_step 0 true) (init (one_step 0 true)) f5d_pre = Some s1 /\
    step (one_step 0 true) s1 HBegin = Some s2 /\ run (one_step 0 true) s2 f5d_post = Some s3 /\
    pc s3 = LDone /\ timedout s3 = true /\ handlers_for (one_step 0 true) s1 = [HFailure; HExit] /\
    hstarts f5d_post = [HFailure; HExit] /\ st (nd s3 0) = NCancel /\ overall (one_step 0 true) s3 = OError /\
    hatt (hst s3 HFailure) = 1 /\ hs (hst s3 HFailure) = NSuccess /\ hatt (hst s3 HExit) = 1.
Proof.
  do 3 eexists. split; [vm_compute; reflexivity|]. split; [vm_compute; reflexivity|].
  repeat (split; [vm_compute; reflexivity|]). vm_compute; reflexivity.
Qed.

(* a clean stop of two executing steps: both are signalled, both end canceled, the run is canceled, onCancel then onExit *)
Definition stop2_pre : list label :=
  launch 0 ++ launch 1 ++ [SigFlag; SigNode true; SigNode true; WExecEnd 0 false; WAfter 0 false;
                           WExecEnd 1 false; WAfter 1 false; LExit].
Definition stop2_post : list label := [HStart HCancel; HEnd HCancel true; HStart HExit; HEnd HExit true; HFinish].
Lemma stop2_ok : donech two_steps = true /\ norepeat two_steps.
Proof. split; [reflexivity|]. apply norepeat_mkcfgx. reflexivity. Qed.
Lemma stop2_witness :
  exists s1 s2 s3, run two_steps (init two_steps) stop2_pre = Some s1 /\
    step two_steps s1 HBegin = Some s2 /\ run two_steps s2 stop2_post = Some s3 /\
    pc s3 = LDone /\ dry two_steps = false /\
    overall two_steps s1 = OCancel /\ hstarts stop2_post = [HCancel; HExit] /\
    map (fun i => st (nd s3 i)) [0; 1] = [NCancel; NCancel] /\ pc s1 = LExited.
Proof.
  do 3 eexists. split; [vm_compute; reflexivity|]. split; [vm_compute; reflexivity|].
  repeat (split; [vm_compute; reflexivity|]). vm_compute; reflexivity.
Qed.

Lemma one_step_ok ns tm : donech (one_step ns tm) = true /\ norepeat (one_step ns tm).
Proof. split; [reflexivity|]. apply norepeat_mkcfgx. reflexivity. Qed.

(* The done == nil scenario, repaired by 614b59e.  Schedule called WITHOUT a done channel: the command fails on its own
   after the stop flag is set and before the Signal pass reaches its node; the worker records the error and labels the
   node canceled (it did not complete); the final relabelling running -> finished no longer applies.  (Before the fix
   the step was reported finished although its only attempt had failed:
   findings/C04-done-nil-finished-after-failure.json.) *)
Definition one_step_nodone : cfg := mkcfgx [sd [] 0] 0 false false 1 false allh.
Definition done_nil_exec : list label :=
  launch 0 ++ [SigFlag; WExecEnd 0 false; WAfter 0 false; WFinish 0; SigNode false].
Lemma done_nil_repaired :
  donech one_step_nodone = false /\ norepeat one_step_nodone /\ dry one_step_nodone = false /\
  exists s, Reach one_step_nodone s /\ canceled s = true /\ lasterr s = true /\ sigq s = [] /\
    st (nd s 0) = NCancel /\ outs (nd s 0) = [false] /\ overall one_step_nodone s = OCancel.
Proof.
  split; [reflexivity|]. split; [apply norepeat_mkcfgx; reflexivity|]. split; [reflexivity|].
  eexists. split; [exists done_nil_exec; vm_compute; reflexivity|].
  repeat (split; [vm_compute; reflexivity|]). vm_compute; reflexivity.
Qed.

(* Why C01 / C15 carry the premise norepeat.  A step with repeatPolicy AND continueOn.failure whose command fails is
   labelled failed and keeps repeating (scheduler.go: the repeat test is `execErr == nil || ContinueOn.Failure`): from
   then on it is no longer counted as running, and its dependents are released (failed with continueOn.failure permits
   them) although its command will start again.  With maxActiveRuns = 1: two commands execute at once, and the
   dependency's command starts again after the dependent's. *)
Definition rep_cof : stepdef :=
  {| deps := []; cof := true; cos := false; rlimit := 0; pre := true; sfail := false; repeat := true; cfails := 0 |}.
Definition repeat_cof_cfg : cfg := mkcfgx [rep_cof; sd [0] 0] 1 false true 0 false allh.
Definition repeat_cof_pre : list label :=
  launch 0 ++ [WExecEnd 0 false; WAfter 0 false; LCommit 1; LLaunch 1; WTest 1].
Definition repeat_cof_post : list label := [WRepeatWake 0; WTest 0; WExecStart 0].
Lemma repeat_cof_breaks_order_and_cap :
  maxActive repeat_cof_cfg = 1 /\ donech repeat_cof_cfg = true /\
  exists s1 s2 s3, run repeat_cof_cfg (init repeat_cof_cfg) repeat_cof_pre = Some s1 /\
    step repeat_cof_cfg s1 (WExecStart 1) = Some s2 /\ run repeat_cof_cfg s2 repeat_cof_post = Some s3 /\
    In 0 (deps (steps repeat_cof_cfg 1)) /\ In (WExecStart 0) repeat_cof_post /\
    st (nd s1 0) = NError /\ ph (nd s1 0) = PRepeatWait /\
    ph (nd s3 0) = PExec /\ ph (nd s3 1) = PExec /\ exec_count repeat_cof_cfg s3 = 2 /\ running_count repeat_cof_cfg s3 = 1.
Proof.
  split; [reflexivity|]. split; [reflexivity|].
  do 3 eexists. split; [vm_compute; reflexivity|]. split; [vm_compute; reflexivity|]. split; [vm_compute; reflexivity|].
  split; [vm_compute; auto|]. split; [vm_compute; auto|].
  repeat (split; [vm_compute; reflexivity|]). vm_compute; reflexivity.
Qed.

(* A stop during a retry interval.  The step failed once and waits to retry (it is in state running); the Signal pass
   labels it canceled; when the interval is over the worker resets the node unconditionally (setStatus(None),
   scheduler.go: the retry arm) and hands it back to the loop, which does not launch anything any more.  The run ends
   canceled, onCancel and onExit run, the command is not started again - and the node ends labelled "not started" with
   retry count 1 although it was attempted once (whether that label is acceptable is a question of C08, not of C05).
   Observed as such on the real scheduler (stream `stop` of the driver, accepted by the acceptor). *)
Definition retry_one : cfg := mkcfgx [sd [] 2] 0 false true 1 false allh.
Definition stop_in_retry_wait : list label :=
  launch 0 ++ [WExecEnd 0 false; WAfter 0 false; SigFlag; SigNode true; WRetryWake 0; LExit; HBegin; HStart HCancel;
               HEnd HCancel true; HStart HExit; HEnd HExit true; HFinish].
Lemma stop_in_retry_wait_ok :
  exists s, run retry_one (init retry_one) stop_in_retry_wait = Some s /\ pc s = LDone /\ canceled s = true /\
    st (nd s 0) = NNone /\ rc (nd s 0) = 1 /\ att (nd s 0) = 1 /\ ph (nd s 0) = PIdle /\
    overall retry_one s = OCancel /\ hstarts stop_in_retry_wait = [HCancel; HExit] /\
    length (filter (fun l => match l with WExecStart _ => true | _ => false end) stop_in_retry_wait) = 1.
Proof.
  eexists. split; [vm_compute; reflexivity|].
  repeat (split; [vm_compute; reflexivity|]). vm_compute; reflexivity.
Qed.

(* A command that cannot be created.  Step 0 (retry limit 1, continueOn.failure): the creation of its command fails in
   the first attempt (WCreateFail: an attempt without a command), the worker waits out the retry interval with the node
   still RUNNING - so its dependent, step 1, is refused by the loop, and the slot stays taken -, the second attempt
   executes and succeeds; only then step 1 is launched.  (Seeded changes that made the node look failed, or kept its slot
   after the failure, are what the C01/C15 monitors catch on the real scheduler: stream `cfail` of the driver.) *)
Definition cf_step : stepdef :=
  {| deps := []; cof := true; cos := false; rlimit := 1; pre := true; sfail := false; repeat := false; cfails := 1 |}.
Definition cfail_cfg : cfg := mkcfgx [cf_step; sd [0] 0] 1 false true 0 false allh.
Definition cfail_pre : list label := [LCommit 0; LLaunch 0; WTest 0; WCreateFail 0; WAfter 0 false].
Definition cfail_post : list label :=
  [WRetryWake 0] ++ launch 0 ++ [WExecEnd 0 true; WAfter 0 false; WFinish 0] ++ launch 1.
Lemma cfail_retry_ok :
  norepeat cfail_cfg /\ maxActive cfail_cfg = 1 /\
  exists s1 s2, run cfail_cfg (init cfail_cfg) cfail_pre = Some s1 /\
    st (nd s1 0) = NRunning /\ ph (nd s1 0) = PRetryWait /\ rc (nd s1 0) = 1 /\ outs (nd s1 0) = [false] /\
    step cfail_cfg s1 (LCommit 1) = None /\ step cfail_cfg s1 (WExecStart 0) = None /\
    run cfail_cfg s1 cfail_post = Some s2 /\
    st (nd s2 0) = NSuccess /\ rc (nd s2 0) = 1 /\ att (nd s2 0) = 2 /\ outs (nd s2 0) = [true; false] /\
    ph (nd s2 1) = PExec.
Proof.
  split; [apply norepeat_mkcfgx; reflexivity|]. split; [reflexivity|].
  do 2 eexists. split; [vm_compute; reflexivity|].
  repeat (split; [vm_compute; reflexivity|]). vm_compute; reflexivity.
Qed.

(* A handler that cannot be set up.  The step fails, the outcome is failed; onFailure's node cannot be set up (its
   stdout goes into a directory that does not exist): it is marked failed and not run - and onExit still runs, last. *)
Definition hsf_cfg : cfg :=
  mkcfgy [sd [] 0] 0 false true 0 false allh (fun h => match h with HFailure => true | _ => false end).
Definition hsf_pre : list label := launch 0 ++ [WExecEnd 0 false; WAfter 0 false; LExit].
Definition hsf_post : list label := [HSetupFail HFailure; HStart HExit; HEnd HExit true; HFinish].
Lemma handler_setup_failure_ok :
  norepeat hsf_cfg /\
  exists s1 s2 s3, run hsf_cfg (init hsf_cfg) hsf_pre = Some s1 /\ step hsf_cfg s1 HBegin = Some s2 /\
    run hsf_cfg s2 hsf_post = Some s3 /\ pc s3 = LDone /\ overall hsf_cfg s1 = OError /\
    hturns hsf_post = [HFailure; HExit] /\ hstarts hsf_post = [HExit] /\
    hs (hst s3 HFailure) = NError /\ hatt (hst s3 HFailure) = 0 /\ hs (hst s3 HExit) = NSuccess /\
    step hsf_cfg s2 (HStart HFailure) = None /\ overall hsf_cfg s3 = OError.
Proof.
  split; [intros i; unfold hsf_cfg, mkcfgy; cbn [steps]; destruct i as [|[|i]]; reflexivity|].
  do 3 eexists. split; [vm_compute; reflexivity|]. split; [vm_compute; reflexivity|].
  repeat (split; [vm_compute; reflexivity|]). vm_compute; reflexivity.
Qed.
