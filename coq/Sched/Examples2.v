(* Witnesses for C04 / C05: executions of the model that exhibit the defects F4a, F5a, F5c, F5d of the pinned code
   (each was also observed on the real scheduler by the driver), and non-vacuity examples. *)
From Coq Require Import List Arith Bool Lia.
Import ListNotations.
From BD.Sched Require Import Model Proofs ProofsFinal ProofsStop Examples.

Definition allh : handler -> bool := fun _ => true.
Definition one_step (nsig : nat) (hastmo : bool) : cfg := mkcfgx [sd [] 0] 0 false true nsig hastmo allh.
Definition two_steps : cfg := mkcfgx [sd [] 0; sd [] 0] 0 false true 1 false allh.

Lemma norepeat_mkcfgx l k d1 d2 ns tm h : forallb (fun x => negb (repeat x)) l = true -> norepeat (mkcfgx l k d1 d2 ns tm h).
Proof.
  intros H i. unfold mkcfgx. cbn [steps].
  destruct (Nat.lt_ge_cases i (length l)) as [Hi|Hi].
  - rewrite forallb_forall in H. specialize (H (nth i l dflt_step) (nth_In _ _ Hi)).
    destruct (repeat (nth i l dflt_step)); [discriminate|reflexivity].
  - rewrite nth_overflow by exact Hi. reflexivity.
Qed.

(* F4a, repaired by 08917f8: the step fails, onFailure is chosen and runs; a stop request arrives while it runs; the run
   stays reported failed - the outcome the handlers ran for.  (Before the fix it was relabelled canceled:
   findings/C04-F4a-stop-during-handlers.json.) *)
Definition f4a_pre : list label := launch 0 ++ [WExecEnd 0 false; WAfter 0 false; LExit].
Definition f4a_post : list label :=
  [HStart HFailure; SigFlag; SigNode false; HEnd HFailure true; HStart HExit; HEnd HExit true; HFinish].
Lemma f4a_repaired :
  exists s1 s2 s3, run (one_step 1 false) (init (one_step 1 false)) f4a_pre = Some s1 /\
    step (one_step 1 false) s1 HBegin = Some s2 /\ run (one_step 1 false) s2 f4a_post = Some s3 /\
    pc s3 = LDone /\ canceled s3 = true /\ overall (one_step 1 false) s1 = OError /\ hstarts f4a_post = [HFailure; HExit] /\
    overall (one_step 1 false) s3 = OError.
Proof.
  do 3 eexists. split; [vm_compute; reflexivity|]. split; [vm_compute; reflexivity|].
  split; [vm_compute; reflexivity|]. split; [vm_compute; reflexivity|]. split; [vm_compute; reflexivity|].
  split; [vm_compute; reflexivity|]. split; [reflexivity|]. vm_compute; reflexivity.
Qed.

(* F5c, repaired by ac08004: the loop has committed the step (it is evaluating the step's precondition) when the stop
   arrives; the Signal pass finds the node not started; the step is then launched, its worker skips the command - and
   the node is labelled canceled, the run canceled, onCancel then onExit run.  (Before the fix node and run were
   reported finished and onSuccess ran: findings/C04-F5c-finished-without-running.json.) *)
Definition f5c_exec : list label :=
  [LCommit 0; SigFlag; SigNode false; LLaunch 0; WSkipExec 0; WFinish 0; LExit; HBegin; HStart HCancel;
   HEnd HCancel true; HStart HExit; HEnd HExit true; HFinish].
Lemma f5c_repaired :
  exists s, run (one_step 1 false) (init (one_step 1 false)) f5c_exec = Some s /\ pc s = LDone /\
    canceled s = true /\ st (nd s 0) = NCancel /\ att (nd s 0) = 0 /\ dry (one_step 1 false) = false /\
    overall (one_step 1 false) s = OCancel /\ hstarts f5c_exec = [HCancel; HExit].
Proof.
  eexists. split; [vm_compute; reflexivity|].
  repeat (split; [vm_compute; reflexivity|]). vm_compute; reflexivity.
Qed.

(* F5a, repaired by 767545b: the first Signal flips the executing node to canceled; the second Signal (the SIGKILL
   escalation) still forwards its signal, because the command is still executing.  (Before the fix node.signal only
   acted on status running: the escalation was a no-op, findings/C05-F5a-escalation-noop.json.) *)
Definition f5a_exec : list label := launch 0 ++ [SigFlag; SigNode true; SigFlag].
Lemma f5a_repaired :
  exists s, run (one_step 2 false) (init (one_step 2 false)) f5a_exec = Some s /\
    ph (nd s 0) = PExec /\ st (nd s 0) = NCancel /\ sigq s = [0] /\
    step (one_step 2 false) s (SigNode false) = None /\
    exists s', step (one_step 2 false) s (SigNode true) = Some s' /\ ph (nd s' 0) = PExec.
Proof.
  eexists. split; [vm_compute; reflexivity|].
  repeat (split; [vm_compute; reflexivity|]). eexists. split; vm_compute; reflexivity.
Qed.

(* F5d, repaired by 246fa0b: after the DAG timeout onFailure and onExit are chosen AND run (the handlers get the context
   of the whole run, not the steps' deadline).  (Before the fix their commands were refused and they were marked
   failed without running: findings/C05-F5d-timeout-handlers-refused.json.) *)
Definition f5d_pre : list label := launch 0 ++ [Timeout; WExecEnd 0 false; WAfter 0 false; LExit].
Definition f5d_post : list label := [HStart HFailure; HEnd HFailure true; HStart HExit; HEnd HExit true; HFinish].
Lemma f5d_repaired :
  exists s1 s2 s3, run (one_step 0 true) (init (one_step 0 true)) f5d_pre = Some s1 /\
    step (one_step 0 true) s1 HBegin = Some s2 /\ run (one_step 0 true) s2 f5d_post = Some s3 /\
    pc s3 = LDone /\ timedout s3 = true /\ handlers_for (one_step 0 true) s1 = [HFailure; HExit] /\
    hstarts f5d_post = [HFailure; HExit] /\ st (nd s3 0) = NCancel /\ overall (one_step 0 true) s3 = OError /\
    hatt (hst s3 HFailure) = 1 /\ hs (hst s3 HFailure) = NSuccess /\ hatt (hst s3 HExit) = 1.
Proof.
  do 3 eexists. split; [vm_compute; reflexivity|]. split; [vm_compute; reflexivity|].
  repeat (split; [vm_compute; reflexivity|]). vm_compute; reflexivity.
Qed.

(* a clean stop of two executing steps: both are signalled, both end canceled, the run is canceled, onCancel then onExit *)
Definition stop2_pre : list label :=
  launch 0 ++ launch 1 ++ [SigFlag; SigNode true; SigNode true; WExecEnd 0 false; WAfter 0 false;
                           WExecEnd 1 false; WAfter 1 false; LExit].
Definition stop2_post : list label := [HStart HCancel; HEnd HCancel true; HStart HExit; HEnd HExit true; HFinish].
Lemma stop2_ok : donech two_steps = true /\ norepeat two_steps.
Proof. split; [reflexivity|]. apply norepeat_mkcfgx. reflexivity. Qed.
Lemma stop2_witness :
  exists s1 s2 s3, run two_steps (init two_steps) stop2_pre = Some s1 /\
    step two_steps s1 HBegin = Some s2 /\ run two_steps s2 stop2_post = Some s3 /\
    pc s3 = LDone /\ dry two_steps = false /\
    overall two_steps s1 = OCancel /\ hstarts stop2_post = [HCancel; HExit] /\
    map (fun i => st (nd s3 i)) [0; 1] = [NCancel; NCancel] /\ pc s1 = LExited.
Proof.
  do 3 eexists. split; [vm_compute; reflexivity|]. split; [vm_compute; reflexivity|].
  repeat (split; [vm_compute; reflexivity|]). vm_compute; reflexivity.
Qed.

Lemma one_step_ok ns tm : donech (one_step ns tm) = true /\ norepeat (one_step ns tm).
Proof. split; [reflexivity|]. apply norepeat_mkcfgx. reflexivity. Qed.
