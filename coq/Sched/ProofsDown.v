(* C02, transitive form: every step reachable along dependency edges from a blocking step - through intermediate steps
   that do not carry continueOn.skipped - has not been executed and ends canceled or skipped.  (An intermediate step is
   itself canceled or skipped; a canceled one blocks its dependents unconditionally, a skipped one unless it has
   continueOn.skipped - hence the premise on intermediates.)  Corollary of ProofsFinal.final_states by induction on the path. *)
From Coq Require Import List Bool Arith.
Import ListNotations.
From BD.Sched Require Import Model Proofs ProofsFinal.

Section Down.
Variable c : cfg.
Hypothesis Hnorep : norepeat c.

Inductive tdown (s : state) : nat -> Prop :=
| td_base i d : i < nsteps c -> In d (deps (steps c i)) -> dep_mark c s d <> None -> tdown s i
| td_step i d : i < nsteps c -> In d (deps (steps c i)) -> tdown s d -> cos (steps c d) = false -> tdown s i.

Lemma blocked_true s i d : In d (deps (steps c i)) -> dep_mark c s d <> None -> blocked c s i = true.
Proof.
  intros Hd Hm. unfold blocked. apply existsb_exists. exists d. split; [exact Hd|].
  unfold blocking. destruct (dep_mark c s d); [reflexivity|congruence].
Qed.

Lemma blocked_unexecuted s : Reach c s -> quiet s -> pc s = LDone -> forall i, i < nsteps c ->
  blocked c s i = true -> att (nd s i) = 0 /\ (st (nd s i) = NCancel \/ st (nd s i) = NSkipped).
Proof.
  intros R Q D i Hi B.
  destruct (final_states c Hnorep s R Q D i Hi) as [F _].
  destruct (F B) as [A [[S _]|[S _]]]; auto.
Qed.

Theorem transitive_downstream s : Reach c s -> quiet s -> pc s = LDone -> forall i, tdown s i ->
  att (nd s i) = 0 /\ (st (nd s i) = NCancel \/ st (nd s i) = NSkipped).
Proof.
  intros R Q D i T. induction T as [i d Hi Hd Hm | i d Hi Hd T IH Hc].
  - apply blocked_unexecuted; auto. now apply (blocked_true s i d).
  - apply blocked_unexecuted; auto. apply (blocked_true s i d); [exact Hd|].
    destruct IH as [_ [S|S]]; unfold dep_mark; rewrite S; [discriminate|]. rewrite Hc. discriminate.
Qed.

(* Converse (containment): in a run that ends without a stop, a step is canceled only if one of its dependencies is
   blocking, and skipped with its own precondition met only then - nothing outside the downstream set is cut. *)
Theorem cut_only_downstream s : Reach c s -> quiet s -> pc s = LDone -> forall i, i < nsteps c ->
  (st (nd s i) = NCancel \/ (st (nd s i) = NSkipped /\ pre (steps c i) = true)) -> blocked c s i = true.
Proof.
  intros R Q D i Hi H.
  destruct (blocked c s i) eqn:B; [reflexivity|exfalso].
  destruct (final_states c Hnorep s R Q D i Hi) as [_ [F2 [F3 [F4 F5]]]].
  destruct (pre (steps c i)) eqn:P.
  - destruct (dry c) eqn:Dr.
    + destruct (F3 B eq_refl eq_refl) as [_ S]. rewrite S in H. destruct H as [H|[H _]]; discriminate.
    + destruct (sfail (steps c i)) eqn:Sf.
      * destruct (F4 B eq_refl eq_refl eq_refl) as [_ S]. rewrite S in H. destruct H as [H|[H _]]; discriminate.
      * destruct (F5 B eq_refl eq_refl eq_refl) as [last [fs [_ [_ [_ [_ [Ht Hf]]]]]]].
        destruct last.
        -- rewrite (Ht eq_refl) in H. destruct H as [H|[H _]]; discriminate.
        -- destruct (Hf eq_refl) as [S _]. rewrite S in H. destruct H as [H|[H _]]; discriminate.
  - destruct (F2 B eq_refl) as [_ S]. rewrite S in H. destruct H as [H|[_ H]]; discriminate.
Qed.

End Down.

(* Non-vacuity: a -> b -> c, a fails (no retry): c is reached from the blocking step a through b (two edges), the run ends
   quietly at Done, b and c were never executed and end canceled. *)
From BD.Sched Require Import Examples.
Definition chain3 : cfg := mkcfg [ sd [] 0; sd [0] 0; sd [1] 0 ] 0 false true.
Definition chain3_full : list label := attempt 0 false ++ [LMark 1 0; LMark 2 1; LExit; HBegin; HFinish].
Lemma chain3_down :
  norepeat chain3 /\
  exists s, run chain3 (init chain3) chain3_full = Some s /\ pc s = LDone /\ quiet s /\
    tdown chain3 s 2 /\ blocked chain3 s 2 = true /\ dep_mark chain3 s 0 = Some NCancel /\
    map (fun i => (st (nd s i), att (nd s i))) [0; 1; 2] = [(NError, 1); (NCancel, 0); (NCancel, 0)].
Proof.
  split; [apply norepeat_mkcfg; reflexivity|].
  eexists. split; [vm_compute; reflexivity|]. split; [vm_compute; reflexivity|].
  split; [split; vm_compute; reflexivity|].
  split.
  { apply (td_step chain3 _ 2 1); [vm_compute; auto | vm_compute; auto | | reflexivity].
    apply (td_base chain3 _ 1 0); [vm_compute; auto | vm_compute; auto | vm_compute; discriminate]. }
  split; [vm_compute; reflexivity|]. split; vm_compute; reflexivity.
Qed.
